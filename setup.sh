#!/bin/sh
# Offline setup: regenerate the translated leaf code, build the whole Coq development (full .vo),
# the extracted OCaml runner and the C++ library objects + drivers from /repo's current tree.
set -e
cd "$(dirname "$0")"
python3 tools/cxx2coq.py
cd coq
coq_makefile -f _CoqProject -o Makefile >/dev/null
timeout 3000 make -j16 >/dev/null 2>../.setup_coq.log || { tail -50 ../.setup_coq.log; exit 1; }
cd ..
python3 - <<'PY'
import sys; sys.path.insert(0,'lib')
import vlib, glob, os
exe, err = vlib.build_runner()
if err: print(err); sys.exit(1)
for d in sorted(glob.glob('harness/*_driver.cpp')):
    name = os.path.basename(d)[:-4]
    exe, err = vlib.build_driver(name, with_capi=(name == 'capi_driver'))
    if err: print(err); sys.exit(1)
print('setup ok')
PY
