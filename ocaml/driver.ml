(* Runner for the extracted models: ./runner <domain> < script > canonical output.
   Numbers travel as decimal strings; Zarith is used only to parse/print them. *)
open Datatypes
open BinNums
open Res

let rec pos_of_z (z : Z.t) : positive =
  if Z.equal z Z.one then Coq_xH
  else if Z.is_even z then Coq_xO (pos_of_z (Z.shift_right z 1))
  else Coq_xI (pos_of_z (Z.shift_right z 1))
let n_of_z (z : Z.t) : coq_N = if Z.sign z <= 0 then N0 else Npos (pos_of_z z)
let rec z_of_pos = function
  | Coq_xH -> Z.one
  | Coq_xO p -> Z.shift_left (z_of_pos p) 1
  | Coq_xI p -> Z.succ (Z.shift_left (z_of_pos p) 1)
let z_of_n = function N0 -> Z.zero | Npos p -> z_of_pos p
let n_of_string s = n_of_z (Z.of_string s)
let string_of_n x = Z.to_string (z_of_n x)
let b2s b = if b then "1" else "0"

let split_ws s = Stdlib.List.filter (fun x -> x <> "") (String.split_on_char ' ' (String.trim s))

(* ---------------- leaf domain (C16) ---------------- *)
let leaf_line toks =
  match toks with
  | ["pack"; i; v; w] ->
      let i = n_of_string i and v = n_of_string v and w = n_of_string w in
      let h = EntityGen.Entity.reset_3 N0 i v w in
      Printf.printf "pack %s %s %s %s\n" (string_of_n h) (string_of_n (EntityGen.Entity.id h))
        (string_of_n (EntityGen.Entity.version h)) (string_of_n (EntityGen.Entity.worldId h))
  | ["unpack"; h] ->
      let h = n_of_string h in
      Printf.printf "unpack %s %s %s %s\n" (string_of_n (EntityGen.Entity.id h)) (string_of_n (EntityGen.Entity.version h))
        (string_of_n (EntityGen.Entity.worldId h)) (b2s (EntityGen.Entity.isNull h))
  | ["next"; h] ->
      let h = n_of_string h in
      Printf.printf "next %s %s\n" (string_of_n (EntityGen.Entity.makeEntityWithNextVersion h))
        (string_of_n (EntityGen.Entity.incrementVersion h))
  | ["setver"; h; v] ->
      Printf.printf "setver %s\n" (string_of_n (EntityGen.Entity.setVersion (n_of_string h) (n_of_string v)))
  | ["reset2"; h; i; v] ->
      Printf.printf "reset2 %s\n" (string_of_n (EntityGen.Entity.reset_2 (n_of_string h) (n_of_string i) (n_of_string v)))
  | ["reset1"; h; i] ->
      Printf.printf "reset1 %s\n" (string_of_n (EntityGen.Entity.reset_1 (n_of_string h) (n_of_string i)))
  | ["reset0"; h] ->
      Printf.printf "reset0 %s\n" (string_of_n (EntityGen.Entity.reset_0 (n_of_string h)))
  | ["eq"; a; b] ->
      let a = n_of_string a and b = n_of_string b in
      Printf.printf "eq %s %s %s\n" (b2s (EntityGen.Entity.op_eq a b)) (b2s (EntityGen.Entity.op_ne a b)) (b2s (EntityGen.Entity.op_lt a b))
  | ["align"; x; a] ->
      let x = n_of_string x and a = n_of_string a in
      Printf.printf "align %s %s\n" (string_of_n (IdDeffGen.ComponentOffset.alignAs x a))
        (string_of_n (IdDeffGen.ComponentOffset.makeAligned x a))
  | ["split"; i; c] ->
      let i = n_of_string i and c = n_of_string c in
      Printf.printf "split %s %s\n" (string_of_n (IdDeffGen.ComponentStorageIndex.op_div i c))
        (string_of_n (IdDeffGen.ComponentStorageIndex.op_mod i c))
  | [] -> ()
  | t :: _ -> Printf.printf "?? %s\n" t


(* ---------------- shared helpers for script domains ---------------- *)
let int_of_n x = Z.to_int (z_of_n x)
let n_of_int i = n_of_z (Z.of_int i)
let int_of_nat n = let rec go n acc = match n with O -> acc | S m -> go m (acc + 1) in go n 0
let nat_of_int i = let rec go i acc = if i <= 0 then acc else go (i - 1) (S acc) in go i O

let err_name = function
  | OobIndex -> "OobIndex" | NullDeref -> "NullDeref" | Underflow -> "Underflow" | DivZero -> "DivZero"
  | EmptyFunction -> "EmptyFunction" | ThrowInNoexcept _ -> "ThrowInNoexcept" | Throw _ -> "Throw"
  | OutOfFuel -> "OutOfFuel"

(* component registration: palette index -> component id, in order of first mention *)
let cid_of_pal : (int, int) Hashtbl.t = Hashtbl.create 16
let next_cid = ref 0
let reg_pal p =
  match Hashtbl.find_opt cid_of_pal p with
  | Some c -> c
  | None -> let c = !next_cid in incr next_cid; Hashtbl.add cid_of_pal p c; c

let bits_of_key k =
  let rec go i k acc = if k = 0 then Stdlib.List.rev acc else go (i + 1) (k lsr 1) (if k land 1 = 1 then i :: acc else acc) in
  go 0 k []
let mask_str k = match bits_of_key k with [] -> "-" | l -> String.concat "," (Stdlib.List.map string_of_int l)

(* ---------------- skeleton domain (C01) ---------------- *)
module Sk = struct
  open Skeleton
  let issued : (coq_N * coq_N) list ref = ref []
  let hname h =
    let rec find i = function
      | [] -> Printf.sprintf "r%d:%d" (int_of_n (fst h)) (int_of_n (snd h))
      | x :: t -> if x = h then "#" ^ string_of_int i else find (i + 1) t in
    if int_of_n (fst h) = 1073741823 && int_of_n (snd h) = 16777215 then "null" else find 0 !issued
  let parse_handle tok : coq_N * coq_N =
    if tok = "null" then (n_of_int 1073741823, n_of_int 16777215)
    else if tok.[0] = '#' then
      (let k = int_of_string (String.sub tok 1 (String.length tok - 1)) in
       try Stdlib.List.nth !issued k with _ -> (n_of_int 1073741823, n_of_int 16777215))
    else if tok.[0] = 'v' then
      (match String.split_on_char ':' (String.sub tok 1 (String.length tok - 1)) with
       | [k; dv] -> let (i, v) = Stdlib.List.nth !issued (int_of_string k) in
                    (i, n_of_int ((int_of_n v + int_of_string dv) land 0xFFFFFF))
       | _ -> failwith "bad handle")
    else failwith ("skeleton: unsupported handle token " ^ tok)
  let key_of toks = Stdlib.List.fold_left (fun k t -> k lor (1 lsl (reg_pal (int_of_string t)))) 0 toks
  let dump (s : st) =
    print_string "V "; Stdlib.List.iter (fun h -> print_string (if is_valid s h then "1" else "0")) !issued; print_newline ();
    Stdlib.List.iteri (fun ai a ->
      Printf.printf "A %d m=%s e=%s\n" ai (mask_str (int_of_n a.a_key))
        (match a.a_ents with [] -> "-" | l -> String.concat "," (Stdlib.List.map hname l))) s.archs;
    Printf.printf "S %d%s\n" (Stdlib.List.length s.slots)
      (String.concat "" (Stdlib.List.map (fun sl -> Printf.sprintf " %d:%d" (int_of_n sl.s_id) (int_of_n sl.s_ver)) s.slots));
    Printf.printf "F %d %d%s\n" (int_of_n s.next_slot) (int_of_nat s.empty_slots)
      (String.concat "" (Stdlib.List.map (fun i -> " " ^ string_of_int (int_of_n i)) (walk s.empty_slots s.next_slot s.slots)));
    Printf.printf "L %d%s\n" (Stdlib.List.length s.locs)
      (String.concat "" (Stdlib.List.map (fun l -> match l.l_arch with None -> " -" | Some a -> Printf.sprintf " %d:%d" (int_of_nat a) (int_of_nat l.l_idx)) s.locs));
    Printf.printf "M%s\n" (String.concat "" (Stdlib.List.map (fun h -> " " ^ hname h) s.marked));
    if Stdlib.List.length s.bufs = 0 then Printf.printf "K %d * 0\n" (int_of_nat s.lockc)   (* next_entity_id_ is uninitialised before the first lock *)
    else Printf.printf "K %d %d %d\n" (int_of_nat s.lockc) (int_of_n s.next_eid) (Stdlib.List.length s.bufs);
    Stdlib.List.iteri (fun t b -> if b <> [] then begin
      Printf.printf "B %d" t;
      Stdlib.List.iter (fun c -> match c with
        | CCreate (h, key) -> Printf.printf " 1:%s:%s" (hname h)
            (if int_of_n key = 0 then "none" else String.concat "+" (Stdlib.List.map string_of_int (bits_of_key (int_of_n key))))
        | CDestroy h -> Printf.printf " 2:%s" (hname h)
        | CDestroyNow h -> Printf.printf " 0:%s" (hname h)) b;
      print_newline () end) s.bufs
  let run () =
    let st = ref (init (nat_of_int 16)) in
    let maxthr = ref 16 in
    let dead = ref false in
    let opn = ref 0 in
    let started = ref false in
    let start () = if not !started then (started := true; st := init (nat_of_int !maxthr)) in
    (try while true do
      let l = input_line stdin in
      let toks = split_ws l in
      (match toks with
       | [] -> ()
       | t :: _ when t.[0] = '#' -> ()
       | "====" :: _ | _ when String.length l >= 4 && String.sub l 0 4 = "====" ->
           print_endline l; maxthr := 0; Hashtbl.reset cid_of_pal; next_cid := 0; issued := []; st := init (nat_of_int !maxthr);
           dead := false; opn := 0; started := false
       | _ when !dead -> ()
       | opname :: args ->
           Printf.printf "op %d %s\n" !opn l; incr opn;
           let apply o =
             start ();
             (match step !st o with
              | Ok (s', oh) ->
                  st := s';
                  (match oh with Some h -> issued := !issued @ [h]; Printf.printf "R #%d\n" (Stdlib.List.length !issued - 1)
                                | None -> (match o with
                                           | Unlock -> print_endline (if int_of_nat s'.lockc = 0 then "R 1" else "R 0")
                                           | _ -> print_endline "R"));
                  dump s'
              | Err e -> Printf.printf "ERR %s\n" (err_name e); dead := true) in
           (match opname, args with
            | "reg", p :: _ -> Printf.printf "R %d\n" (reg_pal (int_of_string p))
            | "maxthreads", [n] -> maxthr := max !maxthr (int_of_string n); print_endline "R"
            | "threads", [n] -> maxthr := max !maxthr (int_of_string n + 1); print_endline "R"
            | ("chunkcap" | "regs"), _ -> print_endline "R"
            | ("arm" | "disarm" | "verchunk"), _ -> start (); print_endline "R"; dump !st
            | ("create" | "createarch"), tid :: pals -> apply (Create (nat_of_int (int_of_string tid), n_of_int (key_of pals)))
            | "destroy", [tid; h] -> apply (Destroy (nat_of_int (int_of_string tid), parse_handle h))
            | "destroynow", [tid; h] -> apply (DestroyNow (nat_of_int (int_of_string tid), parse_handle h))
            | "cleararch", pals -> apply (ClearArch (n_of_int (key_of pals)))
            | ("update" | "emupdate"), _ -> apply Update
            | "lock", _ -> apply Lock
            | "unlock", _ -> apply Unlock
            | "valid", [h] -> start (); Printf.printf "R %s\n" (if is_valid !st (parse_handle h) then "1" else "0"); dump !st
            | _ -> print_endline "R unsupported-op"; dead := true))
    done with End_of_file -> ())
end


(* ---------------- skeleton specification domain (C01 tier A) ---------------- *)
module SkS = struct
  open SkelSpec
  let parse_k tok =
    if String.length tok > 0 && tok.[0] = '#' then int_of_string (String.sub tok 1 (String.length tok - 1)) else 100000
  let key_of toks = Stdlib.List.fold_left (fun k t -> k lor (1 lsl (reg_pal (int_of_string t)))) 0 toks
  let dump (sp : sst) =
    let n = int_of_nat sp.sp_count in
    let alive = Array.make n false in
    Stdlib.List.iter (fun (k, _) -> let k = int_of_nat k in if k < n then alive.(k) <- true) sp.sp_alive;
    print_string "V "; Array.iter (fun b -> print_string (if b then "1" else "0")) alive; print_newline ();
    let keys = Stdlib.List.sort_uniq compare (Stdlib.List.map (fun (_, key) -> int_of_n key) sp.sp_alive) in
    Stdlib.List.iter (fun key ->
      let ks = Stdlib.List.sort compare (Stdlib.List.filter_map (fun (k, key') -> if int_of_n key' = key then Some (int_of_nat k) else None) sp.sp_alive) in
      Printf.printf "AS m=%s e=%s\n" (mask_str key) (String.concat "," (Stdlib.List.map (fun k -> "#" ^ string_of_int k) ks))) keys
  let run () =
    let maxthr = ref 16 in
    let sp = ref (sp_init (nat_of_int 16)) in
    let started = ref false in
    let dead = ref false in
    let opn = ref 0 in
    let start () = if not !started then (started := true; sp := sp_init (nat_of_int !maxthr)) in
    (try while true do
      let l = input_line stdin in
      let toks = split_ws l in
      (match toks with
       | [] -> ()
       | t :: _ when t.[0] = '#' -> ()
       | _ when String.length l >= 4 && String.sub l 0 4 = "====" ->
           print_endline l; maxthr := 0; Hashtbl.reset cid_of_pal; next_cid := 0; sp := sp_init (nat_of_int !maxthr);
           dead := false; opn := 0; started := false
       | _ when !dead -> ()
       | opname :: args ->
           Printf.printf "op %d %s\n" !opn l; incr opn;
           let apply o = start (); sp := spec_step !sp o; dump !sp in
           let ni s = nat_of_int (int_of_string s) in
           (match opname, args with
            | "reg", p :: _ -> ignore (reg_pal (int_of_string p))
            | "maxthreads", [n] -> maxthr := max !maxthr (int_of_string n)
            | "threads", [n] -> maxthr := max !maxthr (int_of_string n + 1)
            | ("chunkcap" | "regs"), _ -> ()
            | ("arm" | "disarm" | "verchunk" | "valid"), _ -> start (); dump !sp
            | ("create" | "createarch"), tid :: pals -> apply (SoCreate (ni tid, n_of_int (key_of pals)))
            | "destroy", [tid; h] -> apply (SoDestroy (ni tid, nat_of_int (parse_k h)))
            | "destroynow", [tid; h] -> apply (SoDestroyNow (ni tid, nat_of_int (parse_k h)))
            | "cleararch", pals -> apply (SoClearArch (n_of_int (key_of pals)))
            | ("update" | "emupdate"), _ -> apply SoUpdate
            | "lock", _ -> apply SoLock
            | "unlock", _ -> apply SoUnlock
            | _ -> print_endline "R unsupported-op"; dead := true))
    done with End_of_file -> ())
end


(* ---------------- manager domain: the faithful model of EntityManager (tier B of C02/C03/C05/C07/C09/C11/C12/C13) ---- *)
module Mg = struct
  open Manager
  (* an UNCHECKED entry point through the null handle (or any handle whose id lies far beyond the tables) indexes the tables out of
     bounds in the model (Err OobIndex) as in the code (undefined behaviour); the extracted model would first convert the id,
     2^30 - 1, to a unary natural number and overflow the runner's stack: the same answer is given here without that conversion *)
  let step st o =
    let far h = int_of_n (fst h) >= 16777216 in
    match o with
    | OAssign (_, h, _, _, _) when far h && st.lockc = O -> Err OobIndex
    | ORemove (_, h, _, false) when far h && st.lockc = O -> Err OobIndex
    | OAssignShared (h, _, _) when far h -> Err OobIndex
    | OBuild (_, Some h, _, _) when far h && st.lockc = O -> Err OobIndex
    | _ -> Manager.step st o
  let issued : (coq_N * coq_N) list ref = ref []
  let sid_of : (int, int) Hashtbl.t = Hashtbl.create 4
  let next_sid = ref 0
  let reg_shared p = match Hashtbl.find_opt sid_of p with
    | Some c -> c | None -> let c = !next_sid in incr next_sid; Hashtbl.add sid_of p c; c
  let pal_flags : (int, int) Hashtbl.t = Hashtbl.create 16
  let z_of_int i = let n = n_of_int (abs i) in
    (match n with N0 -> Z0 | Npos p -> if i < 0 then Zneg p else Zpos p)
  let int_of_coqz = function Z0 -> 0 | Zpos p -> Z.to_int (z_of_pos p) | Zneg p -> - (Z.to_int (z_of_pos p))
  let null_h = (n_of_int 1073741823, n_of_int 16777215)
  let hname h =
    let rec find i = function
      | [] -> Printf.sprintf "r%d:%d:0" (int_of_n (fst h)) (int_of_n (snd h))
      | x :: t -> if x = h then "#" ^ string_of_int i else find (i + 1) t in
    if h = null_h then "null" else find 0 !issued
  let parse_handle tok =
    let sub = String.sub tok 1 (String.length tok - 1) in
    if tok = "null" then null_h
    else if tok.[0] = '#' then (try Stdlib.List.nth !issued (int_of_string sub) with _ -> null_h)
    else if tok.[0] = 'v' then
      (match String.split_on_char ':' sub with
       | [k; dv] -> (try let (i, v) = Stdlib.List.nth !issued (int_of_string k) in
                      (i, n_of_int ((int_of_n v + int_of_string dv) land 0xFFFFFF)) with _ -> null_h)
       | _ -> null_h)
    else if tok.[0] = 'w' then null_h
    else if tok.[0] = 'x' then
      (let v = Z.of_string ("0x" ^ sub) in
       let id = Z.to_int (Z.logand v (Z.of_int 0x3FFFFFFF)) in
       let wid = Z.to_int (Z.logand (Z.shift_right v 30) (Z.of_int 1023)) in
       let ver = Z.to_int (Z.shift_right v 40) in
       if wid <> 0 then null_h else (n_of_int id, n_of_int ver))
    else null_h
  let parse_pals toks =
    Stdlib.List.fold_left (fun (m, sids) t ->
      if t.[0] = 's' then (m, sids @ [reg_shared (int_of_string (String.sub t 1 (String.length t - 1)))])
      else (m lor (1 lsl (reg_pal (int_of_string t))), sids)) (0, []) toks
  (* build <tid> <h|new> a <pal> <val> ... r <pal> ... *)
  let parse_build rest =
    let rec go mode asg rem = function
      | [] -> (Stdlib.List.rev asg, Stdlib.List.rev rem)
      | ("a" | "r" as m) :: t -> go m asg rem t
      | p :: v :: t when mode = "a" -> go mode ((nat_of_int (reg_pal (int_of_string p)), z_of_int (int_of_string v)) :: asg) rem t
      | p :: t -> go mode asg (nat_of_int (reg_pal (int_of_string p)) :: rem) t in
    go "a" [] [] rest
  let cell_str = function None -> "*" | Some z -> string_of_int (int_of_coqz z)
  let place_str = function
    | PArch (a, c, sl) -> Printf.sprintf "a%d.%d.%d" (int_of_nat a) (int_of_nat c) (int_of_nat sl)
    | PTmp (e, n) -> Printf.sprintf "t%d_%d" (int_of_nat e) (int_of_nat n)
  let ev_str = function
    | EvC (p, pl) -> Printf.sprintf "C:%d:%s" (int_of_nat p) (place_str pl)
    | EvV (p, pl) -> Printf.sprintf "V:%d:%s" (int_of_nat p) (place_str pl)
    | EvCP (p, d, s) -> Printf.sprintf "CP:%d:%s:%s" (int_of_nat p) (place_str d) (place_str s)
    | EvMC (p, d, s) -> Printf.sprintf "MC:%d:%s:%s" (int_of_nat p) (place_str d) (place_str s)
    | EvMA (p, d, s) -> Printf.sprintf "MA:%d:%s:%s" (int_of_nat p) (place_str d) (place_str s)
    | EvD (p, pl) -> Printf.sprintf "D:%d:%s" (int_of_nat p) (place_str pl)
    | EvAA (p, pl, h) -> Printf.sprintf "AA:%d:%s:%s" (int_of_nat p) (place_str pl) (hname h)
    | EvBR (p, pl, h) -> Printf.sprintf "BR:%d:%s:%s" (int_of_nat p) (place_str pl) (hname h)
  let shared_str (s : mst) (sh : shared_info) =
    let ids = Stdlib.List.map int_of_nat sh.si_ids and data = Stdlib.List.map int_of_nat sh.si_data in
    let rec go ids data = match ids, data with
      | i :: it, d :: dt -> Printf.sprintf "%d:i%d:%d" i d (int_of_coqz (inst_value s (nat_of_int d))) :: go it dt
      | i :: it, [] -> Printf.sprintf "%d:inull:0" i :: go it []
      | [], d :: dt -> Printf.sprintf "?:i%d" d :: go [] dt
      | [], [] -> [] in
    match go ids data with [] -> "-" | l -> String.concat "," l
  let items m = bits_of_key (int_of_n m)
  let dump (s : mst) =
    print_string "V "; Stdlib.List.iter (fun h -> print_string (if is_valid s h then "1" else "0")) !issued; print_newline ();
    Stdlib.List.iteri (fun k h ->
      if is_valid s h then begin
        let l = Stdlib.List.nth s.locs (int_of_n (fst h)) in
        match l.l_arch with
        | None -> Printf.printf "H #%d - -\n" k
        | Some ai ->
          let a = Stdlib.List.nth s.archs (int_of_nat ai) in
          let comps = items a.am_mask in
          let strs = Stdlib.List.mapi (fun ci c ->
            let inf = Stdlib.List.nth s.cinfos c in
            if inf.ci_hasval then Printf.sprintf "%d=%s" c (cell_str (get_cell a (nat_of_int ci) l.l_idx)) else string_of_int c) comps in
          Printf.printf "H #%d m=%s s=%s\n" k (match strs with [] -> "-" | l -> String.concat "," l) (shared_str s a.am_shared)
      end) !issued;
    Stdlib.List.iteri (fun ai a ->
      Printf.printf "A %d m=%s s=%s cs=%d e=%s n=%d\n" ai (mask_str (int_of_n a.am_mask)) (shared_str s a.am_shared)
        (int_of_nat a.am_chunk) (match a.am_ents with [] -> "-" | l -> String.concat "," (Stdlib.List.map hname l)) (int_of_nat a.am_size);
      Printf.printf "T %d g=%s c=%s\n" ai (String.concat "," (Stdlib.List.map (fun v -> string_of_int (int_of_n v)) a.am_gver))
        (String.concat "," (Stdlib.List.map (fun v -> string_of_int (int_of_n v)) a.am_cver))) s.archs;
    Printf.printf "S %d%s\n" (Stdlib.List.length s.slots)
      (String.concat "" (Stdlib.List.map (fun sl -> Printf.sprintf " %d:%d" (int_of_n sl.s_id) (int_of_n sl.s_ver)) s.slots));
    (* free list walk *)
    let rec walk n h acc = if n = 0 then Stdlib.List.rev acc else
      (match Stdlib.List.nth_opt s.slots h with
       | Some sl -> walk (n - 1) (int_of_n sl.s_id) (string_of_int h :: acc)
       | None -> Stdlib.List.rev ("OOB" :: string_of_int h :: acc)) in
    Printf.printf "F %d %d%s\n" (int_of_n s.next_slot) (int_of_nat s.empty_slots)
      (String.concat "" (Stdlib.List.map (fun x -> " " ^ x) (walk (int_of_nat s.empty_slots) (int_of_n s.next_slot) [])));
    Printf.printf "L %d%s\n" (Stdlib.List.length s.locs)
      (String.concat "" (Stdlib.List.map (fun l -> match l.l_arch with None -> " -" | Some a -> Printf.sprintf " %d:%d" (int_of_nat a) (int_of_nat l.l_idx)) s.locs));
    Printf.printf "M%s\n" (String.concat "" (Stdlib.List.map (fun h -> " " ^ hname h) s.marked));
    (* next_entity_id_ has no initialiser: indeterminate until the first lock() *)
    if Stdlib.List.length s.bufs = 0 then Printf.printf "K %d * 0\n" (int_of_nat s.lockc)
    else Printf.printf "K %d %d %d\n" (int_of_nat s.lockc) (int_of_n s.next_eid) (Stdlib.List.length s.bufs);
    Stdlib.List.iteri (fun t b -> if b <> [] then begin
      Printf.printf "B %d" t;
      Stdlib.List.iter (fun c -> match c with
        | ACreate (h, has_action, m, _) -> Printf.printf " 1:%s:%s" (hname h)
            (if not has_action then "none" else match items m with [] -> "-" | l -> String.concat "+" (Stdlib.List.map string_of_int l))
        | ADestroy h -> Printf.printf " 2:%s" (hname h)
        | ADestroyNow h -> Printf.printf " 0:%s" (hname h)
        | ARemove (h, c) -> Printf.printf " 3:%s:%d" (hname h) (int_of_nat c)
        | AAssign (h, c, _) -> Printf.printf " 4:%s:%d" (hname h) (int_of_nat c)) b;
      print_newline () end) s.bufs;
    Printf.printf "W %d %s\n" (int_of_n s.wv) (match s.cached with None -> "*" | Some v -> string_of_int (int_of_n v));
    Printf.printf "E%s\n" (String.concat "" (Stdlib.List.map (fun e -> " " ^ ev_str e) (Stdlib.List.rev s.log)))

  (* registration pre-scan: the driver registers a component at its first mention, in script order *)
  let prescan (lines : string list) =
    Hashtbl.reset cid_of_pal; next_cid := 0; Hashtbl.reset sid_of; next_sid := 0; Hashtbl.reset pal_flags;
    let pal_tok t = if t.[0] = 's' then ignore (reg_shared (int_of_string (String.sub t 1 (String.length t - 1))))
                    else ignore (reg_pal (int_of_string t)) in
    Stdlib.List.iter (fun l -> match split_ws l with
      | "reg" :: p :: rest -> let p = int_of_string p in
          if not (Hashtbl.mem cid_of_pal p) then Hashtbl.replace pal_flags p (match rest with f :: _ -> int_of_string f | [] -> 0);
          ignore (reg_pal p)
      | "regs" :: p :: _ -> ignore (reg_shared (int_of_string p))
      | ("create" | "createarch") :: _ :: pals -> Stdlib.List.iter pal_tok pals
      | "cleararch" :: pals -> Stdlib.List.iter pal_tok pals
      | ("assign" | "assignid" | "remove" | "removeid") :: _ :: _ :: p :: _ -> ignore (reg_pal (int_of_string p))
      | "jobact" :: _ :: _ :: _ :: p :: _ -> ignore (reg_pal (int_of_string p))
      | "jobdo" :: ("create" | "createarch") :: _ :: pals -> Stdlib.List.iter pal_tok pals
      | "jobdo" :: ("assignid" | "removeid") :: _ :: _ :: p :: _ -> ignore (reg_pal (int_of_string p))
      | "runtyped" :: k :: _ -> Stdlib.List.iter (fun p -> ignore (reg_pal p)) (Stdlib.List.nth [[0]; [0; 1]; [2; 4]; [2; 1]] (int_of_string k))
      | "build" :: _ :: _ :: rest ->
          let rec go mode = function
            | [] -> ()
            | ("a" | "r" as m) :: t -> go m t
            | p :: v :: t when mode = "a" -> ignore v; ignore (reg_pal (int_of_string p)); go mode t
            | p :: t -> ignore (reg_pal (int_of_string p)); go mode t in
          go "a" rest
      | ("getconst" | "getmut" | "set" | "has" | "markdirty") :: _ :: p :: _ -> ignore (reg_pal (int_of_string p))
      | ("assignshared" | "removeshared" | "getshared") :: _ :: p :: _ -> ignore (reg_shared (int_of_string p))
      | "dep" :: a :: pals -> ignore (reg_pal (int_of_string a)); Stdlib.List.iter pal_tok pals
      | "chunkfn" :: _ :: _ :: pals -> Stdlib.List.iter pal_tok pals
      | ("mkjob" | "jobedit") :: _ :: rest -> Stdlib.List.iter (fun tok -> if tok <> "c" then
            ignore (reg_pal (int_of_string (Stdlib.List.hd (String.split_on_char ':' tok))))) rest
      | _ -> ()) lines;
    let n = !next_cid in
    let arr = Array.make n (Palette.pal_info O O) in
    Hashtbl.iter (fun p c -> arr.(c) <- Palette.pal_info (nat_of_int p) (nat_of_int (try Hashtbl.find pal_flags p with Not_found -> 0))) cid_of_pal;
    Array.to_list arr

  let run_script name (lines : string list) =
    print_endline name;
    let cis = prescan lines in
    (* restart registration so that R of `reg` prints the same ids as the driver *)
    let maxthr = ref 16 in
    Stdlib.List.iter (fun l -> match split_ws l with
      | ["maxthreads"; n] -> maxthr := max !maxthr (int_of_string n)
      | ["threads"; n] -> maxthr := max !maxthr (int_of_string n + 1)     (* onLock: max(cores, threadCount() + 1) buffers *)
      | _ -> ()) lines;
    let st = ref (init (nat_of_int !maxthr) cis) in
    let jobs : (job * bool) array ref = ref [||] in      (* job, require_entity *)
    let typed_jobs : job option array ref = ref (Array.make 4 None) in
    let job_do : string list list ref = ref [] in         (* structural calls of the next runjob's callback *)
    let job_acts = ref [] in                             (* pending callback actions of the next runjob *)
    let workers = ref 0 and cap = ref 16384 in
    Stdlib.List.iter (fun l -> match split_ws l with
      | ["threads"; n] -> workers := int_of_string n
      | ["chunkcap"; n] -> if int_of_string n > 0 then cap := int_of_string n
      | _ -> ()) lines;
    if !workers = 0 then workers := 15;
    issued := [];
    let dead = ref false in
    let opn = ref 0 in
    let is_static p = p < 8 || p >= 12 in
    Stdlib.List.iter (fun l ->
      let toks = split_ws l in
      match toks with
      | [] -> ()
      | t :: _ when t.[0] = '#' -> ()
      | _ when !dead -> ()
      | opname :: args ->
        Printf.printf "op %d %s\n" !opn l; incr opn;
        let finish s' r = st := set_log s' []; print_endline ("R" ^ (if r = "" then "" else " " ^ r)); dump s' in
        let apply o =
          (match step !st o with
           | Ok (s', out) ->
             let r = (match out with
               | RNone -> ""
               | RHandle h -> issued := !issued @ [h];
                   Printf.sprintf "#%d %d:%d" (Stdlib.List.length !issued - 1) (int_of_n (fst h)) (int_of_n (snd h))
               | RBool b -> if b then "1" else "0"
               | RCell (present, v) -> if not present then "null" else cell_str v
               | RNullHandle -> "null") in
             finish s' r
           | Err e -> Printf.printf "ERR %s\n" (err_name e); dead := true) in
        let ni s = nat_of_int (int_of_string s) in
        let cid p = nat_of_int (reg_pal (int_of_string p)) in
        let hasval p = int_of_string p <> 6 in
        (match opname, args with
         | "reg", p :: _ -> Printf.printf "R %d\n" (reg_pal (int_of_string p))
         | "regs", p :: _ -> Printf.printf "R %d\n" (reg_shared (int_of_string p))
         | ("maxthreads" | "threads" | "chunkcap"), _ -> print_endline "R"
         | ("arm" | "disarm"), _ -> finish !st ""
         | "create", tid :: pals -> let (m, sids) = parse_pals pals in
             apply (OCreate (ni tid, n_of_int m, Stdlib.List.map nat_of_int sids, false))
         | "createarch", tid :: pals -> let (m, sids) = parse_pals pals in
             apply (OCreate (ni tid, n_of_int m, Stdlib.List.map nat_of_int sids, true))
         | "destroy", [tid; h] -> apply (ODestroy (ni tid, parse_handle h))
         | "destroynow", [tid; h] -> apply (ODestroyNow (ni tid, parse_handle h))
         | "cleararch", pals -> let (m, sids) = parse_pals pals in apply (OClearArch (n_of_int m, Stdlib.List.map nat_of_int sids))
         | "clear", _ -> apply OClear
         | "update", _ -> apply (OUpdate true)
         | "emupdate", _ -> apply (OUpdate false)
         | "lock", _ -> apply OLock
         | "unlock", _ -> apply OUnlock
         | "assign", [tid; h; p; v] ->
             let typed = is_static (int_of_string p) in
             let av = if v = "-" || not (hasval p) then ADefault else AValue (z_of_int (int_of_string v)) in
             apply (OAssign (ni tid, parse_handle h, cid p, av, typed))
         | "assignid", [tid; h; p; v] ->
             let av = if v = "-" || not (hasval p) then ADefault else AValue (z_of_int (int_of_string v)) in
             apply (OAssign (ni tid, parse_handle h, cid p, av, false))
         | "remove", [tid; h; p] -> apply (ORemove (ni tid, parse_handle h, cid p, is_static (int_of_string p)))
         | "removeid", [tid; h; p] -> apply (ORemove (ni tid, parse_handle h, cid p, false))
         | "assignshared", [h; sp; v] -> apply (OAssignShared (parse_handle h, nat_of_int (reg_shared (int_of_string sp)), z_of_int (int_of_string v)))
         | "removeshared", [h; sp] -> apply (ORemoveShared (parse_handle h, nat_of_int (reg_shared (int_of_string sp))))
         | ("clone" | "clonemap"), [h] -> apply (OClone (parse_handle h))
         | "build", tid :: h :: rest ->
             let (asg, rem) = parse_build rest in
             if h = "new" then
               (match step !st (OBuild (ni tid, None, asg, rem)) with
                | Ok (s', RHandle nh) -> issued := !issued @ [nh]; finish s' (Printf.sprintf "#%d" (Stdlib.List.length !issued - 1))
                | Ok (s', _) -> finish s' ""
                | Err e -> Printf.printf "ERR %s\n" (err_name e); dead := true)
             else (match step !st (OBuild (ni tid, Some (parse_handle h), asg, rem)) with
                   | Ok (s', _) -> finish s' (hname (parse_handle h))
                   | Err e -> Printf.printf "ERR %s\n" (err_name e); dead := true)
         | "getconst", [h; p] -> if hasval p then apply (OGetConst (parse_handle h, cid p)) else
             (match step !st (OGetConst (parse_handle h, cid p)) with
              | Ok (s', RCell (pr, _)) -> finish s' (if pr then "_" else "null") | _ -> dead := true)
         | "getmut", [h; p] -> if hasval p then apply (OGetMut (parse_handle h, cid p, None)) else
             (match step !st (OGetMut (parse_handle h, cid p, None)) with
              | Ok (s', RCell (pr, _)) -> finish s' (if pr then "_" else "null") | Err e -> Printf.printf "ERR %s\n" (err_name e); dead := true | _ -> dead := true)
         | "set", [h; p; v] -> apply (OGetMut (parse_handle h, cid p, Some (z_of_int (int_of_string v))))
         | "has", [h; p] -> apply (OHas (parse_handle h, cid p))
         | "markdirty", [h; p] -> apply (OMarkDirty (parse_handle h, cid p))
         | "valid", [h] -> finish !st (if is_valid !st (parse_handle h) then "1" else "0")
         | "dep", a :: pals -> let (m, _) = parse_pals pals in apply (ODep (cid a, n_of_int m))
         | "verchunk", [n] -> apply (OVerChunk (ni n))
         | "chunkfn", mn :: mx :: pals -> let (m, _) = parse_pals pals in apply (OChunkFn (ni mn, ni mx, n_of_int m))
         | "mkjob", ent :: rest ->
             let reqs = ref [] and chk = ref 0 and inchk = ref false in
             Stdlib.List.iter (fun tok ->
               if tok = "c" then inchk := true
               else if !inchk then chk := !chk lor (1 lsl (reg_pal (int_of_string tok)))
               else (match String.split_on_char ':' tok with
                     | [p; fl] -> let fl = int_of_string fl in
                         reqs := !reqs @ [((nat_of_int (reg_pal (int_of_string p)), fl land 1 = 1), fl land 2 = 0)]
                     | _ -> ())) rest;
             jobs := Array.append !jobs [| ({ j_reqs = !reqs; j_check = n_of_int !chk; j_last = n_of_int 4294967295 }, ent <> "0") |];
             finish !st (Printf.sprintf "%d req=%s chk=%s" (Array.length !jobs - 1)
               (String.concat "," (Stdlib.List.map (fun ((c, cst), req) -> Printf.sprintf "%d:%d" (int_of_nat c) ((if cst then 1 else 0) lor (if req then 0 else 2))) !reqs))
               (match bits_of_key !chk with [] -> "-" | l -> String.concat "," (Stdlib.List.map string_of_int l)))
         | "jobedit", j :: rest ->
             (* the same job object described anew (its remembered version stays) *)
             let j = int_of_string j in
             let reqs = Stdlib.List.filter_map (fun tok -> match String.split_on_char ':' tok with
                     | [p; fl] -> let fl = int_of_string fl in Some ((nat_of_int (reg_pal (int_of_string p)), fl land 1 = 1), fl land 2 = 0)
                     | _ -> None) rest in
             let (jb, we) = !jobs.(j) in
             !jobs.(j) <- ({ jb with j_reqs = reqs }, we);
             finish !st (Printf.sprintf "%d req=%s chk=%s" j
               (String.concat "," (Stdlib.List.map (fun ((c, cst), req) -> Printf.sprintf "%d:%d" (int_of_nat c) ((if cst then 1 else 0) lor (if req then 0 else 2))) reqs))
               (match bits_of_key (int_of_n jb.j_check) with [] -> "-" | l -> String.concat "," (Stdlib.List.map string_of_int l)))
         | "jobdo", rest -> job_do := !job_do @ [rest]; finish !st ""
         | "jobact", [idx; kind; h; p] ->
             job_acts := (((nat_of_int (int_of_string idx), kind = "getmut"), parse_handle h), cid p) :: !job_acts;
             finish !st ""
         | "runjob", j :: mode :: rest ->
             let j = int_of_string j in
             let (jb, want_ent) = !jobs.(j) in
             let tov = (match rest with t :: _ -> int_of_string t | [] -> 0) in
             let acts = Stdlib.List.rev !job_acts in
             job_acts := [];
             let todo = !job_do in
             job_do := [];
             (match step !st (ORunJob (jb, mode = "1", nat_of_int tov, nat_of_int !workers, nat_of_int !cap, acts, todo <> [])) with
              | Ok (s', RJob (last, arrays)) ->
                  (* the callback's structural calls (recorded under the job's lock), then the unlock of the run *)
                  let s' = if todo = [] then s' else if arrays = [] then s' else begin
                    let cur = ref s' in
                    Stdlib.List.iter (fun toks ->
                      let o = (match toks with
                        | ("create" | "createarch" as k) :: _ :: pals -> let (m, sids) = parse_pals pals in
                            Some (OCreate (nat_of_int 0, n_of_int m, Stdlib.List.map nat_of_int sids, k = "createarch"))
                        | "assignid" :: _ :: h :: p :: v :: _ ->
                            let av = if v = "-" || not (hasval p) then ADefault else AValue (z_of_int (int_of_string v)) in
                            Some (OAssign (nat_of_int 0, parse_handle h, cid p, av, false))
                        | "removeid" :: _ :: h :: p :: _ -> Some (ORemove (nat_of_int 0, parse_handle h, cid p, false))
                        | "destroynow" :: _ :: h :: _ -> Some (ODestroyNow (nat_of_int 0, parse_handle h))
                        | _ -> None) in
                      match o with
                      | None -> ()
                      | Some o -> (match step !cur o with
                          | Ok (s2, RHandle nh) -> issued := !issued @ [nh]; cur := s2
                          | Ok (s2, _) -> cur := s2
                          | Err e -> Printf.printf "ERR %s\n" (err_name e); dead := true)) todo;
                    (match step !cur OUnlock with Ok (s3, _) -> s3 | Err e -> Printf.printf "ERR %s\n" (err_name e); dead := true; !cur) end in
                  !jobs.(j) <- ({ jb with j_last = last }, want_ent);
                  let arr_str ((task, idx), ents) =
                    Printf.sprintf "t%d:n%d:%s" (int_of_nat task) (int_of_nat idx)
                      (String.concat "," (Stdlib.List.map (fun (h, cells) ->
                         (if want_ent then hname h else "?") ^
                         String.concat "" (Stdlib.List.mapi (fun k c ->
                           match c with
                           | None -> "/null"
                           | Some v -> let ((cid, _), _) = Stdlib.List.nth jb.j_reqs k in
                               let inf = Stdlib.List.nth s'.cinfos (int_of_nat cid) in
                               if inf.ci_hasval then "/" ^ cell_str v else "/_") cells)) ents)) in
                  finish s' (String.concat " " (("last=" ^ string_of_int (int_of_n last)) :: Stdlib.List.map arr_str arrays))
              | Ok _ -> dead := true
              | Err e -> Printf.printf "ERR %s\n" (err_name e); dead := true)
         | "runtyped", k :: mode :: rest ->
             (* the typed jobs of the driver: (palette, is_const, is_required) per argument *)
             let k = int_of_string k in
             let spec = Stdlib.List.nth [ [(0, false, true)]; [(0, true, true); (1, true, false)]; [(2, false, true); (4, true, true)]; [(2, true, false); (1, false, true)] ] k in
             let reqs = Stdlib.List.map (fun (p, cst, req) -> ((nat_of_int (reg_pal p), cst), req)) spec in
             let jb = (match !typed_jobs.(k) with Some j -> j | None -> { j_reqs = reqs; j_check = n_of_int 0; j_last = n_of_int 4294967295 }) in
             let tov = (match rest with t :: _ -> int_of_string t | [] -> 0) in
             (match step !st (ORunJob (jb, mode = "1", nat_of_int tov, nat_of_int !workers, nat_of_int !cap, [], false)) with
              | Ok (s', RJob (last, arrays)) ->
                  !typed_jobs.(k) <- Some { jb with j_last = last };
                  let ent_str task idx (h, cells) =
                    Printf.sprintf "t%d:n%d:%s%s" task idx (hname h)
                      (String.concat "" (Stdlib.List.map (fun c -> match c with None -> "/null" | Some v -> "/" ^ cell_str v) cells)) in
                  let strs = Stdlib.List.concat (Stdlib.List.map (fun ((task, idx), ents) ->
                      Stdlib.List.mapi (fun i e -> ent_str (int_of_nat task) (int_of_nat idx + i) e) ents) arrays) in
                  finish s' (String.concat " " (("last=" ^ string_of_int (int_of_n last)) :: strs))
              | Ok _ -> dead := true
              | Err e -> Printf.printf "ERR %s\n" (err_name e); dead := true)
         | "teardown", _ ->
             (match step !st OTeardown with
              | Ok (s', _) -> print_endline "R";
                  Printf.printf "E%s\n" (String.concat "" (Stdlib.List.map (fun e -> " " ^ ev_str e) (Stdlib.List.rev s'.log)));
                  dead := true
              | Err e -> Printf.printf "ERR %s\n" (err_name e); dead := true)
         | _ -> print_endline "ERR unsupported-op"; dead := true)) lines;
    if not !dead then begin
      Printf.printf "op %d (implicit teardown)\n" !opn;
      (match step !st OTeardown with
       | Ok (s', _) -> Printf.printf "E%s\n" (String.concat "" (Stdlib.List.map (fun e -> " " ^ ev_str e) (Stdlib.List.rev s'.log)))
       | Err e -> Printf.printf "ERR %s\n" (err_name e))
    end

  let run () =
    let cur_name = ref None and cur = ref [] in
    let flush () = (match !cur_name with Some n -> run_script n (Stdlib.List.rev !cur) | None -> ()); cur := [] in
    (try while true do
      let l = input_line stdin in
      if String.length l >= 4 && String.sub l 0 4 = "====" then (flush (); cur_name := Some l)
      else cur := l :: !cur
    done with End_of_file -> ());
    flush ()
end


(* ---------------- manager specification domain (tier A of C02/C03/C05/C09/C12/C13) ---------------- *)
module MgS = struct
  open MgrSpec
  let big = 100000
  let parse_k tok = if String.length tok > 1 && tok.[0] = '#' then int_of_string (String.sub tok 1 (String.length tok - 1)) else big
  let dump (s : xst) =
    let n = int_of_nat s.x_count in
    let alive = Array.make n false in
    Stdlib.List.iter (fun e -> let k = int_of_nat e.e_k in if k < n then alive.(k) <- true) s.x_ents;
    print_string "V "; Array.iter (fun b -> print_string (if b then "1" else "0")) alive; print_newline ();
    Printf.printf "C %d\n" (int_of_nat s.x_viol);
    let ents = Stdlib.List.sort (fun a b -> compare (int_of_nat a.e_k) (int_of_nat b.e_k)) s.x_ents in
    Stdlib.List.iter (fun e ->
      let strs = Stdlib.List.map (fun (c, v) ->
        let c = int_of_nat c in
        let inf = Stdlib.List.nth s.x_cinfos c in
        if inf.Manager.ci_hasval then Printf.sprintf "%d=%s" c (Mg.cell_str v) else string_of_int c) e.e_comps in
      let sh = Stdlib.List.map (fun (sid, v) -> Printf.sprintf "%d:%d" (int_of_nat sid) (Mg.int_of_coqz v)) e.e_shared in
      Printf.printf "H #%d m=%s s=%s\n" (int_of_nat e.e_k) (match strs with [] -> "-" | l -> String.concat "," l)
        (match sh with [] -> "-" | l -> String.concat "," l)) ents;
    (* attach / detach counters for components with callbacks *)
    let count l k c = Stdlib.List.length (Stdlib.List.filter (fun (k', c') -> int_of_nat k' = k && int_of_nat c' = c) l) in
    let keys = Stdlib.List.sort_uniq compare (Stdlib.List.map (fun (k, c) -> (int_of_nat k, int_of_nat c)) (s.x_att @ s.x_det)) in
    Stdlib.List.iter (fun (k, c) ->
      let inf = Stdlib.List.nth s.x_cinfos c in
      if inf.Manager.ci_aa || inf.Manager.ci_br then
        Printf.printf "X #%d:%d att=%d det=%d\n" k (int_of_nat inf.Manager.ci_pal) (count s.x_att k c) (count s.x_det k c)) keys

  let run_script name (lines : string list) =
    print_endline name;
    let cis = Mg.prescan lines in
    let maxthr = ref 16 in
    Stdlib.List.iter (fun l -> match split_ws l with
      | ["maxthreads"; n] -> maxthr := max !maxthr (int_of_string n)
      | ["threads"; n] -> maxthr := max !maxthr (int_of_string n + 1)
      | _ -> ()) lines;
    let st = ref (x_init (nat_of_int !maxthr) cis) in
    let sjobs : (int list * bool) list ref = ref [] and sjob_do : string list list ref = ref [] in
    let opn = ref 0 in
    let dead = ref false in
    Stdlib.List.iter (fun l ->
      match split_ws l with
      | [] -> ()
      | t :: _ when t.[0] = '#' -> ()
      | _ when !dead -> ()
      | opname :: args ->
        Printf.printf "op %d %s\n" !opn l; incr opn;
        let apply o = st := x_step !st o; dump !st in
        let ni s = nat_of_int (int_of_string s) in
        let cid p = nat_of_int (reg_pal (int_of_string p)) in
        let hasval p = int_of_string p <> 6 in
        let nk h = nat_of_int (parse_k h) in
        (match opname, args with
         | ("reg" | "regs" | "maxthreads" | "threads" | "chunkcap"), _ -> ()
         | "mkjob", _ :: rest ->
             let req = ref [] and inchk = ref false and haschk = ref false in
             Stdlib.List.iter (fun tok ->
               if tok = "c" then inchk := true
               else if !inchk then haschk := true
               else (match String.split_on_char ':' tok with
                     | [p; fl] -> if int_of_string fl land 2 = 0 then req := reg_pal (int_of_string p) :: !req
                     | _ -> ())) rest;
             sjobs := !sjobs @ [(!req, !haschk)]; dump !st
         | "jobedit", j :: rest ->
             let req = Stdlib.List.filter_map (fun tok -> match String.split_on_char ':' tok with
                     | [p; fl] -> if int_of_string fl land 2 = 0 then Some (reg_pal (int_of_string p)) else None
                     | _ -> None) rest in
             let j = int_of_string j in
             sjobs := Stdlib.List.mapi (fun i (r, h) -> if i = j then (req, h) else (r, h)) !sjobs; dump !st
         | "jobdo", rest -> sjob_do := !sjob_do @ [rest]; dump !st
         | "runjob", j :: _ when !sjob_do <> [] ->
             (* the callback's structural calls happen iff the run visits at least one entity: for a job without version filter,
                iff some live entity has every required component *)
             let (req, _) = Stdlib.List.nth !sjobs (int_of_string j) in
             let todo = !sjob_do in
             sjob_do := [];
             let runs = Stdlib.List.exists (fun e -> Stdlib.List.for_all (fun c -> Stdlib.List.exists (fun (c', _) -> int_of_nat c' = c) e.e_comps) req) !st.x_ents in
             if runs then begin
               st := x_step !st XoLock;
               Stdlib.List.iter (fun toks -> match toks with
                 | ("create" | "createarch" as k) :: _ :: pals -> let (m, sids) = Mg.parse_pals pals in
                     st := x_step !st (XoCreate (nat_of_int 0, n_of_int m, Stdlib.List.map nat_of_int sids, k = "createarch"))
                 | "assignid" :: _ :: h :: p :: v :: _ ->
                     let av = if v = "-" || not (hasval p) then None else Some (Mg.z_of_int (int_of_string v)) in
                     st := x_step !st (XoAssign (nat_of_int 0, nk h, cid p, av))
                 | "removeid" :: _ :: h :: p :: _ -> st := x_step !st (XoRemove (nat_of_int 0, nk h, cid p, false))
                 | "destroynow" :: _ :: h :: _ -> st := x_step !st (XoDestroyNow (nat_of_int 0, nk h))
                 | _ -> ()) todo;
               st := x_step !st XoUnlock end;
             dump !st
         | ("arm" | "disarm" | "teardown" | "mkjob" | "runjob" | "runtyped" | "jobact" | "verchunk" | "chunkfn" | "getconst" | "getmut" | "has" | "markdirty" | "valid" | "archof" | "getshared"), _ -> dump !st
         | ("create" | "createarch"), tid :: pals -> let (m, sids) = Mg.parse_pals pals in
             apply (XoCreate (ni tid, n_of_int m, Stdlib.List.map nat_of_int sids, opname = "createarch"))
         | "destroy", [tid; h] -> apply (XoDestroy (ni tid, nk h))
         | "destroynow", [tid; h] -> apply (XoDestroyNow (ni tid, nk h))
         | "cleararch", pals -> let (m, sids) = Mg.parse_pals pals in apply (XoClearArch (n_of_int m, Stdlib.List.map nat_of_int sids))
         | "clear", _ -> apply XoClear
         | ("update" | "emupdate"), _ -> apply XoUpdate
         | "lock", _ -> apply XoLock
         | "unlock", _ -> apply XoUnlock
         | ("assign" | "assignid"), [tid; h; p; v] ->
             let av = if v = "-" || not (hasval p) then None else Some (Mg.z_of_int (int_of_string v)) in
             apply (XoAssign (ni tid, nk h, cid p, av))
         | ("remove" | "removeid"), [tid; h; p] -> apply (XoRemove (ni tid, nk h, cid p, opname = "remove" && (int_of_string p < 8 || int_of_string p >= 12)))
         | "assignshared", [h; sp; v] -> apply (XoAssignShared (nk h, nat_of_int (Mg.reg_shared (int_of_string sp)), Mg.z_of_int (int_of_string v)))
         | "removeshared", [h; sp] -> apply (XoRemoveShared (nk h, nat_of_int (Mg.reg_shared (int_of_string sp))))
         | ("clone" | "clonemap"), [h] -> apply (XoClone (nk h))
         | "build", tid :: h :: rest ->
             let (asg, rem) = Mg.parse_build rest in
             apply (XoBuild (ni tid, (if h = "new" then None else Some (nk h)), asg, rem))
         | "set", [h; p; v] -> apply (XoSet (nk h, cid p, Mg.z_of_int (int_of_string v)))
         | "dep", a :: pals -> let (m, _) = Mg.parse_pals pals in apply (XoDep (cid a, n_of_int m))
         | _ -> print_endline "ERR unsupported-op"; dead := true)) lines

  let run () =
    let cur_name = ref None and cur = ref [] in
    let flush () = (match !cur_name with Some n -> run_script n (Stdlib.List.rev !cur) | None -> ()); cur := [] in
    (try while true do
      let l = input_line stdin in
      if String.length l >= 4 && String.sub l 0 4 = "====" then (flush (); cur_name := Some l)
      else cur := l :: !cur
    done with End_of_file -> ());
    flush ()
end


(* ---------------- worlds domain (C17): the id allocator ---------------- *)
module Wd = struct
  open Worlds
  let run () =
    let st = ref w_init in
    let ids : int list ref = ref [] in   (* id of world k, in creation order *)
    let live : (int, int) Hashtbl.t = Hashtbl.create 16 in
    let opn = ref 0 in
    (try while true do
      let l = input_line stdin in
      if String.length l >= 4 && String.sub l 0 4 = "====" then
        (print_endline l; st := w_init; ids := []; Hashtbl.reset live; opn := 0)
      else match split_ws l with
      | [] -> ()
      | t :: _ when t.[0] = '#' -> ()
      | opname :: args ->
        Printf.printf "op %d %s\n" !opn l; incr opn;
        (match opname, args with
         | ("new" | "newshared" | "newdefault"), _ ->
             let (s', r) = w_step !st WNew in
             st := s';
             (match r with Some i -> let k = Stdlib.List.length !ids in ids := !ids @ [int_of_n i]; Hashtbl.replace live k (int_of_n i);
                                     Printf.printf "R w%d %d\n" k (int_of_n i)
                         | None -> print_endline "R")
         | "del", [k] -> let k = int_of_string k in
             (match Hashtbl.find_opt live k with
              | Some i -> let (s', _) = w_step !st (WDel (n_of_int i)) in st := s'; Hashtbl.remove live k
              | None -> ());
             print_endline "R"
         | _ -> print_endline "R");
        let ks = Stdlib.List.sort compare (Hashtbl.fold (fun k _ acc -> k :: acc) live []) in
        Printf.printf "I%s\n" (String.concat "" (Stdlib.List.map (fun k -> Printf.sprintf " w%d=%d" k (Hashtbl.find live k)) ks))
    done with End_of_file -> ())
end


(* ---------------- events domain (C15): model (slot tables) and specification (subscription map) ---------------- *)
module Ed = struct
  open Events
  let run spec =
    let st = ref e_init in
    let sp = ref [] in
    let alive : (int, bool) Hashtbl.t = Hashtbl.create 8 in
    let rinfo : (int, int * int) Hashtbl.t = Hashtbl.create 16 in    (* receiver -> (manager, type) *)
    let ralive : (int, bool) Hashtbl.t = Hashtbl.create 16 in
    let nm = ref 0 and nr = ref 0 and opn = ref 0 in
    let do_op o =
      if spec then begin
        let (sp', d) = sp_step !sp (fun m -> (try Hashtbl.find alive (int_of_nat m) with Not_found -> false)) o in
        sp := sp'; d
      end else begin
        let (s', d) = e_step !st o in st := s'; d
      end in
    (try while true do
      let l = input_line stdin in
      if String.length l >= 4 && String.sub l 0 4 = "====" then
        (print_endline l; st := e_init; sp := []; Hashtbl.reset alive; Hashtbl.reset rinfo; Hashtbl.reset ralive; nm := 0; nr := 0; opn := 0)
      else match split_ws l with
      | [] -> ()
      | t :: _ when t.[0] = '#' -> ()
      | opname :: args ->
        Printf.printf "op %d %s\n" !opn l; incr opn;
        (match opname, args with
         | "mgr", _ -> ignore (do_op ENewMgr); Hashtbl.replace alive !nm true; Printf.printf "R m%d\n" !nm; incr nm
         | "delmgr", [m] -> let m = int_of_string m in
             if Hashtbl.mem alive m then (ignore (do_op (EDelMgr (nat_of_int m))); Hashtbl.replace alive m false); print_endline "R"
         | "sub", [m; t] -> let m = int_of_string m and t = int_of_string t in
             if (try Hashtbl.find alive m with Not_found -> false) then begin
               ignore (do_op (ESub (nat_of_int m, nat_of_int t, nat_of_int !nr)));
               Hashtbl.replace rinfo !nr (m, t); Hashtbl.replace ralive !nr true;
               Printf.printf "R r%d\n" !nr; incr nr end
             else print_endline "R"
         | "resub", [r; m] -> let r = int_of_string r and m = int_of_string m in
             (match Hashtbl.find_opt rinfo r with
              | Some (_, t) when (try Hashtbl.find ralive r with Not_found -> false) && (try Hashtbl.find alive m with Not_found -> false) ->
                  ignore (do_op (ESub (nat_of_int m, nat_of_int t, nat_of_int r)));
                  Hashtbl.replace rinfo r (m, t)
              | _ -> ());
             print_endline "R"
         | ("unsub" | "delrecv"), [r] -> let r = int_of_string r in
             (match Hashtbl.find_opt rinfo r with
              | Some (m, t) when (try Hashtbl.find ralive r with Not_found -> false) ->
                  ignore (do_op (EUnsub (nat_of_int m, nat_of_int t, nat_of_int r)));
                  if opname = "delrecv" then Hashtbl.replace ralive r false
              | _ -> ());
             print_endline "R"
         | "post", [m; t] -> let m = int_of_string m and t = int_of_string t in
             if (try Hashtbl.find alive m with Not_found -> false) then begin
               let d = do_op (EPost (nat_of_int m, nat_of_int t)) in
               Printf.printf "R%s\n" (String.concat "" (Stdlib.List.map (fun r -> " r" ^ string_of_int (int_of_nat r)) d)) end
             else print_endline "R"
         | _ -> print_endline "R unknown-op")
    done with End_of_file -> ())
end


(* ---------------- systems domain (C14) ---------------- *)
module Sy = struct
  open Systems
  let cb_name = function CbCreate -> "create" | CbConfigure -> "configure" | CbStart -> "start" | CbUpdate -> "update"
    | CbPause -> "pause" | CbStop -> "stop" | CbResume -> "resume" | CbDestroy -> "destroy"
  let st_name = function Uninit -> "uninit" | Inited -> "inited" | Configured -> "configured" | Stopped -> "stopped"
    | Active -> "active" | Paused -> "paused"
  let parse_list s = Stdlib.List.filter_map (fun t -> if t = "" then None else Some (nat_of_int (int_of_string t))) (String.split_on_char ',' s)
  let run () =
    let st = ref sm_init in
    let ever : (int * sstate) list ref = ref [] in
    let dead = ref false and opn = ref 0 in
    (try while true do
      let l = input_line stdin in
      if String.length l >= 4 && String.sub l 0 4 = "====" then
        (print_endline l; st := sm_init; ever := []; dead := false; opn := 0)
      else if not !dead then match split_ws l with
      | [] -> ()
      | t :: _ when t.[0] = '#' -> ()
      | opname :: args ->
        Printf.printf "op %d %s\n" !opn l; incr opn;
        let o = (match opname, args with
          | "add", n :: rest ->
              let prio = ref 0 and grp = ref 0 and b = ref [] and a = ref [] in
              Stdlib.List.iter (fun tok ->
                let v = String.sub tok 2 (String.length tok - 2) in
                match String.sub tok 0 2 with
                | "p=" -> prio := int_of_string v | "g=" -> grp := int_of_string v
                | "b=" -> b := parse_list v | "a=" -> a := parse_list v | _ -> ()) rest;
              ever := !ever @ [(int_of_string n, Uninit)];
              Some (SAdd (nat_of_int (int_of_string n), { c_before = !b; c_after = !a; c_group = nat_of_int !grp; c_prio = Mg.z_of_int !prio }))
          | "remove", [n] -> Some (SRemove (nat_of_int (int_of_string n)))
          | "init", _ -> Some SInit
          | "update", _ -> Some SUpdate
          | "setgroup", [g; p] -> Some (SSetGroup (nat_of_int (int_of_string g), Mg.z_of_int (int_of_string p)))
          | "teardown", _ -> Some STeardown
          | "pause", [n] -> Some (SPause (nat_of_int (int_of_string n)))
          | "resume", [n] -> Some (SResume (nat_of_int (int_of_string n)))
          | "stop", [n] -> Some (SStop (nat_of_int (int_of_string n)))
          | _ -> None) in
        (match o with
         | None -> print_endline "R unknown-op"
         | Some o ->
           (match sm_step { !st with slog = [] } o with
            | Ok s' ->
              st := s';
              Printf.printf "E%s\n" (String.concat "" (Stdlib.List.map (fun (n, c) -> Printf.sprintf " %d:%s" (int_of_nat n) (cb_name c)) (Stdlib.List.rev s'.slog)));
              ever := Stdlib.List.map (fun (n, old) ->
                match find_sys s'.infos (nat_of_int n) with Some y -> (n, y.s_state) | None -> (n, old)) !ever;
              Printf.printf "T%s\n" (String.concat "" (Stdlib.List.map (fun (n, s) -> Printf.sprintf " %d=%s" n (st_name s)) !ever));
              if o = STeardown then dead := true
            | Err (Throw _) -> print_endline "THROW"; dead := true
            | Err e -> Printf.printf "ERR %s\n" (err_name e); dead := true))
    done with End_of_file -> ())
end


(* ---------------- layout domain (C10) ---------------- *)
module Ly = struct
  let run () =
    let n = ref 0 in
    (try while true do
      let l = input_line stdin in
      if String.length l >= 4 && String.sub l 0 4 = "====" then (print_endline l; n := 0)
      else match split_ws l with
      | "lay" :: cap :: rest ->
          Printf.printf "op %d %s\n" !n l; incr n;
          let rec pairs = function a :: b :: t -> (n_of_string a, n_of_string b) :: pairs t | _ -> [] in
          let comps = pairs rest in
          let cap = n_of_string cap in
          Printf.printf "L%s | %s %s\n"
            (String.concat "" (Stdlib.List.map (fun o -> " " ^ string_of_n o) (Layout.offsets cap comps)))
            (string_of_n (Layout.chunk_size cap comps)) (string_of_n (Layout.chunk_align cap comps))
      | _ -> ()
    done with End_of_file -> ())
end


(* ---------------- dispatcher trace validation (C08/C06) ---------------- *)
module Dp = struct
  open Dispatcher
  let event_of tok =
    match Stdlib.List.map int_of_string (String.split_on_char ':' tok) with
    | [p; t; q; v] ->
        let n = nat_of_int in
        (match p with
         | 20 -> Some (ESubmit (n q)) | 1 -> Some (EWTop (n t)) | 2 -> Some (EWWaitEnter (n t, n v)) | 3 -> Some (EWWaitExit (n t))
         (* 25 / 24 are reported BEFORE the state change becomes visible to unprotected readers (5 / 21 after it: ignored) *)
         | 4 -> Some (EWPop (n t, n q)) | 25 -> Some (EWEnd (n t, n q)) | 6 -> Some (EWExit (n t)) | 7 -> Some (EWDone (n t))
         | 9 -> Some (EHEnter (n q)) | 10 -> Some (EHEmpty (n q)) | 11 -> Some (EHBusy (n q)) | 12 -> Some (EHPop (n q)) | 13 -> Some (EHEnd (n q))
         | 15 | 17 -> Some (EBarrierPass (n q)) | 24 -> Some ETerminate | 22 -> Some EClear | 23 -> Some EJoined
         | _ -> None)
    | _ -> None
  let run () =
    let st = ref (d_init O O) in
    (try while true do
      let l = input_line stdin in
      match split_ws l with
      | ["init"; w; sq] -> st := d_init (nat_of_int (int_of_string w)) (nat_of_int (int_of_string sq))
      | "T" :: toks ->
          let kept = Stdlib.List.filter (fun t -> event_of t <> None) toks in
          let evs = Stdlib.List.filter_map event_of kept in
          (match first_reject false !st evs O with
           | None -> print_endline "ACCEPT"
           | Some i -> Printf.printf "REJECT %d %s\n" (int_of_nat i) (Stdlib.List.nth kept (int_of_nat i)))
      | _ -> ()
    done with End_of_file -> ())
end

(* ---------------- the bump allocator of a command buffer (C10): TempStore.v ---------------- *)
module Ts = struct
  open TempStore
  let parse_chunks tok =
    if tok = "-" then [] else
    Stdlib.List.map (fun c -> match String.split_on_char ':' c with
      | [b; cap; fr] -> { c_base = n_of_int (int_of_string b); c_cap = n_of_int (int_of_string cap); c_free = n_of_int (int_of_string fr) }
      | _ -> failwith "chunk") (String.split_on_char ';' tok)
  let view st =
    let cs = Stdlib.List.map (fun (b, (c, f)) -> Printf.sprintf "%d:%d:%d" (int_of_n b) (int_of_n c) (int_of_n f)) (ts_chunk_view st) in
    Printf.sprintf "V %d %d %s" (int_of_n st.t_target) (int_of_n st.t_total) (if cs = [] then "-" else String.concat ";" cs)
  let run () =
    let st = ref ts_init in
    (try while true do
      let l = input_line stdin in
      (match split_ws l with
       | ["set"; tg; tot; cs] -> st := { t_chunks = parse_chunks cs; t_target = n_of_int (int_of_string tg); t_total = n_of_int (int_of_string tot) }; print_endline "ok"
       | ["alloc"; sz; al; b] ->
           let (r, st') = ts_step (TAlloc (n_of_int (int_of_string sz), n_of_int (int_of_string al), n_of_int (int_of_string b))) !st in
           st := st';
           (match r with RAlloc (i, off, _) -> Printf.printf "A %d %d\n" (int_of_nat i) (int_of_n off) | RClear -> print_endline "C")
       | ["clear"] -> let (_, st') = ts_step TClear !st in st := st'; print_endline "C"
       | ["view"] -> print_endline (view !st)
       | _ -> print_endline "?")
    done with End_of_file -> ())
end

let run_lines f =
  try
    while true do
      let l = input_line stdin in
      f (split_ws l)
    done
  with End_of_file -> ()

let () =
  match Array.to_list Sys.argv with
  | _ :: "leaf" :: _ -> run_lines leaf_line
  | _ :: "skel" :: _ -> Sk.run ()
  | _ :: "skelspec" :: _ -> SkS.run ()
  | _ :: "mgr" :: _ -> Mg.run ()
  | _ :: "mgrspec" :: _ -> MgS.run ()
  | _ :: "worlds" :: _ -> Wd.run ()
  | _ :: "systems" :: _ -> Sy.run ()
  | _ :: "layout" :: _ -> Ly.run ()
  | _ :: "disptrace" :: _ -> Dp.run ()
  | _ :: "tempstore" :: _ -> Ts.run ()
  | _ :: "events" :: _ -> Ed.run false
  | _ :: "eventspec" :: _ -> Ed.run true
  | _ -> prerr_endline "usage: runner <domain>"; exit 2
