(* Runner for the extracted models: ./runner <domain> < script > canonical output.
   Numbers travel as decimal strings; Zarith is used only to parse/print them. *)
open Model

let rec pos_of_z (z : Z.t) : positive =
  if Z.equal z Z.one then XH
  else if Z.is_even z then XO (pos_of_z (Z.shift_right z 1))
  else XI (pos_of_z (Z.shift_right z 1))
let n_of_z (z : Z.t) : n = if Z.sign z <= 0 then N0 else Npos (pos_of_z z)
let rec z_of_pos = function
  | XH -> Z.one
  | XO p -> Z.shift_left (z_of_pos p) 1
  | XI p -> Z.succ (Z.shift_left (z_of_pos p) 1)
let z_of_n = function N0 -> Z.zero | Npos p -> z_of_pos p
let n_of_string s = n_of_z (Z.of_string s)
let string_of_n x = Z.to_string (z_of_n x)
let b2s b = if b then "1" else "0"

let split_ws s = List.filter (fun x -> x <> "") (String.split_on_char ' ' (String.trim s))

(* ---------------- leaf domain (C16) ---------------- *)
let leaf_line toks =
  match toks with
  | ["pack"; i; v; w] ->
      let i = n_of_string i and v = n_of_string v and w = n_of_string w in
      let h = Entity.reset_3 N0 i v w in
      Printf.printf "pack %s %s %s %s\n" (string_of_n h) (string_of_n (Entity.id h))
        (string_of_n (Entity.version h)) (string_of_n (Entity.worldId h))
  | ["unpack"; h] ->
      let h = n_of_string h in
      Printf.printf "unpack %s %s %s %s\n" (string_of_n (Entity.id h)) (string_of_n (Entity.version h))
        (string_of_n (Entity.worldId h)) (b2s (Entity.isNull h))
  | ["next"; h] ->
      let h = n_of_string h in
      Printf.printf "next %s %s\n" (string_of_n (Entity.makeEntityWithNextVersion h))
        (string_of_n (Entity.incrementVersion h))
  | ["setver"; h; v] ->
      Printf.printf "setver %s\n" (string_of_n (Entity.setVersion (n_of_string h) (n_of_string v)))
  | ["reset2"; h; i; v] ->
      Printf.printf "reset2 %s\n" (string_of_n (Entity.reset_2 (n_of_string h) (n_of_string i) (n_of_string v)))
  | ["reset1"; h; i] ->
      Printf.printf "reset1 %s\n" (string_of_n (Entity.reset_1 (n_of_string h) (n_of_string i)))
  | ["reset0"; h] ->
      Printf.printf "reset0 %s\n" (string_of_n (Entity.reset_0 (n_of_string h)))
  | ["eq"; a; b] ->
      let a = n_of_string a and b = n_of_string b in
      Printf.printf "eq %s %s %s\n" (b2s (Entity.op_eq a b)) (b2s (Entity.op_ne a b)) (b2s (Entity.op_lt a b))
  | ["align"; x; a] ->
      let x = n_of_string x and a = n_of_string a in
      Printf.printf "align %s %s\n" (string_of_n (ComponentOffset.alignAs x a))
        (string_of_n (ComponentOffset.makeAligned x a))
  | ["split"; i; c] ->
      let i = n_of_string i and c = n_of_string c in
      Printf.printf "split %s %s\n" (string_of_n (ComponentStorageIndex.op_div i c))
        (string_of_n (ComponentStorageIndex.op_mod i c))
  | [] -> ()
  | t :: _ -> Printf.printf "?? %s\n" t

let run_lines f =
  try
    while true do
      let l = input_line stdin in
      f (split_ws l)
    done
  with End_of_file -> ()

let () =
  match Array.to_list Sys.argv with
  | _ :: "leaf" :: _ -> run_lines leaf_line
  | _ -> prerr_endline "usage: runner <domain>"; exit 2
