"""Script generator for the full entity-manager alphabet (C02, C03, C05, C09, C12, C13 and the stamps of C07/C11).

Generates in-contract scripts (the `profile` argument selects which families of operations appear); known
out-of-contract or known-defect patterns are produced only when `allow` names them."""
import os

MAXTHREADS = os.cpu_count() or 16
STATIC_VAL = [0, 1, 2, 3, 4, 5, 7]
DYN = [8, 9, 10, 11]


def is_static(p):
    return p < 8 or p >= 12

COHERENT_DYN_FLAGS = [0, 32, 1 | 2 | 4 | 8 | 16, 1 | 2 | 4 | 8 | 16 | 32, 2 | 4 | 8, 4 | 8, 8, 1 | 8]


class State:
    """approximate tracking, only to bias choices towards in-contract operations"""
    def __init__(self):
        self.n = 0
        self.comps = {}      # handle -> set(pal)  (entities believed alive, unlocked view)
        self.shared = {}     # handle -> set(spal)
        self.pending_new = {}  # handles created in the current locked section -> set(pal)
        self.pending_dead = set()
        self.pending_comps = {}  # handle -> (added, removed) in this locked section
        self.marked = set()
        self.pending_marked = set()
        self.created_shared = set()


def gen_script(rng, max_ops, profile):
    T = rng.pick(profile.get('threads', [0]))
    pals = list(profile.get('pals', [0, 1, 2, 3]))
    rng_p = pals[:]
    # registration order is script-chosen
    order = []
    while rng_p:
        order.append(rng_p.pop(rng.below(len(rng_p))))
    lines = ['maxthreads %d' % MAXTHREADS, 'threads %d' % max(T, 1)]
    if profile.get('chunkcap'):
        lines.append('chunkcap %d' % rng.pick(profile['chunkcap']))
    dynflags = {}
    for p in order:
        if p in DYN:
            dynflags[p] = rng.pick(profile.get('dynflags', COHERENT_DYN_FLAGS))
            lines.append('reg %d %d' % (p, dynflags[p]))
        elif profile.get('late_reg') and rng.chance(profile['late_reg'], 100):
            pass        # registered on first use, possibly under lock with commands already parked
        else:
            lines.append('reg %d' % p)
    vc = 0
    if profile.get('verchunk'):
        vc = rng.pick(profile['verchunk'])
        lines.append('verchunk %d' % vc)
    deps = {}
    if profile.get('deps') and rng.chance(profile['deps'], 100):
        for _ in range(rng.range(1, 3)):
            a = rng.pick(pals)
            ds = [p for p in pals if p != a and rng.chance(1, 3)]
            if ds:
                lines.append('dep %d %s' % (a, ' '.join(map(str, ds))))
                deps.setdefault(a, set()).update(ds)
    st = State()
    lines.append('update')
    njobs = 0
    kept_jobs = []
    for js in profile.get('jobs', []):
        reqs = [(p, fl) for p, fl in js['reqs'] if p in pals]
        chk = [p for p in js.get('check', []) if p in pals]
        if not reqs:
            continue
        kept_jobs.append(dict(reqs=reqs, chk=chk))
        lines.append('mkjob %d %s%s' % (3 if js.get('xodd') else 1, ' '.join('%d:%d' % r for r in reqs), (' c ' + ' '.join(map(str, chk))) if chk else ''))
        njobs += 1
    depth = 0
    armed = False
    nops = rng.range(max_ops // 3, max_ops)
    spals = profile.get('shared', [])
    W = dict(profile['weights'])

    def closure(cs):
        cs = set(cs)
        ch = True
        while ch:
            ch = False
            for a, ds in deps.items():
                if a in cs and not ds <= cs:
                    cs |= ds
                    ch = True
        return cs

    def live_handles():
        return sorted(h for h in st.comps if h not in st.pending_dead)

    def pick_live():
        hs = live_handles()
        if depth and st.pending_new and rng.chance(1, 3):
            return rng.pick(sorted(st.pending_new))
        return rng.pick(hs) if hs else None

    def view(h):
        base = set(st.pending_new.get(h, st.comps.get(h, set())))
        add, rem = st.pending_comps.get(h, (set(), set()))
        return (base | add) - rem

    def value():
        return rng.range(1, 120) if 12 in pals else rng.range(1, 900)     # palette type 12 holds one byte

    def jobacts():
        # what the callback of the next current-thread run does besides reading: it marks components of some entities
        # dirty / obtains them for writing while it processes entity number idx (if the run gets that far)
        out_ = []
        hs_ = [h for h in live_handles() if st.comps.get(h) and h not in st.pending_new]
        for _ in range(rng.range(1, 2)):
            if not hs_:
                break
            h = rng.pick(hs_)
            cs_ = [c for c in sorted(st.comps[h]) if c in (0, 1, 2)]
            if cs_:
                out_.append('jobact %d %s #%d %d' % (rng.below(3), rng.pick(['markdirty', 'getmut']), h, rng.pick(cs_)))
        return out_

    stale = profile.get('stale', 0)
    for _ in range(nops):
        tid = rng.below(T + 1) if (depth > 0 and armed) else 0
        if stale and rng.chance(stale, 100):
            # the malformed stream: a checked entry point through a dead, null, foreign or never-issued handle
            r = rng.below(100)
            if r < 55 and st.n > 0:
                tok = '#%d' % rng.below(st.n)                      # any handle ever issued, mostly dead or alive
            elif r < 70:
                tok = 'null'
            elif r < 85 and st.n > 0:
                tok = 'w%d' % rng.below(st.n)                      # same id and version, another world
            else:
                tok = 'x%016x' % (rng.next() | (1 << 35))          # arbitrary pattern with a foreign world id
            opn = rng.pick(['valid', 'getconst', 'getmut', 'has', 'destroy', 'destroynow', 'remove', 'markdirty', 'archof', 'clone', 'clonemap', 'removeshared'])
            if depth and opn in ('clone', 'clonemap', 'removeshared'):
                opn = 'valid'
            if opn in ('getconst', 'getmut', 'has', 'markdirty'):
                lines.append('%s %s %d' % (opn, tok, rng.pick(pals)))
            elif opn in ('destroy', 'destroynow'):
                lines.append('%s %d %s' % (opn, tid, tok))
                if tok.startswith('#'):
                    h = int(tok[1:])
                    if opn == 'destroynow':
                        if depth:
                            st.pending_dead.add(h)
                        else:
                            st.comps.pop(h, None)
                    else:
                        (st.pending_marked if depth else st.marked).add(h)
            elif opn == 'remove':
                sp = [p for p in pals if is_static(p)]
                if sp and not (tok.startswith('#') and (int(tok[1:]) in st.comps or int(tok[1:]) in st.pending_new)):
                    lines.append('remove %d %s %d' % (tid, tok, rng.pick(sp)))
            elif opn == 'removeshared':
                lines.append('removeshared %s 0' % tok)
            elif opn in ('clone', 'clonemap'):
                if not (tok.startswith('#') and int(tok[1:]) in st.comps):
                    lines.append('%s %s' % (opn, tok))
            else:
                lines.append('%s %s' % (opn, tok))
            continue
        choice = rng.weighted([(k, w) for k, w in W.items() if w > 0])
        if choice == 'create':
            k = rng.range(0, min(3, len(pals)))
            cs = sorted(set(rng.pick(pals) for _ in range(k)))
            sh = []
            cs_mode = profile.get('create_shared', True)
            if spals and cs_mode and (depth == 0 or cs_mode == 'once') and rng.chance(1, 5):
                # 'once': at most one creation per shared type and script (known finding C12/creation-time-shared-instance: a second
                # one would get its own instance and archetype), but also while locked
                cand_ = [p_ for p_ in spals if not (cs_mode == 'once' and p_ in st.created_shared)]
                if cand_:
                    sp_ = rng.pick(cand_)
                    st.created_shared.add(sp_)
                    sh = ['s%d' % sp_]
                    if cs_mode == 'once' and rng.chance(1, 2):
                        cs = []         # shared components only
            op = 'createarch' if (profile.get('createarch') and rng.chance(1, 6)) else 'create'
            lines.append(('%s %d %s' % (op, tid, ' '.join(map(str, cs + sh)))).rstrip())
            if depth:
                st.pending_new[st.n] = closure(cs) if op == 'createarch' else set(cs)
            else:
                st.comps[st.n] = closure(cs)
                st.shared[st.n] = set(int(x[1:]) for x in sh)
            st.n += 1
        elif choice == 'destroynow':
            h = pick_live()
            if h is None:
                continue
            lines.append('destroynow %d #%d' % (tid, h))
            if depth:
                st.pending_dead.add(h)
            else:
                st.comps.pop(h, None)
        elif choice == 'destroy':
            h = pick_live()
            if h is None:
                continue
            lines.append('destroy %d #%d' % (tid, h))
            (st.pending_marked if depth else st.marked).add(h)
        elif choice == 'assign':
            h = pick_live()
            if h is None:
                continue
            have = view(h)
            cand = [p for p in pals if p not in closure(have)]
            if depth and h in st.pending_comps:
                # a component removed earlier in this locked section may not be re-assigned in the same pack, and vice versa
                cand = [p for p in cand if p not in st.pending_comps[h][1]]
            if not cand:
                continue
            p = rng.pick(cand)
            kind = rng.pick(['assign', 'assign', 'assignid'])
            v = '-' if rng.chance(1, 3) else str(value())
            if depth and profile.get('no_locked_typed_value_aa') and p == 3 and kind == 'assign' and v != '-':
                v = '-'
            lines.append('%s %d #%d %d %s' % (kind, tid, h, p, v))
            if depth:
                st.pending_comps.setdefault(h, (set(), set()))[0].add(p)
            else:
                st.comps[h] = closure(have | {p})
        elif choice == 'build':
            # one builder edit: begin(e).remove<R>()... .assign<A>(x)... .end(); assignable types are the static palette 0, 2, 3
            bpals = [p for p in (0, 2, 3) if p in pals]
            if not bpals:
                continue
            if rng.chance(1, 4):
                k = rng.range(0, min(2, len(bpals)))
                cs = sorted(set(rng.pick(bpals) for _ in range(k)))
                lines.append(('build %d new%s' % (tid, ''.join(' a' * (i == 0) + ' %d %d' % (c, value()) for i, c in enumerate(cs)))).rstrip())
                if depth:
                    st.pending_new[st.n] = set(cs)
                    st.pending_comps.setdefault(st.n, (set(), set()))[0].update(cs)     # assign commands of its pack
                else:
                    st.comps[st.n] = closure(cs)
                    st.shared[st.n] = set()
                st.n += 1
                continue
            h = pick_live()
            if h is None:
                continue
            have = view(h)
            padd, prem = st.pending_comps.get(h, (set(), set()))
            acand = [p for p in bpals if p not in closure(have) and p not in prem]
            k = rng.range(0, min(2, len(acand)))
            asg = []
            for _ in range(k):
                c = rng.pick(acand)
                if c not in asg:
                    asg.append(c)
            rcand = [] if (deps and depth) else [p for p in sorted(have) if is_static(p) and p not in padd and p not in asg]
            if not depth and asg:
                # immediate edit: a removal may also name a component the entity does not own -- a dependent that arrives with an
                # assigned master (it stays, default-constructed) or something unrelated (nothing happens)
                pool_ = (closure(set(have) | set(asg)) if rng.chance(2, 3) else set(pals)) if (deps or rng.chance(1, 3)) else set(have)
                rcand = [p for p in sorted(pool_) if is_static(p) and p not in asg]
            if depth and h in st.pending_new:
                rcand = []      # its components are assign commands of the same pack (known finding C05/pack-assign-then-remove-same-component)
            rem = []
            for _ in range(rng.range(0, min(2, len(rcand)))):
                c = rng.pick(rcand)
                if c not in rem:
                    rem.append(c)
            # one edit that removes a master AND one of its dependents: whether the dependent stays is not said by any property
            # (the library drops both, one removal after the other would keep the dependent): not generated
            rem = [c for c in rem if not any(c != m_ and c in closure({m_}) for m_ in rem)]
            if not asg and not rem:
                continue
            lines.append('build %d #%d%s%s' % (tid, h, ''.join((' a' if i == 0 else '') + ' %d %d' % (c, value()) for i, c in enumerate(asg)),
                                              ''.join((' r' if i == 0 else '') + ' %d' % c for i, c in enumerate(rem))))
            if depth:
                pc = st.pending_comps.setdefault(h, (set(), set()))
                pc[0].update(asg); pc[1].update(rem)
            else:
                st.comps[h] = closure((set(have) | set(asg)) - set(rem))
        elif choice == 'remove':
            h = pick_live()
            if h is None:
                continue
            have = view(h)
            cand = sorted(have)
            if depth:
                # deferred removal of a dependent whose master stays, or of a component assigned in this section: known defects
                masters = set()
                for a, ds in deps.items():
                    if a in have:
                        masters |= ds
                added = st.pending_comps.get(h, (set(), set()))[0]
                cand = [p for p in cand if p not in masters and p not in added]
                if deps:
                    cand = []      # known finding C13/pack-remove-then-assign-master: program order inside a pack is lost where dependencies are involved
                if profile.get('no_pending_remove') and h in st.pending_new:
                    cand = []
            if not cand:
                continue
            p = rng.pick(cand)
            lines.append('%s %d #%d %d' % (rng.pick(['remove', 'removeid']), tid, h, p))
            if depth:
                st.pending_comps.setdefault(h, (set(), set()))[1].add(p)
            else:
                nh = set(have) - {p}
                st.comps[h] = closure(nh)
        elif choice == 'set':
            hs = [h for h in live_handles() if h not in st.pending_new]
            if not hs:
                continue
            h = rng.pick(hs)
            cs = [p for p in sorted(st.comps.get(h, ())) if p != 6]
            if not cs:
                continue
            lines.append('set #%d %d %d' % (h, rng.pick(cs), value()))
        elif choice == 'get':
            hs = [h for h in live_handles() if h not in st.pending_new]
            if not hs:
                continue
            h = rng.pick(hs)
            lines.append('%s #%d %d' % (rng.pick(['getconst', 'getmut', 'has', 'markdirty']), h, rng.pick(pals)))
        elif choice == 'clone':
            hs = [h for h in live_handles() if h not in st.pending_new and not (st.comps.get(h, set()) & set(DYN))]
            if not hs or depth:
                continue
            h = rng.pick(hs)
            lines.append('%s #%d' % (rng.pick(['clone', 'clonemap']), h))
            st.comps[st.n] = set(st.comps[h])
            st.shared[st.n] = set(st.shared.get(h, ()))
            st.n += 1
        elif choice == 'assignshared':
            hs = [h for h in live_handles() if h not in st.pending_new]
            if not hs or depth or not spals:
                continue
            h = rng.pick(hs)
            cur = st.shared.get(h, set())
            # known finding C12/shared-assign-order: the archetype key is the SEQUENCE of shared values, so every entity gets its
            # shared types in increasing order (a replacement keeps the position)
            cand = [x for x in spals if x in cur or not cur or x > max(cur)]
            sp = rng.pick(cand)
            lines.append('assignshared #%d %d %d' % (h, sp, rng.range(1, 3)))
            st.shared.setdefault(h, set()).add(sp)
        elif choice == 'sharedfill':
            # give one entity every shared type (in increasing order), then remove one of them: the remaining values must
            # stay with their own types
            hs = [h for h in live_handles() if h not in st.pending_new]
            if not hs or depth or len(spals) < 2:
                continue
            h = rng.pick(hs)
            cur = st.shared.setdefault(h, set())
            for sp in spals:
                if sp in cur or (cur and sp < max(cur)):
                    continue
                lines.append('assignshared #%d %d %d' % (h, sp, rng.range(1, 3)))
                cur.add(sp)
            sp = rng.pick(sorted(cur))
            lines.append('removeshared #%d %d' % (h, sp))
            cur.discard(sp)
        elif choice == 'removeshared':
            hs = [h for h in live_handles() if st.shared.get(h)]
            if not hs or depth:
                continue
            h = rng.pick(hs)
            sp = rng.pick(sorted(st.shared[h]))      # any of them: the remaining ones stay in increasing order
            lines.append('removeshared #%d %d' % (h, sp))
            st.shared[h].discard(sp)
        elif choice == 'burst':
            # a write to one component followed, at the same world version, by a structural change in the same archetype,
            # then a job run: the stamps of the two events must not mask each other (aimed at whole-chunk/one-slot stamping)
            hs = [h for h in live_handles() if len(st.comps.get(h, ())) >= 2 and not st.shared.get(h)]
            if depth or not hs or not njobs:
                continue
            h = rng.pick(hs)
            cs = sorted(st.comps[h])
            if rng.chance(1, 2):
                lines.append('%s #%d %d' % (rng.pick(['getmut', 'markdirty']), h, rng.pick(cs)))
            else:
                lines.append('set #%d %d %d' % (h, rng.pick([c for c in cs if c != 6] or cs), value()))
            same = [k for k in live_handles() if k != h and st.comps.get(k) == st.comps[h] and not st.shared.get(k) and k not in st.marked]
            r = rng.below(3)
            if r == 0 or not same:
                lines.append('create 0 %s' % ' '.join(map(str, cs)))
                st.comps[st.n] = closure(cs)
                st.shared[st.n] = set()
                st.n += 1
            elif r == 1:
                k = rng.pick(same)
                lines.append('destroynow 0 #%d' % k)
                st.comps.pop(k, None)
            else:
                # move an entity with one component fewer into this archetype
                p_ = rng.pick(cs)
                lines.append('create 0 %s' % ' '.join(str(c) for c in cs if c != p_))
                lines.append('assign 0 #%d %d %d' % (st.n, p_, value()))
                st.comps[st.n] = closure(cs)
                st.shared[st.n] = set()
                st.n += 1
            if rng.chance(2, 3):
                jb_ = rng.below(njobs)
                if profile.get('jobacts') and rng.chance(1, 2):
                    lines.extend(jobacts())
                    lines.append('runjob %d 0' % jb_)
                    lines.append('runjob %d 0' % jb_)     # the same job again: what it modified itself must be seen
                else:
                    lines.append('runjob %d %d' % (jb_, rng.below(2)))
        elif choice == 'bulk':
            # fill one archetype to k*cs + r entities (r = 0, 1, 2), let the jobs catch up, then remove an early member:
            # the swap-remove shrinks the archetype across a version-chunk boundary
            if depth or not njobs or not vc or vc > 8:
                continue
            hs = [h for h in live_handles() if st.comps.get(h) and not st.shared.get(h)]
            cs = sorted(st.comps[rng.pick(hs)]) if hs and rng.chance(2, 3) else sorted(set(rng.pick(pals) for _ in range(rng.range(1, 2))))
            cs = sorted(closure(cs))
            same = [k for k in live_handles() if sorted(st.comps.get(k, ())) == cs and not st.shared.get(k)]
            target = rng.range(1, 3) * vc + rng.below(3)
            for _ in range(max(0, target - len(same))):
                lines.append('create 0 %s' % ' '.join(map(str, cs)))
                st.comps[st.n] = set(cs)
                st.shared[st.n] = set()
                same.append(st.n)
                st.n += 1
            for j in range(njobs):
                if rng.chance(2, 3):
                    lines.append('runjob %d %d' % (j, rng.below(2)))
            cand = [k for k in same if k not in st.marked]
            if cand:
                k = cand[rng.below(min(len(cand), 2 * vc))]
                lines.append('destroynow 0 #%d' % k)
                st.comps.pop(k, None)
            for j in range(njobs):
                if rng.chance(1, 2):
                    lines.append('runjob %d %d' % (j, rng.below(2)))
        elif choice == 'sparse':
            # one archetype with several version chunks, every job caught up, then a few scattered writes: the next filtered run
            # sees non-adjacent blocks (block jumps, task starts on block boundaries, blocks straddling storage chunks)
            if depth or not njobs or not vc or vc > 8 or 0 not in pals:
                continue
            hs = [h for h in live_handles() if 0 in st.comps.get(h, ()) and not st.shared.get(h)]
            cs = sorted(st.comps[rng.pick(hs)]) if hs and rng.chance(1, 2) else sorted(closure([0] + ([1] if 1 in pals and rng.chance(1, 2) else [])))
            same = [k for k in live_handles() if sorted(st.comps.get(k, ())) == cs and not st.shared.get(k) and k not in st.marked]
            target = rng.range(2 * vc + 1, 6 * vc + 2)
            for _ in range(max(0, target - len(same))):
                lines.append('create 0 %s' % ' '.join(map(str, cs)))
                st.comps[st.n] = set(cs)
                st.shared[st.n] = set()
                same.append(st.n)
                st.n += 1
            for j in range(njobs):
                lines.append('runjob %d 0' % j)
            for _ in range(rng.range(2, 3)):
                h = rng.pick(same)
                c = rng.pick([c for c in cs if c in (0, 1)])
                lines.append(rng.pick(['set #%d %d %d' % (h, c, value()), 'markdirty #%d %d' % (h, c), 'getmut #%d %d' % (h, c)]))
            for j in range(njobs):
                if rng.chance(2, 3):
                    mode = rng.below(2)
                    lines.append('runjob %d %d%s' % (j, mode, (' %d' % rng.range(1, 6)) if mode else ''))
        elif choice == 'createremove':
            # one locked section creates an entity and removes one of the requested components again (one pack, no assign):
            # with declared dependencies the dependents of the removed master stay, as in program order
            if depth:
                continue
            k = rng.range(1, min(3, len(pals)))
            cs = sorted(set(rng.pick([p_ for p_ in pals if is_static(p_)] or pals) for _ in range(k)))
            cs = [c for c in cs if is_static(c)]
            if not cs:
                continue
            rm = rng.pick(cs)
            rest = set(cs) - {rm}
            if rm in closure(rest):
                continue        # removing a dependent of a remaining master has no effect: nothing to see
            lines.append('lock')
            lines.append('create 0 %s' % ' '.join(map(str, cs)))
            lines.append('remove 0 #%d %d' % (st.n, rm))
            lines.append('unlock')
            st.comps[st.n] = closure(closure(cs) - {rm})
            st.shared[st.n] = set()
            st.n += 1
        elif choice == 'recycle':
            # a destroyed entity's id is reused at once; under lock one thread then records a command through the stale handle
            # right next to commands on the new owner of that id
            hs = [h for h in live_handles() if not st.shared.get(h) and h not in st.marked]
            if depth or not hs:
                continue
            a = rng.pick(hs)
            cs = sorted(st.comps[a])
            lines.append('destroynow 0 #%d' % a)
            st.comps.pop(a, None)
            b = st.n
            lines.append(('create 0 %s' % ' '.join(map(str, cs))).rstrip())
            st.comps[b] = closure(cs)
            st.shared[b] = set()
            st.n += 1
            cand = [p_ for p_ in pals if p_ not in st.comps[b]]
            stat = [p_ for p_ in pals if is_static(p_)]
            if not cand or not stat:
                continue
            p_ = rng.pick(cand)
            q = rng.pick(stat)
            live_cmd = '%s 0 #%d %d %d' % ('assign' if is_static(p_) else 'assignid', b, p_, value())
            stale_cmd = rng.pick(['destroynow 0 #%d' % a, 'remove 0 #%d %d' % (a, q), 'destroy 0 #%d' % a])
            if rng.chance(1, 2):
                lines.append('update')      # the world version moves on: a stamp written through the stale handle would show
                for h_ in st.marked:        # ... and deferred destroys take effect
                    st.comps.pop(h_, None)
                st.marked = set()
            lines.append('lock')
            lines += [live_cmd, stale_cmd] if rng.chance(1, 2) else [stale_cmd, live_cmd]
            if cs and rng.chance(2, 3):
                # guarded calls through the stale handle while locked: the new owner of the id must not notice
                lines.insert(len(lines) - rng.below(3), '%s #%d %d' % (rng.pick(['markdirty', 'getmut', 'getconst', 'has']), a, rng.pick(cs)))
            lines.append('unlock')
            st.comps[b] = closure(set(st.comps[b]) | {p_})
        elif choice == 'jobdo':
            # a job whose callback creates / edits / destroys entities while it runs (deferred: the manager is locked during a run);
            # the job has no version filter, so it runs iff some entity has its required components
            if depth or not njobs:
                continue
            unf = [j for j, js in enumerate(profile.get('jobs', [])) if not js.get('check')]
            if not unf:
                continue
            j = rng.pick(unf)
            need = set(p_ for p_, fl in profile['jobs'][j]['reqs'] if p_ in pals and not (fl & 2))
            if not any(need <= set(st.comps.get(h, ())) for h in live_handles()):
                continue        # the run would visit nothing: the callback never runs
            acts = []
            for _ in range(rng.range(1, 3)):
                kind = rng.pick(['create', 'createarch', 'assignid', 'destroynow', 'removeid'])
                hs_ = [h for h in live_handles() if h not in st.marked and not st.shared.get(h)]
                if kind in ('create', 'createarch'):
                    cs = sorted(set(rng.pick(pals) for _ in range(rng.range(1, 2))))
                    acts.append('jobdo %s 0 %s' % (kind, ' '.join(map(str, cs))))
                    new_h = st.n
                    st.comps[new_h] = closure(cs); st.shared[new_h] = set(); st.n += 1
                    cand = [p_ for p_ in pals if p_ not in st.comps[new_h]]
                    if cand and rng.chance(1, 2) and not deps:
                        p_ = rng.pick(cand)
                        acts.append('jobdo assignid 0 #%d %d %s' % (new_h, p_, '-' if rng.chance(1, 3) else str(value())))
                        st.comps[new_h] = closure(set(st.comps[new_h]) | {p_})
                elif kind == 'assignid' and hs_:
                    h = rng.pick(hs_)
                    cand = [p_ for p_ in pals if p_ not in st.comps[h]]
                    if cand and not any(a.split()[3:4] == ['#%d' % h] for a in acts):
                        p_ = rng.pick(cand)
                        acts.append('jobdo assignid 0 #%d %d %s' % (h, p_, '-' if rng.chance(1, 3) else str(value())))
                        st.comps[h] = closure(set(st.comps[h]) | {p_})
                elif kind == 'destroynow' and hs_:
                    h = rng.pick(hs_)
                    if not any(('#%d' % h) in a.split() for a in acts):
                        acts.append('jobdo destroynow 0 #%d' % h)
                        st.comps.pop(h, None)
                elif kind == 'removeid' and hs_ and not deps:
                    h = rng.pick(hs_)
                    cs_ = sorted(st.comps[h])
                    if cs_ and not any(('#%d' % h) in a.split() for a in acts):
                        p_ = rng.pick(cs_)
                        acts.append('jobdo removeid 0 #%d %d' % (h, p_))
                        st.comps[h] = set(st.comps[h]) - {p_}
            if acts:
                lines.extend(acts)
                lines.append('runjob %d 0' % j)
        elif choice == 'runtyped':
            # the typed jobs of the driver (PerEntityJob<T>): their arguments are palette types 0, 1, 2, 4
            if depth == 0 and all(p_ in pals for p_ in (0, 1, 2, 4)):
                mode = rng.below(2)
                lines.append('runtyped %d %d%s' % (rng.below(4), mode, (' %d' % rng.range(1, 6)) if mode and rng.chance(1, 2) else ''))
        elif choice == 'createdestroy':
            # an entity created and destroyed at once inside one locked section (one pack), then a fresh creation: the dead handle stays
            # dead, the new entity gets a handle of its own
            if depth:
                continue
            cs_ = sorted(set(rng.pick(pals) for _ in range(rng.range(0, 2))))
            k_ = st.n
            lines += ['lock', ('create 0 %s' % ' '.join(map(str, cs_))).rstrip(), 'destroynow 0 #%d' % k_, 'unlock']
            st.n += 1
            for _ in range(rng.range(1, 2)):
                lines.append(('create 0 %s' % ' '.join(map(str, cs_))).rstrip())
                st.comps[st.n] = closure(cs_); st.shared[st.n] = set(); st.n += 1
            lines.append('valid #%d' % k_)
        elif choice == 'removeassign':
            # one pack removes a component the entity has and assigns it again with a new value: the entity ends with the new value.
            # Trivial component types only (the lifecycle of the replaced instance is the open finding C03/pack-remove-then-assign-same-component)
            hs_ = [h for h in live_handles() if h not in st.marked and not st.shared.get(h) and any(p_ in (0, 1, 4, 7, 12) for p_ in st.comps[h])]
            if depth or deps or not hs_:
                continue
            h = rng.pick(hs_)
            c_ = rng.pick([p_ for p_ in sorted(st.comps[h]) if p_ in (0, 1, 4, 7, 12)])
            lines += ['lock', 'remove 0 #%d %d' % (h, c_), 'assign 0 #%d %d %d' % (h, c_, value()), 'unlock']
        elif choice == 'depkeep':
            # one pack assigns a dependent with a value, gives the entity the master, and removes the dependent again: the removal has no
            # effect while the master is present, so the dependent stays WITH the assigned value
            cands_ = [(m_, d_) for m_, ds_ in deps.items() for d_ in sorted(ds_) if is_static(d_) and d_ != 6 and m_ not in deps.get(d_, set())]
            hs_ = [h for h in live_handles() if h not in st.marked and not st.shared.get(h)]
            if depth or not cands_ or not hs_:
                continue
            m_, d_ = rng.pick(cands_)
            hs_ = [h for h in hs_ if m_ not in st.comps[h] and d_ not in st.comps[h]]
            if not hs_:
                continue
            h = rng.pick(hs_)
            lines += ['lock', 'assign 0 #%d %d %d' % (h, d_, value()), '%s 0 #%d %d -' % ('assign' if is_static(m_) else 'assignid', h, m_), 'remove 0 #%d %d' % (h, d_), 'unlock']
            st.comps[h] = closure(set(st.comps[h]) | {m_, d_})
        elif choice == 'jobedit':
            # one job object is described anew between runs (requests dropped, reordered, made optional): jobs without version filter only
            unf_ = [(j_, js_) for j_, js_ in enumerate(kept_jobs) if not js_['chk']]
            if depth == 0 and unf_:
                j_, js_ = rng.pick(unf_)
                reqs_ = [r_ for r_ in js_['reqs'] if rng.chance(2, 3)] or [js_['reqs'][0]]
                if all(fl_ & 2 for p_, fl_ in reqs_):
                    reqs_[0] = (reqs_[0][0], reqs_[0][1] & 1)
                lines.append('jobedit %d %s' % (j_, ' '.join('%d:%d' % r_ for r_ in reqs_)))
                lines.append('runjob %d %d' % (j_, rng.below(2)))
        elif choice == 'runjob':
            if depth == 0 and njobs:
                mode = rng.below(2)
                if mode == 0 and profile.get('jobacts') and rng.chance(1, 2):
                    lines.extend(jobacts())
                t = ''
                if mode == 1 and rng.chance(1, 2):
                    t = ' %d' % rng.range(1, max(1, len(st.comps)) + 1)
                lines.append('runjob %d %d%s' % (rng.below(njobs), mode, t))
        elif choice == 'lockedrun':
            # job runs nested in an explicit locked section, with modifications between and after them in the same section:
            # the section's later stamps must still be newer than what the nested runs remembered
            hs_ = [h for h in live_handles() if st.comps.get(h) and h not in st.pending_new]
            if depth == 0 and njobs and hs_:
                lines.append('lock')
                for _ in range(rng.range(1, 3)):
                    lines.append('runjob %d 0' % rng.below(njobs))
                    for _ in range(rng.range(1, 3)):
                        h = rng.pick(hs_)
                        lines.append('%s #%d %d' % (rng.pick(['markdirty', 'getmut']), h, rng.pick(sorted(st.comps[h]))))
                lines.append('unlock')
                lines.append('runjob %d %d' % (rng.below(njobs), rng.below(2)))
        elif choice == 'update':
            if depth == 0:
                lines.append(rng.pick(['update', 'update', 'emupdate']))
                for h in st.marked:
                    st.comps.pop(h, None)
                st.marked = set()
                # deferred destroys take effect (approximation: forget nothing; stale handles are harmless for guarded ops only)
        elif choice == 'clear':
            # EntityManager::clear(): every entity goes, the archetypes keep their storage for the next ones
            if depth == 0:
                lines.append('clear')
                st.comps = {}
                st.shared = {}
                st.marked = set()
        elif choice == 'splitassignremove':
            # a component assigned under lock and removed again later in the same lock period, with a command on ANOTHER entity in
            # between (two packs): program order says the entity ends without it
            hs = [h for h in live_handles() if not st.shared.get(h) and h not in st.marked]
            if depth or len(hs) < 2 or deps:
                continue
            a = rng.pick(hs)
            b = rng.pick([h for h in hs if h != a])
            ca = [p_ for p_ in pals if p_ not in st.comps[a] and is_static(p_)]
            cb = [p_ for p_ in pals if p_ not in st.comps[b]]
            if not ca or not cb:
                continue
            pa, pb = rng.pick(ca), rng.pick(cb)
            lines += ['lock', 'assign 0 #%d %d %d' % (a, pa, value()), '%s 0 #%d %d %d' % ('assign' if is_static(pb) else 'assignid', b, pb, value()),
                      'remove 0 #%d %d' % (a, pa), 'unlock']
            st.comps[b] = set(st.comps[b]) | {pb}
        elif choice == 'cleararch':
            if depth == 0 and st.comps:
                h = rng.pick(sorted(st.comps))
                if not st.shared.get(h):
                    cs = sorted(st.comps[h])
                    lines.append(('cleararch ' + ' '.join(map(str, cs))).rstrip())
                    key = st.comps[h]
                    for k in [k for k, v in st.comps.items() if v == key and not st.shared.get(k)]:
                        st.comps.pop(k)
        elif choice == 'lock':
            lines.append('lock')
            depth += 1
            if depth == 1 and T > 0 and rng.chance(3, 4):
                lines.append('arm')
                armed = True
        elif choice == 'unlock':
            if depth == 0:
                continue
            if depth == 1 and armed:
                lines.append('disarm')
                armed = False
            lines.append('unlock')
            depth -= 1
            if depth == 0:
                for h, cs in st.pending_new.items():
                    if h not in st.pending_dead:
                        st.comps[h] = closure(cs)
                for h, (add, rem) in st.pending_comps.items():
                    if h in st.comps and h not in st.pending_dead:
                        st.comps[h] = closure((st.comps[h] | add) - rem)
                for h in st.pending_dead:
                    st.comps.pop(h, None)
                st.marked |= st.pending_marked
                st.pending_new, st.pending_dead, st.pending_comps, st.pending_marked = {}, set(), {}, set()
    while depth > 0:
        if depth == 1 and armed:
            lines.append('disarm')
            armed = False
        lines.append('unlock')
        depth -= 1
    if profile.get('teardown_anywhere'):
        return lines[:rng.range(len(lines) * 2 // 3, len(lines))] + ['teardown']
    lines.append('update')
    return lines


PROFILE_BASIC = {
    'threads': [0, 0, 1, 2, 3], 'pals': [0, 1, 2, 3, 4, 5, 6, 7], 'chunkcap': [0, 2, 3, 4, 8],
    'verchunk': [1, 2, 3, 5, 1024], 'deps': 0, 'shared': [], 'createarch': True,
    'weights': {'create': 26, 'destroynow': 10, 'destroy': 5, 'assign': 14, 'remove': 9, 'set': 8, 'get': 6,
                'clone': 3, 'update': 4, 'cleararch': 2, 'lock': 6, 'unlock': 9, 'build': 7, 'recycle': 2, 'createremove': 2, 'clear': 1, 'splitassignremove': 2, 'createdestroy': 2},
}


def corpus(prop):
    """hand-written scripts aimed at case splits and at past defects; header shared"""
    hdr = ['maxthreads %d' % MAXTHREADS, 'threads 1']
    c = {}
    c['C02'] = [
        # plain-data component described at run time without a move function: swap-remove must relocate it (fixed defect)
        ('dyn_no_move_swap_remove', hdr + ['reg 8 0', 'reg 9 0', 'update', 'create 0 8 9', 'create 0 8 9', 'create 0 8 9',
                                          'set #0 8 101', 'set #1 8 102', 'set #2 8 103', 'set #0 9 201', 'set #1 9 202', 'set #2 9 203',
                                          'destroynow 0 #0', 'getconst #2 8', 'getconst #2 9', 'destroynow 0 #1']),
        # a component of ONE byte that carries data (not a tag): relocated by swap-remove, carried through two archetype moves, cloned
        ('one_byte_data_component', hdr + ['reg 12', 'reg 0', 'reg 2', 'update', 'create 0 12', 'create 0 12', 'create 0 12', 'create 0 12 0',
                                          'set #0 12 11', 'set #1 12 22', 'set #2 12 33', 'set #3 12 44', 'destroynow 0 #0', 'getconst #2 12', 'assign 0 #1 0 5', 'getconst #1 12',
                                          'assign 0 #1 2 6', 'getconst #1 12', 'remove 0 #3 0', 'getconst #3 12', 'clone #2', 'getconst #4 12', 'lock', 'assign 0 #2 0 7', 'unlock', 'getconst #2 12']),
        # first / middle / last member, populations crossing storage chunks of 2
        ('positions_chunks', hdr + ['chunkcap 2', 'reg 0', 'reg 2', 'update'] + ['create 0 0 2'] * 7 +
         ['set #%d 0 %d' % (i, 10 + i) for i in range(7)] + ['destroynow 0 #0', 'destroynow 0 #3', 'destroynow 0 #6', 'assign 0 #1 3 5', 'remove 0 #2 0', 'clone #4']),
    ]
    c['C12'] = [
        # an entity created with a shared type holds a private default instance; assigning it an equal value explicitly moves it
        # onto the canonical instance, which the next entity assigned that value shares
        ('created_then_assigned_equal_value', hdr + ['reg 0', 'update', 'create 0 0 s0', 'create 0 0', 'assignshared #0 0 0', 'assignshared #1 0 0', 'getshared #0 0', 'getshared #1 0', 'create 0 0', 'assignshared #2 0 0']),
    ]
    return c.get(prop, [])


def profile(name):
    p = dict(PROFILE_BASIC)
    p['weights'] = dict(PROFILE_BASIC['weights'])
    if name == 'C03':
        p['pals'] = [0, 2, 3, 5, 8, 9, 12, 13]
        p['dynflags'] = [31, 63, 0, 32]
        p['teardown_anywhere'] = True
        p['threads'] = [0, 1, 2]
        p['deps'] = 35        # a dependent that arrives with a master (immediately or at a flush) is constructed, once
        p['weights'].update({'lock': 9, 'unlock': 7, 'assign': 18, 'remove': 12, 'clone': 4})
    elif name == 'C05':
        p['shared'] = [0, 1]
        p['create_shared'] = 'once'
        p['weights'].update({'removeassign': 4})
        p['threads'] = [1, 2, 3, 4]
        p['pals'] = [0, 1, 2, 3, 4, 5, 7, 8]
        p['weights'].update({'lock': 12, 'unlock': 8, 'create': 22, 'assign': 18, 'remove': 12, 'destroynow': 12, 'destroy': 6})
    elif name == 'C09':
        p['stale'] = 30
        p['threads'] = [0, 1, 2]
        p['shared'] = [0]
        p['create_shared'] = False
        p['weights'].update({'assignshared': 3, 'removeshared': 1})
    elif name == 'C12':
        p['shared'] = [0, 1, 2]
        p['create_shared'] = False     # known finding C12/creation-time-shared-instance
        p['pals'] = [0, 1, 2, 3]
        p['threads'] = [0, 1]
        p['weights'].update({'assignshared': 16, 'removeshared': 7, 'create': 20, 'lock': 4, 'unlock': 6, 'sharedfill': 3})
    elif name in ('C04', 'C07', 'C11'):
        p['pals'] = [0, 1, 2, 4] if name != 'C04' else [0, 1, 2, 3, 4, 8]
        p['threads'] = [1, 2, 3, 7]
        p['chunkcap'] = [2, 3, 4, 5] if name == 'C04' else [0, 4]
        p['verchunk'] = [1, 2, 3, 4, 5, 6]
        p['createarch'] = False
        p['jobacts'] = name in ('C07', 'C11')
        p['jobs'] = [{'reqs': [(0, 1)], 'check': [0]}, {'reqs': [(0, 0)], 'check': []}, {'reqs': [(0, 1), (1, 3)], 'check': [0]},
                     {'reqs': [(0, 1), (1, 1)], 'check': [0, 1]}, {'reqs': [(1, 0), (2, 3)], 'check': [1]}, {'reqs': [(0, 1)], 'check': []},
                     {'reqs': [(1, 1), (0, 1)], 'check': [1]}, {'reqs': [(2, 0), (4, 3)], 'check': [2]},
                     {'reqs': [(0, 1), (1, 2)], 'check': []}]      # writes an OPTIONAL component: its stamp must move too
        if name == 'C04':
            p['jobs'] = [{'reqs': [(0, 1)], 'check': []}, {'reqs': [(0, 0), (1, 3)], 'check': []}, {'reqs': [(0, 1), (2, 1)], 'check': []},
                         {'reqs': [(0, 1)], 'check': [0]}, {'reqs': [(1, 0), (0, 2)], 'check': [1]}]
        p['weights'] = {'create': 26, 'destroynow': 9, 'destroy': 3, 'assign': 8, 'remove': 6, 'set': 12, 'get': 6,
                        'clone': 2, 'update': 6, 'cleararch': 1, 'lock': 0, 'unlock': 0, 'runjob': 22, 'burst': 0 if name == 'C04' else 7, 'bulk': 0 if name == 'C04' else 2, 'sparse': 3, 'runtyped': 8, 'jobdo': 4, 'lockedrun': 0 if name == 'C04' else 4, 'jobedit': 5 if name == 'C04' else 0}
    elif name == 'C13':
        p['weights'].update({'depkeep': 5})
        p['deps'] = 100
        p['pals'] = [0, 1, 2, 3, 5, 8, 9]
        p['dynflags'] = [32, 31, 63, 0]
        p['threads'] = [0, 1, 2]
    return p
