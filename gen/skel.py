"""Script generator for the skeleton alphabet (C01): create / destroy / destroyNow / clearArchetype /
update / lock / unlock from the owner thread and from dispatcher workers."""
import os

MAXTHREADS = os.cpu_count() or 16
KEYSETS = [[], [0], [1], [0, 1], [4], [0, 4]]


def gen_script(rng, max_ops, max_threads):
    T = rng.pick([0, 1, 2, 3, max_threads]) if max_threads > 0 else 0
    lines = ['maxthreads %d' % MAXTHREADS, 'threads %d' % max(T, 1)]
    for p in rng.pick([[0, 1, 4], [1, 0, 4], [4, 0, 1]]):
        lines.append('reg %d' % p)
    n_issued = 0
    alive = set()       # approximate, only to bias choices
    pending = []        # handles created in the current locked section
    depth = 0
    armed = False
    nops = rng.range(max_ops // 3, max_ops)
    keys = [rng.pick(KEYSETS) for _ in range(rng.range(1, 3))]
    def pick_handle():
        r = rng.below(100)
        if pending and r < 25:
            return rng.pick(pending)
        if alive and r < 80:
            return rng.pick(sorted(alive))
        if n_issued and r < 95:
            return rng.below(n_issued)           # possibly stale
        return n_issued + rng.below(3)           # not issued yet -> resolves to the null handle
    for _ in range(nops):
        tid = rng.below(T + 1) if (depth > 0 and armed) else 0
        choice = rng.weighted([('create', 34), ('destroynow', 18), ('destroy', 9), ('update', 6), ('lock', 9),
                               ('unlock', 12 if depth else 0), ('cleararch', 3), ('burst', 4)])
        if choice == 'create':
            lines.append(('create %d %s' % (tid, ' '.join(map(str, rng.pick(keys))))).rstrip())
            if depth:
                pending.append(n_issued)
            else:
                alive.add(n_issued)
            n_issued += 1
        elif choice == 'burst':
            k = rng.pick(keys)
            for _ in range(rng.range(2, 6)):
                t2 = rng.below(T + 1) if (depth > 0 and armed) else 0
                lines.append(('create %d %s' % (t2, ' '.join(map(str, k)))).rstrip())
                if depth:
                    pending.append(n_issued)
                else:
                    alive.add(n_issued)
                n_issued += 1
        elif choice == 'destroynow':
            h = pick_handle()
            lines.append('destroynow %d #%d' % (tid, h))
            if not depth:
                alive.discard(h)
            # same entity again right after (exercises packs of several commands)
            if depth and rng.chance(1, 4):
                lines.append('%s %d #%d' % (rng.pick(['destroy', 'destroynow']), tid, h))
        elif choice == 'destroy':
            h = pick_handle()
            lines.append('destroy %d #%d' % (tid, h))
            if depth and rng.chance(1, 3):
                lines.append('%s %d #%d' % (rng.pick(['destroy', 'destroynow']), tid, h))
        elif choice == 'update':
            if depth == 0:
                lines.append(rng.pick(['update', 'emupdate']))
        elif choice == 'cleararch':
            if depth == 0:
                lines.append(('cleararch ' + ' '.join(map(str, rng.pick(keys)))).rstrip())
        elif choice == 'lock':
            lines.append('lock')
            depth += 1
            if depth == 1 and T > 0 and rng.chance(3, 4):
                lines.append('arm')
                armed = True
        elif choice == 'unlock':
            if depth == 1 and armed:
                lines.append('disarm')
                armed = False
            lines.append('unlock')
            depth -= 1
            if depth == 0:
                alive.update(pending)
                pending = []
    while depth > 0:
        if depth == 1 and armed:
            lines.append('disarm')
            armed = False
        lines.append('unlock')
        depth -= 1
    lines.append('update')
    return lines


def corpus():
    """hand-written scripts aimed at the case splits of the proofs and at past defects"""
    hdr = ['maxthreads %d' % MAXTHREADS]
    c = []
    # the pinned tree's parallel-create defect: later-applied lower id was never installed
    c.append(('parallel_create_order', hdr + ['threads 2', 'reg 0', 'lock', 'arm', 'create 2 0', 'create 1 0', 'create 2 0', 'create 1 0',
                                             'disarm', 'unlock', 'destroynow 0 #0', 'destroynow 0 #1', 'create 0 0', 'create 0 0', 'create 0 0']))
    # create + destroyNow in one pack, destroy of a stale handle under lock, nested locks
    c.append(('pack_create_destroy', hdr + ['threads 1', 'reg 0', 'create 0 0', 'destroynow 0 #0', 'lock', 'lock', 'create 0 0', 'destroynow 0 #1',
                                           'destroynow 0 #0', 'destroy 0 #0', 'create 0 0', 'unlock', 'unlock', 'update', 'create 0 0', 'create 0 0']))
    # free list: empty / one / many; clearArchetype chains the whole archetype into the list
    c.append(('free_list_shapes', hdr + ['threads 1', 'reg 0', 'reg 1'] + ['create 0 0'] * 5 + ['create 0 1'] * 2 +
              ['destroynow 0 #2', 'create 0 0', 'cleararch 0', 'create 0 1', 'create 0 1', 'create 0 0', 'destroy 0 #1', 'destroy 0 #8', 'update',
               'create 0 0', 'create 0 0', 'create 0 0', 'create 0 0', 'create 0 0', 'create 0 0']))
    # another thread's buffer destroys an entity first; a command on a handle created by a later buffer
    c.append(('cross_buffer', hdr + ['threads 3', 'reg 0', 'create 0 0', 'create 0 0', 'lock', 'arm', 'destroynow 2 #0', 'destroy 1 #0', 'destroynow 1 #1',
                                    'create 3 0', 'destroynow 1 #2', 'destroy 2 #2', 'disarm', 'unlock', 'update', 'create 0 0']))
    return c
