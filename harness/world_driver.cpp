// world_driver: multi-world scripts (C17). Worlds are named by creation order (w0, w1, ...); handles by issue order
// across all worlds (#0, #1, ...).  After every operation: the id of every live world, and for every live world the
// validity, as seen by THAT world, of every handle ever issued by a still-living world, plus a digest of its id table.
#include <mustache/ecs/ecs.hpp>
#include <cstdio>
#include <fstream>
#include <iostream>
#include <map>
#include <memory>
#include <sstream>
#include <string>
#include <vector>
#include <sys/wait.h>
#include <unistd.h>

using namespace mustache;
struct C0 { int64_t v; };

struct Handle { Entity e; size_t world; };

struct ProbeMaster { int64_t v; };
struct ProbeDep { int64_t v; };
struct ProbeEvent { int v; };
struct C1 { int64_t v; };

static void run_script(const std::vector<std::string>& lines) {
    std::vector<std::unique_ptr<World>> worlds;      // null once destroyed
    std::vector<Handle> handles;
    std::shared_ptr<Dispatcher> shared_dispatcher;
    std::shared_ptr<MemoryManager> shared_memory;
    size_t opn = 0;
    for (const auto& line : lines) {
        std::istringstream in(line);
        std::string op;
        if (!(in >> op) || op[0] == '#') continue;
        printf("op %zu %s\n", opn++, line.c_str());
        fflush(stdout);
        if (op == "new" || op == "newshared" || op == "newdefault") {
            if (op == "newdefault") {
                worlds.push_back(std::make_unique<World>());                       // default (empty) context
            } else {
                WorldContext ctx;
                if (op == "newshared") {
                    if (!shared_dispatcher) { shared_dispatcher = std::make_shared<Dispatcher>(2); shared_memory = std::make_shared<MemoryManager>(); }
                    ctx.dispatcher = shared_dispatcher; ctx.memory_manager = shared_memory;
                } else {
                    ctx.memory_manager = std::make_shared<MemoryManager>();
                    ctx.dispatcher = std::make_shared<Dispatcher>(1);
                }
                worlds.push_back(std::make_unique<World>(ctx));
            }
            printf("R w%zu %u\n", worlds.size() - 1, worlds.back()->id().toInt());
        } else if (op == "del") {
            size_t k; in >> k; if (k < worlds.size()) worlds[k].reset(); printf("R\n");
        } else if (op == "create" || op == "lockcreate") {
            size_t k; in >> k;
            if (k < worlds.size() && worlds[k]) {
                auto& em = worlds[k]->entities();
                if (op == "lockcreate") em.lock();
                Entity e = em.create<C0>();
                if (op == "lockcreate") em.unlock();
                handles.push_back({e, k});
                printf("R #%zu\n", handles.size() - 1);
            } else printf("R\n");
        } else if (op == "destroynow") {
            size_t k, h; in >> k >> h;
            if (k < worlds.size() && worlds[k] && h < handles.size()) worlds[k]->entities().destroyNow(handles[h].e);
            printf("R\n");
        } else if (op == "probe") {
            // per-world configuration must take effect in every world: the same typed dependency is declared in each world that is probed
            size_t k; in >> k;
            if (k < worlds.size() && worlds[k]) {
                auto& em = worlds[k]->entities();
                em.addDependency<ProbeMaster, ProbeDep>();
                Entity e = em.create<ProbeMaster>();
                const bool d1 = em.hasComponent<ProbeDep>(e);
                Entity f = em.create<C0>();
                em.assign<ProbeMaster>(f);
                const bool d2 = em.hasComponent<ProbeDep>(f);
                printf("R probe create=%d assign=%d\n", d1 ? 1 : 0, d2 ? 1 : 0);
                em.destroyNow(e); em.destroyNow(f);
            } else printf("R\n");
        } else if (op == "destroypair") {
            // destroypair <k> <h> <g> <order>: world k is asked (unlocked) to destroy its own entity #h and, before or after it, handle #g of
            // another world; at the next update the own entity dies, the foreign request means nothing
            size_t k, h, g; int order; in >> k >> h >> g >> order;
            if (k < worlds.size() && worlds[k] && h < handles.size() && g < handles.size() && handles[h].world == k && handles[g].world != k
                && worlds[k]->entities().isEntityValid(handles[h].e)) {
                auto& em = worlds[k]->entities();
                if (order == 0) { em.destroy(handles[g].e); em.destroy(handles[h].e); } else { em.destroy(handles[h].e); em.destroy(handles[g].e); }
                worlds[k]->update();
                printf("R destroypair alive=%d\n", em.isEntityValid(handles[h].e) ? 1 : 0);
            } else printf("R\n");
        } else if (op == "lockedforeign") {
            // lockedforeign <k> <h> <g> <order>: in one locked section of world k, a command through world k's own handle #h and a
            // command through handle #g of ANOTHER world (often the same slot id), recorded next to each other. The foreign command
            // means nothing in world k; the own one takes effect. R: does #h have C1 afterwards, is it still alive
            size_t k, h, g; int order; in >> k >> h >> g >> order;
            if (k < worlds.size() && worlds[k] && h < handles.size() && g < handles.size() && handles[h].world == k && handles[g].world != k
                && worlds[k]->entities().isEntityValid(handles[h].e)) {
                auto& em = worlds[k]->entities();
                const bool had = em.hasComponent<C1>(handles[h].e);
                em.lock();
                if (order == 0) { if (!had) em.assign<C1>(handles[h].e); em.destroyNow(handles[g].e); }
                else if (order == 1) { em.destroyNow(handles[g].e); if (!had) em.assign<C1>(handles[h].e); }
                else { em.removeComponent<C0>(handles[g].e); if (!had) em.assign<C1>(handles[h].e); em.removeComponent<C1>(handles[g].e); }
                em.unlock();
                const bool alive = em.isEntityValid(handles[h].e);
                printf("R lockedforeign alive=%d c0=%d c1=%d\n", alive ? 1 : 0, alive && em.hasComponent<C0>(handles[h].e) ? 1 : 0, alive && em.hasComponent<C1>(handles[h].e) ? 1 : 0);
            } else printf("R\n");
        } else if (op == "evprobe") {
            // a receiver subscribed through world k's events() hears what is posted through world k, and nothing posted through
            // any other live world (none of the worlds here was given an event manager: each has its own)
            size_t k; in >> k;
            if (k < worlds.size() && worlds[k]) {
                int heard = 0;
                auto recv = worlds[k]->events().subscribe<ProbeEvent>([&heard](const ProbeEvent&) { ++heard; });
                int foreign = 0, live_n = 0;
                for (size_t j = 0; j < worlds.size(); ++j) {
                    if (!worlds[j] || j == k) continue;
                    ++live_n;
                    worlds[j]->events().post(ProbeEvent{int(j)});
                }
                foreign = heard;
                worlds[k]->events().post(ProbeEvent{int(k)});
                printf("R evprobe own=%d foreign=%d others=%d\n", heard - foreign, foreign, live_n);
            } else printf("R\n");
        } else if (op == "update") {
            size_t k; in >> k; if (k < worlds.size() && worlds[k]) worlds[k]->update(); printf("R\n");
        } else { printf("R unknown-op\n"); }
        printf("I");
        for (size_t k = 0; k < worlds.size(); ++k) if (worlds[k]) printf(" w%zu=%u", k, worlds[k]->id().toInt());
        printf("\n");
        for (size_t k = 0; k < worlds.size(); ++k) {
            if (!worlds[k]) continue;
            auto& em = worlds[k]->entities();
            printf("X w%zu ", k);
            for (auto& h : handles) {
                if (!worlds[h.world]) { putchar('-'); continue; }     // issued by a world that no longer exists: not judged
                putchar(em.isEntityValid(h.e) ? '1' : '0');
            }
            printf(" | slots=%zu free=%u next=%u archs=%zu ver=%u locked=%d\n", em.entities_.size(), em.empty_slots_, em.next_slot_.toInt(),
                   em.archetypes_.size(), worlds[k]->version().toInt(), em.isLocked() ? 1 : 0);
        }
        fflush(stdout);
    }
}

int main(int argc, char** argv) {
    if (argc < 2) return 2;
    std::ifstream f(argv[1]);
    std::vector<std::pair<std::string, std::vector<std::string>>> scripts;
    std::string line;
    while (std::getline(f, line)) {
        if (line.rfind("====", 0) == 0) { scripts.push_back({line.substr(4), {}}); continue; }
        if (scripts.empty()) scripts.push_back({" anon", {}});
        scripts.back().second.push_back(line);
    }
    for (auto& [name, lines] : scripts) {
        printf("====%s\n", name.c_str());
        fflush(stdout);
        pid_t pid = fork();
        if (pid == 0) { alarm(120); run_script(lines); fflush(stdout); _exit(0); }
        int status = 0; waitpid(pid, &status, 0);
        if (WIFSIGNALED(status)) printf("\nCRASH signal=%d\n", WTERMSIG(status));
        else if (WEXITSTATUS(status) != 0) printf("\nCRASH exit=%d\n", WEXITSTATUS(status));
        fflush(stdout);
    }
    return 0;
}
