// disp_driver: dispatcher scenarios (C08, C06b). One dispatcher per scenario is traced through the guarded
// schedule-point hook (events in one global order); task bodies keep their own execution counters, start/finish
// order, observed thread ids and concurrency, from which the property itself is judged (tier A).
#include <mustache/utils/invoke.hpp>
#include <mustache/utils/dispatch.hpp>
#include <algorithm>
#include <atomic>
#include <chrono>
#include <cstdio>
#include <fstream>
#include <iostream>
#include <mutex>
#include <set>
#include <sstream>
#include <string>
#include <thread>
#include <vector>
#include <sys/wait.h>
#include <unistd.h>

using namespace mustache;
extern "C" { extern void (*mustache_verif_sched)(int point, unsigned thread, unsigned queue, unsigned value); }

struct Ev { uint64_t seq; int point; unsigned thread, queue, value; };
static std::atomic<uint64_t> g_seq{0};
static std::mutex g_ev_mutex;
static std::vector<Ev> g_events;
static std::atomic<uint64_t> g_rng{88172645463325252ull};
static std::atomic<int> g_yield_permille{0};

static uint64_t next_rand() {
    uint64_t x = g_rng.fetch_add(0x9E3779B97F4A7C15ull) + 0x9E3779B97F4A7C15ull;
    x = (x ^ (x >> 30)) * 0xBF58476D1CE4E5B9ull; x = (x ^ (x >> 27)) * 0x94D049BB133111EBull; return x ^ (x >> 31);
}
// threads of a SECOND dispatcher (touchother) are not part of the recorded trace: a thread whose first schedule point falls into
// the window in which that dispatcher starts is one of its workers, for good
static std::atomic<bool> g_other_starting{false};
static thread_local bool t_mute = false;      // the calling thread is acting on the other dispatcher right now
static void sched_hook(int point, unsigned thread, unsigned queue, unsigned value) {
    if (t_mute) return;
    static thread_local int t_owner = 0;      // 0 unknown, 1 first dispatcher (or the main thread), 2 the other one
    if (t_owner == 0) t_owner = g_other_starting.load() ? 2 : 1;
    if (t_owner == 2) return;
    const uint64_t s = g_seq.fetch_add(1);
    if (point != 14 && point != 16) {       // unsuccessful barrier reads are not recorded one by one
        std::lock_guard<std::mutex> lock{g_ev_mutex};
        g_events.push_back(Ev{s, point, thread, queue, value});
    }
    const int p = g_yield_permille.load();
    if (p > 0) {
        const uint64_t r = next_rand() % 1000;
        if (r < uint64_t(p)) { if (r % 3 == 0) std::this_thread::sleep_for(std::chrono::microseconds(20 + r % 80)); else std::this_thread::yield(); }
    }
}

struct TaskRec { std::atomic<int> runs{0}; std::atomic<uint64_t> begin{0}, end{0}; std::atomic<unsigned> tid{~0u}; int queue; int id; };
static std::vector<std::unique_ptr<TaskRec>> g_tasks;
static std::mutex g_run_mutex;
static std::set<unsigned> g_running_tids;
static std::atomic<int> g_tid_clash{0}, g_tid_range{0};
static std::atomic<int> g_serial_running[16];
static std::atomic<int> g_serial_max[16];
static unsigned g_thread_count = 0;

static Dispatcher* g_disp = nullptr;          // the dispatcher the recorded tasks run on
static std::atomic<int> g_tid_mismatch{0};     // a task whose thread id, asked from its own dispatcher, is not the id it was handed
static Job make_task(int queue, int id, int work) {
    g_tasks.push_back(std::make_unique<TaskRec>());
    TaskRec* rec = g_tasks.back().get(); rec->queue = queue; rec->id = id;
    return [rec, queue, work](ThreadId tid) {
        rec->begin = g_seq.fetch_add(1);
        rec->tid = tid.toInt();
        if (tid.toInt() > g_thread_count) g_tid_range++;
        if (g_disp && g_disp->currentThreadId() != tid) g_tid_mismatch++;
        { std::lock_guard<std::mutex> lock{g_run_mutex}; if (!g_running_tids.insert(tid.toInt()).second) g_tid_clash++; }
        if (queue > 0) { int r = ++g_serial_running[queue]; int m = g_serial_max[queue].load(); while (r > m && !g_serial_max[queue].compare_exchange_weak(m, r)) {} }
        volatile uint64_t x = 0; for (int i = 0; i < work; ++i) x += i;
        if (work % 7 == 0) std::this_thread::yield();
        if (queue > 0) --g_serial_running[queue];
        { std::lock_guard<std::mutex> lock{g_run_mutex}; g_running_tids.erase(tid.toInt()); }
        rec->runs++;
        rec->end = g_seq.fetch_add(1);
    };
}

// during churn: a worker that is about to wait (it has checked the shutdown flag under the mutex) is held for a moment, so a
// shutdown that does not synchronise with that check through the mutex loses its wake-up visibly
static void churn_hook(int point, unsigned, unsigned, unsigned) {
    if (point == 2) std::this_thread::sleep_for(std::chrono::microseconds(30));
}

static void run_script(const std::vector<std::string>& lines) {
    std::unique_ptr<Dispatcher> disp;
    std::vector<Queue> queues;
    std::vector<int> next_id(16, 0);
    mustache_verif_sched = &sched_hook;
    size_t opn = 0;
    for (const auto& line : lines) {
        std::istringstream in(line);
        std::string op;
        if (!(in >> op) || op[0] == '#') continue;
        printf("op %zu %s\n", opn++, line.c_str()); fflush(stdout);
        std::ostringstream R;
        if (op == "seed") { uint64_t s; int permille; in >> s >> permille; g_rng = s * 2654435761ull + 1; g_yield_permille = permille; }
        else if (op == "disp") { unsigned n; in >> n; disp = std::make_unique<Dispatcher>(n); g_disp = disp.get(); g_thread_count = disp->threadCount(); R << g_thread_count; }
        else if (op == "queue") { queues.push_back(disp->createQueue("q" + std::to_string(queues.size()))); R << queues.size(); }
        else if (op == "par") { int k; in >> k; for (int i = 0; i < k; ++i) disp->addParallelTask(make_task(0, next_id[0]++, int(next_rand() % 3000))); }
        else if (op == "async") { size_t q; int k; in >> q >> k; for (int i = 0; i < k; ++i) queues[q - 1].async(make_task(int(q), next_id[q]++, int(next_rand() % 3000))); }
        else if (op == "waitpar" || op == "waitq") {
            size_t q = 0; if (op == "waitq") in >> q;
            // every task of this queue submitted so far must have run exactly once when wait returns, and its end precedes the return
            std::vector<TaskRec*> mine; for (auto& t : g_tasks) if (size_t(t->queue) == q) mine.push_back(t.get());
            if (q == 0) disp->waitForParallelFinish(); else queues[q - 1].wait();
            const uint64_t ret = g_seq.fetch_add(1);
            int not_once = 0, late = 0;
            for (auto* t : mine) { if (t->runs.load() != 1) not_once++; else if (t->end.load() > ret) late++; }
            R << "tasks=" << mine.size() << " not_once=" << not_once << " late=" << late;
        }
        else if (op == "pfor") { size_t b, e; uint32_t tc = 0; in >> b >> e; in >> tc;
            std::vector<std::atomic<int>> hits(e > b ? e - b : 0);
            for (auto& h : hits) h = 0;
            std::atomic<int> oob{0};
            disp->parallelFor([&](size_t i, ParallelTaskId) { if (i < b || i >= e) oob++; else hits[i - b]++; }, b, e, tc);
            int bad = 0; for (auto& h : hits) if (h.load() != 1) bad++;
            R << "indices=" << hits.size() << " not_once=" << bad << " oob=" << oob.load();
        }
        else if (op == "churn") { // churn <count> <workers>: dispatchers destroyed while their workers are still busy or starting
            int count; unsigned w; in >> count >> w;
            auto* saved = mustache_verif_sched; mustache_verif_sched = &churn_hook;      // not part of the recorded trace
            std::atomic<int> ran{0};
            for (int i = 0; i < count; ++i) {
                auto dsp = std::make_unique<Dispatcher>(w);
                // trial i gives the first (i mod (w+1)) workers one short task of staggered length: workers are idle, starting, running or just done
                for (unsigned k = 0; k < unsigned(i) % (w + 1); ++k) dsp->addParallelTask([&ran, k, i](ThreadId) { volatile int x = 0; for (unsigned j = 0; j < 50 + 97 * k + 13 * (unsigned(i) % 23); ++j) x += j; ran++; });
                alarm(10);        // a destructor that never returns ends the script with SIGALRM
                dsp.reset();
                alarm(0);
            }
            mustache_verif_sched = saved;
            R << "destroyed=" << count;
        }
        else if (op == "touchother") {
            // a second dispatcher is alive; every worker of the first one asks THAT one for its thread id (it is not one of its threads:
            // the answer is 0), before and between the recorded tasks, which ask their own dispatcher
            int k; in >> k;
            // the schedule hook cannot tell two dispatchers apart: the first one is brought to rest (all its workers parked) and the
            // hook is switched off while the second one starts and stops, so the recorded trace stays the first dispatcher's own
            disp->waitForParallelFinish();
            for (auto& q : queues) q.wait();
            g_other_starting = true;                 // its worker's first schedule point (loop top) marks that thread as foreign
            t_mute = true;                           // the main thread's own calls on behalf of the other dispatcher are not recorded;
            auto other = std::make_unique<Dispatcher>(1);   // the first dispatcher's workers stay recorded all the time
            other->waitForParallelFinish();          // until its worker has passed its first schedule points and is parked
            t_mute = false;
            g_other_starting = false;
            std::atomic<int> wrong{0};
            for (int i = 0; i < k; ++i) disp->addParallelTask([&](ThreadId) { if (other->currentThreadId().toInt() != 0u) wrong++; std::this_thread::yield(); });
            disp->waitForParallelFinish();
            t_mute = true;
            other.reset();
            t_mute = false;
            g_tid_mismatch += wrong.load();
        }
        else if (op == "single") { int on; in >> on; disp->setSingleThreadMode(on != 0); }
        else if (op == "sleep") { int us; in >> us; std::this_thread::sleep_for(std::chrono::microseconds(us)); }
        else if (op == "del") {
            const uint64_t t0 = g_seq.fetch_add(1);
            queues.clear(); disp.reset();
            const uint64_t t1 = g_seq.fetch_add(1);
            int started_during = 0, twice = 0, running_after = 0;
            for (auto& t : g_tasks) { if (t->runs.load() > 1) twice++; if (t->begin.load() > t0) started_during++; if (t->begin.load() != 0 && t->end.load() == 0) running_after++; }
            (void) t1;
            R << "twice=" << twice << " started_after_teardown_began=" << started_during << " running_after=" << running_after;
        }
        else R << "unknown-op";
        printf("R %s\n", R.str().c_str());
        fflush(stdout);
    }
    if (disp) { queues.clear(); disp.reset(); }
    // summary (tier A) and the trace (tier B)
    int never = 0, twice = 0; for (auto& t : g_tasks) { if (t->runs.load() == 0) never++; if (t->runs.load() > 1) twice++; }
    int smax = 0; for (int q = 1; q < 16; ++q) smax = std::max(smax, g_serial_max[q].load());
    // serial order: begin order equals id order per serial queue
    int order_bad = 0;
    for (int q = 1; q < 16; ++q) { uint64_t last = 0; for (auto& t : g_tasks) if (t->queue == q && t->runs.load() == 1) { if (t->begin.load() < last) order_bad++; last = t->begin.load(); } }
    printf("op %zu (summary)\nA twice=%d serial_max_concurrent=%d serial_order_violations=%d tid_clash=%d tid_out_of_range=%d tid_mismatch=%d\n", opn, twice, smax, order_bad, g_tid_clash.load(), g_tid_range.load(), g_tid_mismatch.load());
    std::sort(g_events.begin(), g_events.end(), [](const Ev& a, const Ev& b) { return a.seq < b.seq; });
    printf("T");
    for (auto& e : g_events) printf(" %d:%u:%u:%u", e.point, e.thread, e.queue, e.value);
    printf("\n");
}

int main(int argc, char** argv) {
    if (argc < 2) return 2;
    std::ifstream f(argv[1]);
    std::vector<std::pair<std::string, std::vector<std::string>>> scripts;
    std::string line;
    while (std::getline(f, line)) {
        if (line.rfind("====", 0) == 0) { scripts.push_back({line.substr(4), {}}); continue; }
        if (scripts.empty()) scripts.push_back({" anon", {}});
        scripts.back().second.push_back(line);
    }
    for (auto& [name, lines] : scripts) {
        printf("====%s\n", name.c_str()); fflush(stdout);
        pid_t pid = fork();
        if (pid == 0) { alarm(60); run_script(lines); fflush(stdout); _exit(0); }
        int status = 0; waitpid(pid, &status, 0);
        if (WIFSIGNALED(status)) printf("\nCRASH signal=%d\n", WTERMSIG(status));
        else if (WEXITSTATUS(status) != 0) printf("\nCRASH exit=%d\n", WEXITSTATUS(status));
        fflush(stdout);
    }
    return 0;
}
