// layout_driver: for each line "lay <cap> <size> <align> ..." registers fresh run-time described components with
// those sizes/alignments (in that order), builds their archetype with storage chunk capacity <cap>, creates
// 2*cap+1 entities and prints the column offsets, chunk size and chunk alignment (tier B) and a verdict on every
// address handed out: aligned, inside its chunk, not overlapping another component's range (tier A).
#include <mustache/ecs/ecs.hpp>
#include <mustache/ecs/default_component_data_storage.hpp>
#include <cstdio>
#include <fstream>
#include <iostream>
#include <sstream>
#include <string>
#include <vector>
#include <sys/wait.h>
#include <unistd.h>

using namespace mustache;
extern uint32_t mustache_verif_chunk_capacity;

static void run_line(const std::string& line, int lineno) {
    std::istringstream in(line);
    std::string op; uint32_t cap;
    in >> op >> cap;
    std::vector<std::pair<size_t, size_t>> comps; size_t sz, al;
    while (in >> sz >> al) comps.push_back({sz, al});
    mustache_verif_chunk_capacity = cap;
    WorldContext ctx; ctx.memory_manager = std::make_shared<MemoryManager>(); ctx.dispatcher = std::make_shared<Dispatcher>(1);
    World world{ctx};
    ComponentIdMask mask; std::vector<ComponentId> ids;
    for (size_t i = 0; i < comps.size(); ++i) {
        ComponentInfo info; info.name = "ly_" + std::to_string(lineno) + "_" + std::to_string(i);
        info.size = comps[i].first; info.align = comps[i].second; info.type_id_hash_code = std::hash<std::string>{}(info.name);
        ids.push_back(ComponentFactory::instance().componentId(info)); mask.set(ids.back(), true);
    }
    auto& arch = world.entities().getArchetype(mask, SharedComponentsInfo::null());
    auto* st = static_cast<DefaultComponentDataStorage*>(arch.data_storage_.get());
    std::vector<Entity> es;
    for (uint32_t i = 0; i < 2 * cap + 1; ++i) es.push_back(world.entities().create(arch));
    printf("L");
    for (size_t k = 0; k < st->component_getter_info_.size(); ++k) printf(" %u", st->component_getter_info_[ComponentIndex::make(k)].offset.toInt());
    printf(" | %u %u\n", st->chunk_size_, st->chunk_align_);
    std::string verdict = "ok";
    for (size_t e = 0; e < es.size() && verdict == "ok"; ++e) {
        std::vector<std::pair<uintptr_t, uintptr_t>> ranges;
        for (size_t k = 0; k < ids.size(); ++k) {
            const void* p = world.entities().getComponent<true>(es[e], ids[k]);
            const uintptr_t a = reinterpret_cast<uintptr_t>(p);
            if (p == nullptr) { verdict = "null component " + std::to_string(k); break; }
            if (a % comps[k].second != 0) { verdict = "misaligned component " + std::to_string(k) + " entity " + std::to_string(e); break; }
            const std::byte* chunk = st->chunks_[ChunkIndex::make(e / cap)];
            const uintptr_t c0 = reinterpret_cast<uintptr_t>(chunk);
            if (a < c0 || a + comps[k].first > c0 + st->chunk_size_) { verdict = "out of chunk bounds component " + std::to_string(k); break; }
            for (auto& r : ranges) if (comps[k].first > 0 && a < r.second && r.first < a + comps[k].first) { verdict = "overlapping components"; }
            ranges.push_back({a, a + comps[k].first});
        }
    }
    printf("A %s\n", verdict.c_str());
}

int main(int argc, char** argv) {
    if (argc < 2) return 2;
    std::ifstream f(argv[1]);
    std::string line; int lineno = 0;
    while (std::getline(f, line)) {
        if (line.rfind("====", 0) == 0) { printf("%s\n", line.c_str()); fflush(stdout); continue; }
        if (line.empty() || line[0] == '#') continue;
        printf("op %d %s\n", lineno, line.c_str()); fflush(stdout);
        pid_t pid = fork();
        if (pid == 0) { alarm(30); run_line(line, lineno); fflush(stdout); _exit(0); }
        int status = 0; waitpid(pid, &status, 0);
        if (WIFSIGNALED(status)) printf("CRASH signal=%d\n", WTERMSIG(status));
        else if (WEXITSTATUS(status) != 0) printf("CRASH exit=%d\n", WEXITSTATUS(status));
        fflush(stdout);
        ++lineno;
    }
    return 0;
}
