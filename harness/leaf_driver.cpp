// leaf_driver: evaluates the real inline functions of ecs/entity.hpp and ecs/id_deff.hpp on the
// inputs of a script (one operation per line, decimal numbers) and prints one canonical line each.
#include <mustache/ecs/entity.hpp>
#include <cinttypes>
#include <cstdio>
#include <cstring>
#include <iostream>
#include <sstream>
#include <string>

using namespace mustache;

int main() {
    std::string line;
    while (std::getline(std::cin, line)) {
        std::istringstream in(line);
        std::string op;
        if (!(in >> op)) continue;
        uint64_t a = 0, b = 0, c = 0;
        if (op == "pack") {
            in >> a >> b >> c;
            Entity e{EntityId::make(static_cast<uint32_t>(a)), EntityVersion::make(static_cast<uint32_t>(b)),
                     WorldId::make(static_cast<uint32_t>(c))};
            printf("pack %" PRIu64 " %u %u %u\n", e.value, e.id().toInt(), e.version().toInt(), e.worldId().toInt());
        } else if (op == "unpack") {
            in >> a;
            Entity e = Entity::makeFromValue(a);
            printf("unpack %u %u %u %d\n", e.id().toInt(), e.version().toInt(), e.worldId().toInt(), e.isNull() ? 1 : 0);
        } else if (op == "next") {
            in >> a;
            Entity e = Entity::makeFromValue(a);
            Entity n = e.makeEntityWithNextVersion();
            e.incrementVersion();
            printf("next %" PRIu64 " %" PRIu64 "\n", n.value, e.value);
        } else if (op == "setver") {
            in >> a >> b;
            Entity e = Entity::makeFromValue(a);
            e.setVersion(EntityVersion::make(static_cast<uint32_t>(b)));
            printf("setver %" PRIu64 "\n", e.value);
        } else if (op == "reset2") {
            in >> a >> b >> c;
            Entity e = Entity::makeFromValue(a);
            e.reset(EntityId::make(static_cast<uint32_t>(b)), EntityVersion::make(static_cast<uint32_t>(c)));
            printf("reset2 %" PRIu64 "\n", e.value);
        } else if (op == "reset1") {
            in >> a >> b;
            Entity e = Entity::makeFromValue(a);
            e.reset(EntityId::make(static_cast<uint32_t>(b)));
            printf("reset1 %" PRIu64 "\n", e.value);
        } else if (op == "reset0") {
            in >> a;
            Entity e = Entity::makeFromValue(a);
            e.reset();
            printf("reset0 %" PRIu64 "\n", e.value);
        } else if (op == "eq") {
            in >> a >> b;
            Entity x = Entity::makeFromValue(a), y = Entity::makeFromValue(b);
            printf("eq %d %d %d\n", x == y ? 1 : 0, x != y ? 1 : 0, x < y ? 1 : 0);
        } else if (op == "align") {
            in >> a >> b;
            const auto off = ComponentOffset::make(static_cast<uint32_t>(a));
            printf("align %u %u\n", off.alignAs(static_cast<uint32_t>(b)).toInt(),
                   ComponentOffset::makeAligned(off, static_cast<uint32_t>(b)).toInt());
        } else if (op == "split") {
            in >> a >> b;
            const auto idx = ComponentStorageIndex::make(static_cast<uint32_t>(a));
            const auto cap = ChunkCapacity::make(static_cast<uint32_t>(b));
            printf("split %u %u\n", (idx / cap).toInt(), (idx % cap).toInt());
        } else {
            printf("?? %s\n", op.c_str());
        }
    }
    return 0;
}
