// sys_driver: system-manager scripts (C14). Systems are Sys<0..11>; their configuration comes from a table the
// script fills; every lifecycle callback is logged.  The order of updates is observed through the callback log.
#include <mustache/ecs/ecs.hpp>
#include <cstdio>
#include <fstream>
#include <iostream>
#include <memory>
#include <sstream>
#include <string>
#include <vector>
#include <sys/wait.h>
#include <unistd.h>

using namespace mustache;

struct Cfg { std::vector<int> before, after; int group = 0; int prio = 0; };
static Cfg g_cfg[12];
static std::vector<std::string> g_log;
static std::string sys_name(int n);

template<int N>
struct Sys : public System<Sys<N>> {
    void onCreate(World&) override { g_log.push_back(std::to_string(N) + ":create"); }
    void onConfigure(World&, SystemConfig& config) override {
        g_log.push_back(std::to_string(N) + ":configure");
        config = SystemConfig{};
        for (int b : g_cfg[N].before) config.update_before.insert(sys_name(b));
        for (int a : g_cfg[N].after) config.update_after.insert(sys_name(a));
        config.update_group = g_cfg[N].group == 0 ? std::string{} : "g" + std::to_string(g_cfg[N].group);
        config.priority = g_cfg[N].prio;
    }
    void onStart(World&) override { g_log.push_back(std::to_string(N) + ":start"); }
    void onUpdate(World&) override { g_log.push_back(std::to_string(N) + ":update"); }
    void onPause(World&) override { g_log.push_back(std::to_string(N) + ":pause"); }
    void onStop(World&) override { g_log.push_back(std::to_string(N) + ":stop"); }
    void onResume(World&) override { g_log.push_back(std::to_string(N) + ":resume"); }
    void onDestroy(World&) override { g_log.push_back(std::to_string(N) + ":destroy"); }
};

template<int N> static std::shared_ptr<ASystem> make_sys() { return std::make_shared<Sys<N>>(); }
static std::shared_ptr<ASystem> make(int n) {
    switch (n) { case 0: return make_sys<0>(); case 1: return make_sys<1>(); case 2: return make_sys<2>(); case 3: return make_sys<3>();
                 case 4: return make_sys<4>(); case 5: return make_sys<5>(); case 6: return make_sys<6>(); case 7: return make_sys<7>();
                 case 8: return make_sys<8>(); case 9: return make_sys<9>(); case 10: return make_sys<10>(); default: return make_sys<11>(); }
}
static std::string sys_name(int n) {
    switch (n) { case 0: return Sys<0>::systemName(); case 1: return Sys<1>::systemName(); case 2: return Sys<2>::systemName(); case 3: return Sys<3>::systemName();
                 case 4: return Sys<4>::systemName(); case 5: return Sys<5>::systemName(); case 6: return Sys<6>::systemName(); case 7: return Sys<7>::systemName();
                 case 8: return Sys<8>::systemName(); case 9: return Sys<9>::systemName(); case 10: return Sys<10>::systemName(); default: return Sys<11>::systemName(); }
}
static const char* state_name(SystemState s) {
    switch (s) { case SystemState::kUninit: return "uninit"; case SystemState::kInited: return "inited"; case SystemState::kConfigured: return "configured";
                 case SystemState::kStopped: return "stopped"; case SystemState::kActive: return "active"; default: return "paused"; }
}
static std::vector<int> parse_list(const std::string& s) {
    std::vector<int> r; std::istringstream in(s); std::string tok;
    while (std::getline(in, tok, ',')) if (!tok.empty()) r.push_back(std::stoi(tok));
    return r;
}

static void run_script(const std::vector<std::string>& lines) {
    WorldContext ctx; ctx.memory_manager = std::make_shared<MemoryManager>(); ctx.dispatcher = std::make_shared<Dispatcher>(1);
    auto world = std::make_unique<World>(ctx);
    (void) world->systems();   // the manager is created on first use; scripts address the manager from the start
    std::vector<std::pair<int, std::shared_ptr<ASystem>>> systems;   // every system ever added (kept alive to read its state)
    size_t opn = 0;
    for (const auto& line : lines) {
        std::istringstream in(line);
        std::string op;
        if (!(in >> op) || op[0] == '#') continue;
        printf("op %zu %s\n", opn++, line.c_str());
        fflush(stdout);
        g_log.clear();
        bool thrown = false; std::string what;
        try {
            if (op == "add") {
                int n; in >> n; Cfg c; std::string tok;
                while (in >> tok) {
                    if (tok.rfind("p=", 0) == 0) c.prio = std::stoi(tok.substr(2));
                    else if (tok.rfind("g=", 0) == 0) c.group = std::stoi(tok.substr(2));
                    else if (tok.rfind("b=", 0) == 0) c.before = parse_list(tok.substr(2));
                    else if (tok.rfind("a=", 0) == 0) c.after = parse_list(tok.substr(2));
                }
                g_cfg[n] = c;
                auto s = make(n); systems.push_back({n, s});
                world->systems().addSystem(s);
            } else if (op == "remove") { int n; in >> n; world->systems().removeSystem(sys_name(n)); }
            else if (op == "init") { world->init(); }
            else if (op == "update") { world->update(); }
            else if (op == "setgroup") { int g, p; in >> g >> p; world->systems().setGroupPriority(g == 0 ? std::string{} : "g" + std::to_string(g), p); }
            else if (op == "teardown") { world.reset(); }
            else if (op == "pause" || op == "resume" || op == "stop") {
                // the user drives the lifecycle of a registered system directly (ASystem::pause / resume / stop are public)
                int n; in >> n; std::shared_ptr<ASystem> target;
                for (auto& [k, s] : systems) if (k == n) target = s;
                if (target) { if (op == "pause") target->pause(*world); else if (op == "resume") target->resume(*world); else target->stop(*world); }
            }
        } catch (const std::exception& e) { thrown = true; what = e.what(); }
        if (thrown) { printf("THROW\n"); fflush(stdout); break; }
        printf("E");
        for (auto& e : g_log) printf(" %s", e.c_str());
        printf("\nT");
        for (auto& [n, s] : systems) printf(" %d=%s", n, state_name(s->state()));
        printf("\n");
        fflush(stdout);
        if (thrown || !world) break;
    }
}

int main(int argc, char** argv) {
    if (argc < 2) return 2;
    std::ifstream f(argv[1]);
    std::vector<std::pair<std::string, std::vector<std::string>>> scripts;
    std::string line;
    while (std::getline(f, line)) {
        if (line.rfind("====", 0) == 0) { scripts.push_back({line.substr(4), {}}); continue; }
        if (scripts.empty()) scripts.push_back({" anon", {}});
        scripts.back().second.push_back(line);
    }
    for (auto& [name, lines] : scripts) {
        printf("====%s\n", name.c_str());
        fflush(stdout);
        pid_t pid = fork();
        if (pid == 0) { alarm(30); run_script(lines); fflush(stdout); _exit(0); }
        int status = 0; waitpid(pid, &status, 0);
        if (WIFSIGNALED(status)) printf("\nCRASH signal=%d\n", WTERMSIG(status));
        else if (WEXITSTATUS(status) != 0) printf("\nCRASH exit=%d\n", WEXITSTATUS(status));
        fflush(stdout);
    }
    return 0;
}
