#pragma once
#define MUSTACHE_EXPORT
