// capi_driver: runs scripts through the C interface ONLY (c_api.h); own translation unit because the global C names
// (World, Entity, ...) clash with namespace mustache.  The scripts are the C-expressible subset of the em_driver
// scripts (run-time described components 8..11, archetype-based creation, assign/remove by id, jobs) plus the
// system scripts of sys_driver; the output uses the same canonical lines, so it can be compared with em_driver /
// sys_driver and with the extracted models.
#include <mustache/c_api.h>

#include <cstdint>
#include <cstdio>
#include <cstring>
#include <fstream>
#include <iostream>
#include <map>
#include <sstream>
#include <string>
#include <vector>
#include <algorithm>
#include <sys/wait.h>
#include <unistd.h>

static const int kNumPal = 12;
static ComponentId g_cid[kNumPal];
static bool g_reg[kNumPal] = {false};
static int g_flags[kNumPal] = {0};
static std::vector<int> g_order;

// calls of the optional lifecycle functions of described components, by kind (printed as the D line: the C and the C++
// interface must call the same functions the same number of times)
static long g_dyn_calls[5] = {0, 0, 0, 0, 0};   // create, copy, move (assignment), move constructor, destroy
template<int PAL> static void c_create(void* p, Entity, World*) { int64_t v = 1000 + PAL; memcpy(p, &v, 8); g_dyn_calls[0]++; }
static void c_copy(void* d, const void* s) { memcpy(d, s, 8); g_dyn_calls[1]++; }
static void c_move(void* d, void* s) { memcpy(d, s, 8); g_dyn_calls[2]++; }
static void c_mctor(void* d, void* s) { memcpy(d, s, 8); g_dyn_calls[3]++; }
static void c_destroy(void*) { g_dyn_calls[4]++; }
static int64_t g_defaults[kNumPal];
static std::string g_names[kNumPal];

static void do_register(int pal, int flags) {
    if (g_reg[pal]) return;
    TypeInfo info{};
    g_names[pal] = "verif_c_dyn_" + std::to_string(pal);
    info.size = 8; info.align = 8; info.name = g_names[pal].c_str();
    if (flags & 1) { switch (pal) { case 8: info.functions.create = &c_create<8>; break; case 9: info.functions.create = &c_create<9>; break;
                                    case 10: info.functions.create = &c_create<10>; break; default: info.functions.create = &c_create<11>; break; } }
    if (flags & 2) info.functions.copy = &c_copy;
    if (flags & 4) info.functions.move = &c_move;
    if (flags & 8) info.functions.move_constructor = &c_mctor;
    if (flags & 16) info.functions.destroy = &c_destroy;
    if (flags & 32) { g_defaults[pal] = 2000 + pal; info.default_value = &g_defaults[pal]; }
    g_cid[pal] = registerComponent(info);
    g_reg[pal] = true; g_flags[pal] = flags; g_order.push_back(pal);
}

// ---- systems through the C interface ----
struct SysCfg { std::vector<std::string> before, after; int group = 0; int prio = 0; std::string gname; std::vector<const char*> bptr, aptr; };
static SysCfg g_syscfg[12];
static std::vector<std::string> g_log;
static std::string g_sysname[12];
template<int N> struct SysCb {
    static void on_create(World*, void*) { g_log.push_back(std::to_string(N) + ":create"); }
    static void on_configure(World*, SystemConfig* cfg, void*) {
        g_log.push_back(std::to_string(N) + ":configure");
        auto& c = g_syscfg[N];
        c.bptr.clear(); c.aptr.clear();
        for (auto& s : c.before) c.bptr.push_back(s.c_str());
        for (auto& s : c.after) c.aptr.push_back(s.c_str());
        c.gname = c.group == 0 ? std::string{} : "g" + std::to_string(c.group);
        cfg->update_group = c.gname.c_str();
        cfg->update_before = c.bptr.empty() ? nullptr : c.bptr.data(); cfg->update_before_size = uint32_t(c.bptr.size());
        cfg->update_after = c.aptr.empty() ? nullptr : c.aptr.data(); cfg->update_after_size = uint32_t(c.aptr.size());
        cfg->priority = c.prio;
    }
    static void on_start(World*, void*) { g_log.push_back(std::to_string(N) + ":start"); }
    static void on_update(World*, void*) { g_log.push_back(std::to_string(N) + ":update"); }
    static void on_pause(World*, void*) { g_log.push_back(std::to_string(N) + ":pause"); }
    static void on_stop(World*, void*) { g_log.push_back(std::to_string(N) + ":stop"); }
    static void on_resume(World*, void*) { g_log.push_back(std::to_string(N) + ":resume"); }
    static void on_destroy(World*, void*) { g_log.push_back(std::to_string(N) + ":destroy"); }
    static SystemDescriptor descriptor() {
        SystemDescriptor d{}; g_sysname[N] = "csys" + std::to_string(N); d.name = g_sysname[N].c_str();
        d.on_create = &on_create; d.on_configure = &on_configure; d.on_start = &on_start; d.on_update = &on_update;
        d.on_pause = &on_pause; d.on_stop = &on_stop; d.on_resume = &on_resume; d.on_destroy = &on_destroy;
        return d;
    }
};
static SystemDescriptor sys_descriptor(int n) {
    switch (n) { case 0: return SysCb<0>::descriptor(); case 1: return SysCb<1>::descriptor(); case 2: return SysCb<2>::descriptor();
                 case 3: return SysCb<3>::descriptor(); case 4: return SysCb<4>::descriptor(); case 5: return SysCb<5>::descriptor();
                 case 6: return SysCb<6>::descriptor(); case 7: return SysCb<7>::descriptor(); case 8: return SysCb<8>::descriptor();
                 case 9: return SysCb<9>::descriptor(); case 10: return SysCb<10>::descriptor(); default: return SysCb<11>::descriptor(); }
}

// ---- jobs ----
struct JobInfo { Job* job; std::vector<JobArgInfo> args; std::vector<ComponentId> check; bool want_entity; };
static std::vector<JobInfo> g_jobs;
static std::vector<Entity> g_handles;
static std::vector<std::pair<uint32_t, std::string>> g_arrays;
static size_t g_cur_job = 0;
static std::string hname(Entity e) {
    for (size_t k = 0; k < g_handles.size(); ++k) if (g_handles[k] == e) return "#" + std::to_string(k);
    return "r?";
}
static std::vector<std::string> g_job_do;      // structural calls the callback of the next runjob makes while it handles entity 0
static World* g_job_world = nullptr;
static void do_job_acts();
static void job_callback(Job*, JobForEachArrayArg* a) {
    if (a->invocation_index.entity_index == 0 && a->array_size > 0 && !g_job_do.empty()) do_job_acts();
    auto& ji = g_jobs[g_cur_job];
    std::ostringstream s;
    s << "t" << a->invocation_index.task_index << ":n" << a->invocation_index.entity_index << ":";
    for (uint32_t i = 0; i < a->array_size; ++i) {
        if (i) s << ",";
        s << (a->entities ? hname(a->entities[i]) : std::string("?"));
        for (size_t c = 0; c < ji.args.size(); ++c) {
            auto* base = static_cast<char*>(a->components[c]);
            if (!base) { s << "/null"; continue; }
            int64_t v; memcpy(&v, base + i * 8, 8); s << "/" << v;
        }
    }
    g_arrays.push_back({a->invocation_index.entity_index, s.str()});
}

static Entity parse_handle(const std::string& tok) {
    if (tok.size() > 1 && tok[0] == '#') { size_t k = std::stoul(tok.substr(1)); if (k < g_handles.size()) return g_handles[k]; }
    return ~0ull;
}
static Archetype* arch_of(World* w, std::istringstream& in) {
    std::vector<ComponentId> ids; int p;
    while (in >> p) { do_register(p, 0); ids.push_back(g_cid[p]); }
    ComponentMask m; m.component_count = uint32_t(ids.size()); m.ids = ids.data();
    return getArchetype(w, m);
}

static void do_job_acts() {
    World* w = g_job_world;
    std::vector<std::string> acts; acts.swap(g_job_do);
    for (const auto& line : acts) {
        std::istringstream in(line); std::string k; int tid; in >> k >> tid;
        if (k == "createarch" || k == "create") { Archetype* a = arch_of(w, in); Entity e = createEntity(w, a); g_handles.push_back(e); }
        else if (k == "assignid") { int p; std::string h, v; in >> h >> p >> v; void* ptr = assignComponent(w, parse_handle(h), g_cid[p]); if (v != "-" && ptr) { int64_t x = std::stoll(v); memcpy(ptr, &x, 8); } }
        else if (k == "removeid") { int p; std::string h; in >> h >> p; removeComponent(w, parse_handle(h), g_cid[p]); }
        else if (k == "destroynow") { std::string h; in >> h; Entity e = parse_handle(h); destroyEntities(w, &e, 1, true); }
    }
}

static void dump(World* w) {
    printf("D cr=%ld cp=%ld mv=%ld mc=%ld ds=%ld\n", g_dyn_calls[0], g_dyn_calls[1], g_dyn_calls[2], g_dyn_calls[3], g_dyn_calls[4]);
    for (size_t k = 0; k < g_handles.size(); ++k) {
        std::vector<std::pair<ComponentId, int64_t>> comps;
        for (int p : g_order) {
            if (hasComponent(w, g_handles[k], g_cid[p])) {
                const void* ptr = getComponent(w, g_handles[k], g_cid[p], true);
                int64_t v = 0; if (ptr) memcpy(&v, ptr, 8);
                comps.push_back({g_cid[p], v});
            }
        }
        if (comps.empty()) continue;
        std::sort(comps.begin(), comps.end());
        printf("H #%zu m=", k);
        for (size_t i = 0; i < comps.size(); ++i) printf("%s%u=%lld", i ? "," : "", comps[i].first, (long long) comps[i].second);
        printf(" s=-\n");
    }
}

static void run_script(const std::vector<std::string>& lines) {
    World* w = nullptr;
    std::vector<std::pair<int, CSystem*>> systems;
    size_t opn = 0;
    for (const auto& line : lines) {
        std::istringstream in(line);
        std::string op;
        if (!(in >> op) || op[0] == '#') continue;
        printf("op %zu %s\n", opn++, line.c_str()); fflush(stdout);
        std::ostringstream R;
        g_log.clear();
        if (op == "reg") { int p, f = 0; in >> p; in >> f; do_register(p, f); printf("R %u\n", g_cid[p]); continue; }
        if (op == "maxthreads" || op == "threads" || op == "chunkcap" || op == "verchunk") { printf("R\n"); continue; }
        if (!w) w = createWorld(~0u);
        bool is_sys = false;
        if (op == "createarch") { int tid; in >> tid; Archetype* a = arch_of(w, in); Entity e = createEntity(w, a); g_handles.push_back(e); R << "#" << (g_handles.size() - 1); }
        else if (op == "assignid") { int tid, p; std::string h, v; in >> tid >> h >> p >> v; do_register(p, 0);
            void* ptr = assignComponent(w, parse_handle(h), g_cid[p]); if (v != "-" && ptr) { int64_t x = std::stoll(v); memcpy(ptr, &x, 8); } }
        else if (op == "removeid") { int tid, p; std::string h; in >> tid >> h >> p; do_register(p, 0); removeComponent(w, parse_handle(h), g_cid[p]); }
        else if (op == "getconst" || op == "set") { std::string h; int p; in >> h >> p; do_register(p, 0);
            void* ptr = getComponent(w, parse_handle(h), g_cid[p], op == "getconst");
            if (!ptr) R << "null"; else { if (op == "set") { int64_t x; in >> x; memcpy(ptr, &x, 8); } int64_t v; memcpy(&v, ptr, 8); R << v; } }
        else if (op == "has") { std::string h; int p; in >> h >> p; do_register(p, 0); R << (hasComponent(w, parse_handle(h), g_cid[p]) ? 1 : 0); }
        else if (op == "destroynow" || op == "destroy") { int tid; std::string h; in >> tid >> h; Entity e = parse_handle(h); destroyEntities(w, &e, 1, op == "destroynow"); }
        else if (op == "update") { updateWorld(w); }
        else if (op == "clear") { clearWorldEntities(w); }
        else if (op == "mkjob") {
            int want_entity; in >> want_entity; JobInfo ji{}; ji.want_entity = want_entity != 0; std::string tok; bool chk = false;
            while (in >> tok) {
                if (tok == "c") { chk = true; continue; }
                if (chk) { int p = std::stoi(tok); do_register(p, 0); ji.check.push_back(g_cid[p]); }
                else { auto c = tok.find(':'); int p = std::stoi(tok.substr(0, c)); int fl = std::stoi(tok.substr(c + 1)); do_register(p, 0);
                    JobArgInfo a{}; a.component_id = g_cid[p]; a.is_const = fl & 1; a.is_required = !(fl & 2); ji.args.push_back(a); }
            }
            g_jobs.push_back(ji);
            auto& j = g_jobs.back();
            JobDescriptor d{}; d.callback = &job_callback; d.component_info_arr = j.args.data(); d.component_info_arr_size = uint32_t(j.args.size());
            d.check_update = j.check.data(); d.check_update_size = uint32_t(j.check.size()); d.entity_required = j.want_entity; d.name = "cjob";
            j.job = makeJob(d);
            R << (g_jobs.size() - 1) << " req=";
            for (size_t i = 0; i < j.args.size(); ++i) R << (i ? "," : "") << j.args[i].component_id << ":" << ((j.args[i].is_const ? 1 : 0) | (j.args[i].is_required ? 0 : 2));
            R << " chk=";
            { std::vector<ComponentId> cs = j.check; std::sort(cs.begin(), cs.end()); for (size_t i = 0; i < cs.size(); ++i) R << (i ? "," : "") << cs[i]; if (cs.empty()) R << "-"; }
        }
        else if (op == "jobdo") { // jobdo <create|createarch|assignid|removeid|destroynow> <tid> ...: done by the callback of the next runjob at entity 0
            std::string rest; std::getline(in, rest);
            { std::istringstream r2(rest); std::string k; int tid; r2 >> k >> tid;
              if (k == "create" || k == "createarch") { int p_; while (r2 >> p_) do_register(p_, 0); }
              else if (k == "assignid" || k == "removeid") { std::string h; int p_; r2 >> h >> p_; do_register(p_, 0); } }
            g_job_do.push_back(rest); }
        else if (op == "runjob") { size_t j; int mode; in >> j >> mode; g_cur_job = j; g_arrays.clear(); g_job_world = w;
            runJob(g_jobs[j].job, w, mode == 1 ? kParallel : kCurrentThread);
            g_job_do.clear();
            std::sort(g_arrays.begin(), g_arrays.end());
            R << "visits";
            for (auto& a : g_arrays) R << " " << a.second; }
        else if (op == "add") { is_sys = true; int n; in >> n; SysCfg c; std::string tok;
            while (in >> tok) {
                auto names = [&](const std::string& s) { std::vector<std::string> r; std::istringstream ls(s); std::string t; while (std::getline(ls, t, ',')) if (!t.empty()) r.push_back("csys" + t); return r; };
                if (tok.rfind("p=", 0) == 0) c.prio = std::stoi(tok.substr(2));
                else if (tok.rfind("g=", 0) == 0) c.group = std::stoi(tok.substr(2));
                else if (tok.rfind("b=", 0) == 0) c.before = names(tok.substr(2));
                else if (tok.rfind("a=", 0) == 0) c.after = names(tok.substr(2));
            }
            g_syscfg[n] = c; SystemDescriptor d = sys_descriptor(n); systems.push_back({n, createSystem(w, &d)}); }
        else if (op == "init" || op == "sysupdate") { is_sys = true; if (op == "init") { /* the C interface has no init(): World::init is reached through the C++ object */ } updateWorld(w); }
        else R << "unknown-op";
        printf("R %s\n", R.str().c_str());
        if (is_sys) { printf("E"); for (auto& e : g_log) printf(" %s", e.c_str()); printf("\n"); }
        else dump(w);
        fflush(stdout);
    }
    if (w) destroyWorld(w);
}

int main(int argc, char** argv) {
    if (argc < 2) return 2;
    std::ifstream f(argv[1]);
    std::vector<std::pair<std::string, std::vector<std::string>>> scripts;
    std::string line;
    while (std::getline(f, line)) {
        if (line.rfind("====", 0) == 0) { scripts.push_back({line.substr(4), {}}); continue; }
        if (scripts.empty()) scripts.push_back({" anon", {}});
        scripts.back().second.push_back(line);
    }
    for (auto& [name, lines] : scripts) {
        printf("====%s\n", name.c_str()); fflush(stdout);
        pid_t pid = fork();
        if (pid == 0) { alarm(30); run_script(lines); fflush(stdout); _exit(0); }
        int status = 0; waitpid(pid, &status, 0);
        if (WIFSIGNALED(status)) printf("\nCRASH signal=%d\n", WTERMSIG(status));
        else if (WEXITSTATUS(status) != 0) printf("\nCRASH exit=%d\n", WEXITSTATUS(status));
        fflush(stdout);
    }
    return 0;
}
