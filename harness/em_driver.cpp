// em_driver: runs operation scripts against the real EntityManager / Archetype / jobs and prints,
// after every operation, the observable state (tier A) and the internal state (tier B) in a
// canonical text form.  Built with -fno-access-control: internal state is read directly, never written.
//
// Input: a file with scripts separated by lines "==== <name>".  Every script runs in a forked child
// (process-global registries start fresh); a crash / abort / timeout of the child is an outcome line.
#include <mustache/ecs/ecs.hpp>
#include <mustache/ecs/non_template_job.hpp>
#include <mustache/ecs/default_component_data_storage.hpp>

#include <atomic>
#include <condition_variable>
#include <csignal>
#include <cstdio>
#include <cstring>
#include <fstream>
#include <functional>
#include <iostream>
#include <map>
#include <mutex>
#include <set>
#include <sstream>
#include <string>
#include <vector>
#include <sys/wait.h>
#include <unistd.h>

using namespace mustache;
extern uint32_t mustache_verif_chunk_capacity;

// ------------------------------------------------------------------------------------------------
// event log + place canonicalisation
// ------------------------------------------------------------------------------------------------
struct Driver;
static Driver* g_drv = nullptr;
static std::mutex g_log_mutex;
struct Ev { std::string text; bool has_entity; uint64_t entity; };
static std::vector<Ev> g_events;
static std::string place_of(const void* p);
static std::string hname(Entity e);

static void log_event(const std::string& s) {
    std::lock_guard<std::mutex> lock{g_log_mutex};
    g_events.push_back(Ev{s, false, 0});
}
static void log_event_entity(const std::string& s, Entity e) {   // the handle is named when the log is printed
    std::lock_guard<std::mutex> lock{g_log_mutex};
    g_events.push_back(Ev{s, true, e.value});
}
static std::string render(const Ev& e);

// ------------------------------------------------------------------------------------------------
// palette
// ------------------------------------------------------------------------------------------------
constexpr int kNumPal = 14;         // 0..7 static C++ types, 8..11 described at run time, 12 and 13 static again (one byte of data; entity-constructible)
constexpr int kNumShared = 3;
constexpr int64_t kDefaultBase = 1000; // default-constructed value of instrumented palette type p is 1000+p

struct P0 { int64_t v; };
struct P1 { int64_t v; };
struct alignas(32) A4 { int64_t v; };
struct E6 {};
struct B7 { int64_t v; char pad[4088]; };
struct C12 { int8_t v; };            // one byte of data: not a tag

template<int PAL, size_t ALIGN, bool EVENTS>
struct alignas(ALIGN) Inst {
    int64_t v;
    Inst() : v{kDefaultBase + PAL} { log_event("C:" + std::to_string(PAL) + ":" + place_of(this)); }
    explicit Inst(int64_t x) : v{x} { log_event("V:" + std::to_string(PAL) + ":" + place_of(this)); }
    Inst(const Inst& o) : v{o.v} { log_event("CP:" + std::to_string(PAL) + ":" + place_of(this) + ":" + place_of(&o)); }
    Inst(Inst&& o) noexcept : v{o.v} { log_event("MC:" + std::to_string(PAL) + ":" + place_of(this) + ":" + place_of(&o)); }
    Inst& operator=(const Inst& o) { v = o.v; log_event("CA:" + std::to_string(PAL) + ":" + place_of(this) + ":" + place_of(&o)); return *this; }
    Inst& operator=(Inst&& o) noexcept { v = o.v; log_event("MA:" + std::to_string(PAL) + ":" + place_of(this) + ":" + place_of(&o)); return *this; }
    ~Inst() { log_event("D:" + std::to_string(PAL) + ":" + place_of(this)); }
};
static void respawn_hook(const Entity& e, World& w);
using N2 = Inst<2, 8, false>;
struct N3 : Inst<3, 8, true> {
    using Inst<3, 8, true>::Inst;
    static void afterAssign(N3& self, const Entity& e) { log_event_entity("AA:3:" + place_of(&self) + ":", e); }
    // with `respawn <n>` armed, the next n removals of an N3 re-enter the library from inside the hook: a replacement entity is created
    // in the archetype the removal is happening in (unlocked removals only: a locked manager would merely record it)
    static void beforeRemove(N3& self, const Entity& e, World& w) {
        log_event_entity("BR:3:" + place_of(&self) + ":", e);
        respawn_hook(e, w);
    }
};
using N5 = Inst<5, 64, false>;
// constructible from the owning entity's handle and (the same constructor, defaulted argument) from nothing
struct N13 {
    int64_t v;
    explicit N13(Entity owner = Entity{}) : v{kDefaultBase + 13} { (void) owner; log_event("C:13:" + place_of(this)); }
    explicit N13(int64_t x) : v{x} { log_event("V:13:" + place_of(this)); }
    N13(const N13& o) : v{o.v} { log_event("CP:13:" + place_of(this) + ":" + place_of(&o)); }
    N13(N13&& o) noexcept : v{o.v} { log_event("MC:13:" + place_of(this) + ":" + place_of(&o)); }
    N13& operator=(const N13& o) { v = o.v; log_event("CA:13:" + place_of(this) + ":" + place_of(&o)); return *this; }
    N13& operator=(N13&& o) noexcept { v = o.v; log_event("MA:13:" + place_of(this) + ":" + place_of(&o)); return *this; }
    ~N13() { log_event("D:13:" + place_of(this)); }
};

struct S0 : TSharedComponentTag<S0> { int64_t v = 0; S0() = default; explicit S0(int64_t x) : v{x} {} bool operator==(const S0& o) const noexcept { return v == o.v; } };
struct S1 : TSharedComponentTag<S1> { int64_t v = 0; S1() = default; explicit S1(int64_t x) : v{x} {} bool operator==(const S1& o) const noexcept { return v == o.v; } };
struct S2 : TSharedComponentTag<S2> { int64_t v = 0; S2() = default; explicit S2(int64_t x) : v{x} {} bool operator==(const S2& o) const noexcept { return v == o.v; } };
// EXPR is a macro taking the shared type
#define SHARED_DISPATCH(sp, EXPR) ((sp) == 0 ? EXPR(S0) : (sp) == 1 ? EXPR(S1) : EXPR(S2))

// run-time described types: 8 bytes, align 8, functions chosen by flag bits
enum DynFlags { kDynCreate = 1, kDynCopy = 2, kDynMove = 4, kDynMoveCtor = 8, kDynDestroy = 16, kDynDefault = 32 };
static int g_dyn_flags[kNumPal] = {0};

static std::atomic<long> g_dyn_calls[5];   // create, copy, move (assignment), move constructor, destroy: the D line
template<int PAL> static void dyn_create(void* p, const Entity&, World&) { g_dyn_calls[0]++; *static_cast<int64_t*>(p) = kDefaultBase + PAL; log_event("C:" + std::to_string(PAL) + ":" + place_of(p)); }
template<int PAL> static void dyn_copy(void* d, const void* s) { g_dyn_calls[1]++; *static_cast<int64_t*>(d) = *static_cast<const int64_t*>(s); log_event("CP:" + std::to_string(PAL) + ":" + place_of(d) + ":" + place_of(s)); }
template<int PAL> static void dyn_move(void* d, void* s) { g_dyn_calls[2]++; *static_cast<int64_t*>(d) = *static_cast<int64_t*>(s); log_event("MA:" + std::to_string(PAL) + ":" + place_of(d) + ":" + place_of(s)); }
template<int PAL> static void dyn_move_ctor(void* d, void* s) { g_dyn_calls[3]++; *static_cast<int64_t*>(d) = *static_cast<int64_t*>(s); log_event("MC:" + std::to_string(PAL) + ":" + place_of(d) + ":" + place_of(s)); }
template<int PAL> static void dyn_destroy(void* p) { g_dyn_calls[4]++; log_event("D:" + std::to_string(PAL) + ":" + place_of(p)); }

template<int PAL> static ComponentInfo dyn_info(int flags) {
    ComponentInfo info;
    info.name = "verif_dyn_" + std::to_string(PAL);
    info.size = 8; info.align = 8;
    info.type_id_hash_code = std::hash<std::string>{}(info.name);
    if (flags & kDynCreate) info.functions.create = &dyn_create<PAL>;
    if (flags & kDynCopy) info.functions.copy = &dyn_copy<PAL>;
    if (flags & kDynMove) info.functions.move = &dyn_move<PAL>;
    if (flags & kDynMoveCtor) info.functions.move_constructor = &dyn_move_ctor<PAL>;
    if (flags & kDynDestroy) info.functions.destroy = &dyn_destroy<PAL>;
    if (flags & kDynDefault) { info.default_value.resize(8); int64_t d = 2000 + PAL; memcpy(info.default_value.data(), &d, 8); }
    return info;
}

// ------------------------------------------------------------------------------------------------
struct Driver {
    std::unique_ptr<World> world;
    std::shared_ptr<Dispatcher> dispatcher;
    uint32_t threads = 0;           // 0 => World's own default dispatcher
    bool use_default_context = true;
    std::vector<Entity> handles;    // issue order
    std::map<uint64_t, size_t> handle_index;
    ComponentId cid[kNumPal];
    bool registered[kNumPal] = {false};
    std::vector<int> reg_order;     // palette index by component id order of this script
    SharedComponentId sid[kNumShared];
    bool sregistered[kNumShared] = {false};
    std::map<const void*, size_t> inst_names;
    int epoch = 0;
    std::map<const void*, int> temp_names;
    // worker mailbox
    bool armed = false;
    std::mutex mb_mutex; std::condition_variable mb_cv;
    int mb_target = -1; std::function<void()> mb_fn; bool mb_done = false; bool mb_quit = false;
    std::atomic<int> mb_ready{0};
    std::vector<std::unique_ptr<struct VJob>> jobs;
    bool typed_fresh[5] = {true, true, true, true, true};
    struct JobAct { uint32_t idx; bool getmut; Entity e; int pal; };
    std::vector<JobAct> job_acts;
    std::vector<std::string> job_do;   // structural calls the callback of the next runjob makes while it handles entity 0   // what the callback of the next runjob does while it processes entity number idx

    EntityManager& em() { return world->entities(); }
};

static std::string hname(Entity e) {
    auto it = g_drv->handle_index.find(e.value);
    if (it != g_drv->handle_index.end()) return "#" + std::to_string(it->second);
    if (e.isNull()) return "null";
    return "r" + std::to_string(e.id().toInt()) + ":" + std::to_string(e.version().toInt()) + ":" + std::to_string(e.worldId().toInt());
}

static std::string render(const Ev& e) { return e.has_entity ? e.text + hname(Entity::makeFromValue(e.entity)) : e.text; }

static int pal_of_cid(ComponentId id) {
    for (int p = 0; p < kNumPal; ++p) if (g_drv->registered[p] && g_drv->cid[p] == id) return p;
    return -1;
}

struct ChunkRange { const std::byte* begin; size_t size; size_t ai; size_t ci_chunk; uint32_t cap;
                    std::vector<std::tuple<uint32_t, uint32_t, uint32_t>> comps; /* offset, size, cid */ };
static std::vector<ChunkRange> g_snapshot;
static bool g_use_snapshot = false;

static void collect_ranges(std::vector<ChunkRange>& out) {
    Driver& d = *g_drv;
    out.clear();
    if (!d.world) return;
    auto& em = d.em();
    for (size_t ai = 0; ai < em.archetypes_.size(); ++ai) {
        auto& arch = *em.archetypes_[ArchetypeIndex::make(ai)];
        auto* st = static_cast<DefaultComponentDataStorage*>(arch.data_storage_.get());
        const auto cap = st->chunk_capacity_.toInt();
        for (size_t ci = 0; ci < st->chunks_.size(); ++ci) {
            ChunkRange r{st->chunks_[ChunkIndex::make(ci)], st->chunk_size_, ai, ci, cap, {}};
            for (size_t k = 0; k < st->component_getter_info_.size(); ++k) {
                const auto& g = st->component_getter_info_[ComponentIndex::make(k)];
                const auto cidv = arch.operation_helper_.component_index_to_component_id[ComponentIndex::make(k)];
                r.comps.emplace_back(g.offset.toInt(), g.size, cidv.toInt());
            }
            out.push_back(std::move(r));
        }
    }
}

static std::string place_of(const void* p) {
    Driver& d = *g_drv;
    static thread_local std::vector<ChunkRange> live;
    const std::vector<ChunkRange>* ranges = &g_snapshot;
    if (!g_use_snapshot) { collect_ranges(live); ranges = &live; }
    const std::byte* bp = static_cast<const std::byte*>(p);
    for (const auto& r : *ranges) {
        if (bp >= r.begin && bp < r.begin + r.size) {
            const size_t off = bp - r.begin;
            for (const auto& [coff, csize, cidv] : r.comps) {
                const size_t span = csize == 0 ? 1 : size_t(csize) * r.cap;
                if (off >= coff && off < coff + span) {
                    const size_t slot = r.ci_chunk * r.cap + (csize == 0 ? 0 : (off - coff) / csize);
                    return "a" + std::to_string(r.ai) + "." + std::to_string(cidv) + "." + std::to_string(slot);
                }
            }
            return "a" + std::to_string(r.ai) + ".?";
        }
    }
    char buf[64];
    snprintf(buf, sizeof buf, "t%d_%p", d.epoch, p);
    return buf;
}

// ------------------------------------------------------------------------------------------------
// registration
// ------------------------------------------------------------------------------------------------
template<typename F> static void with_static_type(int pal, F&& f) {
    switch (pal) {
        case 0: f(static_cast<P0*>(nullptr)); break;
        case 1: f(static_cast<P1*>(nullptr)); break;
        case 2: f(static_cast<N2*>(nullptr)); break;
        case 3: f(static_cast<N3*>(nullptr)); break;
        case 4: f(static_cast<A4*>(nullptr)); break;
        case 5: f(static_cast<N5*>(nullptr)); break;
        case 6: f(static_cast<E6*>(nullptr)); break;
        case 7: f(static_cast<B7*>(nullptr)); break;
        case 12: f(static_cast<C12*>(nullptr)); break;
        case 13: f(static_cast<N13*>(nullptr)); break;
        default: break;
    }
}
static bool is_static(int pal) { return (pal >= 0 && pal < 8) || pal == 12 || pal == 13; }
static bool has_value(int pal) { return pal != 6; }

static void do_register(int pal, int flags) {
    Driver& d = *g_drv;
    if (d.registered[pal]) return;
    if (is_static(pal)) {
        with_static_type(pal, [&](auto* t) {
            using T = typename std::remove_pointer<decltype(t)>::type;
            d.cid[pal] = ComponentFactory::instance().registerComponent<T>();
        });
    } else {
        g_dyn_flags[pal] = flags;
        ComponentInfo info;
        switch (pal) {
            case 8: info = dyn_info<8>(flags); break;
            case 9: info = dyn_info<9>(flags); break;
            case 10: info = dyn_info<10>(flags); break;
            default: info = dyn_info<11>(flags); break;
        }
        d.cid[pal] = ComponentFactory::instance().componentId(info);
    }
    d.registered[pal] = true;
    d.reg_order.push_back(pal);
}
static void do_register_shared(int sp) {
    Driver& d = *g_drv;
    if (d.sregistered[sp]) return;
#define X_REG(T) ComponentFactory::instance().registerSharedComponent<T>()
    d.sid[sp] = SHARED_DISPATCH(sp, X_REG);
    d.sregistered[sp] = true;
}

// ------------------------------------------------------------------------------------------------
// dumping
// ------------------------------------------------------------------------------------------------
static int64_t read_value(const void* p, int pal = -1) { if (pal == 12) return *static_cast<const int8_t*>(p); int64_t v; memcpy(&v, p, 8); return v; }

static std::string inst_name(const void* p) {
    char buf[32]; snprintf(buf, sizeof buf, "i%p", p); return buf;
}

static std::string shared_str(const SharedComponentsInfo& info) {
    std::string s;
    for (size_t i = 0; i < info.ids_.size(); ++i) {
        if (i) s += ",";
        const void* ptr = i < info.data_.size() ? info.data_[i].get() : nullptr;
        int64_t v = 0;
        if (ptr) v = static_cast<const S0*>(ptr)->v;   // S0, S1, S2 have the same layout; the slot's type is whatever ids_ claims
        s += std::to_string(info.ids_[i].toInt()) + ":" + inst_name(ptr) + ":" + std::to_string(v);
    }
    // ids_ shorter than data_ (merge defect) shows up as extra data entries
    for (size_t i = info.ids_.size(); i < info.data_.size(); ++i) s += ",?:" + inst_name(info.data_[i].get());
    return s.empty() ? "-" : s;
}

static std::string entity_shared_str(EntityManager& em, Entity e, const SharedComponentsInfo& info) {
    std::string s;
    for (size_t i = 0; i < info.ids_.size(); ++i) {
        if (i) s += ",";
        int sp = -1;
        for (int k = 0; k < kNumShared; ++k) if (g_drv->sregistered[k] && g_drv->sid[k] == info.ids_[i]) sp = k;
        const void* ptr = i < info.data_.size() ? info.data_[i].get() : nullptr;
        if (sp >= 0) {
#define X_GETE(T) static_cast<const void*>(em.getSharedComponent<T>(e))
            ptr = SHARED_DISPATCH(sp, X_GETE);
        }
        int64_t v = 0;
        if (ptr) v = static_cast<const S0*>(ptr)->v;
        s += std::to_string(info.ids_[i].toInt()) + ":" + inst_name(ptr) + ":" + std::to_string(v);
    }
    for (size_t i = info.ids_.size(); i < info.data_.size(); ++i) s += ",?:" + inst_name(info.data_[i].get());
    return s.empty() ? "-" : s;
}

static void dump(std::ostream& out) {
    Driver& d = *g_drv;
    auto& em = d.em();
    // V: validity of every issued handle (tier A)
    out << "V ";
    for (auto h : d.handles) out << (em.isEntityValid(h) ? '1' : '0');
    out << "\n";
    // H: observable per live handle
    for (size_t k = 0; k < d.handles.size(); ++k) {
        const Entity h = d.handles[k];
        if (!em.isEntityValid(h)) continue;
        out << "H #" << k << " ";
        const auto loc = em.locations_[h.id()];
        if (loc.archetype.isNull() || !em.archetypes_.has(loc.archetype)) { out << "- -\n"; continue; }
        auto& arch = *em.archetypes_[loc.archetype];
        out << "m=";
        bool first = true;
        for (auto id : arch.mask_.items()) {
            if (!first) out << ",";
            first = false;
            out << id.toInt();
            const int pal = pal_of_cid(id);
            if (pal >= 0 && has_value(pal)) {
                const void* p = em.getComponent<true>(h, id);
                if (p == nullptr) out << "=null"; else out << "=" << read_value(p, pal);
            }
        }
        if (first) out << "-";
        // the shared values as the per-entity getter getSharedComponent<T>(e) reports them (the A lines print the archetype's own table)
        out << " s=" << entity_shared_str(em, h, arch.sharedComponentInfo()) << "\n";
    }
    // A: archetypes
    for (size_t ai = 0; ai < em.archetypes_.size(); ++ai) {
        auto& arch = *em.archetypes_[ArchetypeIndex::make(ai)];
        out << "A " << ai << " m=";
        bool first = true;
        for (auto id : arch.mask_.items()) { if (!first) out << ","; first = false; out << id.toInt(); }
        if (first) out << "-";
        out << " s=" << shared_str(arch.sharedComponentInfo()) << " cs=" << arch.versionStorage().chunkSize() << " e=";
        first = true;
        for (auto e : arch.entities_) { if (!first) out << ","; first = false; out << hname(e); }
        if (first) out << "-";
        out << " n=" << arch.data_storage_->size() << "\n";
        // T: version stamps
        auto& vs = arch.versionStorage();
        out << "T " << ai << " g=";
        for (size_t c = 0; c < vs.global_versions_.size(); ++c) { if (c) out << ","; out << vs.global_versions_[ComponentIndex::make(c)].toInt(); }
        out << " c=";
        for (size_t c = 0; c < vs.chunk_versions_.size(); ++c) { if (c) out << ","; out << vs.chunk_versions_[c].toInt(); }
        out << "\n";
    }
    // S: slots, F: free list, L: locations
    out << "S " << em.entities_.size();
    for (size_t i = 0; i < em.entities_.size(); ++i) {
        const Entity e = em.entities_[EntityId::make(i)];
        out << " " << e.id().toInt() << ":" << e.version().toInt() << ":" << e.worldId().toInt();
    }
    out << "\nF " << em.next_slot_.toInt() << " " << em.empty_slots_;
    {
        auto cur = em.next_slot_;
        for (uint32_t i = 0; i < em.empty_slots_ && i < 100000; ++i) {
            out << " " << cur.toInt();
            if (!em.entities_.has(cur)) { out << " OOB"; break; }
            cur = em.entities_[cur].id();
        }
    }
    out << "\nL " << em.locations_.size();
    for (size_t i = 0; i < em.locations_.size(); ++i) {
        const auto& l = em.locations_[EntityId::make(i)];
        if (l.archetype.isNull()) out << " -"; else out << " " << l.archetype.toInt() << ":" << (l.index.isNull() ? -1 : int64_t(l.index.toInt()));
    }
    out << "\nM";
    for (auto e : em.marked_for_delete_) out << " " << hname(e);
    out << "\nK " << em.lock_counter_ << " " << static_cast<uint32_t>(em.next_entity_id_) << " " << em.temporal_storages_.size() << "\n";
    for (size_t t = 0; t < em.temporal_storages_.size(); ++t) {
        auto& st = em.temporal_storages_[ThreadId::make(t)];
        if (st.actions_.empty()) continue;
        out << "B " << t;
        for (auto& a : st.actions_) {
            out << " " << int(a.action) << ":" << hname(a.entity);
            if (a.action == TemporalStorage::Action::kAssignComponent || a.action == TemporalStorage::Action::kRemoveComponent)
                out << ":" << a.component_id.toInt();
            if (a.action == TemporalStorage::Action::kCreateEntity) {
                out << ":";
                if (st.create_actions_.has(a.create_action_index)) {
                    bool first = true;
                    for (auto id : st.create_actions_[a.create_action_index].mask.items()) { if (!first) out << "+"; first = false; out << id.toInt(); }
                    if (first) out << "-";
                } else out << "none";
            }
        }
        out << "\n";
    }
    out << "D cr=" << g_dyn_calls[0] << " cp=" << g_dyn_calls[1] << " mv=" << g_dyn_calls[2] << " mc=" << g_dyn_calls[3] << " ds=" << g_dyn_calls[4] << "\n";
    // P: the checked lookups of an archetype answer null beyond its population (one past the end, and far past it) and non-null for
    // its last member: counted over every archetype and component column
    {
        size_t probes = 0, past_nonnull = 0, last_null = 0;
        for (auto& a : em.archetypes_) {
            const uint32_t n = a->size();
            for (uint32_t ci = 0; ci < a->mask_.items().size(); ++ci) {
                const auto cidx = ComponentIndex::make(ci);
                ++probes;
                if (a->getConstComponent<FunctionSafety::kSafe>(cidx, ArchetypeEntityIndex::make(n)) != nullptr) ++past_nonnull;
                if (a->getConstComponent<FunctionSafety::kSafe>(cidx, ArchetypeEntityIndex::make(n + 1000u)) != nullptr) ++past_nonnull;
                if (n > 0 && a->getConstComponent<FunctionSafety::kSafe>(cidx, ArchetypeEntityIndex::make(n - 1u)) == nullptr) ++last_null;
            }
        }
        if (probes) out << "P probes=" << probes << " past_nonnull=" << past_nonnull << " last_null=" << last_null << "\n";
    }
    // Y: every parked temporary lies inside one block of its command buffer, aligned for its type, disjoint from the others
    {
        size_t n = 0, oob = 0, mis = 0, ovl = 0;
        for (size_t t = 0; t < em.temporal_storages_.size(); ++t) {
            auto& st = em.temporal_storages_[ThreadId::make(t)];
            std::vector<std::pair<const std::byte*, const std::byte*>> taken;
            for (auto& a : st.actions_) {
                if (a.action != TemporalStorage::Action::kAssignComponent || a.ptr == nullptr) continue;
                const auto& info = ComponentFactory::instance().componentInfo(a.component_id);
                ++n;
                const std::byte* b = a.ptr; const std::byte* e = a.ptr + info.size;
                bool inside = false;
                for (auto& c : st.chunks_) if (b >= c.data.get() && e <= c.data.get() + c.capacity) inside = true;
                if (!inside) ++oob;
                if (info.align > 1 && reinterpret_cast<uintptr_t>(b) % info.align != 0) ++mis;
                for (auto& r : taken) if (info.size > 0 && b < r.second && r.first < e) ++ovl;
                taken.push_back({b, e});
            }
        }
        if (n) out << "Y n=" << n << " oob=" << oob << " misaligned=" << mis << " overlap=" << ovl << "\n";
        // Q: the bump allocator of every command buffer as it stands -- blocks (base address mod 4096, capacity, free space) and the
        // allocations of this lock period in order (size, alignment, block, offset in the block): replayed through the TempStore model
        for (size_t t = 0; t < em.temporal_storages_.size(); ++t) {
            auto& st = em.temporal_storages_[ThreadId::make(t)];
            if (st.chunks_.empty() && st.actions_.empty() && st.target_chunk_size_ == 4096u && st.total_size_ == 0u) continue;   // never used
            out << "Q " << t << " target=" << st.target_chunk_size_ << " total=" << st.total_size_ << " chunks=";
            for (size_t c = 0; c < st.chunks_.size(); ++c)
                out << (c ? ";" : "") << (reinterpret_cast<uintptr_t>(st.chunks_[c].data.get()) % 4096) << ":" << st.chunks_[c].capacity << ":" << st.chunks_[c].free_space;
            if (st.chunks_.empty()) out << "-";
            out << " allocs=";
            bool first = true;
            for (auto& a : st.actions_) {
                if (a.action != TemporalStorage::Action::kAssignComponent || a.ptr == nullptr) continue;
                const auto& info = ComponentFactory::instance().componentInfo(a.component_id);
                long ci = -1, off = -1;
                for (size_t c = 0; c < st.chunks_.size(); ++c)
                    if (a.ptr >= st.chunks_[c].data.get() && a.ptr <= st.chunks_[c].data.get() + st.chunks_[c].capacity) { ci = long(c); off = long(a.ptr - st.chunks_[c].data.get()); }
                out << (first ? "" : ";") << info.size << ":" << info.align << ":" << ci << ":" << off;
                first = false;
            }
            if (first) out << "-";
            out << "\n";
        }
    }
    out << "W " << d.world->version().toInt() << " " << em.world_version_.toInt() << "\n";
    {
        std::lock_guard<std::mutex> lock{g_log_mutex};
        out << "E";
        for (auto& e : g_events) out << " " << render(e);
        out << "\n";
        g_events.clear();
    }
}

// ------------------------------------------------------------------------------------------------
// worker mailbox (commands "issued from worker thread k" run on the dispatcher's real worker k)
// ------------------------------------------------------------------------------------------------
static void arm() {
    Driver& d = *g_drv;
    if (d.armed) return;
    auto& disp = d.world->dispatcher();
    const int n = int(disp.threadCount());
    d.mb_quit = false; d.mb_ready = 0;
    for (int i = 0; i < n; ++i) {
        disp.addParallelTask([&d](ThreadId tid) {
            const int me = int(tid.toInt());
            d.mb_ready++;
            std::unique_lock<std::mutex> lock{d.mb_mutex};
            while (true) {
                d.mb_cv.wait(lock, [&] { return d.mb_quit || (d.mb_target == me && !d.mb_done); });
                if (d.mb_quit) return;
                lock.unlock();
                d.mb_fn();
                lock.lock();
                d.mb_done = true; d.mb_target = -1;
                d.mb_cv.notify_all();
            }
        });
    }
    while (d.mb_ready.load() < n) std::this_thread::yield();
    d.armed = true;
}
static void disarm() {
    Driver& d = *g_drv;
    if (!d.armed) return;
    { std::lock_guard<std::mutex> lock{d.mb_mutex}; d.mb_quit = true; }
    d.mb_cv.notify_all();
    d.world->dispatcher().waitForParallelFinish();
    d.armed = false;
}
static void run_on(int tid, std::function<void()> fn) {
    Driver& d = *g_drv;
    if (tid <= 0 || !d.armed) { fn(); return; }
    std::unique_lock<std::mutex> lock{d.mb_mutex};
    d.mb_fn = std::move(fn); d.mb_done = false; d.mb_target = tid;
    d.mb_cv.notify_all();
    d.mb_cv.wait(lock, [&] { return d.mb_done; });
}

// ------------------------------------------------------------------------------------------------
// operations
// ------------------------------------------------------------------------------------------------
static int g_respawn = 0;
static size_t issue(Entity e);
static void respawn_hook(const Entity& e, World& w) {
    auto& em = w.entities();
    if (g_respawn <= 0 || em.isLocked()) return;
    --g_respawn;
    if (auto* arch = em.getArchetypeOf(e)) { Entity n = em.create(*arch); issue(n); }
}
static Entity parse_handle(const std::string& tok) {
    Driver& d = *g_drv;
    if (tok == "null") return Entity{};
    if (tok[0] == '#') {
        size_t k = std::stoul(tok.substr(1));
        if (k < d.handles.size()) return d.handles[k];
        return Entity{};
    }
    if (tok[0] == 'x') return Entity::makeFromValue(std::stoull(tok.substr(1), nullptr, 16));
    if (tok[0] == 'w') {  // w<k>: handle #k re-stamped with another world id
        size_t k = std::stoul(tok.substr(1));
        Entity h = k < d.handles.size() ? d.handles[k] : Entity{};
        return Entity{h.id(), h.version(), WorldId::make((h.worldId().toInt() + 1) % 1024)};
    }
    if (tok[0] == 'v') {  // v<k>:<dv>  handle #k with version + dv
        auto c = tok.find(':');
        size_t k = std::stoul(tok.substr(1, c - 1)); uint32_t dv = std::stoul(tok.substr(c + 1));
        Entity h = k < d.handles.size() ? d.handles[k] : Entity{};
        return Entity{h.id(), EntityVersion::make((h.version().toInt() + dv) & 0xFFFFFF), h.worldId()};
    }
    return Entity{};
}
static size_t issue(Entity e) {
    Driver& d = *g_drv;
    d.handles.push_back(e);
    if (!d.handle_index.count(e.value)) d.handle_index[e.value] = d.handles.size() - 1;
    return d.handles.size() - 1;
}
static void parse_pals(std::istringstream& in, ComponentIdMask& mask, SharedComponentsInfo& shared, std::vector<int>* pals = nullptr) {
    std::string tok;
    while (in >> tok) {
        if (tok[0] == 's') {
            int sp = std::stoi(tok.substr(1));
            do_register_shared(sp);
            if (sp == 0) shared.add(g_drv->sid[0], std::make_shared<S0>()); else if (sp == 1) shared.add(g_drv->sid[1], std::make_shared<S1>()); else shared.add(g_drv->sid[2], std::make_shared<S2>());
        } else {
            int p = std::stoi(tok);
            do_register(p, 0);
            mask.set(g_drv->cid[p], true);
            if (pals) pals->push_back(p);
        }
    }
}

template<typename T> static void typed_assign_value(EntityManager& em, Entity e, int64_t v) {
    if constexpr (std::is_empty<T>::value) { em.assign<T>(e); }
    else if constexpr (std::is_aggregate<T>::value) { em.assign<T>(e, v); }
    else { em.assign<T>(e, v); }
}

static void write_value(void* p, int64_t v, int pal = -1) { if (!p) return; if (pal == 12) { *static_cast<int8_t*>(p) = int8_t(v); return; } memcpy(p, &v, 8); }

struct VJob : NonTemplateJob {
    uint32_t forced = 0;
    bool skip_odd = false;      // a user filter: version chunks with an odd index are not for this job
    bool extraChunkFilterCheck(const Archetype&, ChunkIndex c) const noexcept override { return !skip_odd || c.toInt() % 2 == 0; }
    TasksCount taskCount(World& w, uint32_t n) const noexcept override { return forced ? TasksCount::make(forced) : NonTemplateJob::taskCount(w, n); }
};
// ---- typed jobs (PerEntityJob<T>: the generated per-entity invocation with its 4x unrolled loop) ----
struct TypedOut { std::vector<std::pair<uint32_t, std::string>> visits; std::mutex m; uint32_t forced = 0; };
static TypedOut g_typed;
static std::string tval(const void* p) { return p ? std::to_string(read_value(p)) : std::string("null"); }
static void trec(const JobInvocationIndex& ii, Entity e, std::initializer_list<std::string> vals) {
    std::ostringstream s;
    s << "t" << ii.task_index.toInt() << ":n" << ii.entity_index.toInt() << ":" << hname(e);
    for (const auto& v : vals) s << "/" << v;
    std::lock_guard<std::mutex> lock{g_typed.m}; g_typed.visits.push_back({ii.entity_index.toInt(), s.str()});
}
#define TYPED_TASKS(Self) TasksCount taskCount(World& w, uint32_t n) const noexcept override { return g_typed.forced ? TasksCount::make(g_typed.forced) : PerEntityJob<Self>::taskCount(w, n); }
struct TJ0 : PerEntityJob<TJ0> { TYPED_TASKS(TJ0) void operator()(Entity e, P0& a, JobInvocationIndex ii) { trec(ii, e, {tval(&a)}); } };
struct TJ1 : PerEntityJob<TJ1> { TYPED_TASKS(TJ1) void operator()(Entity e, const P0& a, const P1* b, JobInvocationIndex ii) { trec(ii, e, {tval(&a), tval(b)}); } };
struct TJ2 : PerEntityJob<TJ2> { TYPED_TASKS(TJ2) void operator()(Entity e, N2& a, const A4& b, JobInvocationIndex ii) { trec(ii, e, {tval(&a), tval(&b)}); } };
struct TJ3 : PerEntityJob<TJ3> { TYPED_TASKS(TJ3) void operator()(Entity e, const N2* a, P1& b, JobInvocationIndex ii) { trec(ii, e, {tval(a), tval(&b)}); } };
// TJ4: a shared component among the arguments (by reference: the archetype's one instance for every entity of the archetype)
static std::string sval(const S0& s) { return "S" + std::to_string(g_drv->sid[0].toInt()) + "=" + std::to_string(s.v); }
struct TJ4 : PerEntityJob<TJ4> { TYPED_TASKS(TJ4) void operator()(Entity e, const P0& a, const S0& s, JobInvocationIndex ii) { trec(ii, e, {tval(&a), sval(s)}); } };
static const std::vector<std::vector<int>> kTypedPals = {{0}, {0, 1}, {2, 4}, {2, 1}, {0}};

struct JobSpec { std::vector<std::pair<int, int>> reqs; /* pal, flags: 1 const, 2 optional */ std::vector<int> check; };

static std::string run_script(const std::vector<std::string>& lines, std::ostream& out) {
    Driver drv; g_drv = &drv; Driver& d = drv;
    g_events.clear();
    for (auto& c_ : g_dyn_calls) c_ = 0;
    mustache_verif_chunk_capacity = 0;
    size_t opn = 0;
    auto ensure_world = [&] {
        if (d.world) return;
        WorldContext ctx;
        ctx.memory_manager = std::make_shared<MemoryManager>();
        if (d.threads > 0) ctx.dispatcher = std::make_shared<Dispatcher>(d.threads);
        d.world = std::make_unique<World>(ctx);
    };
    for (const auto& line : lines) {
        std::istringstream in(line);
        std::string op;
        if (!(in >> op) || op[0] == '#') continue;
        out << "op " << opn++ << " " << line << "\n";
        out.flush();
        std::ostringstream R;
        // ---- header ops (before the world exists)
        if (op == "reg") { int p; int flags = 0; in >> p; in >> flags; do_register(p, flags); R << d.cid[p].toInt(); out << "R " << R.str() << "\n"; continue; }
        if (op == "regs") { int p; in >> p; do_register_shared(p); out << "R " << d.sid[p].toInt() << "\n"; continue; }
        if (op == "chunkcap") { uint32_t n; in >> n; mustache_verif_chunk_capacity = n; out << "R\n"; continue; }
        if (op == "maxthreads") { out << "R\n"; continue; }
        if (op == "threads") { in >> d.threads; out << "R\n"; continue; }
        ensure_world();
        auto& em = d.em();
        if (op == "verchunk") { uint32_t n; in >> n; em.setDefaultArchetypeVersionChunkSize(n); }
        else if (op == "chunkfn") { // chunkfn <min> <max> <pals...>
            uint32_t mn, mx; in >> mn >> mx; ComponentIdMask m; SharedComponentsInfo sh; parse_pals(in, m, sh);
            // one static type: through the typed convenience overload addChunkSizeFunction<T>(min, max)
            int only = -1;
            if (m.items().size() == 1 && sh.ids_.empty()) { const int pl = pal_of_cid(m.items()[0]); if (is_static(pl)) only = pl; }
            if (only >= 0) with_static_type(only, [&](auto* t) { using T = typename std::remove_pointer<decltype(t)>::type; em.addChunkSizeFunction<T>(mn, mx); });
            else em.addChunkSizeFunction([mn, mx, m](const ComponentIdMask& am) noexcept { ArchetypeChunkSize r; if (am.isMatch(m)) { r.min = mn; r.max = mx; } return r; });
        }
        else if (op == "dep") { int a; in >> a; do_register(a, 0); ComponentIdMask m; SharedComponentsInfo sh; parse_pals(in, m, sh); em.addDependency(d.cid[a], m); }
        else if (op == "pcreate") {
            // pcreate <rounds> <per>: in each round the manager is locked and every worker of the dispatcher creates <per> entities
            // with component 0 at the same time (really concurrently: this is not a call-granularity interleaving); after the unlock
            // every returned handle must be a distinct live entity and the archetype must have gained exactly that many members
            int rounds, per; in >> rounds >> per; do_register(0, 0);
            auto& disp = d.world->dispatcher();
            const int n = int(disp.threadCount());
            ComponentIdMask m; m.set(d.cid[0], true);
            long dup = 0, invalid = 0, miscount = 0, total = 0;
            for (int r = 0; r < rounds; ++r) {
                std::vector<std::vector<Entity>> got(static_cast<size_t>(n));
                std::atomic<int> started{0};
                size_t before = 0;
                for (auto& a : em.archetypes_) before += a->size();
                em.lock();
                for (int i = 0; i < n; ++i) {
                    disp.addParallelTask([&, i](ThreadId) {
                        started++;
                        while (started.load() < n) { }
                        for (int k = 0; k < per; ++k) got[static_cast<size_t>(i)].push_back(em.create(m, SharedComponentsInfo{}));
                    });
                }
                disp.waitForParallelFinish();
                em.unlock();
                std::set<uint64_t> seen;
                for (auto& v : got) for (auto e : v) { ++total; if (!seen.insert(e.value).second) ++dup; if (!em.isEntityValid(e)) ++invalid; }
                size_t after = 0;
                for (auto& a : em.archetypes_) after += a->size();
                if (after - before != size_t(n) * size_t(per)) ++miscount;
                for (auto v : seen) em.destroyNow(Entity::makeFromValue(v));
            }
            R << "pcreate workers=" << n << " created=" << total << " dup=" << dup << " invalid=" << invalid << " miscount=" << miscount;
        }
        else if (op == "pregister") {
            // pregister <rounds>: in each round every worker registers, at the same time, one and the same never-seen component
            // description (registration on first use, by name, as the C interface and run-time described jobs do): all of them
            // must be told the same id, and a later lookup must agree
            int rounds; in >> rounds;
            auto& disp = d.world->dispatcher();
            const int n = int(disp.threadCount());
            long split = 0, total = 0;
            for (int r = 0; r < rounds; ++r) {
                ComponentInfo info;
                info.name = "verif_race_" + std::to_string(reinterpret_cast<uintptr_t>(&d) % 100000) + "_" + std::to_string(r);
                info.size = 8; info.align = 8; info.type_id_hash_code = std::hash<std::string>{}(info.name);
                std::vector<uint32_t> got(static_cast<size_t>(n), 0u);
                std::atomic<int> started{0};
                for (int i = 0; i < n; ++i) {
                    disp.addParallelTask([&, i](ThreadId) {
                        started++;
                        while (started.load() < n) { }
                        got[static_cast<size_t>(i)] = ComponentFactory::instance().componentId(info).toInt();
                    });
                }
                disp.waitForParallelFinish();
                const uint32_t again = ComponentFactory::instance().componentId(info).toInt();
                bool same = true;
                for (auto g : got) { ++total; if (g != again) same = false; }
                if (!same) ++split;
            }
            R << "pregister workers=" << n << " registrations=" << total << " split=" << split;
        }
        else if (op == "pcreatenew") {
            // pcreatenew <rounds> <per>: in each round every worker creates, at the same time and under one lock, <per> entities with
            // a component set for which no archetype exists yet (first use of that combination from inside tasks). Afterwards exactly
            // one archetype has that set and holds exactly the entities created
            int rounds, per; in >> rounds >> per;
            static const int base[] = {0, 1, 2, 3, 4, 5, 6, 7, 12, 13};
            for (int p : base) do_register(p, 0);
            auto& disp = d.world->dispatcher();
            const int n = int(disp.threadCount());
            long dup_arch = 0, miscount = 0, invalid = 0, total = 0;
            for (int r = 0; r < rounds && r < 1023; ++r) {
                ComponentIdMask m;
                for (int b = 0; b < 10; ++b) if ((r + 1) >> b & 1) m.set(d.cid[base[b]], true);
                const auto want = m.items();
                bool exists = false;
                for (auto& a : em.archetypes_) if (a->mask_.items() == want) exists = true;
                if (exists) continue;
                std::vector<std::vector<Entity>> got(static_cast<size_t>(n));
                std::atomic<int> started{0};
                em.lock();
                for (int i = 0; i < n; ++i) {
                    disp.addParallelTask([&, i](ThreadId) {
                        started++;
                        while (started.load() < n) { }
                        for (int k = 0; k < per; ++k) got[static_cast<size_t>(i)].push_back(em.create(m, SharedComponentsInfo{}));
                    });
                }
                disp.waitForParallelFinish();
                em.unlock();
                size_t archs = 0, members = 0;
                for (auto& a : em.archetypes_) if (a->mask_.items() == want) { ++archs; members += a->size(); }
                if (archs != 1) ++dup_arch;
                if (members != size_t(n) * size_t(per)) ++miscount;
                for (auto& v : got) for (auto e : v) { ++total; if (!em.isEntityValid(e)) ++invalid; else em.destroyNow(e); }
            }
            R << "pcreatenew workers=" << n << " created=" << total << " dup_arch=" << dup_arch << " miscount=" << miscount << " invalid=" << invalid;
        }
        else if (op == "respawn") { in >> g_respawn; }
        else if (op == "arm") { arm(); }
        else if (op == "disarm") { disarm(); }
        else if (op == "create") {
            int tid; in >> tid; ComponentIdMask m; SharedComponentsInfo sh; parse_pals(in, m, sh);
            Entity e; run_on(tid, [&] { e = em.create(m, sh); });
            R << "#" << issue(e) << " " << e.id().toInt() << ":" << e.version().toInt();
        }
        else if (op == "createarch") { // create(Archetype&) as the C API does
            int tid; in >> tid; ComponentIdMask m; SharedComponentsInfo sh; parse_pals(in, m, sh);
            auto& arch = em.getArchetype(m, sh);
            Entity e; run_on(tid, [&] { e = em.create(arch); });
            R << "#" << issue(e) << " " << e.id().toInt() << ":" << e.version().toInt();
        }
        else if (op == "destroy") { int tid; std::string h; in >> tid >> h; Entity e = parse_handle(h); run_on(tid, [&] { em.destroy(e); }); }
        else if (op == "destroynow") { int tid; std::string h; in >> tid >> h; Entity e = parse_handle(h); run_on(tid, [&] { em.destroyNow(e); }); }
        else if (op == "cleararch") { ComponentIdMask m; SharedComponentsInfo sh; parse_pals(in, m, sh); em.clearArchetype(em.getArchetype(m, sh)); }
        else if (op == "clear") { em.clear(); }
        else if (op == "update") { d.world->update(); }
        else if (op == "emupdate") { em.update(); }
        else if (op == "lock") { em.lock(); }
        else if (op == "unlock") { const bool r = em.unlock(); R << (r ? 1 : 0); if (!em.isLocked()) d.epoch++; }
        else if (op == "assign") { // assign <tid> <h> <pal> <val|->   typed for static types, by id for described types
            int tid, p; std::string h, val; in >> tid >> h >> p >> val; Entity e = parse_handle(h); do_register(p, 0);
            run_on(tid, [&] {
                if (is_static(p)) {
                    with_static_type(p, [&](auto* t) {
                        using T = typename std::remove_pointer<decltype(t)>::type;
                        if constexpr (std::is_empty<T>::value) { em.assign<T>(e); }
                        else if (val == "-") { em.assign<T>(e); }
                        else { em.assign<T>(e, decltype(T::v)(std::stoll(val))); }
                    });
                } else {
                    void* ptr = em.assign(e, d.cid[p]);
                    if (val != "-") write_value(ptr, std::stoll(val));
                }
            });
        }
        else if (op == "assignid") { // assign by id (the C API path) for any type; value written through the returned pointer
            int tid, p; std::string h, val; in >> tid >> h >> p >> val; Entity e = parse_handle(h); do_register(p, 0);
            run_on(tid, [&] { void* ptr = em.assign(e, d.cid[p]); if (val != "-" && has_value(p)) write_value(ptr, std::stoll(val), p); });
        }
        else if (op == "remove") { // typed removal for static types (guarded), by id for described
            int tid, p; std::string h; in >> tid >> h >> p; Entity e = parse_handle(h); do_register(p, 0);
            run_on(tid, [&] {
                if (is_static(p)) with_static_type(p, [&](auto* t) { using T = typename std::remove_pointer<decltype(t)>::type; em.removeComponent<T>(e); });
                else em.removeComponent(e, d.cid[p]);
            });
        }
        else if (op == "removeid") { int tid, p; std::string h; in >> tid >> h >> p; Entity e = parse_handle(h); do_register(p, 0); run_on(tid, [&] { em.removeComponent(e, d.cid[p]); }); }
        else if (op == "build") {
            // build <tid> <h|new> a <pal> <val> ... r <pal> ... ; at most two assigns, of palette types 0,2,3
            int tid; std::string h; in >> tid >> h;
            std::vector<std::pair<int, int64_t>> as; std::vector<int> rs; std::string tok; char mode = 'a';
            while (in >> tok) {
                if (tok == "a" || tok == "r") { mode = tok[0]; continue; }
                if (mode == 'a') { int p = std::stoi(tok); int64_t v; in >> v; as.push_back({p, v}); do_register(p, 0); }
                else { int p = std::stoi(tok); rs.push_back(p); do_register(p, 0); }
            }
            Entity e = h == "new" ? Entity{} : parse_handle(h);
            Entity res;
            run_on(tid, [&] {
                auto b0 = em.begin(e);
                for (int p : rs) with_static_type(p, [&](auto* t) { using T = typename std::remove_pointer<decltype(t)>::type; b0.remove<T>(); });
                auto pick = [&](int p, auto&& k) {
                    switch (p) { case 0: k(static_cast<P0*>(nullptr)); break; case 2: k(static_cast<N2*>(nullptr)); break; default: k(static_cast<N3*>(nullptr)); break; }
                };
                if (as.empty()) { res = b0.end(); }
                else if (as.size() == 1) {
                    pick(as[0].first, [&](auto* t) { using T = typename std::remove_pointer<decltype(t)>::type; res = b0.assign<T>(as[0].second).end(); });
                } else {
                    pick(as[0].first, [&](auto* t) { using T = typename std::remove_pointer<decltype(t)>::type;
                        auto b1 = b0.assign<T>(as[0].second);
                        pick(as[1].first, [&](auto* u) { using U = typename std::remove_pointer<decltype(u)>::type; res = b1.template assign<U>(as[1].second).end(); });
                    });
                }
            });
            if (h == "new") R << "#" << issue(res); else R << hname(res);
        }
        else if (op == "clone" || op == "clonemap") { // clonemap: the overload taking the caller's CloneEntityMap
            std::string h; in >> h; Entity e = parse_handle(h);
            struct CountingMap : CloneEntityMap { int adds = 0; Entity src, dst; void add(Entity a, Entity b) override { ++adds; src = a; dst = b; } Entity remap(Entity x) const override { return x == src ? dst : x; } } cmap;
            Entity c = op == "clone" ? em.clone(e) : em.clone(e, cmap);
            if (op == "clonemap" && (cmap.adds != (c.isNull() ? 0 : 1) || (!c.isNull() && (cmap.src != e || cmap.dst != c)))) R << "badmap "; if (c.isNull()) R << "null"; else R << "#" << issue(c) << " " << c.id().toInt() << ":" << c.version().toInt(); }
        else if (op == "assignshared") { std::string h; int sp; int64_t v; in >> h >> sp >> v; Entity e = parse_handle(h); do_register_shared(sp);
            if (sp == 0) em.assign<S0>(e, v); else if (sp == 1) em.assign<S1>(e, v); else em.assign<S2>(e, v); }
        else if (op == "removeshared") { std::string h; int sp; in >> h >> sp; Entity e = parse_handle(h); do_register_shared(sp);
#define X_REM(T) em.removeSharedComponent<T>(e)
            bool r = SHARED_DISPATCH(sp, X_REM); R << (r ? 1 : 0); }
        else if (op == "getshared") { std::string h; int sp; in >> h >> sp; Entity e = parse_handle(h); do_register_shared(sp);
#define X_HAS(T) em.hasComponent<T>(e)
            bool has = SHARED_DISPATCH(sp, X_HAS);
            R << (has ? 1 : 0);
#define X_GET(T) static_cast<const void*>(em.getSharedComponent<T>(e))
            if (em.isEntityValid(e)) { const void* p = SHARED_DISPATCH(sp, X_GET);
                R << " " << (p ? inst_name(p) : std::string("null")); if (p) R << ":" << static_cast<const S0*>(p)->v; } }
        else if (op == "getconst" || op == "getmut" || op == "set") {
            std::string h; int p; in >> h >> p; Entity e = parse_handle(h); do_register(p, 0);
            if (op == "getconst") { const void* ptr = em.getComponent<true>(e, d.cid[p]); if (!ptr) R << "null"; else if (has_value(p)) R << read_value(ptr, p); else R << "_"; }
            else { void* ptr = em.getComponent<false>(e, d.cid[p]); if (!ptr) R << "null"; else { if (op == "set") { int64_t v; in >> v; write_value(ptr, v, p); } R << (has_value(p) ? std::to_string(read_value(ptr, p)) : "_"); } }
        }
        else if (op == "has") { std::string h; int p; in >> h >> p; Entity e = parse_handle(h); do_register(p, 0); R << (em.hasComponent(e, d.cid[p]) ? 1 : 0); }
        else if (op == "markdirty") { std::string h; int p; in >> h >> p; Entity e = parse_handle(h); do_register(p, 0); em.markDirty(e, d.cid[p]); }
        else if (op == "jobact") { // jobact <entity index> <markdirty|getmut> <h> <pal>: performed by the callback of the next runjob
            uint32_t idx; std::string kind, h; int p; in >> idx >> kind >> h >> p; do_register(p, 0);
            d.job_acts.push_back({idx, kind == "getmut", parse_handle(h), p}); }
        else if (op == "jobdo") { // jobdo <create|createarch|assignid|removeid|destroynow> <tid> ...: done by the callback of the next runjob at entity 0
            std::string rest; std::getline(in, rest);
            { std::istringstream r2(rest); std::string k; int tid_; r2 >> k >> tid_;
              if (k == "create" || k == "createarch") { ComponentIdMask m_; SharedComponentsInfo sh_; parse_pals(r2, m_, sh_); }
              else if (k == "assignid" || k == "removeid") { std::string h_; int p_; r2 >> h_ >> p_; do_register(p_, 0); } }
            d.job_do.push_back(rest); }
        else if (op == "valid") { std::string h; in >> h; R << (em.isEntityValid(parse_handle(h)) ? 1 : 0); }
        else if (op == "archof") { std::string h; in >> h; auto* a = em.getArchetypeOf(parse_handle(h)); if (a) R << a->id().toInt(); else R << "null"; }
        else if (op == "mkjob") { // mkjob <entity 0/1, +2: skips odd version chunks> <reqs: pal:flags ...> c <check pals...>   flags: 1 const, 2 optional
            int want_entity; in >> want_entity; auto job = std::make_unique<VJob>(); job->require_entity = (want_entity & 1) != 0; job->skip_odd = (want_entity & 2) != 0;
            std::string tok; bool chk = false;
            while (in >> tok) {
                if (tok == "c") { chk = true; continue; }
                if (chk) { int p = std::stoi(tok); do_register(p, 0); job->version_check_mask.set(d.cid[p], true); }
                else { auto c = tok.find(':'); int p = std::stoi(tok.substr(0, c)); int fl = std::stoi(tok.substr(c + 1)); do_register(p, 0);
                    NonTemplateJob::ComponentRequest r; r.id = d.cid[p]; r.is_const = fl & 1; r.is_required = !(fl & 2); job->component_requests.push_back(r); }
            }
            R << d.jobs.size() << " req=";
            for (size_t i = 0; i < job->component_requests.size(); ++i) { auto& r = job->component_requests[i];
                R << (i ? "," : "") << r.id.toInt() << ":" << ((r.is_const ? 1 : 0) | (r.is_required ? 0 : 2)); }
            R << " chk=";
            { bool first = true; for (auto id : job->version_check_mask.items()) { R << (first ? "" : ",") << id.toInt(); first = false; } if (first) R << "-"; }
            if (job->skip_odd) R << " xodd=1";
            d.jobs.push_back(std::move(job));
        }
        else if (op == "jobedit") { // jobedit <j> <reqs: pal:flags ...>: the SAME job object described anew between runs
            size_t j; in >> j; auto& job = *d.jobs[j];
            job.component_requests.clear();
            std::string tok;
            while (in >> tok) { auto c = tok.find(':'); int p = std::stoi(tok.substr(0, c)); int fl = std::stoi(tok.substr(c + 1)); do_register(p, 0);
                NonTemplateJob::ComponentRequest r; r.id = d.cid[p]; r.is_const = fl & 1; r.is_required = !(fl & 2); job.component_requests.push_back(r); }
            R << j << " req=";
            for (size_t i = 0; i < job.component_requests.size(); ++i) { auto& r = job.component_requests[i];
                R << (i ? "," : "") << r.id.toInt() << ":" << ((r.is_const ? 1 : 0) | (r.is_required ? 0 : 2)); }
            R << " chk=";
            { bool first = true; for (auto id : job.version_check_mask.items()) { R << (first ? "" : ",") << id.toInt(); first = false; } if (first) R << "-"; }
        }
        else if (op == "runjob") { // runjob <j> <mode 0 current thread, 1 parallel> [forced task count]
            size_t j; int mode; uint32_t tasks = 0; in >> j >> mode; in >> tasks;
            std::vector<std::pair<uint32_t, std::string>> arrays; std::mutex vm;
            auto& job = *d.jobs[j];
            job.forced = tasks;
            job.callback = [&](NonTemplateJob::ForEachArrayArgs a) {
                std::ostringstream s;
                s << "t" << a.invocation_index.task_index.toInt() << ":n" << a.invocation_index.entity_index.toInt() << ":";
                if (a.invocation_index.entity_index.toInt() == 0 && a.count.toInt() > 0 && !d.job_do.empty()) {
                    std::vector<std::string> acts; acts.swap(d.job_do);
                    for (const auto& aline : acts) {
                        std::istringstream ain(aline); std::string k; int tid_; ain >> k >> tid_;
                        if (k == "create" || k == "createarch") { ComponentIdMask m_; SharedComponentsInfo sh_; parse_pals(ain, m_, sh_);
                            Entity ne = k == "create" ? em.create(m_, sh_) : em.create(em.getArchetype(m_, sh_)); issue(ne); }
                        else if (k == "assignid") { std::string h_, v_; int p_; ain >> h_ >> p_ >> v_; void* ptr = em.assign(parse_handle(h_), d.cid[p_]); if (v_ != "-" && has_value(p_)) write_value(ptr, std::stoll(v_), p_); }
                        else if (k == "removeid") { std::string h_; int p_; ain >> h_ >> p_; em.removeComponent(parse_handle(h_), d.cid[p_]); }
                        else if (k == "destroynow") { std::string h_; ain >> h_; em.destroyNow(parse_handle(h_)); }
                    }
                }
                for (uint32_t i = 0; i < a.count.toInt(); ++i) {
                    for (const auto& act : d.job_acts) {
                        if (act.idx != a.invocation_index.entity_index.toInt() + i) continue;
                        if (act.getmut) (void) em.getComponent<false>(act.e, d.cid[act.pal]); else em.markDirty(act.e, d.cid[act.pal]);
                    }
                    if (i) s << ",";
                    s << (a.entities ? hname(a.entities[i]) : std::string("?"));
                    for (size_t c = 0; c < job.component_requests.size(); ++c) {
                        auto* base = static_cast<std::byte*>(a.components[c]);
                        const int pal = pal_of_cid(job.component_requests[c].id);
                        if (!base) { s << "/null"; continue; }
                        const size_t sz = ComponentFactory::instance().componentInfo(job.component_requests[c].id).size;
                        s << "/" << (has_value(pal) ? std::to_string(read_value(base + i * sz, pal)) : "_");
                    }
                }
                std::lock_guard<std::mutex> lock{vm}; arrays.push_back({a.invocation_index.entity_index.toInt(), s.str()});
            };
            job.run(*d.world, mode == 1 ? JobRunMode::kParallel : JobRunMode::kCurrentThread);
            d.job_acts.clear(); d.job_do.clear();
            if (!arrays.empty()) d.epoch++;     // the run locked and unlocked the manager: a new lock period for the names of temporaries
            std::sort(arrays.begin(), arrays.end());
            R << "last=" << job.last_update_version_.toInt();
            for (auto& v : arrays) R << " " << v.second;
        }
        else if (op == "runtyped") { // runtyped <k 0..4> <mode 0 current thread, 1 parallel> [forced task count]
            size_t k; int mode; uint32_t tasks = 0; in >> k >> mode; in >> tasks;
            for (int p : kTypedPals[k]) do_register(p, 0);
            static thread_local std::unique_ptr<BaseJob> tj[5];
            if (k == 4) do_register_shared(0);
            if (d.typed_fresh[k]) { d.typed_fresh[k] = false;
                switch (k) { case 0: tj[0] = std::make_unique<TJ0>(); break; case 1: tj[1] = std::make_unique<TJ1>(); break;
                             case 2: tj[2] = std::make_unique<TJ2>(); break; case 3: tj[3] = std::make_unique<TJ3>(); break; default: tj[4] = std::make_unique<TJ4>(); break; } }
            g_typed.visits.clear(); g_typed.forced = tasks;
            tj[k]->run(*d.world, mode == 1 ? JobRunMode::kParallel : JobRunMode::kCurrentThread);
            if (!g_typed.visits.empty()) d.epoch++;
            std::sort(g_typed.visits.begin(), g_typed.visits.end());
            R << "last=" << tj[k]->last_update_version_.toInt();
            for (auto& v : g_typed.visits) R << " " << v.second;
        }
        else if (op == "teardown") { disarm(); d.jobs.clear(); collect_ranges(g_snapshot); g_use_snapshot = true; d.world.reset(); g_use_snapshot = false; out << "R\n";
            { std::lock_guard<std::mutex> lock{g_log_mutex}; out << "E"; for (auto& e : g_events) out << " " << render(e); out << "\n"; g_events.clear(); }
            continue; }
        else { R << "unknown-op"; }
        out << "R " << R.str() << "\n";
        dump(out);
        out.flush();
    }
    disarm();
    if (d.world) { d.jobs.clear(); collect_ranges(g_snapshot); g_use_snapshot = true; d.world.reset(); g_use_snapshot = false; out << "op " << opn << " (implicit teardown)\nE";
        { std::lock_guard<std::mutex> lock{g_log_mutex}; for (auto& e : g_events) out << " " << render(e); g_events.clear(); }
        out << "\n"; }
    g_drv = nullptr;
    return "";
}

int main(int argc, char** argv) {
    if (argc < 2) { fprintf(stderr, "usage: em_driver <scripts-file> [--nofork]\n"); return 2; }
    const bool nofork = argc > 2 && std::string(argv[2]) == "--nofork";
    std::ifstream f(argv[1]);
    std::vector<std::pair<std::string, std::vector<std::string>>> scripts;
    std::string line;
    while (std::getline(f, line)) {
        if (line.rfind("====", 0) == 0) { scripts.push_back({line.substr(4), {}}); continue; }
        if (scripts.empty()) scripts.push_back({" anon", {}});
        scripts.back().second.push_back(line);
    }
    for (auto& [name, lines] : scripts) {
        printf("====%s\n", name.c_str());
        fflush(stdout);
        if (nofork) { run_script(lines, std::cout); std::cout.flush(); continue; }
        pid_t pid = fork();
        if (pid == 0) {
            alarm(90);
            run_script(lines, std::cout);
            std::cout.flush();
            _exit(0);
        }
        int status = 0;
        waitpid(pid, &status, 0);
        if (WIFSIGNALED(status)) printf("\nCRASH signal=%d\n", WTERMSIG(status));
        else if (WEXITSTATUS(status) != 0) printf("\nCRASH exit=%d\n", WEXITSTATUS(status));
        fflush(stdout);
    }
    return 0;
}
