// evt_driver: event-manager scripts (C15).  Managers, receivers and event types are named by creation order /
// palette number.  post prints the receivers invoked, in order.
#include <mustache/ecs/event_manager.hpp>
#include <mustache/utils/memory_manager.hpp>
#include <cstdio>
#include <fstream>
#include <functional>
#include <iostream>
#include <memory>
#include <sstream>
#include <string>
#include <vector>
#include <sys/wait.h>
#include <unistd.h>

using namespace mustache;
template<int N> struct Ev { int payload; };
// two event types whose names are a prefix of one another (types 4 and 5); which is seen first is up to the script
struct EvP { int payload; };
struct EvPx { int payload; };
template<int N> struct EvSel { using type = Ev<N>; };
template<> struct EvSel<4> { using type = EvP; };
template<> struct EvSel<5> { using type = EvPx; };

struct AnyReceiver { std::function<void()> unsubscribe; std::function<void()> destroy; std::function<void(EventManager&)> resubscribe; bool alive = true; };

static std::vector<int> g_delivered;

template<int N>
static AnyReceiver subscribe(EventManager& em, int rid) {
    using E = typename EvSel<N>::type;
    auto ptr = std::shared_ptr<Receiver<E>>(em.subscribe<E>([rid](const E&) { g_delivered.push_back(rid); }).release());
    auto holder = std::make_shared<std::shared_ptr<Receiver<E>>>(ptr);
    AnyReceiver r;
    r.unsubscribe = [holder] { if (*holder) (*holder)->unsubscribe(); };
    r.destroy = [holder] { holder->reset(); };
    r.resubscribe = [holder](EventManager& m) { if (*holder) m.subscribe_<E>(holder->get()); };   // the same receiver object again
    return r;
}
template<int N> static void post(EventManager& em) { em.post(typename EvSel<N>::type{N}); }
// a receiver whose handler records itself and then posts the same event type through ANOTHER manager (a nested dispatch)
template<int N>
static AnyReceiver subscribe_fwd(EventManager& em, int rid, EventManager* target) {
    using E = typename EvSel<N>::type;
    auto ptr = std::shared_ptr<Receiver<E>>(em.subscribe<E>([rid, target](const E& e) { g_delivered.push_back(rid); target->post(E{e}); }).release());
    auto holder = std::make_shared<std::shared_ptr<Receiver<E>>>(ptr);
    AnyReceiver r;
    r.unsubscribe = [holder] { if (*holder) (*holder)->unsubscribe(); };
    r.destroy = [holder] { holder->reset(); };
    r.resubscribe = [holder](EventManager& m) { if (*holder) m.subscribe_<E>(holder->get()); };
    return r;
}

static void run_script(const std::vector<std::string>& lines) {
    MemoryManager memory;
    std::vector<std::unique_ptr<EventManager>> mgrs;
    std::vector<AnyReceiver> recvs;
    size_t opn = 0;
    for (const auto& line : lines) {
        std::istringstream in(line);
        std::string op;
        if (!(in >> op) || op[0] == '#') continue;
        printf("op %zu %s\n", opn++, line.c_str());
        fflush(stdout);
        if (op == "mgr") { mgrs.push_back(std::make_unique<EventManager>(memory)); printf("R m%zu\n", mgrs.size() - 1); }
        else if (op == "delmgr") { size_t m; in >> m; if (m < mgrs.size()) mgrs[m].reset(); printf("R\n"); }
        else if (op == "sub") {
            size_t m; int t; in >> m >> t;
            if (m < mgrs.size() && mgrs[m]) {
                const int rid = int(recvs.size());
                switch (t) { case 0: recvs.push_back(subscribe<0>(*mgrs[m], rid)); break; case 1: recvs.push_back(subscribe<1>(*mgrs[m], rid)); break;
                             case 2: recvs.push_back(subscribe<2>(*mgrs[m], rid)); break; case 3: recvs.push_back(subscribe<3>(*mgrs[m], rid)); break;
                             case 4: recvs.push_back(subscribe<4>(*mgrs[m], rid)); break; default: recvs.push_back(subscribe<5>(*mgrs[m], rid)); break; }
                printf("R r%d\n", rid);
            } else printf("R\n");
        }
        else if (op == "subfwd") { // subfwd <m> <t 0..3> <m2>: receiver on manager m that forwards the event to manager m2
            size_t m, m2; int t; in >> m >> t >> m2;
            if (m < mgrs.size() && mgrs[m] && m2 < mgrs.size() && mgrs[m2]) {
                const int rid = int(recvs.size());
                switch (t) { case 0: recvs.push_back(subscribe_fwd<0>(*mgrs[m], rid, mgrs[m2].get())); break; case 1: recvs.push_back(subscribe_fwd<1>(*mgrs[m], rid, mgrs[m2].get())); break;
                             case 2: recvs.push_back(subscribe_fwd<2>(*mgrs[m], rid, mgrs[m2].get())); break; default: recvs.push_back(subscribe_fwd<3>(*mgrs[m], rid, mgrs[m2].get())); break; }
                printf("R r%d\n", rid);
            } else printf("R\n");
        }
        else if (op == "resub") { // resub <r> <m>: subscribe an existing, currently unsubscribed receiver again
            size_t r, m; in >> r >> m; if (r < recvs.size() && recvs[r].alive && m < mgrs.size() && mgrs[m]) recvs[r].resubscribe(*mgrs[m]); printf("R\n"); }
        else if (op == "unsub") { size_t r; in >> r; if (r < recvs.size() && recvs[r].alive) recvs[r].unsubscribe(); printf("R\n"); }
        else if (op == "delrecv") { size_t r; in >> r; if (r < recvs.size() && recvs[r].alive) { recvs[r].destroy(); recvs[r].alive = false; } printf("R\n"); }
        else if (op == "post") {
            size_t m; int t; in >> m >> t;
            g_delivered.clear();
            if (m < mgrs.size() && mgrs[m]) {
                switch (t) { case 0: post<0>(*mgrs[m]); break; case 1: post<1>(*mgrs[m]); break; case 2: post<2>(*mgrs[m]); break; case 3: post<3>(*mgrs[m]); break; case 4: post<4>(*mgrs[m]); break; default: post<5>(*mgrs[m]); break; }
            }
            printf("R");
            for (int r : g_delivered) printf(" r%d", r);
            printf("\n");
        }
        else printf("R unknown-op\n");
        fflush(stdout);
    }
    // receivers must be destroyed before or after their managers without harm
    for (auto& r : recvs) if (r.alive) r.destroy();
}

int main(int argc, char** argv) {
    if (argc < 2) return 2;
    std::ifstream f(argv[1]);
    std::vector<std::pair<std::string, std::vector<std::string>>> scripts;
    std::string line;
    while (std::getline(f, line)) {
        if (line.rfind("====", 0) == 0) { scripts.push_back({line.substr(4), {}}); continue; }
        if (scripts.empty()) scripts.push_back({" anon", {}});
        scripts.back().second.push_back(line);
    }
    for (auto& [name, lines] : scripts) {
        printf("====%s\n", name.c_str());
        fflush(stdout);
        pid_t pid = fork();
        if (pid == 0) { alarm(30); run_script(lines); fflush(stdout); _exit(0); }
        int status = 0; waitpid(pid, &status, 0);
        if (WIFSIGNALED(status)) printf("\nCRASH signal=%d\n", WTERMSIG(status));
        else if (WEXITSTATUS(status) != 0) printf("\nCRASH exit=%d\n", WEXITSTATUS(status));
        fflush(stdout);
    }
    return 0;
}
