"""The proof half of every check: regenerate, build the property file, confirm every theorem is closed."""
import os, re
import vlib


def prove(prop, extra_targets=()):
    """returns dict(ok, obligations, discharged, failed:list of str, log, theorems)"""
    res = {'ok': True, 'failed': [], 'theorems': [], 'obligations': 0, 'discharged': 0, 'log': ''}
    hits = vlib.grep_forbidden()
    if hits:
        res['ok'] = False
        res['failed'].append('forbidden construct in the development: ' + '; '.join(hits[:5]))
    okt, tout = vlib.run_translator()
    res['translator'] = tout
    if not okt:
        res['ok'] = False
        res['failed'].append('translator (tools/cxx2coq.py): ' + tout)
    pf = 'Properties_%s.v' % prop
    ok, log = vlib.coq_build([pf + 'o'] + list(extra_targets))
    res['log'] = log
    thms, printed, closed, axioms = vlib.theorem_report(pf, log)
    res['theorems'] = thms
    res['obligations'] = len(thms)
    if not ok:
        res['ok'] = False
        m = re.findall(r'File "([^"]+)", line (\d+)[^\n]*\n((?:.*\n){0,6}?)(?=make|File|\Z)', log)
        for f, ln, msg in m[:5]:
            res['failed'].append('%s:%s: %s' % (f, ln, ' '.join(msg.split())[:300]))
        if not m:
            res['failed'].append('coq build failed: ' + log[-600:])
        res['discharged'] = 0
    else:
        if closed != len(printed) or axioms:
            res['ok'] = False
            res['failed'].append('Print Assumptions: %d of %d closed; axioms: %s' % (closed, len(printed), axioms[:3]))
        res['discharged'] = len(thms) if res['ok'] else 0
    res['axioms'] = axioms
    return res
