"""Parsing and comparing the canonical outputs of drivers and model runners."""
import re, subprocess, os


_TOK = re.compile(r'\bi0x[0-9a-f]+\b|\bi\d+\b|\bi\(nil\)|\binull\b|\bt\d+_(?:0x[0-9a-f]+|\d+)\b')


def rename_tokens(text):
    """shared-instance names (i<ptr> / i<n>) and temporary names (t<epoch>_<addr|n>) are renamed by first
    appearance, per script, so that addresses never take part in a comparison"""
    out = []
    for part in re.split(r'(?m)^(?=====)', text):
        names = {}
        def sub(m):
            t = m.group(0)
            if t in ('i(nil)', 'inull'):
                return 'inull'
            if t not in names:
                names[t] = ('I%d' if t[0] == 'i' else 'T%d') % len([k for k in names if k[0] == t[0]])
            return names[t]
        out.append(_TOK.sub(sub, part))
    return ''.join(out)


def parse(text):
    """-> list of (script name, list of blocks); block = dict(op=str, tags={tag: [lines]}, crash=str|None)"""
    scripts = []
    cur = None
    blk = None
    text = rename_tokens(text)
    for line in text.split('\n'):
        if line.startswith('===='):
            cur = (line[4:].strip(), [])
            scripts.append(cur)
            blk = None
            continue
        if cur is None:
            continue
        if line.startswith('op '):
            blk = {'op': line.split(' ', 2)[2] if line.count(' ') >= 2 else '', 'tags': {}, 'crash': None, 'n': len(cur[1])}
            cur[1].append(blk)
            continue
        if line.startswith('CRASH') or line.startswith('ERR '):
            if blk is None:
                blk = {'op': '', 'tags': {}, 'crash': None, 'n': 0}
                cur[1].append(blk)
            blk['crash'] = line.strip()
            continue
        if blk is None or not line.strip():
            continue
        tag = line.split(' ', 1)[0]
        blk['tags'].setdefault(tag, []).append(line.rstrip())
    return scripts


def norm_S(l):
    t = l.split()
    return ' '.join(t[:2] + [':'.join(x.split(':')[:2]) for x in t[2:]])


def norm_A(l):
    t = l.split()
    keep = [x for x in t[2:] if x.startswith('m=') or x.startswith('e=')]
    return ' '.join(t[:2] + keep)


def first_tok_R(l):
    return l.rstrip()


def norm_handles(l):
    """handles that no creation of this world issued (null, foreign, forged) are printed differently by the two sides"""
    return re.sub(r'\br\d+:\d+:\d+\b|\bnull\b', 'X', l.rstrip())


def norm_M(l):
    return ' '.join(x for x in norm_handles(l).split() if x != 'X')


NORMALISERS = {'S': norm_S, 'A': norm_A, 'M': norm_M, 'B': norm_handles}


def norm(tag, l, extra=None):
    f = (extra or {}).get(tag) or NORMALISERS.get(tag)
    return f(l) if f else l.rstrip()


def lines_match(il, ml):
    """model lines may contain '*' (indeterminate value: never-written bytes, uninitialised member): matches one token"""
    if len(il) != len(ml):
        return False
    for a, b in zip(il, ml):
        if a == b:
            continue
        if '*' not in b:
            return False
        if not re.fullmatch(re.escape(b).replace('\\*', '[^,= ]+'), a):
            return False
    return True


def compare(impl_scripts, model_scripts, tags, extra_norm=None, stop_tag_on_err=True):
    """tier-B style comparison. Returns list of divergences: dict(script, opn, op, tag, impl, model)."""
    out = []
    md = {n: b for n, b in model_scripts}
    for name, blocks in impl_scripts:
        mb = md.get(name)
        if mb is None:
            out.append(dict(script=name, opn=-1, op='', tag='', impl='', model='missing script in model output'))
            continue
        for i, b in enumerate(blocks):
            if i >= len(mb):
                # the model stopped (Err): anything the implementation does afterwards is unconstrained
                break
            m = mb[i]
            if m['crash']:
                # model predicts an error (UB / throw) at this op: the implementation is not constrained from here on
                break
            if b['crash']:
                out.append(dict(script=name, opn=i, op=b['op'], tag='CRASH', impl=b['crash'], model='ok'))
                break
            bad = False
            for tag in tags:
                il = [norm(tag, l, extra_norm) for l in b['tags'].get(tag, [])]
                ml = [norm(tag, l, extra_norm) for l in m['tags'].get(tag, [])]
                if not lines_match(il, ml):
                    # first differing line
                    k = 0
                    while k < min(len(il), len(ml)) and lines_match([il[k]], [ml[k]]):
                        k += 1
                    out.append(dict(script=name, opn=i, op=b['op'], tag=tag,
                                    impl=il[k] if k < len(il) else '(missing)', model=ml[k] if k < len(ml) else '(missing)'))
                    bad = True
                    break
            if bad:
                break
    return out


def run_driver(exe, scripts_text, workdir, tag='scripts', timeout=1200, extra_args=()):
    os.makedirs(workdir, exist_ok=True)
    p = os.path.join(workdir, tag + '.txt')
    with open(p, 'w') as f:
        f.write(scripts_text)
    r = subprocess.run([exe, p] + list(extra_args), stdout=subprocess.PIPE, stderr=subprocess.PIPE, timeout=timeout)
    return r.stdout.decode(errors='replace'), r.stderr.decode(errors='replace')


def run_runner(exe, domain, scripts_text, timeout=1200):
    r = subprocess.run([exe, domain], input=scripts_text.encode(), stdout=subprocess.PIPE, stderr=subprocess.PIPE, timeout=timeout)
    return r.stdout.decode(errors='replace'), r.stderr.decode(errors='replace')


def scripts_text(scripts):
    """scripts: list of (name, [lines])"""
    return ''.join('==== %s\n%s\n' % (n, '\n'.join(ls)) for n, ls in scripts)
