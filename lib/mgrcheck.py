"""Shared machinery of the entity-manager checks (C02, C03, C05, C07, C09, C11, C12, C13):
run the scripts on the real library (em_driver), on the extracted faithful model (Manager, tier B) and on the
extracted abstract specification (MgrSpec, tier A); decide; shrink; report."""
import os, re, json
import vlib, emcmp, proofcheck

TAGS_B = ['R', 'V', 'H', 'A', 'T', 'S', 'F', 'L', 'M', 'K', 'B', 'W', 'E']
HEADER_OPS = ('maxthreads', 'threads', 'reg', 'regs', 'chunkcap')


# ------------------------------------------------------------------------------------------------
# tier A: the properties evaluated on the implementation's observable output
# ------------------------------------------------------------------------------------------------
def parse_H(line):
    t = line.split()
    k = t[1]
    if len(t) < 4 or t[2] == '-':
        return k, None, None
    comps = {}
    m = t[2][2:]
    if m != '-':
        for x in m.split(','):
            if '=' in x:
                c, v = x.split('=')
                comps[int(c)] = v
            else:
                comps[int(x)] = None
    sh = []
    s = t[3][2:]
    if s != '-':
        for x in s.split(','):
            sh.append(tuple(x.split(':')))
    return k, comps, sh


def val_match(impl_v, spec_v):
    return spec_v == '*' or impl_v == spec_v


LOCKED_STRUCTURAL = ('create', 'createarch', 'destroy', 'destroynow', 'assign', 'assignid', 'remove', 'removeid', 'build')
GUARDED_QUERIES = ('valid', 'getconst', 'getmut', 'has', 'archof', 'clone', 'clonemap', 'removeshared', 'getshared')


def strip_stamps(line):
    return line


class Lifecycle:
    """per-place bracket language of the lifecycle events (C03) for types that have a destructor"""
    def __init__(self, destroy_pals):
        self.live = {}
        self.destroy_pals = destroy_pals

    def feed(self, ev):
        t = ev.split(':')
        kind, pal = t[0], int(t[1])
        if pal not in self.destroy_pals:
            return None
        if kind in ('C', 'V'):
            if self.live.get(t[2]):
                return 'constructed over a live instance at %s' % t[2]
            self.live[t[2]] = True
        elif kind in ('CP', 'MC'):
            if self.live.get(t[2]):
                return 'constructed over a live instance at %s' % t[2]
            if not self.live.get(t[3]):
                return '%s from %s, which holds no constructed instance' % (kind, t[3])
            self.live[t[2]] = True
        elif kind in ('MA', 'CA'):
            if not self.live.get(t[2]):
                return 'assignment to %s, which holds no constructed instance' % t[2]
            if not self.live.get(t[3]):
                return 'assignment from %s, which holds no constructed instance' % t[3]
        elif kind == 'D':
            if not self.live.get(t[2]):
                return 'destroyed %s, which holds no constructed instance' % t[2]
            self.live[t[2]] = False
        return None

    def leaked(self):
        return sorted(p for p, v in self.live.items() if v)


def destroy_pals_of(script_lines):
    pals = {2, 3, 5, 13}
    for l in script_lines:
        t = l.split()
        if t and t[0] == 'reg' and len(t) > 2 and int(t[1]) >= 8 and int(t[2]) & 16:
            pals.add(int(t[1]))
    return pals


def tier_a(impl, spec, scripts, aspects):
    """returns list of dict(script, opn, op, what, aspect)"""
    out = []
    sd = {n: b for n, b in spec}
    lines_of = dict(scripts)
    for name, blocks in impl:
        sb = sd.get(name, [])
        lc = Lifecycle(destroy_pals_of(lines_of.get(name, [])))
        aa, br = {}, {}
        fail = None
        depth = 0
        prev = None
        locked_created = set()
        cloned = set()
        for i, b in enumerate(blocks):
            s = sb[i] if i < len(sb) else None
            if s is not None and s['tags'].get('C') and s['tags']['C'][0].split()[1] != '0':
                break      # the script left the documented contract here: nothing after it is demanded
            if b['crash']:
                fail = dict(aspect='crash', what='implementation crashed: ' + b['crash'])
                break
            if s is not None and s['crash']:
                s = None
            # lifecycle events are cumulative and are also checked at the (implicit) teardown block
            if 'lifecycle' in aspects or 'callbacks' in aspects:
                for el in b['tags'].get('E', []):
                    for ev in el.split()[1:]:
                        if 'lifecycle' in aspects:
                            m = lc.feed(ev)
                            if m and not fail:
                                fail = dict(aspect='lifecycle', what=m + ' (event %s)' % ev)
                        t = ev.split(':')
                        if t[0] == 'AA':
                            key = (t[3], int(t[1]))      # (entity, palette type), wherever the instance lives
                            aa[key] = aa.get(key, 0) + 1
                        if t[0] == 'BR':
                            key = (t[3], int(t[1]))
                            br[key] = br.get(key, 0) + 1
                if fail:
                    break
                if 'lifecycle' in aspects and 'teardown' in b['op']:
                    lk = lc.leaked()
                    if lk:
                        fail = dict(aspect='lifecycle', what='instances still alive after the world was destroyed: %s' % lk[:4])
                        break
            if s is not None and s['tags'].get('C') and s['tags']['C'][0].split()[1] != '0':
                break      # the script left the documented contract here: nothing after it is demanded
            if 'tmpaddr' in aspects:
                for pl in b['tags'].get('P', []):
                    m_ = dict(re.findall(r'(\w+)=(\d+)', pl))
                    if int(m_.get('past_nonnull', 0)) or int(m_.get('last_null', 0)):
                        fail = dict(aspect='tmpaddr', what="an archetype's checked lookup answered beyond its population (%s times) or not for its last member (%s times)" % (m_.get('past_nonnull'), m_.get('last_null')))
                        break
                if fail:
                    break
                for yl in b['tags'].get('Y', []):
                    m_ = re.findall(r'(oob|misaligned|overlap)=(\d+)', yl)
                    bad_ = [(k_, v_) for k_, v_ in m_ if int(v_)]
                    if bad_:
                        fail = dict(aspect='tmpaddr', what='storage handed out by a deferred assign: ' + ', '.join('%s %s' % (v_, k_) for k_, v_ in bad_))
                        break
                if fail:
                    break
            opt = b['op'].split()
            opname = opt[0] if opt else ''
            if 'isolation' in aspects and depth > 0 and prev is not None and opname in LOCKED_STRUCTURAL:
                pv = (prev['tags'].get('V') or ['V'])[0].split()
                cv = (b['tags'].get('V') or ['V'])[0].split()
                pv = pv[1] if len(pv) > 1 else ''
                cv = cv[1] if len(cv) > 1 else ''
                if cv[:len(pv)] != pv or '1' in cv[len(pv):]:
                    fail = dict(aspect='isolation', what='validity of existing handles changed while locked: %s -> %s' % (pv, cv))
                    break
                for tg in ('H', 'A'):
                    # an archetype without members may appear (the caller fetched it); membership must not change
                    if [x for x in prev['tags'].get(tg, []) if ' e=- ' not in x] != [x for x in b['tags'].get(tg, []) if ' e=- ' not in x]:
                        fail = dict(aspect='isolation', what='observable state (%s lines) changed by an operation issued while locked' % tg)
                        break
                if fail:
                    break
            if opname in ('clone', 'clonemap'):
                r = (b['tags'].get('R') or ['R'])[0].split()
                if len(r) > 1 and r[1] == 'badmap':
                    fail = dict(aspect='harmless' if 'harmless' in aspects else 'valid', what='clone with a caller-supplied map recorded a wrong (source, copy) pair or recorded one although nothing was cloned')
                    break
                if len(r) > 1 and r[1].startswith('#'):
                    cloned.add(r[1])      # cloning fires afterClone, not afterAssign: not judged here
            if depth > 0 and opname in LOCKED_STRUCTURAL and len(opt) > 2 and opt[2].startswith('#'):
                locked_created.add(opt[2])     # its attach/detach pairs inside one pack may be elided together
            if depth > 0 and opname in ('create', 'createarch', 'build'):
                r = (b['tags'].get('R') or ['R'])[0].split()
                if len(r) > 1 and r[1].startswith('#'):
                    locked_created.add(r[1])
            if opname == 'lock':
                depth += 1
            elif opname == 'unlock' and depth > 0:
                depth -= 1
            before = prev
            prev = b
            if 'harmless' in aspects and s is not None and opname in GUARDED_QUERIES + ('markdirty',) and len(opt) > 1:
                tok = opt[1]
                sv = (s['tags'].get('V') or ['V'])[0].split()
                sv = sv[1] if len(sv) > 1 else ''
                dead = (not tok.startswith('#')) or int(tok[1:]) >= len(sv) or sv[int(tok[1:])] == '0'
                r = (b['tags'].get('R') or ['R'])[0].split()[1:]
                if dead and r and r[0] not in ('null', '0') and opname != 'markdirty':
                    fail = dict(aspect='harmless', what='%s through a dead/null/foreign handle returned %s' % (opname, ' '.join(r)))
                    break
                # ... and changed nothing: every dumped line (entities, archetypes, version stamps, buffers, marks) is as before the call
                if dead and before is not None and not before['crash']:
                    for tg in ('V', 'H', 'A', 'T', 'S', 'F', 'L', 'M', 'K', 'W'):
                        if before['tags'].get(tg, []) != b['tags'].get(tg, []):
                            df = [x for x in b['tags'].get(tg, []) if x not in before['tags'].get(tg, [])][:1] or b['tags'].get(tg, [])[:1]
                            fail = dict(aspect='harmless', what='%s through a dead/null/foreign handle changed the state: %s line now %r' % (opname, tg, (df or ['(removed)'])[0]))
                            break
                    if fail:
                        break
            if s is None or not s['tags'].get('V'):
                continue
            if 'valid' in aspects and b['tags'].get('V'):
                iv = (b['tags'].get('V') or ['V'])[0].split()
                sv = s['tags']['V'][0].split()
                iv = iv[1] if len(iv) > 1 else ''
                sv = sv[1] if len(sv) > 1 else ''
                if iv != sv:
                    k = next((j for j in range(min(len(iv), len(sv))) if iv[j] != sv[j]), min(len(iv), len(sv)))
                    fail = dict(aspect='valid', what='handle #%d: isEntityValid=%s, but the entity is %s' %
                                (k, iv[k:k + 1] or '?', 'alive' if sv[k:k + 1] == '1' else 'not alive'))
                    break
            ih = dict((k, (c, sh)) for k, c, sh in map(parse_H, b['tags'].get('H', [])))
            sh_ = dict((k, (c, sh)) for k, c, sh in map(parse_H, s['tags'].get('H', [])))
            if 'values' in aspects or 'shared' in aspects or 'sharedvals' in aspects:
                for k in sorted(set(ih) | set(sh_), key=lambda x: (len(x), x)):
                    if k not in ih or k not in sh_:
                        continue       # liveness mismatch is the 'valid' aspect
                    ic, ish = ih[k]
                    sc, ssh = sh_[k]
                    if 'values' in aspects:
                        if ic is None or set(ic) != set(sc):
                            fail = dict(aspect='values', what='entity %s has components %s, its history implies %s' %
                                        (k, sorted(ic) if ic is not None else None, sorted(sc)))
                            break
                        for c in sorted(sc):
                            if sc[c] is not None and not val_match(ic[c], sc[c]):
                                fail = dict(aspect='values', what='entity %s component %d reads %s, last written value is %s' % (k, c, ic[c], sc[c]))
                                break
                        if fail:
                            break
                    if 'shared' in aspects or 'sharedvals' in aspects:
                        iv = sorted((x[0], x[2]) for x in (ish or []) if len(x) == 3)
                        sv = sorted(ssh or [])
                        if iv != sv or any(len(x) != 3 or x[1] == 'inull' for x in (ish or [])):
                            fail = dict(aspect='shared', what='entity %s shared values %s, expected %s' % (k, ish, sv))
                            break
                if fail:
                    break
            if 'shared' in aspects:
                by_val, by_inst = {}, {}
                for k, (c, shl) in ih.items():
                    for x in (shl or []):
                        if len(x) != 3:
                            continue
                        sid, inst, v = x
                        if by_val.setdefault((sid, v), inst) != inst:
                            fail = dict(aspect='shared', what='two instances (%s, %s) of shared component %s with equal value %s' %
                                        (by_val[(sid, v)], inst, sid, v))
                        if by_inst.setdefault(inst, (sid, v)) != (sid, v):
                            fail = dict(aspect='shared', what='one instance %s observed with two values' % inst)
                if fail:
                    break
            if 'members' in aspects:
                seen = {}
                arch_of_key = {}
                for l in b['tags'].get('A', []):
                    t = l.split()
                    ai = t[1]
                    e = [x for x in t if x.startswith('e=')][0][2:]
                    m = [x for x in t if x.startswith('m=')][0][2:]
                    for k in ([] if e == '-' else e.split(',')):
                        if k in seen:
                            fail = dict(aspect='members', what='entity %s is listed twice (archetypes %s and %s)' % (k, seen[k], ai))
                        seen[k] = ai
                        if k in ih and ih[k][0] is not None:
                            mm = ','.join(str(c) for c in sorted(ih[k][0])) or '-'
                            if mm != m:
                                fail = dict(aspect='members', what='entity %s with components %s sits in archetype %s of mask %s' % (k, mm, ai, m))
                if not fail:
                    if set(seen) != set(ih):
                        fail = dict(aspect='members', what='archetype lists hold %s, live entities are %s' % (sorted(seen), sorted(ih)))
                    for k, (c, shl) in ih.items():
                        if c is None:
                            continue
                        key = (tuple(sorted(c)), tuple(sorted((x[0], x[2]) for x in (shl or []) if len(x) == 3)))
                        if arch_of_key.setdefault(key, seen.get(k)) != seen.get(k):
                            fail = dict(aspect='members', what='entities with the same component set and shared values live in archetypes %s and %s' %
                                        (arch_of_key[key], seen.get(k)))
                if fail:
                    break
            if 'callbacks' in aspects:
                for l in s['tags'].get('X', []):
                    t = l.split()
                    k, c = t[1].split(':')
                    if k in cloned:
                        continue
                    att = int(t[2][4:]); det = int(t[3][4:])
                    a_ = aa.get((k, int(c)), 0); b_ = br.get((k, int(c)), 0)
                    # an entity created under lock whose component is removed (or which is destroyed) in the same pack
                    # never materialises: the attach/detach pair is elided together
                    e = att - a_
                    if e < 0 or (e > 0 and k not in locked_created):
                        fail = dict(aspect='callbacks', what='afterAssign fired %d times for %d attachments of component %s to %s' % (a_, att, c, k))
                    elif b_ < det - e or b_ > a_:
                        fail = dict(aspect='callbacks', what='beforeRemove fired %d times for %d detachments (%d afterAssign) of component %s from %s' % (b_, det, a_, c, k))
                if fail:
                    break
        if fail:
            fail.update(script=name, opn=i, op=b['op'])
            out.append(fail)
    return out


# ------------------------------------------------------------------------------------------------
class Runner:
    def __init__(self, prop):
        self.prop = prop
        self.drv, err = vlib.build_driver('em_driver')
        self.runner, rerr = vlib.build_runner()
        self.err = err or rerr
        self.wd = os.path.join(vlib.BUILD, 'work', prop)

    def run(self, scripts, tag='scripts'):
        text = emcmp.scripts_text(scripts)
        io, ie = emcmp.run_driver(self.drv, text, self.wd, tag=tag)
        mo, _ = emcmp.run_runner(self.runner, 'mgr', text)
        so, _ = emcmp.run_runner(self.runner, 'mgrspec', text)
        return emcmp.parse(io), emcmp.parse(mo), emcmp.parse(so)


def in_contract(spec):
    for n, bl in spec:
        for b in bl:
            if b['tags'].get('C') and b['tags']['C'][0].split()[1] != '0':
                return False
    return True


def split_header(lines):
    i = 0
    while i < len(lines) and lines[i].split() and lines[i].split()[0] in HEADER_OPS + ('verchunk', 'dep', 'chunkfn'):
        i += 1
    return lines[:i], lines[i:]


def shrink(rn, lines, aspects, aspect, extra_tier_a=None):
    hdr, body = split_header(lines)
    def fails(cand):
        sc = [('shrink', hdr + cand)]
        impl, model, spec = rn.run(sc, tag='shrink')
        r = tier_a(impl, spec, sc, aspects)
        if extra_tier_a:
            r = r + extra_tier_a(impl, sc)
        c = tier_a(impl, spec, sc, {'valid'})   # stays inside the contract (the spec stops judging at a contract violation)
        return bool(r) and r[0]['aspect'] == aspect and in_contract(spec)
    try:
        small = vlib.ddmin(body, fails, budget=150)
    except Exception:
        small = body
    return hdr + small


def run_check(prop, scripts, aspects, tags_b=TAGS_B, witnesses=(), assumptions=(), replay=None, extra_cov=None, theorem_targets=(), extra_tier_a=None):
    """the decision rule of DESIGN.md 2.2 for an entity-manager property"""
    pr = proofcheck.prove(prop, theorem_targets)
    cov = {'obligations': pr['obligations'], 'discharged': pr['discharged'], 'theorems': pr['theorems'],
           'checker_cmd': 'make -C coq Properties_%s.vo; em_driver vs extracted Manager (tier B) and MgrSpec (tier A)' % prop,
           'trusted_base': vlib.TRUSTED_BASE_COMMON}
    rn = Runner(prop)
    if rn.err:
        p = vlib.write_replay(prop, 'build_error.txt', str(rn.err))
        return {'violations': [(p, 'no-failing-input-found')], 'coverage': cov, 'level': 'proof'}
    if replay:
        scripts = [(os.path.basename(replay), [l.rstrip('\n') for l in open(replay) if l.strip() and not l.startswith('#')])]
    impl, model, spec = rn.run(scripts)
    fails_a = tier_a(impl, spec, scripts, aspects)
    if extra_tier_a:
        fails_a = fails_a + extra_tier_a(impl, scripts)
    div_b = emcmp.compare(impl, model, tags_b)
    # beyond the point where the specification says the script left the documented contract nothing is demanded of the code and
    # nothing is predicted by the model (undefined behaviour): no comparison there
    left_at = {}
    for name_, sbl_ in spec:
        for i_, b_ in enumerate(sbl_):
            if b_['tags'].get('C') and b_['tags']['C'][0].split()[1] != '0':
                left_at[name_] = i_
                break
    div_b = [d_ for d_ in div_b if d_['script'] not in left_at or d_['opn'] < left_at[d_['script']]]
    sd = dict(scripts)
    # known findings: witness scripts that are expected to fail with a given aspect
    known_lines = []
    for kf in vlib.known_findings(prop):
        if kf.get('status') != 'open':
            continue
        wpath = os.path.join(vlib.VERIF, kf['witness'])
        wl = [l.rstrip('\n') for l in open(wpath) if l.strip() and not l.startswith('#')]
        wsc = [('witness:' + kf['key'], wl)]
        wi, wm, ws = rn.run(wsc, tag='witness')
        wr = tier_a(wi, ws, wsc, kf.get('aspects', aspects))
        if wr and wr[0]['aspect'] == kf['signature']:
            known_lines.append('%s [%s]: %s' % (kf['key'], kf['signature'], kf['what']))
    finals = set()
    kinds = {}
    for name, blocks in impl:
        if blocks:
            last = blocks[-2] if len(blocks) > 1 and 'teardown' in blocks[-1]['op'] else blocks[-1]
            finals.add('\n'.join(sum((last['tags'].get(t, []) for t in ('V', 'H', 'A')), [])))
    for ls in sd.values():
        for l in ls:
            k = l.split()[0]
            kinds[k] = kinds.get(k, 0) + 1
    model_errs = sum(1 for n, bl in model for b in bl if b['crash'])
    cov.update({'evaluations': len(scripts), 'distinct_nontrivial': len(finals), 'ops': sum(len(v) for v in sd.values()),
                'ops_by_kind': kinds, 'model_err_predicted_scripts': model_errs,
                'rule': 'generated scripts + corpus; distinct = distinct final observable state (validity, components with values, archetype lists) of the implementation',
                'tierA_failures': len(fails_a), 'tierA_aspects': sorted(aspects), 'tierB_divergences': len(div_b),
                'samples': [scripts[0][1][:60], scripts[-1][1][:60]] if scripts else []})
    if extra_cov:
        cov.update(extra_cov)
    violations = []
    if fails_a:
        f = fails_a[0]
        lines = sd[f['script']]
        small = shrink(rn, lines, aspects, f['aspect'], extra_tier_a) if not replay else lines
        p = vlib.write_replay(prop, 'failing_script.txt',
                              '# %s: %s\n# at op %d (%s) of script %s; minimised script follows, original after it\n%s\n%s\n' %
                              (f['aspect'], f['what'], f['opn'], f['op'], f['script'], '\n'.join(small), '\n'.join('# ' + x for x in lines)))
        violations.append((p, ''))
    elif not pr['ok'] or div_b:
        what = ['proof obligation broken: ' + x for x in pr['failed']]
        if div_b:
            d = div_b[0]
            what.append('correspondence Manager model vs implementation diverges: script %s op %d (%s) tag %s\n  impl : %s\n  model: %s' %
                        (d['script'], d['opn'], d['op'], d['tag'], d['impl'], d['model']))
            what.append('the property itself (tier A: %s) held on all %d scripts, including this one' % (', '.join(sorted(aspects)), len(scripts)))
            what.append('script:\n' + '\n'.join(sd.get(d['script'], [])))
        p = vlib.write_replay(prop, 'broken_obligation.txt', '\n'.join(what) + '\n')
        violations.append((p, 'no-failing-input-found'))
    return {'violations': violations, 'known': known_lines, 'coverage': cov, 'level': 'proof', 'assumptions': list(assumptions)}
