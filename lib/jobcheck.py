"""Tier A for jobs: the properties C04 (visits), C07 (no missed modification) and C11 (quiescent, chunk-precise)
evaluated on what the real library did.  Everything is derived from the implementation's own observable output:
component values and membership (H lines), archetype entity order and version-chunk size (A lines), what each
callback invocation received (R line of runjob)."""
import re


def parse_A(block):
    archs = {}
    for l in block['tags'].get('A', []):
        t = l.split()
        ai = int(t[1])
        f = dict(x.split('=', 1) for x in t[2:])
        ents = [] if f['e'] == '-' else f['e'].split(',')
        archs[ai] = dict(mask=set() if f['m'] == '-' else set(int(x) for x in f['m'].split(',')), cs=int(f.get('cs', '1')), ents=ents)
    return archs


def parse_Hvals(block):
    out = {}
    for l in block['tags'].get('H', []):
        t = l.split()
        if len(t) < 4 or t[2] == '-':
            continue
        comps = {}
        m = t[2][2:]
        if m != '-':
            for x in m.split(','):
                if '=' in x:
                    c, v = x.split('=')
                    comps[int(c)] = v
                else:
                    comps[int(x)] = '_'
        out[t[1]] = comps
    return out


def parse_Hshared(block):
    """handle -> {shared id: value} from the s= field of the H lines (the value getSharedComponent<T>(e) returns)"""
    out = {}
    for l in block['tags'].get('H', []):
        t = l.split()
        f = next((x for x in t[2:] if x.startswith('s=')), None)
        if f is None or f == 's=-':
            continue
        d = {}
        for x in f[2:].split(','):
            p_ = x.split(':')
            if len(p_) == 3 and p_[0] != '?':
                d[int(p_[0])] = p_[2]
        out[t[1]] = d
    return out


def parse_job_R(r):
    """R last=<n> t<k>:n<idx>:h/v/v,h/v/v ..."""
    t = r.split()[1:]
    last = int(t[0].split('=')[1]) if t and t[0].startswith('last=') else None
    arrays = []
    for x in t[1:]:
        task, idx, ents = x.split(':', 2)
        arrays.append((int(task[1:]), int(idx[1:]), [e.split('/') for e in ents.split(',')]))
    return last, arrays


def tier_a_jobs(impl, scripts, aspects, workers_default=15, no_layout=False):
    """no_layout: the output has no V/A lines (the C interface cannot list archetypes): only what the callbacks received is judged"""
    out = []
    lines_of = dict(scripts)
    for name, blocks in impl:
        jobs = []          # dict(reqs=[(cid, const, optional)], chk=set, ran=False)
        dirty = {}         # job -> set of handles that must be processed by its next run
        touched = {}       # job -> set of (arch, chunk)
        prev_pos = {}
        prev_hv, prev_archs, had_do, prev_hsh = None, None, False, {}
        n_do = 0
        typed = {}
        pending_acts = []
        workers = workers_default
        cap = 16384
        for l in lines_of.get(name, []):
            t = l.split()
            if t and t[0] == 'threads' and int(t[1]) > 0:
                workers = int(t[1])
            if t and t[0] == 'chunkcap' and int(t[1]) > 0:
                cap = int(t[1])
        fail = None
        for i, b in enumerate(blocks):
            if b['crash']:
                break
            if not b['tags'].get('V') and not no_layout:
                continue
            t = b['op'].split()
            op = t[0]
            archs = parse_A(b)
            hv = parse_Hvals(b)
            hsh = parse_Hshared(b)
            pos = {}
            for ai, a in archs.items():
                for p_, h in enumerate(a['ents']):
                    pos[h] = (ai, p_)
            r = (b['tags'].get('R') or ['R'])[0]
            if op == 'mkjob':
                m = re.search(r'req=(\S*) chk=(\S+)', r)
                reqs = [(int(x.split(':')[0]), int(x.split(':')[1]) & 1 == 1, int(x.split(':')[1]) & 2 == 2) for x in m.group(1).split(',') if x]
                chk = set() if m.group(2) == '-' else set(int(x) for x in m.group(2).split(','))
                jobs.append(dict(reqs=reqs, chk=chk, ran=False, xodd='xodd=1' in r))
                dirty[len(jobs) - 1] = set(); touched[len(jobs) - 1] = set()
            if op == 'jobedit':
                m = re.search(r'req=(\S*) chk=(\S+)', r)
                if m:
                    jobs[int(t[1])]['reqs'] = [(int(x.split(':')[0]), int(x.split(':')[1]) & 1 == 1, int(x.split(':')[1]) & 2 == 2) for x in m.group(1).split(',') if x]
            # ---- events that make entities dirty / chunks touched (C07, C11) ----
            def mark(h, cids, but=None):
                for j, jb in enumerate(jobs):
                    if j == but:
                        continue
                    if cids is None or (jb['chk'] & cids):
                        dirty[j].add(h)
                        if h in pos:
                            ai, p_ = pos[h]
                            touched[j].add((ai, p_ // max(1, archs[ai]['cs'])))
            if op in ('set', 'getmut') and len(t) > 2 and r.split()[1:] and r.split()[1] != 'null':
                cid = next((c for c in hv.get(t[1], {})), None)
                # the component id of the palette type: read it off the entity's archetype through the model-independent R of reg? use H: the op touched exactly one component of t[1]
                mark(t[1], None if cid is None else set(hv[t[1]].keys()) & set(pal_cids(lines_of[name], blocks, int(t[2]))))
            if op == 'markdirty' and len(t) > 2 and t[1] in hv:
                cs_ = set(pal_cids(lines_of[name], blocks, int(t[2]))) & set(hv[t[1]].keys())
                if cs_:
                    mark(t[1], cs_)
            # arrivals, moves, relocations, departures: any slot whose occupant changed
            def structural_marks():
                occ_prev = {v: k for k, v in prev_pos.items()}
                occ_now = {v: k for k, v in pos.items()}
                for slot in set(occ_prev) | set(occ_now):
                    if occ_prev.get(slot) != occ_now.get(slot):
                        ai, p_ = slot
                        if ai in archs:
                            for j in touched:
                                touched[j].add((ai, p_ // max(1, archs[ai]['cs'])))
                        if slot in occ_now:
                            for j in dirty:
                                dirty[j].add(occ_now[slot])
            # a job run whose callback makes structural calls changes the occupancy itself: those changes count AFTER the run
            if op not in ('runjob', 'runtyped'):
                structural_marks()
            if op == 'jobdo':
                had_do = True
                n_do += 1
            if op in ('runjob', 'runtyped') and had_do and prev_hv is not None:
                # the callback made structural calls (deferred to the end of the run): what the run saw is the state before it
                hv, archs, pos, hsh = prev_hv, prev_archs, dict(prev_pos), prev_hsh
            if op == 'jobact' and len(t) > 4:
                pending_acts.append((int(t[1]), t[3], int(t[4])))
            if op in ('runjob', 'runtyped'):
                mode = int(t[2]); forced = int(t[3]) if len(t) > 3 else 0
                if op == 'runjob':
                    j = int(t[1])
                    jb = jobs[j]
                else:
                    # the driver's typed jobs (PerEntityJob<T>): no version filter; arguments (palette, const, optional)
                    j = 'T' + t[1]
                    if j not in typed:
                        # typed job 4 also takes shared component type 0 by reference (scripts with it use no other shared type)
                        spec = [[(0, False, False)], [(0, True, False), (1, True, True)], [(2, False, False), (4, True, False)], [(2, True, True), (1, False, False)], [(0, True, False)]][int(t[1])]
                        reqs_ = []
                        for pal_, cst_, opt_ in spec:
                            cs_ = pal_cids(lines_of[name], blocks, pal_)
                            reqs_.append((cs_[0] if cs_ else -1, cst_, opt_))
                        typed[j] = dict(reqs=reqs_, chk=set(), ran=False, shared=(t[1] == '4'))
                        dirty[j] = set(); touched[j] = set()
                    jb = typed[j]
                last, arrays = parse_job_R(r)
                visits = []
                for task, idx, ents in arrays:
                    for k, e in enumerate(ents):
                        visits.append((task, idx + k, e[0], e[1:]))
                hs = [v[2] for v in visits]
                N = len(visits)
                required = set(c for c, cst, opt in jb['reqs'] if not opt)
                matching = set(h for h, comps in hv.items() if required <= set(comps))
                if jb.get('shared'):
                    matching = set(h for h in matching if hsh.get(h))
                if jb.get('xodd'):
                    # the job's own chunk filter (extraChunkFilterCheck) rejects version chunks with an odd index
                    matching = set(h for h in matching if h in pos and (pos[h][1] // max(1, archs[pos[h][0]]['cs'])) % 2 == 0)
                if 'visits' in aspects:
                    if len(set(hs)) != len(hs):
                        fail = ('visits', 'an entity was visited twice: %s' % sorted(h for h in set(hs) if hs.count(h) > 1)[:3])
                    elif sorted(v[1] for v in visits) != list(range(N)):
                        fail = ('visits', 'entity indexes are %s, expected 0..%d each once' % (sorted(v[1] for v in visits)[:12], N - 1))
                    else:
                        for task, idx, h, vals in visits:
                            if no_layout and not required and h not in hv:
                                # through the C interface an entity without components cannot be told from a dead one (no validity
                                # query): a job that requires nothing may visit it; it must then be handed no component at all
                                if any(v != 'null' for v in vals):
                                    fail = ('visits', 'entity %s has no component, but one was handed over: %s' % (h, vals))
                                    break
                                continue
                            if h not in matching:
                                fail = ('visits', 'visited %s, which is not a live entity with all required components' % h); break
                            if jb.get('shared'):
                                own = ','.join('S%d=%s' % kv for kv in sorted(hsh.get(h, {}).items()))
                                if vals[len(jb['reqs']):] != [own]:
                                    fail = ('visits', 'entity %s: shared component handed over as %s, the value of its archetype is %s' % (h, '/'.join(vals[len(jb['reqs']):]), own)); break
                            for (c, cst, opt), v in zip(jb['reqs'], vals):
                                have = c in hv[h]
                                if (v == 'null') != (not have):
                                    fail = ('visits', 'entity %s: component %d handed over as %s but the entity %s it' % (h, c, v, 'has' if have else 'lacks')); break
                                if have and hv[h][c] not in ('_',) and v != hv[h][c]:
                                    fail = ('visits', 'entity %s: component %d handed over with value %s, its own value is %s' % (h, c, v, hv[h][c])); break
                            if fail:
                                break
                    if not fail and not jb['chk'] and (set(hs) != matching if not (no_layout and not required) else not (matching <= set(hs))):
                        fail = ('visits', 'job without version filter visited %d entities, %d have the required components (missing %s)' %
                                (N, len(matching), sorted(matching - set(hs))[:3]))
                    if not fail and N and not no_layout:
                        T = 1 if mode == 0 else max(1, forced if forced else min(N, workers + 1))
                        per_task = {}
                        for task, idx, h, vals in visits:
                            per_task.setdefault(task, []).append(idx)
                        start = 0
                        for k in range(T):
                            sz = N // T + (1 if k < N % T else 0)
                            got = sorted(per_task.get(k, []))
                            if got != list(range(start, start + sz)):
                                fail = ('visits', 'task %d of %d received entity indexes %s, expected %d..%d' % (k, T, got[:8], start, start + sz - 1)); break
                            start += sz
                    if not fail and not no_layout:
                        for task, idx, ents in arrays:
                            ps = [pos.get(e[0]) for e in ents]
                            if any(p_ is None for p_ in ps) or any(ps[k + 1] != (ps[k][0], ps[k][1] + 1) for k in range(len(ps) - 1)):
                                fail = ('visits', 'an array is not a contiguous range of one archetype: %s' % ps[:6]); break
                            if ps and ps[0][1] // cap != ps[-1][1] // cap:
                                fail = ('visits', 'an array crosses a storage chunk boundary: %s..%s (capacity %d)' % (ps[0], ps[-1], cap)); break
                if not fail and jb['chk'] and jb['ran']:
                    if 'nomiss' in aspects:
                        checked_present = lambda h: True
                        missed = [h for h in dirty[j] if h in matching and h not in hs]
                        if missed:
                            fail = ('nomiss', 'job %d did not process %s although it was modified (written, created, moved or relocated) since the job last processed it' % (j, sorted(missed)[:3]))
                    if not fail and 'precise' in aspects and jb['chk'] <= required:
                        for h in hs:
                            ai, p_ = pos[h]
                            if (ai, p_ // max(1, archs[ai]['cs'])) not in touched[j]:
                                fail = ('precise', 'job %d processed %s (archetype %d, version chunk %d) although nothing in that chunk changed since the job last processed it' %
                                        (j, h, ai, p_ // max(1, archs[ai]['cs']))); break
                if fail:
                    break
                if N > 0 or not jb['ran']:
                    pass
                # after the run: processed entities are clean for this job; what it wrote is dirty for the others
                processed_chunks = set((pos[h][0], pos[h][1] // max(1, archs[pos[h][0]]['cs'])) for h in hs if h in pos)
                dirty[j] -= set(hs)
                if N > 0:
                    jb['ran'] = True
                touched[j] -= processed_chunks
                written = set(c for c, cst, opt in jb['reqs'] if not cst)
                if written and N > 0:
                    for h in hs:
                        ws = written & set(hv.get(h, {}))
                        if ws:
                            mark(h, ws, but=j)
                # what the callback itself modified (markDirty / mutable access on some entity) while it ran: every job,
                # this one included, has to see that at its next run
                structural_marks()
                for idx_, h_, pal_ in pending_acts:
                    if idx_ < N and h_ in hv:
                        cs_ = set(pal_cids(lines_of[name], blocks, pal_)) & set(hv[h_].keys())
                        if cs_:
                            mark(h_, cs_)
                pending_acts = []
            if op in ('runjob', 'runtyped') and had_do:
                had_do = False
                pre_archs_ = archs
                archs = parse_A(b); hv = parse_Hvals(b); hsh = parse_Hshared(b)
                pos = {}
                for ai_, a_ in archs.items():
                    for p2_, h2_ in enumerate(a_['ents']):
                        pos[h2_] = (ai_, p2_)
                structural_marks()
                # the flush at the end of the run applied up to n_do structural commands one after the other: entities may have
                # arrived at the end of an archetype and left again (or the other way round) without a trace in the final occupancy.
                # Arrivals and departures happen at the tail: every chunk the tail may have crossed counts as touched
                for ai_ in set(archs) | set(pre_archs_ or {}):
                    n0_ = len((pre_archs_ or {}).get(ai_, {'ents': []})['ents']); n1_ = len(archs.get(ai_, {'ents': []})['ents'])
                    cs_ = max(1, (archs.get(ai_) or pre_archs_[ai_])['cs'])
                    for p_ in range(max(0, min(n0_, n1_) - n_do), max(n0_, n1_) + n_do + 1):
                        for j_ in touched:
                            touched[j_].add((ai_, p_ // cs_))
                n_do = 0
            prev_pos = pos
            prev_hv, prev_archs, prev_hsh = hv, archs, hsh
        if fail:
            out.append(dict(script=name, opn=i, op=b['op'], aspect=fail[0], what=fail[1]))
    return out


_PAL_CACHE = {}


def pal_cids(lines, blocks, pal):
    """component id(s) of a palette type in this script: registration order = first mention order"""
    key = id(lines)
    if key not in _PAL_CACHE:
        order = []
        def see(p):
            if p not in order:
                order.append(p)
        for l in lines:
            t = l.split()
            if not t:
                continue
            if t[0] == 'reg':
                see(int(t[1]))
            elif t[0] in ('create', 'createarch'):
                for x in t[2:]:
                    if not x.startswith('s'):
                        see(int(x))
            elif t[0] == 'cleararch':
                for x in t[1:]:
                    if not x.startswith('s'):
                        see(int(x))
            elif t[0] in ('assign', 'assignid', 'remove', 'removeid'):
                see(int(t[3]))
            elif t[0] in ('getconst', 'getmut', 'set', 'has', 'markdirty'):
                see(int(t[2]))
            elif t[0] == 'dep':
                for x in t[1:]:
                    see(int(x))
            elif t[0] in ('mkjob', 'jobedit'):
                for x in t[2:]:
                    if x != 'c':
                        see(int(x.split(':')[0]))
        _PAL_CACHE[key] = {p: i for i, p in enumerate(order)}
    m = _PAL_CACHE[key]
    return [m[pal]] if pal in m else []
