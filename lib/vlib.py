"""Common machinery for the /verif checks: building /repo's sources, the Coq project, the extracted
OCaml model runner and the C++ drivers; running them; writing evidence; known findings."""
import fcntl, glob, hashlib, json, os, re, shutil, subprocess, sys, time

VERIF = os.path.dirname(os.path.dirname(os.path.abspath(__file__)))
REPO = os.environ.get('VERIF_REPO', '/repo')
BUILD = os.path.join(VERIF, '.build')
COQ = os.path.join(VERIF, 'coq')
GUARD = 'KIRILLOCHNEV_MUSTACHE_VERIF'
NPROC = os.cpu_count() or 4

TRUSTED_BASE_COMMON = [
    'Coq 8.16.1 kernel (coqc, full .vo build); vm_compute for closed computations; no native_compute',
    'no axioms: every property theorem prints "Closed under the global context" (checked on every run)',
    'extraction: Require Extraction + ExtrOcamlBasic only (no Extract Constant / Extract Inductive of our own); nat, N, positive, Z stay inductive',
    'OCaml 4.13.1 + ocaml/driver.ml (script parsing, printing)',
    'C++ drivers under harness/ built against /repo/src with -DKIRILLOCHNEV_MUSTACHE_VERIF -fno-access-control; python canonicaliser/diff',
    'the correspondence is sampled: model = code is established only on the scripts run; theorems are about the model',
]


def sh(cmd, timeout=None, cwd=None, env=None, input=None):
    p = subprocess.run(cmd, shell=isinstance(cmd, str), cwd=cwd, env=env, input=input,
                       stdout=subprocess.PIPE, stderr=subprocess.STDOUT, timeout=timeout)
    return p.returncode, p.stdout.decode(errors='replace')


class Lock:
    def __init__(self, name):
        os.makedirs(BUILD, exist_ok=True)
        self.path = os.path.join(BUILD, name + '.lock')

    def __enter__(self):
        self.f = open(self.path, 'w')
        fcntl.flock(self.f, fcntl.LOCK_EX)
        return self

    def __exit__(self, *a):
        fcntl.flock(self.f, fcntl.LOCK_UN)
        self.f.close()


# ---------------------------------------------------------------------------------------------
# C++ side
# ---------------------------------------------------------------------------------------------
def repo_sources():
    out = []
    for root, dirs, files in os.walk(os.path.join(REPO, 'src')):
        for f in files:
            out.append(os.path.join(root, f))
    return sorted(out)


def src_fingerprint(extra=''):
    h = hashlib.sha256()
    for f in repo_sources():
        h.update(f.encode())
        with open(f, 'rb') as fh:
            h.update(fh.read())
    h.update(extra.encode())
    return h.hexdigest()[:16]


CXX = 'g++'
BASE_FLAGS = ['-std=c++17', '-O1', '-g', '-pthread', '-D' + GUARD, '-DBUILD_WITH_EASY_PROFILER=0',
              '-I' + os.path.join(REPO, 'src'), '-I' + os.path.join(VERIF, 'harness', 'include'), '-w']
VARIANTS = {
    'base': ([], 'g++'),
    'asan': (['-fsanitize=address,undefined', '-fno-sanitize-recover=all', '-fno-omit-frame-pointer'], 'g++'),
    'tsan': (['-fsanitize=thread', '-fno-omit-frame-pointer'], 'clang++'),
}


def prune_builds(keep):
    """keep disk use bounded: remove lib-* dirs other than the ones in keep (most recent 3 kept)"""
    ds = sorted(glob.glob(os.path.join(BUILD, 'lib-*')), key=os.path.getmtime, reverse=True)
    for d in ds[4:]:
        if os.path.basename(d) not in keep:
            shutil.rmtree(d, ignore_errors=True)


def build_lib(variant='base'):
    """compile every /repo/src/mustache/**/*.cpp (c_api.cpp into its own object) -> (dir, error)"""
    vflags, cxx = VARIANTS[variant]
    fp = src_fingerprint(variant + ' '.join(BASE_FLAGS))
    d = os.path.join(BUILD, 'lib-%s-%s' % (variant, fp))
    with Lock('lib-' + variant):
        if os.path.exists(os.path.join(d, 'ok')):
            os.utime(d, None)
            return d, None
        shutil.rmtree(d, ignore_errors=True)
        os.makedirs(d)
        cpps = [f for f in repo_sources() if f.endswith('.cpp')]
        jobs = []
        for f in cpps:
            o = os.path.join(d, os.path.relpath(f, os.path.join(REPO, 'src')).replace('/', '_')[:-4] + '.o')
            jobs.append((f, o))
        procs = []
        errs = []
        it = iter(jobs)
        running = []
        def start(j):
            f, o = j
            return (j, subprocess.Popen([cxx] + BASE_FLAGS + vflags + ['-c', f, '-o', o],
                                        stdout=subprocess.PIPE, stderr=subprocess.STDOUT))
        for j in it:
            running.append(start(j))
            while len(running) >= NPROC:
                j0, p0 = running.pop(0)
                out = p0.communicate()[0].decode(errors='replace')
                if p0.returncode != 0:
                    errs.append(j0[0] + '\n' + out)
        for j0, p0 in running:
            out = p0.communicate()[0].decode(errors='replace')
            if p0.returncode != 0:
                errs.append(j0[0] + '\n' + out)
        if errs:
            return d, 'compile error:\n' + '\n'.join(errs)[:8000]
        objs = [o for f, o in jobs if not f.endswith('/c_api.cpp')]
        rc, out = sh(['ar', 'rcs', os.path.join(d, 'libmustache.a')] + objs)
        if rc != 0:
            return d, out
        open(os.path.join(d, 'ok'), 'w').write(fp)
        prune_builds({os.path.basename(d)})
        return d, None


def build_driver(name, variant='base', extra=None, with_capi=False):
    libd, err = build_lib(variant)
    if err:
        return None, err
    vflags, cxx = VARIANTS[variant]
    src = os.path.join(VERIF, 'harness', name + '.cpp')
    hdrs = sorted(glob.glob(os.path.join(VERIF, 'harness', '*.hpp')) + glob.glob(os.path.join(VERIF, 'harness', '*.h')))
    h = hashlib.sha256()
    for f in [src] + hdrs:
        h.update(open(f, 'rb').read())
    h.update(' '.join(extra or []).encode())
    exe = os.path.join(libd, '%s-%s' % (name, h.hexdigest()[:12]))
    with Lock('drv-' + name + variant):
        if os.path.exists(exe):
            return exe, None
        # older builds of this driver are removed, but not while another check started less than two hours ago may still run them
        for old in glob.glob(os.path.join(libd, name + '-*')):
            try:
                if time.time() - os.path.getmtime(old) > 7200:
                    os.remove(old)
            except OSError:
                pass
        objs = [os.path.join(libd, 'libmustache.a')]
        if with_capi:
            objs = [os.path.join(libd, 'mustache_c_api.o')] + objs
        cmd = [cxx] + BASE_FLAGS + vflags + ['-fno-access-control'] + (extra or []) + [src] + objs + ['-o', exe + '.tmp']
        rc, out = sh(cmd, timeout=600)
        if rc != 0:
            return None, 'driver %s failed to build:\n%s' % (name, out[:8000])
        os.rename(exe + '.tmp', exe)
        return exe, None


# ---------------------------------------------------------------------------------------------
# Coq side
# ---------------------------------------------------------------------------------------------
FORBIDDEN = re.compile(r'\b(Admitted|admit|Axiom|Axioms|Parameter|Parameters|Conjecture|Hypothesis|Variable|'
                       r'Unset\s+Guard|bypass_check|Admit\s+Obligations|Unset\s+Universe\s+Checking|'
                       r'Unset\s+Positivity|type-in-type|impredicative-set|native_compute)\b')


def strip_comments(s):
    out, depth, i = [], 0, 0
    while i < len(s):
        if s.startswith('(*', i):
            depth += 1; i += 2
        elif s.startswith('*)', i) and depth:
            depth -= 1; i += 2
        else:
            if not depth:
                out.append(s[i])
            i += 1
    return ''.join(out)


def grep_forbidden():
    """Admitted/Axiom/... anywhere in the development (Variable/Hypothesis are allowed inside Sections only)"""
    hits = []
    for f in sorted(glob.glob(os.path.join(COQ, '**', '*.v'), recursive=True)):
        txt = strip_comments(open(f).read())
        depth = 0
        for ln, line in enumerate(txt.split('\n'), 1):
            if re.match(r'\s*Section\b', line):
                depth += 1
            for m in FORBIDDEN.finditer(line):
                w = m.group(1)
                if w in ('Variable', 'Hypothesis', 'Parameter', 'Parameters') and depth > 0 and w in ('Variable', 'Hypothesis'):
                    continue
                hits.append('%s:%d: %s' % (os.path.relpath(f, VERIF), ln, line.strip()[:100]))
            if re.match(r'\s*End\b', line) and depth > 0:
                depth -= 1
    return hits


def run_translator():
    rc, out = sh([sys.executable, os.path.join(VERIF, 'tools', 'cxx2coq.py')], timeout=120)
    return rc == 0, out.strip()


def coq_build(targets, timeout=1500):
    """make -k the given .vo targets (full .vo builds). Returns (ok, log)."""
    with Lock('coq'):
        if not os.path.exists(os.path.join(COQ, 'Makefile')) or \
                os.path.getmtime(os.path.join(COQ, 'Makefile')) < os.path.getmtime(os.path.join(COQ, '_CoqProject')):
            rc, out = sh('coq_makefile -f _CoqProject -o Makefile', cwd=COQ, timeout=60)
            if rc != 0:
                return False, out
        # Print Assumptions output is only produced when a file is compiled: force the property files
        for t in targets:
            if os.path.basename(t).startswith('Properties_'):
                p = os.path.join(COQ, t)
                for ext in ('', 's', 'k'):
                    try:
                        os.remove(p + ext)
                    except FileNotFoundError:
                        pass
        try:
            rc, out = sh(['make', '-k', '-j%d' % NPROC] + targets, cwd=COQ, timeout=timeout)
        except subprocess.TimeoutExpired:
            return False, 'coq build timed out after %ds' % timeout
        return rc == 0, out


def theorem_report(prop_file_v, log):
    """names of Theorems in a Properties file; and the Print Assumptions verdicts found in the build log"""
    txt = strip_comments(open(os.path.join(COQ, prop_file_v)).read())
    thms = re.findall(r'^\s*(?:Theorem|Example)\s+(\w+)', txt, re.M)
    printed = re.findall(r'^\s*Print Assumptions\s+(\w+)\s*\.', txt, re.M)
    closed = log.count('Closed under the global context')
    axioms = re.findall(r'^Axioms:\n((?:.+\n)+?)(?=\S|\Z)', log, re.M)
    return thms, printed, closed, axioms


# ---------------------------------------------------------------------------------------------
# OCaml runner (extracted models)
# ---------------------------------------------------------------------------------------------
def build_runner(timeout=900):
    """coq/Extract.v (Separate Extraction) is run in .build/ocaml/x-<hash>; the .ml files are compiled with
    ocaml/driver.ml into the runner executable."""
    od = os.path.join(BUILD, 'ocaml')
    os.makedirs(od, exist_ok=True)
    txt = strip_comments(open(os.path.join(COQ, 'Extract.v')).read())
    mods = sorted(set(re.findall(r'From Mustache(?:\.\w+)* Require Import ([^.]+)\.', txt)))
    names = []
    for m in re.finditer(r'From Mustache(\.\w+)* Require Import ([^.]+)\.', txt):
        sub = (m.group(1) or '').strip('.')
        for n in m.group(2).split():
            names.append((sub + '/' if sub else '') + n + '.vo')
    ok, log = coq_build(names)
    if not ok:
        return None, 'model files failed to build:\n' + log[-6000:]
    with Lock('ocaml'):
        h = hashlib.sha256()
        for f in sorted(glob.glob(os.path.join(COQ, '**', '*.v'), recursive=True)) + [os.path.join(VERIF, 'ocaml', 'driver.ml')]:
            h.update(open(f, 'rb').read())
        hx = h.hexdigest()[:12]
        exe = os.path.join(od, 'runner-' + hx)
        if os.path.exists(exe):
            return exe, None
        for old in glob.glob(os.path.join(od, 'runner-*')) + glob.glob(os.path.join(od, 'x-*')):
            if os.path.isdir(old):
                shutil.rmtree(old, ignore_errors=True)
            else:
                os.remove(old)
        xd = os.path.join(od, 'x-' + hx)
        os.makedirs(xd)
        rc, out = sh(['coqc', '-Q', COQ, 'Mustache', '-o', os.path.join(xd, 'Extract.vo'), os.path.join(COQ, 'Extract.v')],
                     cwd=xd, timeout=timeout)
        if rc != 0:
            return None, 'extraction failed:\n' + out[-6000:]
        shutil.copy(os.path.join(VERIF, 'ocaml', 'driver.ml'), os.path.join(xd, 'driver.ml'))
        rc, order = sh('ocamlfind ocamldep -sort *.ml *.mli', cwd=xd, timeout=120)
        files = [f for f in order.split() if f.endswith('.ml') or f.endswith('.mli')]
        rc, out = sh(['ocamlfind', 'ocamlopt', '-w', '-a', '-package', 'zarith', '-linkpkg'] + files + ['-o', 'runner.tmp'],
                     cwd=xd, timeout=timeout)
        if not os.path.exists(os.path.join(xd, 'runner.tmp')):
            return None, 'ocaml build failed:\n' + out[-6000:]
        os.rename(os.path.join(xd, 'runner.tmp'), exe)
        return exe, None


# ---------------------------------------------------------------------------------------------
# PRNG: splitmix64, every random choice of a run derives from VERIF_SEED
# ---------------------------------------------------------------------------------------------
class Rng:
    def __init__(self, seed):
        self.s = seed & 0xFFFFFFFFFFFFFFFF

    def next(self):
        self.s = (self.s + 0x9E3779B97F4A7C15) & 0xFFFFFFFFFFFFFFFF
        z = self.s
        z = ((z ^ (z >> 30)) * 0xBF58476D1CE4E5B9) & 0xFFFFFFFFFFFFFFFF
        z = ((z ^ (z >> 27)) * 0x94D049BB133111EB) & 0xFFFFFFFFFFFFFFFF
        return z ^ (z >> 31)

    def below(self, n):
        return self.next() % n if n > 0 else 0

    def range(self, a, b):
        return a + self.below(b - a + 1)

    def chance(self, num, den):
        return self.below(den) < num

    def pick(self, xs):
        return xs[self.below(len(xs))]

    def weighted(self, pairs):
        tot = sum(w for _, w in pairs)
        r = self.below(tot)
        for x, w in pairs:
            if r < w:
                return x
            r -= w
        return pairs[-1][0]

    def fork(self, tag):
        return Rng(self.next() ^ (hash_str(tag)))


def hash_str(s):
    return int(hashlib.sha256(s.encode()).hexdigest()[:16], 16)


def seed():
    try:
        return int(os.environ.get('VERIF_SEED', '1'))
    except ValueError:
        return 1


def tier(argv_tier=None):
    t = argv_tier or os.environ.get('VERIF_TIER') or 'quick'
    return t if t in ('quick', 'thorough') else 'quick'


# ---------------------------------------------------------------------------------------------
# evidence / findings / reporting
# ---------------------------------------------------------------------------------------------
def known_findings(prop):
    p = os.path.join(VERIF, 'known_findings.json')
    if not os.path.exists(p):
        return []
    return [e for e in json.load(open(p)) if e.get('property') == prop]


def write_evidence(prop, tier_, seed_, level, coverage, assumptions, wall, violations):
    os.makedirs(os.path.join(VERIF, 'evidence'), exist_ok=True)
    ev = {'property_id': prop, 'tier': tier_, 'seed': seed_, 'level': level, 'coverage': coverage,
          'assumptions': assumptions, 'wall_s': round(wall, 2), 'violations': violations}
    with open(os.path.join(VERIF, 'evidence', prop + '.json'), 'w') as f:
        json.dump(ev, f, indent=1, sort_keys=True)
        f.write('\n')


def write_replay(prop, name, content):
    d = os.path.join(VERIF, 'replays', prop)
    os.makedirs(d, exist_ok=True)
    p = os.path.join(d, name)
    with open(p, 'w') as f:
        f.write(content)
    return p


def ddmin(items, fails, budget=200):
    """delta debugging on a list; fails(list)->bool. Returns a smaller failing list."""
    n = 2
    calls = 0
    cur = list(items)
    while len(cur) >= 2 and calls < budget:
        chunk = max(1, len(cur) // n)
        reduced = False
        for i in range(0, len(cur), chunk):
            cand = cur[:i] + cur[i + chunk:]
            calls += 1
            if cand and fails(cand):
                cur = cand
                n = max(n - 1, 2)
                reduced = True
                break
            if calls >= budget:
                break
        if not reduced:
            if chunk == 1:
                break
            n = min(n * 2, len(cur))
    return cur
