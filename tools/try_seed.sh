#!/bin/sh
# try_seed.sh <worktree-suffix e.g. C09b> <check ids...>: confirm the seed, apply it to /repo, run the checks, undo
W=$1; shift
tools/confirm_seed.sh $W || exit 2
git -C /repo apply /tmp/wt_$W/seeded_out/patch.diff || exit 2
for id in "$@"; do
  timeout 1500 ./check $id 2>&1 | grep -v KNOWN-FINDING | tail -2
  for f in replays/$id/*.txt; do [ -f "$f" ] && head -3 "$f" | cut -c1-220; done
done
git -C /repo checkout -- .
