#!/usr/bin/env python3
"""cxx2coq: translate the straight-line integer leaf code of mustache
(ecs/entity.hpp, ecs/id_deff.hpp) into Gallina definitions over N with
explicit wrap-around, from clang's JSON AST.

The translator knows a deliberately small grammar.  Any AST node kind, cast kind,
operator or callee it does not know raises TranslateError: the caller reports that as
a broken tie (the source is no longer inside what the translator understands), never
as silence.

Output: coq/gen/EntityGen.v, coq/gen/IdDeffGen.v (written only when changed).
"""
import json, os, re, subprocess, sys, hashlib

REPO = os.environ.get('VERIF_REPO', '/repo')
HERE = os.path.dirname(os.path.dirname(os.path.abspath(__file__)))


class TranslateError(Exception):
    pass


def clang_ast(header, flt):
    src = '#include <%s>\n' % header
    cmd = ['clang++', '-std=c++17', '-fsyntax-only', '-x', 'c++', '-I', REPO + '/src',
           '-I', HERE + '/harness/include', '-Xclang', '-ast-dump=json',
           '-Xclang', '-ast-dump-filter=' + flt, '-']
    p = subprocess.run(cmd, input=src.encode(), stdout=subprocess.PIPE, stderr=subprocess.PIPE)
    if p.returncode != 0:
        raise TranslateError('clang failed on %s: %s' % (header, p.stderr.decode()[:2000]))
    s = p.stdout.decode()
    dec = json.JSONDecoder()
    i, objs = 0, []
    while i < len(s):
        while i < len(s) and s[i].isspace():
            i += 1
        if i >= len(s):
            break
        o, i = dec.raw_decode(s, i)
        objs.append(o)
    return objs


# ---- C types ---------------------------------------------------------------
U64 = {'uint64_t', 'unsigned long', 'unsigned long long', 'size_t', 'const uint64_t', 'const unsigned long',
       'const unsigned long long', 'const size_t'}
U32 = {'uint32_t', 'unsigned int', 'const uint32_t', 'const unsigned int'}
S32 = {'int', 'const int'}
INDEXLIKE32 = None  # filled from the AST: class name -> null value


def ctype(q):
    q = q.strip()
    q = re.sub(r'\s*&+$', '', q)
    if q in U64:
        return (64, False)
    if q in U32:
        return (32, False)
    if q in S32:
        return (32, True)
    if q in ('bool', 'const bool'):
        return (1, False)
    m = re.match(r'(const )?mustache::(\w+)$', q)
    if m and m.group(2) in INDEXLIKE:
        return (32, False)
    if q.startswith('mustache::Entity::(unnamed enum'):
        return (64, False)
    if q in ('mustache::Entity', 'const mustache::Entity'):
        return (64, False)
    raise TranslateError('unknown C type %r' % q)


INDEXLIKE = {}


def collect_indexlike(objs):
    """class name -> null value, from every IndexLike<uint32_t, X, NULL> mention in the dump."""
    txt = json.dumps(objs)
    for m in re.finditer(r'mustache::IndexLike<unsigned int, mustache::(\w+), (\d+)>', txt):
        INDEXLIKE[m.group(1)] = int(m.group(2))
    # classes that appear only as return types use the default null value
    for m in re.finditer(r'"qualType": "(?:const )?mustache::(\w+)"', txt):
        INDEXLIKE.setdefault(m.group(1), None)


def null_of(cls):
    v = INDEXLIKE.get(cls)
    if v is None:
        # default template argument static_cast<T>(-1) for a uint32_t index
        return 2 ** 32 - 1
    return v


# ---- expression translation ------------------------------------------------
TRANSPARENT = {'ParenExpr', 'MaterializeTemporaryExpr', 'ExprWithCleanups', 'CXXFunctionalCastExpr',
               'ConstantExpr', 'CXXBindTemporaryExpr'}
TRANSPARENT_CASTS = {'LValueToRValue', 'NoOp', 'UncheckedDerivedToBase', 'DerivedToBase', 'ConstructorConversion'}


class Ctx:
    def __init__(self, cls, this_field, consts, methods):
        self.cls = cls              # Coq module name
        self.this_field = this_field  # 'value' or 'value_'
        self.consts = consts        # names of static constexpr members / enum constants
        self.methods = methods      # method name -> coq name (for calls on this)
        self.locals = set()


def qt(n):
    return n.get('type', {}).get('qualType', '')


def is_const_signed(n):
    """fold a signed-int constant subexpression to a python int, else None"""
    k = n['kind']
    if k == 'IntegerLiteral':
        return int(n['value'])
    if k in TRANSPARENT or (k == 'ImplicitCastExpr' and n.get('castKind') in TRANSPARENT_CASTS):
        return is_const_signed(n['inner'][0])
    if k == 'UnaryOperator' and n.get('opcode') == '-':
        v = is_const_signed(n['inner'][0])
        return None if v is None else -v
    if k == 'BinaryOperator' and ctype(qt(n))[1]:
        a = is_const_signed(n['inner'][0]); b = is_const_signed(n['inner'][1])
        if a is None or b is None:
            return None
        op = n['opcode']
        if op == '*': return a * b
        if op == '+': return a + b
        if op == '-': return a - b
        raise TranslateError('signed constant operator %s' % op)
    return None


def wrap(w, e, srcw=None):
    if srcw is not None and srcw <= w:
        return e
    return '(wrap %d %s)' % (w, e)


def tr(n, cx):
    """returns (coq_expr, width)"""
    k = n['kind']
    if k in TRANSPARENT:
        return tr(n['inner'][0], cx)
    if k == 'IntegerLiteral':
        w, s = ctype(qt(n))
        return (str(int(n['value'])), w)
    if k in ('ImplicitCastExpr', 'CStyleCastExpr', 'CXXStaticCastExpr'):
        ck = n.get('castKind')
        inner = [c for c in n['inner'] if c['kind'] != 'TypeLoc'][-1]
        if ck in TRANSPARENT_CASTS:
            return tr(inner, cx)
        if ck == 'IntegralCast':
            w, s = ctype(qt(n))
            if s:
                raise TranslateError('cast to signed type %s' % qt(n))
            cv = is_const_signed(inner) if ctype_or_none(qt(inner), signed=True) else None
            if cv is not None:
                return (str(cv % (2 ** w)), w)
            e, sw = tr(inner, cx)
            return (wrap(w, e, sw), w)
        raise TranslateError('cast kind %s' % ck)
    if k == 'CXXConstructExpr':
        if len(n['inner']) != 1:
            raise TranslateError('constructor with %d args' % len(n['inner']))
        return tr(n['inner'][0], cx)
    if k == 'CXXTemporaryObjectExpr':
        if len(n['inner']) != 1:
            raise TranslateError('temporary object with %d args' % len(n['inner']))
        return tr(n['inner'][0], cx)
    if k == 'DeclRefExpr':
        rd = n['referencedDecl']
        nm = rd.get('name')
        if rd['kind'] == 'ParmVarDecl':
            return (coqname(nm), ctype(qt(n))[0])
        if rd['kind'] == 'VarDecl':
            if nm in cx.locals:
                return (coqname(nm), ctype(qt(n))[0])
            if nm in cx.consts:
                return (nm, ctype(qt(n))[0])
            raise TranslateError('reference to unknown variable %s' % nm)
        if rd['kind'] == 'EnumConstantDecl':
            if nm in cx.consts:
                return (coqname(nm), 64)
            raise TranslateError('unknown enum constant %s' % nm)
        raise TranslateError('DeclRefExpr to %s' % rd['kind'])
    if k == 'MemberExpr':
        base = n['inner'][0]
        while base['kind'] == 'ImplicitCastExpr':
            base = base['inner'][0]
        if n.get('name') == cx.this_field:
            w = ctype(qt(n))[0]
            if base['kind'] == 'CXXThisExpr':
                return (cx.this_field, w)
            if base['kind'] == 'DeclRefExpr' and base['referencedDecl']['kind'] == 'ParmVarDecl':
                return (coqname(base['referencedDecl']['name']), w)
        raise TranslateError('member access %s' % n.get('name'))
    if k == 'BinaryOperator':
        op = n['opcode']
        a, wa = tr(n['inner'][0], cx)
        b, wb = tr(n['inner'][1], cx)
        if op in ('==', '!=', '<', '>', '<=', '>='):
            f = {'==': 'N.eqb %s %s', '!=': 'negb (N.eqb %s %s)', '<': 'N.ltb %s %s', '>': 'N.ltb %s %s',
                 '<=': 'N.leb %s %s', '>=': 'N.leb %s %s'}[op]
            if op in ('>', '>='):
                a, b = b, a
            return ('(' + f % (a, b) + ')', 1)
        w, s = ctype(qt(n))
        if s:
            raise TranslateError('non-constant signed arithmetic')
        if op == '|': return ('(N.lor %s %s)' % (a, b), w)
        if op == '&': return ('(N.land %s %s)' % (a, b), w)
        if op == '^': return ('(N.lxor %s %s)' % (a, b), w)
        if op == '<<': return ('(wrap %d (N.shiftl %s %s))' % (w, a, b), w)
        if op == '>>': return ('(N.shiftr %s %s)' % (a, b), w)
        if op == '+': return ('(wrap %d (%s + %s))' % (w, a, b), w)
        if op == '-': return ('(sub_w %d %s %s)' % (w, a, b), w)
        if op == '*': return ('(wrap %d (%s * %s))' % (w, a, b), w)
        if op == '/': return ('(%s / %s)' % (a, b), w)
        if op == '%': return ('(%s mod %s)' % (a, b), w)
        raise TranslateError('binary operator %s' % op)
    if k == 'CXXMemberCallExpr':
        me = n['inner'][0]
        if me['kind'] != 'MemberExpr':
            raise TranslateError('member call through %s' % me['kind'])
        name = me['name']
        obj = me['inner'][0]
        core = obj
        while core['kind'] == 'ImplicitCastExpr':
            core = core['inner'][0]
        args = n['inner'][1:]
        if core['kind'] == 'CXXThisExpr' and name in cx.methods:
            targs = [tr(a, cx)[0] for a in args]
            rw = 64 if qt(n) == 'void' else ctype(qt(n))[0]
            key = (name, len(targs))
            if key not in cx.methods[name]:
                raise TranslateError('call to %s/%d' % key)
            return ('(%s %s)' % (cx.methods[name][key], ' '.join([cx.this_field] + targs)), rw)
        # IndexLike methods on a parameter / this
        if name == 'toInt':
            e, sw = tr(obj, cx) if core['kind'] != 'CXXThisExpr' else (cx.this_field, 32)
            w, s = ctype(qt(n))
            if s:
                raise TranslateError('toInt to signed')
            return (wrap(w, e, sw), w)
        if name in ('isNull', 'isValid'):
            cls = indexlike_class(obj)
            e, sw = tr(obj, cx) if core['kind'] != 'CXXThisExpr' else (cx.this_field, 32)
            t = '(N.eqb %s %d)' % (e, null_of(cls))
            return (t if name == 'isNull' else '(negb %s)' % t, 1)
        if name == 'next':
            e, sw = tr(obj, cx) if core['kind'] != 'CXXThisExpr' else (cx.this_field, 32)
            return ('(wrap 32 (%s + 1))' % e, 32)
        raise TranslateError('member call %s' % name)
    if k == 'CallExpr':
        callee = n['inner'][0]
        while callee['kind'] == 'ImplicitCastExpr':
            callee = callee['inner'][0]
        if callee['kind'] != 'DeclRefExpr':
            raise TranslateError('call through %s' % callee['kind'])
        cname = callee['referencedDecl']['name']
        rcls = re.match(r'(?:const )?mustache::(\w+)$', qt(n))
        if cname == 'make' and rcls and len(n['inner']) == 2:
            e, sw = tr(n['inner'][1], cx)
            return (wrap(32, e, sw), 32)
        if cname == 'null' and rcls and len(n['inner']) == 1:
            return (str(null_of(rcls.group(1))), 32)
        raise TranslateError('call to %s' % cname)
    if k == 'UnaryOperator' and n.get('opcode') == '!':
        e, w = tr(n['inner'][0], cx)
        return ('(negb %s)' % e, 1)
    raise TranslateError('expression kind %s' % k)


def ctype_or_none(q, signed=False):
    try:
        w, s = ctype(q)
        return s if signed else True
    except TranslateError:
        return None


def indexlike_class(obj):
    q = qt(obj)
    m = re.search(r'mustache::IndexLike<unsigned int, mustache::(\w+), \d+>', q)
    if m:
        return m.group(1)
    m = re.match(r'(?:const )?mustache::(\w+)', q)
    if m:
        return m.group(1)
    raise TranslateError('cannot find IndexLike class in %s' % q)


RESERVED = {'id': 'id_', 'version': 'version_', 'end': 'end_', 'at': 'at_', 'in': 'in_'}


def coqname(n):
    return RESERVED.get(n, n)


def tr_body(stmts, cx, mutator):
    """statement list -> coq expression (the returned value, or the new this-field for mutators)"""
    if not stmts:
        if mutator:
            return cx.this_field
        raise TranslateError('fell off the end of a value-returning function')
    s, rest = stmts[0], stmts[1:]
    k = s['kind']
    if k == 'CompoundStmt':
        return tr_body(s.get('inner', []) + rest, cx, mutator)
    if k == 'DeclStmt':
        v = s['inner'][0]
        if v['kind'] != 'VarDecl' or len(s['inner']) != 1:
            raise TranslateError('declaration statement')
        e, w = tr(v['inner'][0], cx)
        cx.locals.add(v['name'])
        return 'let %s := %s in\n    %s' % (coqname(v['name']), e, tr_body(rest, cx, mutator))
    if k == 'ReturnStmt':
        if mutator:
            if s.get('inner'):
                raise TranslateError('return with value in mutator')
            return cx.this_field
        return tr(s['inner'][0], cx)[0]
    if k == 'IfStmt':
        inner = s['inner']
        c = tr(inner[0], cx)[0]
        # both branches must end in return (value functions) for this simple scheme
        then_e = tr_body([inner[1]] + ([] if ends_in_return(inner[1]) else rest), cx, mutator)
        if len(inner) > 2:
            else_e = tr_body([inner[2]] + ([] if ends_in_return(inner[2]) else rest), cx, mutator)
        else:
            else_e = tr_body(rest, cx, mutator)
        return 'if %s then %s\n    else %s' % (c, then_e, else_e)
    if mutator and k == 'BinaryOperator' and s.get('opcode') == '=':
        lhs = s['inner'][0]
        if not (lhs['kind'] == 'MemberExpr' and lhs['name'] == cx.this_field):
            raise TranslateError('assignment to something else than this->%s' % cx.this_field)
        e, w = tr(s['inner'][1], cx)
        return 'let %s := %s in\n    %s' % (cx.this_field, wrap(64, e, w), tr_body(rest, cx, mutator))
    if mutator and k == 'CompoundAssignOperator':
        lhs = s['inner'][0]
        if not (lhs['kind'] == 'MemberExpr' and lhs['name'] == cx.this_field):
            raise TranslateError('compound assignment to something else')
        e, w = tr(s['inner'][1], cx)
        op = s['opcode']
        if op == '+=':
            ne = '(wrap 64 (%s + %s))' % (cx.this_field, e)
        elif op == '-=':
            ne = '(sub_w 64 %s %s)' % (cx.this_field, e)
        elif op == '|=':
            ne = '(N.lor %s %s)' % (cx.this_field, e)
        elif op == '&=':
            ne = '(N.land %s %s)' % (cx.this_field, e)
        else:
            raise TranslateError('compound operator %s' % op)
        return 'let %s := %s in\n    %s' % (cx.this_field, ne, tr_body(rest, cx, mutator))
    if mutator and k == 'CXXMemberCallExpr':
        e, w = tr(s, cx)
        return 'let %s := %s in\n    %s' % (cx.this_field, e, tr_body(rest, cx, mutator))
    raise TranslateError('statement kind %s' % k)


def ends_in_return(s):
    if s['kind'] == 'ReturnStmt':
        return True
    if s['kind'] == 'CompoundStmt' and s.get('inner'):
        return ends_in_return(s['inner'][-1])
    return False


def find_record(objs, name):
    for o in objs:
        if o['kind'] == 'CXXRecordDecl' and o.get('name') == name and o.get('inner'):
            if any(c['kind'] in ('CXXMethodDecl', 'FieldDecl') for c in o['inner']):
                return o
    raise TranslateError('record %s not found' % name)


def gen_entity():
    objs = clang_ast('mustache/ecs/entity.hpp', 'Entity')
    collect_indexlike(objs)
    rec = find_record(objs, 'Entity')
    out = []
    consts = set()
    # enum constants and static constexpr members, in declaration order
    for m in rec['inner']:
        if m['kind'] == 'EnumDecl':
            for ec in m.get('inner', []):
                if ec['kind'] == 'EnumConstantDecl':
                    cx = Ctx('Entity', 'value', consts, {})
                    v = find_const_value(ec)
                    if v is None:
                        e = tr(ec['inner'][0], cx)[0]
                    else:
                        e = str(v)
                    out.append('Definition %s : N := %s.' % (coqname(ec['name']), e))
                    consts.add(ec['name'])
    for m in rec['inner']:
        if m['kind'] == 'VarDecl' and m.get('storageClass') == 'static' and m.get('inner'):
            cx = Ctx('Entity', 'value', consts, {})
            init = [c for c in m['inner'] if c['kind'] not in ('TypeLoc',)][0]
            w = ctype(qt(m))[0]
            e, sw = tr(init, cx)
            out.append('Definition %s : N := %s.' % (m['name'], wrap(w, e, sw)))
            consts.add(m['name'])
    # methods: order so that callees come first
    wanted = ['shiftedWorldId', 'shiftedVersion', 'isNull', 'worldId', 'id', 'version', 'reset',
              'setVersion', 'makeEntityWithNextVersion', 'incrementVersion', 'operator==', 'operator!=', 'operator<']
    methods = {}
    defs = []
    meths = [m for m in rec['inner'] if m['kind'] == 'CXXMethodDecl' and m.get('name') in wanted and has_body(m)]
    meths.sort(key=lambda m: (wanted.index(m['name']), -len(params(m))))
    seen = set()
    for m in meths:
        name = m['name']
        ps = params(m)
        mut = qt(m).startswith('void')
        cname = {'operator==': 'op_eq', 'operator!=': 'op_ne', 'operator<': 'op_lt'}.get(name, name)
        if name == 'reset':
            cname = 'reset_%d' % len(ps)
        if (name, len(ps)) in seen:
            raise TranslateError('duplicate overload %s/%d' % (name, len(ps)))
        seen.add((name, len(ps)))
        cx = Ctx('Entity', 'value', consts, methods)
        body = [c for c in m['inner'] if c['kind'] == 'CompoundStmt'][0]
        e = tr_body([body], cx, mut)
        rty = 'bool' if qt(m).startswith('bool') else 'N'
        args = ' '.join(['(value : N)'] + ['(%s : N)' % coqname(p) for p in ps])
        defs.append('Definition %s %s : %s :=\n    %s.' % (cname, args, rty, e))
        methods.setdefault(name, {})[(name, len(ps))] = cname
    missing = [w for w in wanted if w not in methods]
    if missing:
        raise TranslateError('methods not found in Entity: %s' % missing)
    return header('ecs/entity.hpp') + 'Module Entity.\n' + '\n'.join(out + defs) + '\nEnd Entity.\n'


def find_const_value(n):
    if n['kind'] == 'ConstantExpr' and 'value' in n:
        return int(n['value'])
    for c in n.get('inner', []):
        v = find_const_value(c)
        if v is not None:
            return v
    return None


def has_body(m):
    return any(c['kind'] == 'CompoundStmt' for c in m.get('inner', []))


def params(m):
    return [c['name'] for c in m.get('inner', []) if c['kind'] == 'ParmVarDecl']


def gen_iddeff():
    objs = clang_ast('mustache/ecs/id_deff.hpp', 'Component')
    collect_indexlike(objs)
    parts = []
    for cls, wanted in (('ComponentStorageIndex', ['operator/', 'operator%']),
                        ('ComponentOffset', ['makeAligned', 'alignAs'])):
        rec = find_record(objs, cls)
        defs = []
        found = set()
        for m in rec['inner']:
            if m['kind'] == 'CXXMethodDecl' and m.get('name') in wanted and has_body(m):
                cx = Ctx(cls, 'value_', set(), {})
                body = [c for c in m['inner'] if c['kind'] == 'CompoundStmt'][0]
                static = m.get('storageClass') == 'static'
                e = tr_body([body], cx, False)
                cname = {'operator/': 'op_div', 'operator%': 'op_mod'}.get(m['name'], m['name'])
                args = ' '.join(([] if static else ['(value_ : N)']) + ['(%s : N)' % coqname(p) for p in params(m)])
                defs.append('Definition %s %s : N :=\n    %s.' % (cname, args, e))
                found.add(m['name'])
        if found != set(wanted):
            raise TranslateError('%s: methods missing: %s' % (cls, set(wanted) - found))
        parts.append('Module %s.\n%s\nEnd %s.\n' % (cls, '\n'.join(defs), cls))
    nulls = '\n'.join('Definition null_%s : N := %d.' % (c, null_of(c))
                      for c in ('ChunkCapacity', 'ChunkIndex', 'ChunkItemIndex', 'ComponentStorageIndex'))
    return header('ecs/id_deff.hpp') + nulls + '\n' + '\n'.join(parts)


def header(src):
    return ('(* GENERATED by tools/cxx2coq.py from src/mustache/%s -- do not edit; regenerated on every run *)\n'
            'Require Import Coq.NArith.NArith Coq.Bool.Bool.\nFrom Mustache Require Import CInt.\nLocal Open Scope N_scope.\n' % src)


def write_if_changed(path, text):
    os.makedirs(os.path.dirname(path), exist_ok=True)
    try:
        if open(path).read() == text:
            return False
    except FileNotFoundError:
        pass
    with open(path, 'w') as f:
        f.write(text)
    return True


def main():
    outdir = sys.argv[1] if len(sys.argv) > 1 else HERE + '/coq/gen'
    try:
        a = gen_entity()
        b = gen_iddeff()
    except TranslateError as e:
        print('TRANSLATE-ERROR: %s' % e)
        return 2
    ch = [write_if_changed(outdir + '/EntityGen.v', a), write_if_changed(outdir + '/IdDeffGen.v', b)]
    print('cxx2coq: ok (%s)' % ('changed' if any(ch) else 'unchanged'))
    return 0


if __name__ == '__main__':
    sys.exit(main())
