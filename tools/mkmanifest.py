#!/usr/bin/env python3
"""Writes MANIFEST.json from the table below (kept in one place so it stays valid)."""
import json, os
HERE = os.path.dirname(os.path.dirname(os.path.abspath(__file__)))
COMMON_NOTE = ('Trusted: Coq 8.16.1 kernel; no axioms (every property theorem prints "Closed under the global context", checked on every run); '
               'extraction with ExtrOcamlBasic only; the hand-written model is tied to the code by the sampled correspondence '
               '(tier B: implementation vs extracted model after every operation) and the property itself is evaluated on the implementation (tier A); '
               'theorems are about the model. ')
def em(text, technique, design, extra=''):
    return dict(text=text, note=COMMON_NOTE + extra, technique=technique, design=design)
CHECKS = {
 'C01': em('Skeleton.v models the id table, free list, archetype member lists and command buffers; SkelSpec.v is the liveness specification. Proved so far: see evidence (theorem list); the full refinement theorem valid-iff-alive is stated and evaluated on concrete scripts in Coq. Every generated script (owner and worker threads, nested locks) is run on the real EntityManager, on the extracted Skeleton (exact internal state) and on the extracted specification (validity of every handle ever issued after every step, archetype member sets, freshness of every issued handle).',
           'Coq model + spec, theorems by induction over operations; model-vs-implementation correspondence on generated multi-thread scripts', '5/C01'),
 'C02': em('Manager.v is the faithful executable model of EntityManager/Archetype/TemporalStorage with component values; MgrSpec.v is the abstract world map. Proved: see evidence; the refinement statement (Refine.refinement_statement) is stated in full and evaluated on concrete scripts in Coq. Tier A compares, for every live entity after every operation, its component set and values with the specification, and checks archetype membership (each member once, same set + shared values => same archetype).',
           'Coq model + abstract spec; correspondence (exact state, values, lifecycle log) on generated scripts incl. run-time described components and storage-chunk boundaries', '5/C02'),
 'C03': em('The Manager model emits every lifecycle event (construct, move-construct, move-assign, destroy, afterAssign, beforeRemove) with its place; the implementation\'s instrumented component types log the same events with canonicalised addresses. Tier B: identical logs. Tier A: per-place bracket language (nothing constructed over a live instance, nothing destroyed twice, nothing alive after teardown - also teardown with non-empty command buffers) and callback counts per attachment/detachment against the specification.',
           'Coq model with event log; log correspondence + bracket-language checker on generated scripts with teardown at arbitrary points', '5/C03'),
 'C04': em('Iter.v models block construction, the entities-per-task split, the task cursor, archetype segments, array cuts (block end / storage-chunk end / task end) and the unrolled loop. Proved: blocks select exactly the matching indices (any population, chunk size, pattern); unrolled loop = 0..n-1; task sizes. The cover statement for cursor/segments/arrays is stated and evaluated on concrete configurations for T = 1..N+1. Tier A on every job run: each selected entity once with its own values, entity index 0..N-1 once, task k gets its contiguous index range, arrays contiguous inside one storage chunk.',
           'Coq proofs on pure iteration functions; job-run correspondence (arrays, task ids, entity indexes) with forced task counts and small storage chunks', '5/C04'),
 'C05': em('Proved about Manager.v for every state: operations issued while locked (any thread id, typed or by id) leave everything observable unchanged (C05_isolation); only the outermost unlock flushes; a pack whose target is not alive is skipped. The flush-faithfulness statement is Refine.refinement_statement (stated, evaluated on scripts in Coq, open findings as refuted theorems). Tier A: isolation of the observable state around every locked operation, and state after unlock = sequential specification, on scripts with worker threads issuing commands through the real dispatcher workers.',
           'Coq theorems on the manager model (isolation, pack skipping) + spec-vs-implementation comparison after every unlock', '5/C05'),
 'C06': em('(a) split sizes proved (C04/Iter); (b) the barrier theorem of the Dispatcher LTS: when wait passes, every task enqueued before it has finished; recorded dispatcher traces are replayed through the LTS; (c) data-race freedom is not provable in a Gallina model: it is the models\' premise and is checked with ThreadSanitizer in the thorough tier (claimed as partial).',
           'Coq proofs (task split, barrier invariant) + trace validation; TSan as premise check', '5/C06', 'Partial: race freedom validated, not proved. '),
 'C07': em('Manager.v models the version stamps (world version, per-archetype global and per-chunk stamps, job last-update version) exactly; tier B compares all stamps after every operation. Tier A: an independent dirty-set oracle derived from the implementation\'s own observable output: every entity written, marked, created, moved or relocated since a job last processed it must be processed by that job\'s next run.',
           'Coq model of stamps + exact stamp correspondence; dirty-set oracle on generated histories of update/jobs/writes/structural changes', '5/C07'),
 'C08': em('Dispatcher.v is an LTS over the schedule-point events; proved for every trace/worker count: an invariant (waiting counter = idle-waiting workers, every popped task finished or held by its popper, serial queues held by at most one thread), the barrier theorem (wait returns only after all earlier work finished), serial exclusivity, parallelFor tiling. Recorded traces of the real dispatcher (seeded random yields at every schedule point) are replayed through the extracted LTS; task-level counters judge exactly-once, order, thread ids, shutdown.',
           'Coq LTS + invariant proofs; trace validation against the implementation through a guarded schedule-point hook', '5/C08', 'Partial: liveness (wait always returns) is observed on executions, not proved. '),
 'C09': em('Proved about Manager.v for every state and every handle the validity test rejects: each checked entry point returns null/false/nothing and leaves the state unchanged; update drops destroy requests of dead handles; at unlock the whole pack of a dead target is skipped. Tier A/B on scripts with a malformed stream (stale, null, foreign-world and arbitrary 64-bit handles through every checked entry point, immediate and deferred).',
           'Coq theorems (harmlessness) + malformed-handle stream correspondence', '5/C09'),
 'C10': em('Layout.v computes column offsets / chunk size / chunk alignment with the align-up GENERATED from id_deff.hpp. Proved for every component list (power-of-two alignments, sizes multiple of alignment, no 32-bit overflow): every item address is aligned, columns are disjoint and inside the chunk. Tier B: offsets/size/alignment of real archetypes equal the model; tier A: every address handed out is aligned and in bounds; default-context world construction. Memory-safety proper (use-after-free, UB) is validated with ASan/UBSan in the thorough tier.',
           'Coq proof over translated align-up + layout correspondence; sanitizers as validation', '5/C10', 'Partial: UAF/UB not provable in the model. '),
 'C11': em('Same model and stamp correspondence as C07. Tier A: chunk-precision oracle: a job with a non-empty check mask inside its required mask processes only version chunks in which something changed since it last processed them (quiescent runs process nothing); chunk-size resolution is part of the model (resolve_chunk) and compared through the archetype chunk size.',
           'Coq model of stamps + exact correspondence; chunk-precision oracle', '5/C11'),
 'C12': em('Manager.v models SharedComponentsInfo (mask/ids/data lists), value deduplication and the archetype key; tier A: shared values per entity equal the specification and instances are one per distinct (type, value). Open finding: creation-time shared instances are not deduplicated.',
           'Coq model + spec comparison of shared values/instances', '5/C12'),
 'C13': em('Manager.v models addDependency / getExtraComponents (fuelled fixpoint) and every archetype lookup widening by the closure; MgrSpec.closure is the least-fixpoint specification. Tier A: every entity\'s component set is closed, dependents carry their default values, removing a dependent is a no-op, for all four ways of gaining a component, immediate and deferred, random dependency graphs incl. cycles.',
           'Coq model + closure spec; correspondence on random dependency graphs', '5/C13'),
 'C14': em('Systems.v models reorderSystems (fold of update_before, priority sort, greedy placement) and the lifecycle automaton. Proved for every set of systems with unique names: the order is a permutation, a valid greedy order (constraints and priority rule), and the ordering throws exactly when the constraints contain a cycle (knot); the loop bound never causes a failure. Tier B: callback logs and states equal the model for distinct priority keys; tier A: order, lifecycle legality, removed systems never called, exception iff cycle.',
           'Coq proofs (permutation, greedy validity, stuck iff knot) + callback-log correspondence', '5/C14'),
 'C15': em('Events.v models the slot tables; proved: every operation on any manager/type delivers exactly the specification\'s subscriber list and preserves the abstraction (step refinement from the initial state), lifted to whole runs against a self-contained specification that keeps its own list of live managers (C15_run_refines: the deliveries of every operation of every in-contract script are the specification's); registration is a frame for every other type; the pinned resize is refuted. Tier A/B: deliveries equal specification and model on scripts over several managers and types in any order.',
           'Coq refinement proof to a subscription-map spec + delivery correspondence', '5/C15'),
 'C16': dict(
    text='Theorems (Coq 8.16, closed under the global context) over definitions regenerated on every run from ecs/entity.hpp and ecs/id_deff.hpp by tools/cxx2coq.py: pack/unpack round trips for all in-range triples and all 2^64 patterns, next-version, null, equality, align-up and chunk/item split for all 32-bit arguments. The translator is validated by running the real inline functions against the extracted generated code.',
    note='Trusted: Coq kernel, tools/cxx2coq.py + clang JSON AST, C unsigned wrap modelled as mod 2^w; no axioms.',
    technique='Coq proof over source-translated definitions (bit-level extensionality + lia); translator validated differentially',
    design='5/C16'),
 'C17': em('Worlds.v models the process-global id allocator; proved for every create/destroy history with at most 1024 simultaneously live worlds: every id fits the 10-bit field, a new id differs from every live id, the allocator invariant holds; with C16, a handle of one live world is rejected by every other. Tier A: cross-validity of every handle in every live world, frame (an operation on one world leaves the others\' digests unchanged), >1024 sequential worlds; tier B: exact ids.',
           'Coq proofs on the allocator + multi-world correspondence', '5/C17'),
 'C18': em('The same scripts run through the C interface only (capi_driver), through the C++ interface (em_driver) and on the model; R/H lines must agree three ways over all 64 subsets of optional functions/default value. Theorems: see evidence.',
           'three-way correspondence C interface / C++ interface / Coq model', '5/C18'),
}
NOT_YET = {}
ALL = ['C%02d' % i for i in range(1, 19)]

def main():
    checks = []
    for pid in ALL:
        if pid not in CHECKS:
            continue
        c = CHECKS[pid]
        checks.append({
            'property_id': pid,
            'quick_cmd': './check %s --tier quick' % pid,
            'thorough_cmd': './check %s --tier thorough' % pid,
            'evidence_file': 'evidence/%s.json' % pid,
            'replay_cmd_template': './check %s --replay {path}' % pid,
            'engine': 'coq-model+correspondence',
            'level_claimed': {'category': 'proof', 'text': c['text'], 'design_ref': 'DESIGN.md section ' + c['design']},
            'level_note': c['note'],
            'technique': c['technique'],
        })
    na = [{'property_id': p, 'reason': NOT_YET.get(p, 'not claimed yet: model and check under construction (see DESIGN.md section 10)')}
          for p in ALL if p not in CHECKS]
    m = {
        'version': 1,
        'setup_cmd': './setup.sh',
        'hooks': {
            'guard': 'KIRILLOCHNEV_MUSTACHE_VERIF',
            'enable': 'checks compile /repo/src/mustache/**/*.cpp themselves with -DKIRILLOCHNEV_MUSTACHE_VERIF (lib/vlib.py build_lib)',
            'baseline_off_cmd': 'cmake --build /repo/_build --clean-first -j16 && /repo/_build/bin/mustache_test',
            'source_commits': json.load(open(os.path.join(HERE, 'hooks.json')))['source_commits'],
            'add_only': True,
        },
        'engines': [{'name': 'coq-model+correspondence', 'path': 'check',
                     'serves_properties': sorted(CHECKS),
                     'kind_free_text': 'Coq 8.16 models + theorems (coq/), models extracted to OCaml and run against C++ drivers built from /repo/src (harness/), translator for leaf code (tools/cxx2coq.py)'}],
        'checks': checks,
        'not_applicable': na,
        'notes': 'See DESIGN.md. known_findings.json lists recorded defects; seeded/ holds confirmed breaking changes.',
    }
    with open(os.path.join(HERE, 'MANIFEST.json'), 'w') as f:
        json.dump(m, f, indent=1)
        f.write('\n')

if __name__ == '__main__':
    main()
