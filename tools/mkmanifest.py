#!/usr/bin/env python3
"""Writes MANIFEST.json from the table below (kept in one place so it stays valid)."""
import json, os
HERE = os.path.dirname(os.path.dirname(os.path.abspath(__file__)))
CHECKS = {
 'C16': dict(
    text='Theorems (Coq 8.16, closed under the global context) over definitions regenerated on every run from ecs/entity.hpp and ecs/id_deff.hpp by tools/cxx2coq.py: pack/unpack round trips for all in-range triples and all 2^64 patterns, next-version, null, equality, align-up and chunk/item split for all 32-bit arguments. The translator is validated by running the real inline functions against the extracted generated code.',
    note='Trusted: Coq kernel, tools/cxx2coq.py + clang JSON AST, C unsigned wrap modelled as mod 2^w; no axioms.',
    technique='Coq proof over source-translated definitions (bit-level extensionality + lia); translator validated differentially',
    design='5/C16'),
}
NOT_YET = {}
ALL = ['C%02d' % i for i in range(1, 19)]

def main():
    checks = []
    for pid in ALL:
        if pid not in CHECKS:
            continue
        c = CHECKS[pid]
        checks.append({
            'property_id': pid,
            'quick_cmd': './check %s --tier quick' % pid,
            'thorough_cmd': './check %s --tier thorough' % pid,
            'evidence_file': 'evidence/%s.json' % pid,
            'replay_cmd_template': './check %s --replay {path}' % pid,
            'engine': 'coq-model+correspondence',
            'level_claimed': {'category': 'proof', 'text': c['text'], 'design_ref': 'DESIGN.md section ' + c['design']},
            'level_note': c['note'],
            'technique': c['technique'],
        })
    na = [{'property_id': p, 'reason': NOT_YET.get(p, 'not claimed yet: model and check under construction (see DESIGN.md section 10)')}
          for p in ALL if p not in CHECKS]
    m = {
        'version': 1,
        'setup_cmd': './setup.sh',
        'hooks': {
            'guard': 'KIRILLOCHNEV_MUSTACHE_VERIF',
            'enable': 'checks compile /repo/src/mustache/**/*.cpp themselves with -DKIRILLOCHNEV_MUSTACHE_VERIF (lib/vlib.py build_lib)',
            'baseline_off_cmd': 'cmake --build /repo/_build && /repo/_build/bin/mustache_test',
            'source_commits': json.load(open(os.path.join(HERE, 'hooks.json')))['source_commits'],
            'add_only': True,
        },
        'engines': [{'name': 'coq-model+correspondence', 'path': 'check',
                     'serves_properties': sorted(CHECKS),
                     'kind_free_text': 'Coq 8.16 models + theorems (coq/), models extracted to OCaml and run against C++ drivers built from /repo/src (harness/), translator for leaf code (tools/cxx2coq.py)'}],
        'checks': checks,
        'not_applicable': na,
        'notes': 'See DESIGN.md. known_findings.json lists recorded defects; seeded/ holds confirmed breaking changes.',
    }
    with open(os.path.join(HERE, 'MANIFEST.json'), 'w') as f:
        json.dump(m, f, indent=1)
        f.write('\n')

if __name__ == '__main__':
    main()
