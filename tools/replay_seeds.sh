#!/bin/sh
# replay_seeds.sh [pattern]: apply every stored seeded change to /repo in turn, run its property's quick check, undo; report misses
cd /verif
for d in seeded/${1:-*}; do
  id=$(basename $d | cut -d- -f1)
  git -C /repo apply /verif/$d/patch.diff 2>/dev/null || { echo "APPLYFAIL $d"; continue; }
  out=$(timeout 1500 ./check $id 2>&1 | grep -v KNOWN-FINDING | tail -2 | tr '\n' ' ')
  git -C /repo checkout -- src
  case "$out" in *VIOLATION*no-failing-input-found*) echo "TIERB  $d";; *VIOLATION*) echo "caught $d";; *) echo "MISSED $d :: $out";; esac
done
