#!/usr/bin/env python3
"""emdiff <scripts-file> [domain] [tags]: run the C++ em_driver and the extracted model on a scripts file and
print the first divergence per script (debugging aid for model/implementation correspondence)."""
import sys, os
sys.path.insert(0, os.path.join(os.path.dirname(os.path.abspath(__file__)), '..', 'lib'))
import vlib, emcmp
f = sys.argv[1]
domain = sys.argv[2] if len(sys.argv) > 2 else 'mgr'
tags = sys.argv[3].split(',') if len(sys.argv) > 3 else ['R', 'V', 'H', 'A', 'T', 'S', 'F', 'L', 'M', 'K', 'B', 'W', 'E']
drv, err = vlib.build_driver('em_driver'); assert not err, err
runner, err = vlib.build_runner(); assert not err, err
text = open(f).read()
io, ie = emcmp.run_driver(drv, text, os.path.join(vlib.BUILD, 'work', 'emdiff'))
mo, me = emcmp.run_runner(runner, domain, text)
open('/tmp/emdiff_impl.out', 'w').write(emcmp.rename_tokens(io)); open('/tmp/emdiff_model.out', 'w').write(emcmp.rename_tokens(mo))
impl, model = emcmp.parse(io), emcmp.parse(mo)
div = emcmp.compare(impl, model, tags)
for d in div:
    print('script %(script)s op %(opn)d (%(op)s) tag %(tag)s\n  impl : %(impl)s\n  model: %(model)s' % d)
for (n, b) in model:
    for blk in b:
        if blk['crash']:
            print('model', n, 'stops at op', blk['n'], blk['op'], blk['crash'])
for (n, b) in impl:
    for blk in b:
        if blk['crash']:
            print('impl', n, 'stops at op', blk['n'], blk['op'], blk['crash'])
print('%d scripts, %d divergences' % (len(impl), len(div)))
if me.strip(): print('runner stderr:', me[:2000])
