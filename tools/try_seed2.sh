#!/bin/sh
# try_seed2.sh <worktree-suffix e.g. C09f> <check ids...>: like try_seed.sh but on the scratch copy /tmp/repo_seed (VERIF_REPO), so /repo stays untouched
W=$1; shift
cd /verif
tools/confirm_seed.sh $W || exit 2
git -C /tmp/repo_seed checkout -q --detach $(git -C /repo rev-parse HEAD) && git -C /tmp/repo_seed checkout -- . 
git -C /tmp/repo_seed apply /tmp/wt_$W/seeded_out/patch.diff || exit 2
for id in "$@"; do
  VERIF_REPO=/tmp/repo_seed timeout 1500 ./check $id 2>&1 | grep -v KNOWN-FINDING | tail -2
  for f in replays/$id/*.txt; do [ -f "$f" ] && head -3 "$f" | cut -c1-220; done
done
git -C /tmp/repo_seed checkout -- .
