#!/bin/sh
# batch_seeds.sh <suffix>: for every /tmp/wt_C??<suffix> with a finished seeded_out/patch.diff not yet stored, confirm and run its check
cd /verif
S=$1
for wt in /tmp/wt_C??$S; do
  [ -f $wt/seeded_out/patch.diff ] || continue
  W=$(basename $wt | sed 's/^wt_//'); id=$(echo $W | cut -c1-3)
  echo "=== $W"
  tools/confirm_seed.sh $W 2>&1 | cut -c1-150
  git -C /repo apply $wt/seeded_out/patch.diff || { echo "APPLYFAIL"; continue; }
  timeout 1500 ./check $id 2>&1 | grep -v KNOWN-FINDING | tail -1
  for f in replays/$id/*.txt; do [ -f "$f" ] && head -2 "$f" | cut -c1-200; done
  git -C /repo checkout -- src
done
