#!/usr/bin/env python3
"""mkagent.py <ID> [suffix]: create the scratch worktree /tmp/wt_<ID><suffix> and print the sub-agent prompt (property text only)"""
import json, subprocess, sys
pid = sys.argv[1]; suf = sys.argv[2] if len(sys.argv) > 2 else ''
extra = sys.argv[3] if len(sys.argv) > 3 else ''
wt = '/tmp/wt_%s%s' % (pid, suf)
subprocess.run(['git', '-C', '/repo', 'worktree', 'add', '--detach', '-f', wt, 'HEAD'], stdout=subprocess.DEVNULL, stderr=subprocess.DEVNULL)
p = next(json.loads(l) for l in open('/verif/properties.jsonl') if json.loads(l)['id'] == pid)
print(f"""You are helping test a verification setup for the C++17 entity-component-system library "mustache". You have your own scratch git worktree of the library at {wt} (work ONLY inside it; never touch /repo or /verif, and do not read anything under /verif). NEVER use `git stash` (the stash is shared between worktrees and other people are working in sibling worktrees); to build the unchanged library use a pristine export: `mkdir -p {wt}/_clean && git -C {wt} archive HEAD src | tar -x -C {wt}/_clean`.

Your task: write ONE small source change to the library (under {wt}/src/mustache) that BREAKS the following semantic property while the library still compiles and its existing test suite still passes. The change should look like a plausible regression (an off-by-one, a dropped or reordered statement, a wrong condition, a "simplification", an optimisation that is wrong in a corner case), not sabotage, and it must need something specific to manifest -- a particular multi-step sequence of operations, a particular interleaving, an unusual input, or two cooperating sites that each look fine alone -- not something ordinary use would expose at once. {extra}

The property:
{p['title']}. {p['statement']}
Quantified over: {p['quantifier']['text']}
Relevant files: {', '.join(p['anchors']['files'])}

How to build and run the existing tests in your worktree (offline, everything needed is in the tree): `cmake -G Ninja -S {wt} -B {wt}/_build -DCMAKE_BUILD_TYPE=Release -DMUSTACHE_BUILD_TESTS=ON -DFETCHCONTENT_SOURCE_DIR_GOOGLETEST=/usr/src/googletest -DFETCHCONTENT_FULLY_DISCONNECTED=ON >/dev/null && cmake --build {wt}/_build -j16 && {wt}/_build/bin/mustache_test` (50 gtest cases must pass; if the configure step needs other options look at /repo/_build/CMakeCache.txt for the ones used there, read-only).

Deliverables, all inside {wt}/seeded_out/ :
1. patch.diff -- `git -C {wt} diff -- src` of your change (src only; it must apply to a pristine HEAD with `git apply`).
2. demo.cpp -- a small standalone program using the public API (include <mustache/ecs/ecs.hpp>, or <mustache/utils/dispatch.hpp> for the dispatcher, or <mustache/c_api.h> for the C API) that exits 0 on the UNCHANGED library and exits non-zero (printing what went wrong) WITH your change; it must be deterministic or retry enough to fail reliably. A compile command that works: `g++ -std=c++17 -O1 -pthread -w -DBUILD_WITH_EASY_PROFILER=0 -I{wt}/src -I<dir with mustache_export.h> demo.cpp $(find {wt}/src/mustache -name '*.cpp' ! -name c_api.cpp) -o demo` (create a directory with a file mustache_export.h containing `#pragma once` and `#define MUSTACHE_EXPORT`, and pass it with -I; include c_api.cpp in the sources only if the demo uses the C API).
3. README.md -- which clause of the property the change breaks, what is needed for it to manifest, the commands you ran and their results: (a) existing test suite passes with the change, (b) demo fails with the change, (c) demo passes without it (built from the pristine export).

Verify all three yourself before finishing. Keep the patch small (a few lines). When done, reply with a short summary: the idea of the change and the three verification results.""")
