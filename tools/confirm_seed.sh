#!/bin/sh
# confirm_seed.sh <ID>: for the sub-agent's worktree /tmp/wt_<ID>, confirm (a) the existing suite passes with the change,
# (b) the demonstration fails with it, (c) passes without it.  Uses pristine exports of HEAD (never git stash: the stash is
# shared by all worktrees).
ID=$1; WT=/tmp/wt_$ID; OUT=$WT/seeded_out; S=/tmp/cs_$ID
rm -rf $S; mkdir -p $S/clean $S/with
git -C /repo archive HEAD src | tar -x -C $S/clean
git -C /repo archive HEAD src | tar -x -C $S/with
(cd $S/with && git apply $OUT/patch.diff) || { echo "patch does not apply to HEAD"; exit 2; }
EXCL=c_api.cpp; grep -q 'c_api.h' $OUT/demo.cpp && EXCL=none.cpp
build() { g++ -std=c++17 -O1 -pthread -w -DBUILD_WITH_EASY_PROFILER=0 -I$1/src -I/verif/harness/include $OUT/demo.cpp $(find $1/src/mustache -name '*.cpp' ! -name $EXCL) -o $2 2>&1 | tail -3; }
build $S/with $S/demo_with & build $S/clean $S/demo_without & wait
timeout 300 $S/demo_with >$S/with.out 2>&1; RC_WITH=$?
timeout 300 $S/demo_without >$S/without.out 2>&1; RC_WITHOUT=$?
# the suite: make the worktree's src equal HEAD+patch, then build and run
cd $WT && git checkout -q -- src && git apply $OUT/patch.diff
SUITE=skipped
if [ -d $WT/_build ]; then cmake --build $WT/_build -j16 >/dev/null 2>&1; SUITE=$($WT/_build/bin/mustache_test 2>&1 | tail -1); fi
echo "demo with change: rc=$RC_WITH ($(tail -1 $S/with.out | cut -c1-160))"
echo "demo without change: rc=$RC_WITHOUT ($(tail -1 $S/without.out | cut -c1-80))"
echo "suite with change: $SUITE"
rm -rf $S
