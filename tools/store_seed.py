#!/usr/bin/env python3
"""store_seed.py <ID> <name> <caught_by> <needs>: copy a confirmed seeded change into /verif/seeded/<ID>-<name>/ and remove the worktree"""
import json, os, shutil, subprocess, sys
pid, name, caught, needs = sys.argv[1:5]
wt = '/tmp/wt_%s' % sys.argv[5] if len(sys.argv) > 5 else '/tmp/wt_%s' % pid
d = '/verif/seeded/%s-%s' % (pid, name)
os.makedirs(d, exist_ok=True)
for f in ('patch.diff', 'demo.cpp', 'README.md'):
    if os.path.exists(os.path.join(wt, 'seeded_out', f)):
        shutil.copy(os.path.join(wt, 'seeded_out', f), os.path.join(d, f))
json.dump({'property': pid, 'needs_to_manifest': needs, 'origin': 'independent sub-agent given only the property text and a scratch worktree',
           'confirmed': 'tools/confirm_seed.sh: existing suite (50 tests) passes with the change; demo exits non-zero with it and 0 without it',
           'checked': 'git -C /repo apply patch.diff; ./check %s; git -C /repo checkout -- .' % pid, 'caught_by': caught}, open(os.path.join(d, 'meta.json'), 'w'), indent=1)
subprocess.run(['git', '-C', '/repo', 'worktree', 'remove', '--force', wt])
print('stored', d)
