(* C15 -- events reach exactly the current subscribers, once, in any manager. Statements only.
   Model: Events.v (slot tables indexed by process-global type ids, grow-only registration).
   Specification: the map (manager, type) -> receivers in subscription order (Events.sp_step). *)
Require Import Coq.Lists.List Coq.Arith.Arith.
From Mustache Require Import Events.
From Mustache.proofs Require Import EventsProofs EventsRun.
Import ListNotations.

(* one step: for every well-formed state related to a specification state, every operation -- on any manager, any
   type, whatever the order in which types were first seen by which manager -- delivers exactly the receivers the
   specification lists (so: each current subscriber once, in subscription order, nobody else) and keeps the relation *)
Theorem C15_step_refines : forall s sp o,
  WF s -> Abs s sp -> op_ok s o ->
  snd (e_step s o) = snd (sp_step sp (alive_of s) o) /\
  Abs (fst (e_step s o)) (fst (sp_step sp (alive_of s) o)) /\
  WF (fst (e_step s o)).
Proof. intros s sp o H1 H2 H3. exact (proj2 (step_refines s sp o H1 H2 H3)). Qed.
Print Assumptions C15_step_refines.

Theorem C15_initial_state : WF e_init /\ Abs e_init [].
Proof. exact wf_init. Qed.
Print Assumptions C15_initial_state.

(* the heart of it: registering an event type on a manager never changes any type's receiver list *)
Theorem C15_registration_is_frame : forall sl id j, slot_of (ensure_slot sl id) j = slot_of sl j.
Proof. exact ensure_slot_frame. Qed.
Print Assumptions C15_registration_is_frame.

(* what the pinned tree did instead (resize to exactly id+1): receivers of a type with a larger id were dropped *)
Theorem C15_pinned_registration_refuted :
  exists sl, slot_of sl 1 = [7] /\ slot_of (ensure_slot_pinned sl 0) 1 = [].
Proof. exact pinned_registration_drops_receivers. Qed.
Print Assumptions C15_pinned_registration_refuted.

(* whole runs, against a specification that is self-contained (it keeps its own list of live managers, EventsRun.sst):
   for every script from the initial state -- any number of managers created and destroyed, any types in any order,
   receivers subscribed and unsubscribed in any order, subscriptions and posts addressed to live managers (the API's
   contract; unsubscribing from a destroyed manager is allowed and does nothing) -- the list of deliveries of every
   operation of the run is the specification's, and the final states are related again *)
Theorem C15_run_refines : forall ops, ops_ok s_init ops ->
  run_e e_init ops = run_s s_init ops /\ Rel (final_e e_init ops) (final_s s_init ops).
Proof. exact run_refines_init. Qed.
Print Assumptions C15_run_refines.

(* what the specification says about one subscription: it is appended to the list of its own (manager, type) and
   changes no other list -- no cross-talk between managers or types, to whatever number of either *)
Theorem C15_spec_subscribe_local : forall sp m ty r m' ty',
  sget (sset sp m ty (sget sp m ty ++ [r])) m ty = sget sp m ty ++ [r] /\
  ((m, ty) <> (m', ty') -> sget (sset sp m ty (sget sp m ty ++ [r])) m' ty' = sget sp m' ty').
Proof. intros sp m ty r m' ty'. split; [exact (sget_after_sub sp m ty r) | exact (sget_other_sub sp m ty _ m' ty')]. Qed.
Print Assumptions C15_spec_subscribe_local.

(* "exactly once" and "no receiver that has unsubscribed", read off the specification's lists: a list without
   repetition stays so when a receiver not in it is subscribed and when any receiver is unsubscribed; after the
   unsubscription the receiver is no longer in the list, and everybody else still is *)
Theorem C15_spec_exactly_once : forall (l : list recv) r,
  NoDup l ->
  (~ In r l -> NoDup (l ++ [r])) /\
  NoDup (remove_first l r) /\ ~ In r (remove_first l r) /\
  (forall x, x <> r -> In x l -> In x (remove_first l r)).
Proof.
  intros l r Hn. split; [exact (sub_fresh_nodup l r Hn)|].
  split; [exact (proj1 (remove_first_nodup l r Hn))|]. split; [exact (proj2 (remove_first_nodup l r Hn))|].
  exact (remove_first_keeps l r).
Qed.
Print Assumptions C15_spec_exactly_once.

Example C15_run_example :
  let ops := [ENewMgr; ESub 0 0 0; ESub 0 1 1; ENewMgr; ESub 1 1 2; ESub 1 0 3; ESub 1 1 4; EUnsub 1 1 2;
              EPost 1 1; EDelMgr 0; EUnsub 0 0 0; EPost 1 0] in
  ops_ok s_init ops /\ run_s s_init ops = [[]; []; []; []; []; []; []; []; [4]; []; []; [3]].
Proof. vm_compute. repeat split; auto. Qed.

(* non-vacuity: second manager sees types in the opposite order *)
Example C15_example :
  let run := fold_left (fun s o => fst (e_step s o)) in
  let s := run [ENewMgr; ESub 0 0 0; ESub 0 1 1; ENewMgr; ESub 1 1 2; ESub 1 0 3; ESub 1 1 4; EUnsub 1 1 2] e_init in
  snd (e_step s (EPost 1 1)) = [4] /\ snd (e_step s (EPost 1 0)) = [3] /\ snd (e_step s (EPost 0 1)) = [1].
Proof. vm_compute. auto. Qed.
