(* C13 -- declared component dependencies always hold.
   Model: Manager.extra_components / add_dependency / get_arch (entity_manager.cpp:26-31, 118-123, 141-160).
   Specification: MgrSpec.closure, the least set containing the requested components and closed under the declarations.

   Entity level (second half of this file; proofs/DepsFrame.v, DepsClosure.v, DepsInv.v, DepsMain.v): the unlocked
   refinement of C02 extended with declarations.  For ALL scripts over create / destroyNow / assign (typed or not,
   default or value) / removeComponent / write through getComponent / addDependency (DepsMain.alpha_d), made while the
   manager is not locked, for arbitrary component descriptions subject to cis_ok: Refine.refines_on = true
   (C13_entity_level), pointwise per handle (C13_entity_level_pointwise), through has / getComponent<const T>
   (C13_entity_level_observations), and: every live entity has every direct and transitive dependent of each of its
   components (C13_live_entities_closed, C13_has_is_closed).
   How it goes: the code's table and the specification's are EQUAL lists along every script (the code stores per master
   the already closed set, MgrSpec.x_add_dep does the same, and whenever the code's fixpoint loop returns it returns
   the specification's closure: DepsClosure.closure_eq); the structural primitives never read the table
   (DepsFrame.v), so the state with the table erased satisfies the invariant of C02 and its lemmas are reused;
   the component set of every live entity is closed under the table.
   The hypothesis on declarations (DepsMain.decl_ok): each declaration leaves the component set of every LIVE entity
   closed under the new table -- true when declarations precede the entities concerned (C13_declarations_first).
   It is needed: a declaration does not re-close existing entities, the code re-closes them on their next structural
   change of ANY component, the specification only on assignments (C13_late_declaration_diverges below). *)
Require Import Coq.Lists.List Coq.NArith.NArith Coq.ZArith.ZArith Coq.micromega.Lia Coq.Bool.Bool.
From Mustache Require Import Res Manager Palette MgrSpec Refine.
From Mustache.proofs Require Import ClosureProofs ManagerInv ManagerMain DepsClosure DepsInv DepsMain.
Import ListNotations.

(* for ANY dependency table (chains, diamonds, cycles): whenever the code's fixpoint loop returns, the requested set
   together with the extra components is closed under the dependencies and is the LEAST closed superset of the request *)
Theorem C13_closure_is_least_fixpoint : forall s m r,
  extra_components s m = Ok r ->
  closed (deps s) (munion m r) /\ sub m (munion m r) /\
  forall x, closed (deps s) x -> sub m x -> sub (munion m r) x.
Proof. exact extra_components_least_fixpoint. Qed.
Print Assumptions C13_closure_is_least_fixpoint.

(* the specification's closure is the same notion *)
Theorem C13_spec_closure_is_least_fixpoint : forall d m,
  dep_step d (closure d m) = closure d m ->
  closed_list d (closure d m) /\ sub m (closure d m) /\ forall x, closed_list d x -> sub m x -> sub (closure d m) x.
Proof. exact spec_closure_least_fixpoint. Qed.
Print Assumptions C13_spec_closure_is_least_fixpoint.

(* every archetype lookup widens the requested set by the closure: the archetype found or created for m has mask m + extras *)
Theorem C13_archetype_mask_is_closed : forall s m sh s' ai,
  get_arch s m sh = Ok (s', ai) ->
  exists r a, extra_components s m = Ok r /\ nth_error (archs s') ai = Some a /\ am_mask a = munion m r.
Proof.
  intros s m sh s' ai H. unfold get_arch, bind in H.
  destruct (extra_components s m) as [r|] eqn:E; [|discriminate]. exists r.
  destruct (find_arch (archs s) (munion m r) sh 0) as [i|] eqn:Ef.
  - inversion H; subst. clear H.
    assert (G : forall l k i, find_arch l (munion m r) sh k = Some i -> exists a, nth_error l (i - k) = Some a /\ am_mask a = munion m r /\ k <= i).
    { induction l as [|a t IH]; intros k i Hf; simpl in Hf; [discriminate|].
      destruct ((am_mask a =? munion m r)%N && si_eqb (am_shared a) sh) eqn:Eb.
      - inversion Hf; subst. exists a. rewrite PeanoNat.Nat.sub_diag. apply andb_prop in Eb. destruct Eb as (Eb & _). apply N.eqb_eq in Eb. auto.
      - destruct (IH _ _ Hf) as (a' & Hn & Hm & Hle). exists a'. split; [|split; [assumption|lia]].
        replace (i - k) with (S (i - S k)) by lia. exact Hn. }
    destruct (G _ _ _ Ef) as (a & Hn & Hm & _). rewrite PeanoNat.Nat.sub_0_r in Hn. exists a. auto.
  - destruct (resolve_chunk s (munion m r)) as [cs|]; [|discriminate]. inversion H; subst; clear H. simpl.
    eexists. split; [reflexivity|]. split; [rewrite nth_error_app2 by lia; rewrite PeanoNat.Nat.sub_diag; reflexivity|reflexivity].
Qed.
Print Assumptions C13_archetype_mask_is_closed.

(* the full statement for entities (every way of gaining a component, immediate and deferred; dependents carry their
   default values; removing a dependent is a no-op) is the refinement statement of Refine.v restricted to scripts with
   declarations; it is evaluated here on concrete scripts and by the correspondence on random dependency graphs. The
   excluded pattern is the open finding C13/pack-remove-then-assign-master. *)
Definition cis4 : list cinfo := [pal_info 0 0; pal_info 2 0; pal_info 3 0; pal_info 5 0].
Definition script_deps : list xop :=
  [XoDep 1 4; XoDep 2 2; XoDep 0 8;                  (* 1 requires 2; 2 requires 1 (a cycle); 0 requires 3 *)
   XoCreate 0 1 [] false; XoCreate 0 2 [] false; XoUpdate;
   XoAssign 0 1 0 (Some 7%Z); XoRemove 0 1 2 true; XoRemove 0 0 3 true; XoRemove 0 0 0 true;
   XoLock; XoCreate 1 4 [] false; XoAssign 1 2 0 (Some 9%Z); XoUnlock]%N.
Example C13_on_script : refines_on true 16 cis4 script_deps = true /\ refines_on false 16 cis4 script_deps = true.
Proof. split; vm_compute; reflexivity. Qed.

(* the open finding as a theorem about the faithful model: program order inside a pack is lost *)
Theorem C13_pack_remove_then_assign_master_refuted :
  exists ops, x_viol (xrun 16 cis4 ops) = 0 /\ refines_on true 16 cis4 ops = false.
Proof.
  exists [XoDep 3 2; XoCreate 0 1 [] false; XoAssign 0 0 1 (Some 77%Z); XoLock; XoRemove 0 0 1 true; XoAssign 0 0 3 None; XoUnlock]%N.
  split; vm_compute; reflexivity.
Qed.
Print Assumptions C13_pack_remove_then_assign_master_refuted.

(* ================================================================================================================ *)
(* entity level: the unlocked refinement with declarations                                                           *)

(* THE statement of Refine.v for this alphabet: every entity that gains a master through create / assign has all direct
   and transitive dependents, those it lacked with their default values; removing a dependent of a present master does
   nothing; removing a master leaves the dependents; all other values follow their entity *)
Theorem C13_entity_level : forall typed n cis ops s hs,
  cis_ok cis -> forallb (alpha_d cis) ops = true -> decl_ok (x_init n cis) ops = true ->
  mrun typed n cis ops = Ok (s, hs) -> x_viol (xrun n cis ops) = 0 -> (N.of_nat (length hs) < 16777000)%N ->
  refines_on typed n cis ops = true.
Proof. exact deps_refines_on. Qed.
Print Assumptions C13_entity_level.

Theorem C13_entity_level_pointwise : forall typed n cis ops s hs,
  cis_ok cis -> forallb (alpha_d cis) ops = true -> decl_ok (x_init n cis) ops = true ->
  mrun typed n cis ops = Ok (s, hs) -> x_viol (xrun n cis ops) = 0 -> (N.of_nat (length hs) < 16777000)%N ->
  length hs = x_count (xrun n cis ops) /\
  forall k,
    match find_ent (xrun n cis ops) k with
    | Some e => exists e', abs_ent s k (nth k hs null_handle) = Some e' /\ ent_match e e' = true
    | None => abs_ent s k (nth k hs null_handle) = None
    end.
Proof. exact deps_refinement. Qed.
Print Assumptions C13_entity_level_pointwise.

Theorem C13_entity_level_observations : forall typed n cis ops s hs,
  cis_ok cis -> forallb (alpha_d cis) ops = true -> decl_ok (x_init n cis) ops = true ->
  mrun typed n cis ops = Ok (s, hs) -> x_viol (xrun n cis ops) = 0 -> (N.of_nat (length hs) < 16777000)%N ->
  forall k c, c < MASK_BITS ->
    step s (OHas (nth k hs null_handle) c) = Ok (s, RBool (spec_has (xrun n cis ops) k c)) /\
    exists v, step s (OGetConst (nth k hs null_handle) c) = Ok (s, RCell (spec_has (xrun n cis ops) k c) v) /\
              forall e w, find_ent (xrun n cis ops) k = Some e -> In (c, w) (e_comps e) -> cell_le w v = true.
Proof. exact deps_observations. Qed.
Print Assumptions C13_entity_level_observations.

(* the table of the code is the table of the specification, and every live entity is closed under it *)
Theorem C13_live_entities_closed : forall typed n cis ops s hs,
  cis_ok cis -> forallb (alpha_d cis) ops = true -> decl_ok (x_init n cis) ops = true ->
  mrun typed n cis ops = Ok (s, hs) -> x_viol (xrun n cis ops) = 0 -> (N.of_nat (length hs) < 16777000)%N ->
  deps s = x_deps (xrun n cis ops) /\
  forall k e, find_ent (xrun n cis ops) k = Some e ->
  forall c dm, c < MASK_BITS -> dep_find (deps s) c = Some dm -> has_comp (e_comps e) c = true ->
  forall c', mhas dm c' = true -> has_comp (e_comps e) c' = true.
Proof. exact deps_entities_closed. Qed.
Print Assumptions C13_live_entities_closed.

(* the same through the model's own hasComponent: a handle that has a master has each of the master's dependents *)
Theorem C13_has_is_closed : forall typed n cis ops s hs,
  cis_ok cis -> forallb (alpha_d cis) ops = true -> decl_ok (x_init n cis) ops = true ->
  mrun typed n cis ops = Ok (s, hs) -> x_viol (xrun n cis ops) = 0 -> (N.of_nat (length hs) < 16777000)%N ->
  forall k c dm c', c < MASK_BITS -> c' < MASK_BITS -> dep_find (deps s) c = Some dm -> mhas dm c' = true ->
    step s (OHas (nth k hs null_handle) c) = Ok (s, RBool true) ->
    step s (OHas (nth k hs null_handle) c') = Ok (s, RBool true).
Proof. exact deps_has_closed. Qed.
Print Assumptions C13_has_is_closed.

(* whenever the code's closure loop returns, it returns the specification's closure (well-formed tables: sorted by
   master, ids and masks inside the 128 bits -- an invariant of every run, DepsInv.di_dwf) *)
Theorem C13_code_closure_is_spec_closure : forall s m r,
  dwf (deps s) -> extra_components s m = Ok r -> closure (deps s) m = munion m r.
Proof. exact closure_eq. Qed.
Print Assumptions C13_code_closure_is_spec_closure.

(* the hypothesis on declarations holds for free when all declarations come first *)
Theorem C13_declarations_first : forall n cis ds rest,
  forallb is_dep ds = true -> forallb (fun o => negb (is_dep o)) rest = true -> decl_ok (x_init n cis) (ds ++ rest) = true.
Proof. intros n cis ds rest. apply decl_ok_decls_first. reflexivity. Qed.
Print Assumptions C13_declarations_first.

(* ---- the hypotheses are satisfiable ---- *)
Definition cis6 : list cinfo := [pal_info 0 0; pal_info 1 0; pal_info 2 0; pal_info 3 0; dyn_info 8 33; pal_info 6 0].
Lemma cis6_ok : cis_ok cis6.
Proof. unfold cis_ok, cis6. repeat constructor; simpl; intros; congruence. Qed.

(* a chain 0 -> 1 -> 2 declared in forward order (so 0's entry is widened by the second declaration only through the
   closure at use), a cycle 3 <-> 4, a diamond 5 -> {1, 3}; creation, assignment (default, value, typed and not) of
   masters, removal of dependents (no effect) and of masters, destroyNow with swap-remove, id reuse, a redeclaration
   and a late declaration for a master nobody holds *)
Definition script_entity : list xop :=
  [XoDep 0 2; XoDep 1 4; XoDep 3 16; XoDep 4 8; XoDep 5 10;
   XoCreate 0 1 [] false; XoCreate 0 4 [] true; XoCreate 0 8 [] false; XoCreate 0 0 [] false;
   XoSet 0 1 41%Z; XoSet 2 4 43%Z;
   XoAssign 0 3 5 None; XoAssign 0 1 0 None; XoRemove 0 0 1 true; XoRemove 0 0 2 false; XoRemove 0 2 4 true;
   XoRemove 0 0 0 true; XoRemove 0 0 1 true; XoDestroyNow 0 1; XoCreate 0 32 [] false; XoRemove 0 4 5 false;
   XoDep 0 8; XoAssign 0 0 0 (Some 9%Z); XoRemove 0 3 3 true; XoRemove 0 3 5 true; XoRemove 0 3 3 true; XoSet 3 4 44%Z]%N.

Example C13_entity_level_nonvacuous :
  cis_ok cis6 /\ forallb (alpha_d cis6) script_entity = true /\ decl_ok (x_init 1 cis6) script_entity = true /\
  x_viol (xrun 1 cis6 script_entity) = 0 /\
  (forall typed, exists s hs, mrun typed 1 cis6 script_entity = Ok (s, hs) /\ (N.of_nat (length hs) < 16777000)%N /\
                              map (is_valid s) hs = [true; false; true; true; true]) /\
  map (fun e => (e_k e, map fst (e_comps e))) (x_ents (xrun 1 cis6 script_entity)) =
    [(2, [3; 4]); (4, [1; 2; 3; 4]); (0, [0; 1; 2; 3; 4]); (3, [1; 2; 3; 4])].
Proof.
  split; [exact cis6_ok|]. split; [vm_compute; reflexivity|]. split; [vm_compute; reflexivity|]. split; [vm_compute; reflexivity|]. split.
  - intros typed. destruct typed; eexists; eexists; (split; [vm_compute; reflexivity|]); split; vm_compute; reflexivity.
  - vm_compute. reflexivity.
Qed.

(* the hypotheses of the other statements of this section on the same script *)
Definition state_entity : mst := match mrun true 1 cis6 script_entity with Ok (s, _) => s | Err _ => init 1 cis6 end.
Definition handles_entity : list handle := match mrun true 1 cis6 script_entity with Ok (_, hs) => hs | Err _ => [] end.

Example C13_has_is_closed_nonvacuous :
  (* entity 0 has the master 0, whose stored set contains 1, 3 and 4 (the redeclaration was merged with the first one) *)
  exists dm, dep_find (deps state_entity) 0 = Some dm /\ mhas dm 1 = true /\ mhas dm 3 = true /\ mhas dm 4 = true /\
             step state_entity (OHas (nth 0 handles_entity null_handle) 0) = Ok (state_entity, RBool true) /\
             step state_entity (OHas (nth 0 handles_entity null_handle) 4) = Ok (state_entity, RBool true).
Proof. eexists. split; [vm_compute; reflexivity|]. repeat split; vm_compute; reflexivity. Qed.

Example C13_code_closure_nonvacuous :
  dwf (deps state_entity) /\ extra_components state_entity 32%N = Ok 30%N /\ closure (deps state_entity) 32%N = 62%N.
Proof.
  split; [|split; vm_compute; reflexivity]. unfold dwf. split.
  - vm_compute. repeat constructor.
  - assert (E : deps state_entity = [(0, 26%N); (1, 4%N); (3, 16%N); (4, 24%N); (5, 30%N)]) by (vm_compute; reflexivity).
    rewrite E. repeat (constructor; [split; [simpl; unfold MASK_BITS; repeat constructor|apply lowmb_ok; reflexivity]|]). constructor.
Qed.

Example C13_declarations_first_nonvacuous :
  exists ds rest, script_deps = ds ++ rest /\ forallb is_dep ds = true /\ forallb (fun o => negb (is_dep o)) rest = true /\
                  decl_ok (x_init 16 cis4) script_deps = true.
Proof.
  exists (firstn 3 script_deps), (skipn 3 script_deps). split; [reflexivity|]. split; [reflexivity|]. split; [reflexivity|].
  vm_compute. reflexivity.
Qed.

(* ---- why the hypothesis on declarations is needed ---- *)
(* entity {0,1}; then "1 requires 2" is declared; removing 0 makes the code look up the archetype of the closure of {1},
   i.e. {1,2}: the entity silently gains 2.  The specification (and the documentation: "every entity that SUBSEQUENTLY
   gains the master") leaves it with {1}.  Likewise removing a dependent of a late-declared master is not a no-op in the
   code when the master's other dependents are missing.  An assignment re-closes on both sides. *)
Example C13_late_declaration_diverges :
  refines_on true 1 cis4 [XoCreate 0 3 [] false; XoDep 1 4; XoRemove 0 0 0 true]%N = false /\
  x_viol (xrun 1 cis4 [XoCreate 0 3 [] false; XoDep 1 4; XoRemove 0 0 0 true]%N) = 0 /\
  decl_ok (x_init 1 cis4) [XoCreate 0 3 [] false; XoDep 1 4; XoRemove 0 0 0 true]%N = false /\
  refines_on true 1 cis4 [XoCreate 0 3 [] false; XoDep 0 6; XoRemove 0 0 1 true]%N = false /\
  refines_on true 1 cis4 [XoCreate 0 3 [] false; XoDep 0 6; XoAssign 0 0 3 None]%N = true.
Proof. vm_compute. repeat split. Qed.

(* ---- totality: inside the contract the model run never ends in Err ---------------------------------------------- *)
(* proofs/DepsTotal.v (on top of proofs/ManagerTotal.v, see Properties_C02.v).  The hypothesis `mrun = Ok` of the entity
   level theorems is discharged for alpha_d.  Two things are new with declarations:
   - the fixpoint loop of getExtraComponents has no fuel problem: on a well-formed table every round that does not stop
     adds one of the 128 component ids, so it returns within 129 rounds (C13_closure_loop_converges; the model's fuel
     is 130; the C++ loop has no bound and needs none);
   - the closure adds component ids on its own, so the declared dependents must have a description as well (reg_d):
     otherwise the creation of an entity with the master builds an archetype whose mask has an undescribed id
     (C13_model_run_total_refuted_without_registration; component_factory.cpp:52-56, unchecked vector index). *)
From Mustache.proofs Require Import ManagerTotal DepsTotal.

Theorem C13_closure_loop_converges : forall s m, dwf (deps s) -> exists r, extra_components s m = Ok r.
Proof. exact extra_components_total. Qed.
Print Assumptions C13_closure_loop_converges.

Theorem C13_model_run_total : forall typed n cis ops,
  cis_ok cis -> forallb (alpha_d cis) ops = true -> forallb (reg_d cis) ops = true -> decl_ok (x_init n cis) ops = true ->
  x_viol (xrun n cis ops) = 0 -> (N.of_nat (creates ops) < 16777000)%N ->
  exists s hs, mrun typed n cis ops = Ok (s, hs) /\ length hs = creates ops.
Proof. exact deps_model_run_total. Qed.
Print Assumptions C13_model_run_total.

(* C13_entity_level without the hypothesis on the model run *)
Theorem C13_entity_level_total : forall typed n cis ops,
  cis_ok cis -> forallb (alpha_d cis) ops = true -> forallb (reg_d cis) ops = true -> decl_ok (x_init n cis) ops = true ->
  x_viol (xrun n cis ops) = 0 -> (N.of_nat (creates ops) < 16777000)%N ->
  refines_on typed n cis ops = true.
Proof. exact deps_refines_total. Qed.
Print Assumptions C13_entity_level_total.

(* C13_entity_level_pointwise, C13_entity_level_observations and the equality of the two tables for the run that exists *)
Theorem C13_entity_level_refinement_total : forall typed n cis ops,
  cis_ok cis -> forallb (alpha_d cis) ops = true -> forallb (reg_d cis) ops = true -> decl_ok (x_init n cis) ops = true ->
  x_viol (xrun n cis ops) = 0 -> (N.of_nat (creates ops) < 16777000)%N ->
  exists s hs, mrun typed n cis ops = Ok (s, hs) /\ length hs = x_count (xrun n cis ops) /\
  (forall k,
    match find_ent (xrun n cis ops) k with
    | Some e => exists e', abs_ent s k (nth k hs null_handle) = Some e' /\ ent_match e e' = true
    | None => abs_ent s k (nth k hs null_handle) = None
    end) /\
  (forall k c, c < MASK_BITS ->
    step s (OHas (nth k hs null_handle) c) = Ok (s, RBool (spec_has (xrun n cis ops) k c)) /\
    exists v, step s (OGetConst (nth k hs null_handle) c) = Ok (s, RCell (spec_has (xrun n cis ops) k c) v) /\
              forall e w, find_ent (xrun n cis ops) k = Some e -> In (c, w) (e_comps e) -> cell_le w v = true) /\
  deps s = x_deps (xrun n cis ops).
Proof. exact deps_refinement_total. Qed.
Print Assumptions C13_entity_level_refinement_total.

Example C13_total_nonvacuous :
  cis_ok cis6 /\ forallb (alpha_d cis6) script_entity = true /\ forallb (reg_d cis6) script_entity = true /\
  decl_ok (x_init 1 cis6) script_entity = true /\ x_viol (xrun 1 cis6 script_entity) = 0 /\
  (N.of_nat (creates script_entity) < 16777000)%N /\ creates script_entity = 5.
Proof. split; [exact cis6_ok|]. repeat split; vm_compute; reflexivity. Qed.

Example C13_closure_loop_converges_nonvacuous : dwf (deps state_entity) /\ deps state_entity <> [].
Proof. split; [exact (proj1 C13_code_closure_nonvacuous)|]. vm_compute. discriminate. Qed.

(* without the registration of the declared dependents totality fails: "0 requires 7" in a registry of six types; the
   script names described ids only in its creations and assignments, stays inside the contract -- and creating an
   entity with component 0 ends in Err *)
Theorem C13_model_run_total_refuted_without_registration :
  let ops := [XoDep 0 128; XoCreate 0 1 [] false]%N in
  cis_ok cis6 /\ forallb (alpha_d cis6) ops = true /\ forallb (reg_b cis6) ops = true /\ forallb (reg_d cis6) ops = false /\
  decl_ok (x_init 1 cis6) ops = true /\ x_viol (xrun 1 cis6 ops) = 0 /\
  forall typed, mrun typed 1 cis6 ops = Err OobIndex.
Proof.
  cbv zeta. split; [exact cis6_ok|]. repeat split; vm_compute; reflexivity.
Qed.
Print Assumptions C13_model_run_total_refuted_without_registration.

(* ================================================================================================================ *)
(* entity level, LOCKED: the refinement of C05 (lock / unlock, commands recorded per thread, the flush at the outermost  *)
(* unlock) WITH declared dependencies                                                                                *)
(* proofs/DepsAlgebra.v, DepsPack.v, DepsFlush.v, DepsLocked.v, DepsLockedMain.v.
   The invariant LInv / the relation LR of the locked refinement (proofs/ManagerLInv.v, ManagerLocked.v; they bake in "no
   dependencies") are transported along "erase the table" exactly as MInv was for C13_entity_level: the structural
   primitives and the recording operations commute with the erasure (DepsFrame.v, DepsLocked.step_sd), so the step lemmas
   of C05 are reused unchanged for destroy, destroyNow, update, lock, nested unlock and everything recorded under lock; the
   unlocked create / assign / remove / declaration go through the step lemma of C13 (DepsMain.DInv_step).
   What is new is the flush.  applyCommandPack computes ONE raw final mask for the pack and closes it under the
   dependencies once (Manager.apply_pack: get_arch on the final mask); the specification applies the commands one at a
   time and closes at each assignment (MgrSpec.x_assign / widen).  The loop invariant (DepsPack.pack_loop_sim_d) between
   the raw mask fm, the components assigned so far am, the removals X still binding, and the specification's closed set sm:
        fm <= sm <= closure (fm + am)      and      sm <= fm + X + closure am;
   when the write loop of applyCommandPack does not end in Err every assigned component is in the final archetype, hence
   closure (final + assigned) = closure final and the two sets are equal; values: a component the pack assigns carries
   the last assigned value, one the entity had keeps its value, one that came through a closure has its default.
   THE CONDITION (DepsAlgebra.cmd_ok / run_ok / buf_ok, decidable, checked on the specification's buffers at the
   outermost unlock by DepsLocked.sched_ok): inside one run of commands of one thread on one entity, once "remove y" has
   been recorded no LATER command of the run names a component m <> y that (directly or transitively) requires y --
     (a) not "assign m": the specification re-creates y with its default value, applyCommandPack moves the old value
         (the open finding pack-remove-then-assign-master, C13_pack_remove_then_assign_master_refuted above);
     (b) not "remove m": for the specification the removal of y did nothing while m was there and y stays when m goes;
         applyCommandPack drops both (a relative of (a) found here: C13_pack_remove_dependent_then_master_refuted);
   a later "assign y" ends the obligation for y.  Both clauses are needed (witnesses below); commands of other threads,
   or separated by a command on another entity, are other packs and are not concerned.
   Two further side conditions of sched_ok are restrictions of THIS PROOF, not known divergences: declarations are made
   while the manager is not locked (and leave live entities closed, as in C13_entity_level), and create(Archetype&) under
   lock names a closed set (the model records the archetype's closed mask, the specification the requested one). *)
From Mustache.proofs Require Import DepsAlgebra DepsPack DepsFlush DepsLocked DepsLockedMain.

(* THE statement of Refine.v for the alphabet with lock / unlock and declarations *)
Theorem C13_locked_entity_level : forall typed n cis ops s hs,
  cis_ok cis -> forallb (alphaL_d cis) ops = true -> sched_ok (x_init n cis) ops = true ->
  mrun typed n cis ops = Ok (s, hs) -> x_viol (xrun n cis ops) = 0 -> (N.of_nat (length hs) < 16777000)%N ->
  refines_on typed n cis ops = true.
Proof. exact locked_deps_refines_on. Qed.
Print Assumptions C13_locked_entity_level.

(* handle by handle, at every point of a script (also in the middle of a locked section) *)
Theorem C13_locked_entity_level_pointwise : forall typed n cis ops s hs,
  cis_ok cis -> forallb (alphaL_d cis) ops = true -> sched_ok (x_init n cis) ops = true ->
  mrun typed n cis ops = Ok (s, hs) -> x_viol (xrun n cis ops) = 0 -> (N.of_nat (length hs) < 16777000)%N ->
  length hs = x_count (xrun n cis ops) /\
  forall k,
    match find_ent (xrun n cis ops) k with
    | Some e => exists e', abs_ent s k (nth k hs null_handle) = Some e' /\ ent_match e e' = true
    | None => abs_ent s k (nth k hs null_handle) = None
    end.
Proof. exact locked_deps_refinement. Qed.
Print Assumptions C13_locked_entity_level_pointwise.

(* "through a deferred command": after the unlock (at every point of the script) the two tables are equal and every
   live entity -- whether it gained a master through a recorded creation, a recorded assignment, or unlocked -- has every
   stored dependent of each of its components *)
Theorem C13_deferred_gain_has_dependents : forall typed n cis ops s hs,
  cis_ok cis -> forallb (alphaL_d cis) ops = true -> sched_ok (x_init n cis) ops = true ->
  mrun typed n cis ops = Ok (s, hs) -> x_viol (xrun n cis ops) = 0 -> (N.of_nat (length hs) < 16777000)%N ->
  deps s = x_deps (xrun n cis ops) /\
  forall k e, find_ent (xrun n cis ops) k = Some e ->
  forall c dm, c < MASK_BITS -> dep_find (deps s) c = Some dm -> has_comp (e_comps e) c = true ->
  forall c', mhas dm c' = true -> has_comp (e_comps e) c' = true.
Proof. exact locked_deps_entities_closed. Qed.
Print Assumptions C13_deferred_gain_has_dependents.

(* the relation along every script, and THE FLUSH: from related states the flush of the recorded buffers reaches the state
   of the specification's x_flush, under the pack condition on every buffer *)
Theorem C13_locked_run_related : forall typed n cis ops s hs,
  cis_ok cis -> forallb (alphaL_d cis) ops = true -> sched_ok (x_init n cis) ops = true ->
  mrun typed n cis ops = Ok (s, hs) -> x_viol (xrun n cis ops) = 0 -> (N.of_nat (length hs) < 16777000)%N ->
  DLR cis s hs (xrun n cis ops).
Proof. exact locked_deps_run_related. Qed.
Print Assumptions C13_locked_run_related.

Theorem C13_locked_flush_faithful : forall cis s hs x s',
  DLR cis s hs x -> cis_ok cis -> (N.of_nat (length hs) < 16777000)%N ->
  forallb (buf_ok (x_deps x) None []) (x_bufs x) = true ->
  x_viol (x_flush (xw_lock x 0)) = x_viol x ->
  flush (set_lock s 0) = Ok s' -> DLR cis s' hs (x_flush (xw_lock x 0)).
Proof. exact flush_faithful_d. Qed.
Print Assumptions C13_locked_flush_faithful.

(* no side condition on the packs when no removeComponent is recorded under lock: every creation and assignment made
   through a deferred command closes its entity exactly as the immediate ones do *)
Theorem C13_no_recorded_removal_suffices : forall typed n cis ops s hs,
  cis_ok cis -> forallb (alphaL_d cis) ops = true -> sched_nr (x_init n cis) ops = true ->
  mrun typed n cis ops = Ok (s, hs) -> x_viol (xrun n cis ops) = 0 -> (N.of_nat (length hs) < 16777000)%N ->
  refines_on typed n cis ops = true.
Proof. exact no_recorded_removal_refines. Qed.
Print Assumptions C13_no_recorded_removal_suffices.

(* ---- the hypotheses are satisfiable ---- *)
(* six instrumented types: every one has a default value, so a wrong value is visible *)
Definition cisW : list cinfo := [pal_info 2 0; pal_info 2 0; pal_info 3 0; pal_info 5 0; pal_info 13 0; dyn_info 8 33].
Lemma cisW_ok : cis_ok cisW.
Proof. unfold cis_ok, cisW. repeat constructor; simpl; intros; congruence. Qed.

(* a chain 0 -> 1 -> 2 and a diamond 5 -> {1, 3} (1 -> 2 again); three entities; under lock, from two worker threads:
   master 0 assigned to the existing entity #0; entity #3 created in the section and given the diamond master 5;
   a dependent (1) of a master that stays (0) removed from #2: no effect; #1 loses its master 1 (its dependent 2 stays)
   and gains 3 with a value; a nested lock with one more assignment *)
Definition script_ld : list xop :=
  [XoDep 0 2; XoDep 1 4; XoDep 5 10;
   XoCreate 0 8 [] false; XoCreate 0 6 [] false; XoSet 1 2 43%Z; XoCreate 0 3 [] false;
   XoLock;
   XoAssign 1 0 0 (Some 7%Z);
   XoCreate 2 16 [] false; XoAssign 2 3 5 None;
   XoRemove 1 2 1 true;
   XoRemove 2 1 1 true; XoAssign 2 1 3 (Some 9%Z);
   XoLock; XoAssign 1 2 4 None; XoUnlock;
   XoUnlock]%N.

Example C13_locked_nonvacuous :
  cis_ok cisW /\ forallb (alphaL_d cisW) script_ld = true /\ sched_ok (x_init 4 cisW) script_ld = true /\
  x_viol (xrun 4 cisW script_ld) = 0 /\
  (forall typed, exists s hs, mrun typed 4 cisW script_ld = Ok (s, hs) /\ (N.of_nat (length hs) < 16777000)%N /\
                              map (is_valid s) hs = [true; true; true; true] /\ deps s = [(0, 2%N); (1, 4%N); (5, 14%N)]) /\
  map (fun e => (e_k e, e_comps e)) (x_ents (xrun 4 cisW script_ld)) =
    [(0, [(0, Some 7%Z); (1, Some 1002%Z); (2, Some 1003%Z); (3, Some 1005%Z)]);
     (2, [(0, Some 1002%Z); (1, Some 1002%Z); (2, Some 1003%Z); (4, Some 1013%Z)]);
     (3, [(1, Some 1002%Z); (2, Some 1003%Z); (3, Some 1005%Z); (4, Some 1013%Z); (5, Some 1008%Z)]);
     (1, [(2, Some 43%Z); (3, Some 9%Z)])].
Proof.
  split; [exact cisW_ok|]. split; [vm_compute; reflexivity|]. split; [vm_compute; reflexivity|]. split; [vm_compute; reflexivity|]. split.
  - intros typed. destruct typed; eexists; eexists; (split; [vm_compute; reflexivity|]); (split; [vm_compute; reflexivity|]); split; vm_compute; reflexivity.
  - vm_compute. reflexivity.
Qed.

(* the theorems applied (not evaluated) to script_ld *)
Example C13_locked_entity_level_on_script : forall typed, refines_on typed 4 cisW script_ld = true.
Proof.
  intros typed. destruct C13_locked_nonvacuous as (Hok & Ha & Hso & Hv & Hrun & _). destruct (Hrun typed) as (s & hs & Hr & Hb & _).
  exact (C13_locked_entity_level typed 4 cisW script_ld s hs Hok Ha Hso Hr Hv Hb).
Qed.

Definition state_ld : mst := match mrun true 4 cisW script_ld with Ok (s, _) => s | Err _ => init 4 cisW end.
Definition handles_ld : list handle := match mrun true 4 cisW script_ld with Ok (_, hs) => hs | Err _ => [] end.

(* entity #3 was created under lock with {4} and assigned the diamond master 5 by a recorded command: through the model's
   own hasComponent it has 5 and every stored dependent of 5 (1, 2, 3) *)
Example C13_deferred_gain_nonvacuous :
  exists dm, dep_find (deps state_ld) 5 = Some dm /\ mhas dm 1 = true /\ mhas dm 2 = true /\ mhas dm 3 = true /\
    (exists e, find_ent (xrun 4 cisW script_ld) 3 = Some e /\ has_comp (e_comps e) 5 = true) /\
    map (fun c => step state_ld (OHas (nth 3 handles_ld null_handle) c)) [5; 1; 2; 3] =
      map (fun _ => Ok (state_ld, RBool true)) [5; 1; 2; 3].
Proof. eexists. split; [vm_compute; reflexivity|]. repeat split; try (vm_compute; reflexivity). eexists. split; vm_compute; reflexivity. Qed.

(* a reachable LOCKED state (script_ld without its last unlock): related by the theorem; its buffers satisfy the pack
   condition, its flush stays inside the contract and succeeds *)
Definition script_lk : list xop := removelast script_ld.
Definition st_lk : mst := match mrun true 4 cisW script_lk with Ok (s, _) => s | Err _ => init 4 cisW end.
Definition hs_lk : list handle := match mrun true 4 cisW script_lk with Ok (_, hs) => hs | Err _ => [] end.
Lemma run_lk : mrun true 4 cisW script_lk = Ok (st_lk, hs_lk).
Proof. vm_compute. reflexivity. Qed.

Example C13_locked_flush_nonvacuous :
  DLR cisW st_lk hs_lk (xrun 4 cisW script_lk) /\ (N.of_nat (length hs_lk) < 16777000)%N /\ x_lock (xrun 4 cisW script_lk) = 1 /\
  forallb (buf_ok (x_deps (xrun 4 cisW script_lk)) None []) (x_bufs (xrun 4 cisW script_lk)) = true /\
  x_viol (x_flush (xw_lock (xrun 4 cisW script_lk) 0)) = x_viol (xrun 4 cisW script_lk) /\
  (exists s', flush (set_lock st_lk 0) = Ok s') /\
  x_bufs (xrun 4 cisW script_lk) =
    [[]; [XAssign 0 0 (Some 7%Z); XRemove 2 1; XAssign 2 4 None];
     [XCreate 3 16%N []; XAssign 3 5 None; XRemove 1 1; XAssign 1 3 (Some 9%Z)]; []].
Proof.
  assert (Hb : (N.of_nat (length hs_lk) < 16777000)%N) by (vm_compute; reflexivity).
  assert (Hv : x_viol (xrun 4 cisW script_lk) = 0) by (vm_compute; reflexivity).
  split; [apply (C13_locked_run_related true 4 cisW script_lk st_lk hs_lk cisW_ok); [vm_compute; reflexivity|vm_compute; reflexivity|exact run_lk|exact Hv|exact Hb]|].
  split; [exact Hb|]. split; [vm_compute; reflexivity|]. split; [vm_compute; reflexivity|]. split; [vm_compute; reflexivity|]. split; [vm_compute; eauto|].
  vm_compute. reflexivity.
Qed.

(* a script without recorded removals: the side condition without any check of the buffers *)
Definition script_nr : list xop :=
  [XoDep 0 2; XoDep 1 4; XoCreate 0 8 [] false; XoRemove 0 0 3 true; XoLock; XoAssign 1 0 0 None; XoCreate 1 1 [] false; XoAssign 1 1 5 None; XoUnlock]%N.
Example C13_no_recorded_removal_nonvacuous :
  forallb (alphaL_d cisW) script_nr = true /\ sched_nr (x_init 4 cisW) script_nr = true /\ x_viol (xrun 4 cisW script_nr) = 0 /\
  (exists s hs, mrun true 4 cisW script_nr = Ok (s, hs) /\ (N.of_nat (length hs) < 16777000)%N) /\
  map (fun e => (e_k e, map fst (e_comps e))) (x_ents (xrun 4 cisW script_nr)) = [(0, [0; 1; 2]); (1, [0; 1; 2; 5])].
Proof. split; [vm_compute; reflexivity|]. split; [vm_compute; reflexivity|]. split; [vm_compute; reflexivity|]. split; [eexists; eexists; (split; [vm_compute; reflexivity|]); vm_compute; reflexivity|vm_compute; reflexivity]. Qed.

(* ---- both clauses of the pack condition are needed ---- *)
(* each witness: inside the alphabet, inside the contract (x_viol = 0), the model run does not end in Err, every other
   side condition holds (declarations first, no create(Archetype&)), ONE pair "remove y ... later command on m" in one
   pack -- the condition fails and so does the refinement *)
(* (a) remove y = 1, then assign its master m = 3: entity #0 keeps the value 77 of component 1; the specification has
       re-created it with its default 1002 *)
Definition script_wa : list xop :=
  [XoDep 3 2; XoCreate 0 2 [] false; XoSet 0 1 77%Z; XoLock; XoRemove 0 0 1 true; XoAssign 0 0 3 None; XoUnlock]%N.
(* (b) remove the dependent y = 1 of the present master m = 3, then remove m: the specification keeps component 1, the
       model drops both *)
Definition script_wb : list xop :=
  [XoDep 3 2; XoCreate 0 8 [] false; XoLock; XoRemove 0 0 1 true; XoRemove 0 0 3 true; XoUnlock]%N.

Theorem C13_pack_condition_clauses_needed :
  (forallb (alphaL_d cisW) script_wa = true /\ x_viol (xrun 4 cisW script_wa) = 0 /\ (exists s hs, mrun true 4 cisW script_wa = Ok (s, hs)) /\
   cmd_ok (x_deps (xrun 4 cisW script_wa)) [1] (XAssign 0 3 None) = false /\ sched_ok (x_init 4 cisW) script_wa = false /\
   refines_on true 4 cisW script_wa = false) /\
  (forallb (alphaL_d cisW) script_wb = true /\ x_viol (xrun 4 cisW script_wb) = 0 /\ (exists s hs, mrun true 4 cisW script_wb = Ok (s, hs)) /\
   cmd_ok (x_deps (xrun 4 cisW script_wb)) [1] (XRemove 0 3) = false /\ sched_ok (x_init 4 cisW) script_wb = false /\
   refines_on true 4 cisW script_wb = false).
Proof.
  split; (split; [vm_compute; reflexivity|]); (split; [vm_compute; reflexivity|]); (split; [eexists; eexists; vm_compute; reflexivity|]);
    (split; [vm_compute; reflexivity|]); split; vm_compute; reflexivity.
Qed.
Print Assumptions C13_pack_condition_clauses_needed.

(* (b) as a theorem about the faithful model, next to C13_pack_remove_then_assign_master_refuted *)
Theorem C13_pack_remove_dependent_then_master_refuted :
  exists ops, x_viol (xrun 4 cisW ops) = 0 /\ refines_on true 4 cisW ops = false /\
    map (fun e => (e_k e, map fst (e_comps e))) (x_ents (xrun 4 cisW ops)) = [(0, [1])] /\
    exists s hs, mrun true 4 cisW ops = Ok (s, hs) /\ step s (OHas (nth 0 hs null_handle) 1) = Ok (s, RBool false).
Proof.
  exists script_wb. split; [vm_compute; reflexivity|]. split; [vm_compute; reflexivity|]. split; [vm_compute; reflexivity|].
  eexists. eexists. split; vm_compute; reflexivity.
Qed.
Print Assumptions C13_pack_remove_dependent_then_master_refuted.

(* what the condition does NOT exclude (the theorem applies, and the evaluation agrees): the same commands from two
   threads (two packs); remove y, assign y again, then assign the master; assign the master, then remove the dependent;
   remove a dependent whose master stays *)
Example C13_pack_condition_accepts :
  let two_threads := [XoDep 3 2; XoCreate 0 2 [] false; XoSet 0 1 77%Z; XoLock; XoRemove 0 0 1 true; XoAssign 1 0 3 None; XoUnlock]%N in
  let reassigned := [XoDep 3 2; XoCreate 0 2 [] false; XoSet 0 1 77%Z; XoLock; XoRemove 0 0 1 true; XoAssign 0 0 1 (Some 5%Z); XoAssign 0 0 3 None; XoUnlock]%N in
  let master_first := [XoDep 3 2; XoCreate 0 1 [] false; XoLock; XoAssign 0 0 1 (Some 5%Z); XoAssign 0 0 3 None; XoRemove 0 0 1 true; XoUnlock]%N in
  let master_stays := [XoDep 3 2; XoCreate 0 8 [] false; XoLock; XoRemove 0 0 1 true; XoUnlock]%N in
  forallb (fun ops => sched_ok (x_init 4 cisW) ops && refines_on true 4 cisW ops && Nat.eqb (x_viol (xrun 4 cisW ops)) 0)
          [two_threads; reassigned; master_first; master_stays] = true.
Proof. vm_compute. reflexivity. Qed.

(* without declarations all side conditions hold by themselves: the theorem contains C05_locked_refines_on (Properties_C05.v)
   for creation masks inside the 128 bits of the bitset *)
Theorem C13_locked_contains_C05 : forall typed n cis ops s hs,
  cis_ok cis -> forallb (alphaL_d cis) ops = true -> forallb not_dep ops = true ->
  mrun typed n cis ops = Ok (s, hs) -> x_viol (xrun n cis ops) = 0 -> (N.of_nat (length hs) < 16777000)%N ->
  refines_on typed n cis ops = true.
Proof. exact locked_nodeps_refines_on. Qed.
Print Assumptions C13_locked_contains_C05.

(* a script of the C05 alphabet: assign-remove-assign of one component in one pack, a create + destroyNow pack, two threads *)
Definition script_c05 : list xop :=
  [XoCreate 0 1 [] false; XoLock; XoAssign 1 0 1 (Some 5%Z); XoRemove 1 0 1 true; XoAssign 1 0 1 (Some 6%Z);
   XoCreate 2 4 [] false; XoDestroyNow 2 1; XoRemove 2 0 0 true; XoUnlock]%N.
Example C13_locked_contains_C05_nonvacuous :
  forallb (alphaL_d cisW) script_c05 = true /\ forallb not_dep script_c05 = true /\ x_viol (xrun 4 cisW script_c05) = 0 /\
  (exists s hs, mrun true 4 cisW script_c05 = Ok (s, hs) /\ (N.of_nat (length hs) < 16777000)%N) /\
  map (fun e => (e_k e, e_comps e)) (x_ents (xrun 4 cisW script_c05)) = [(0, [(1, Some 6%Z)])].
Proof.
  split; [vm_compute; reflexivity|]. split; [vm_compute; reflexivity|]. split; [vm_compute; reflexivity|].
  split; [eexists; eexists; (split; [vm_compute; reflexivity|]); vm_compute; reflexivity|vm_compute; reflexivity].
Qed.
