(* C13 -- declared component dependencies always hold. Statements only.
   Model: Manager.extra_components / add_dependency / get_arch (entity_manager.cpp:26-31, 118-123, 141-160).
   Specification: MgrSpec.closure, the least set containing the requested components and closed under the declarations. *)
Require Import Coq.Lists.List Coq.NArith.NArith Coq.ZArith.ZArith Coq.micromega.Lia Coq.Bool.Bool.
From Mustache Require Import Res Manager Palette MgrSpec Refine.
From Mustache.proofs Require Import ClosureProofs.
Import ListNotations.

(* for ANY dependency table (chains, diamonds, cycles): whenever the code's fixpoint loop returns, the requested set
   together with the extra components is closed under the dependencies and is the LEAST closed superset of the request *)
Theorem C13_closure_is_least_fixpoint : forall s m r,
  extra_components s m = Ok r ->
  closed (deps s) (munion m r) /\ sub m (munion m r) /\
  forall x, closed (deps s) x -> sub m x -> sub (munion m r) x.
Proof. exact extra_components_least_fixpoint. Qed.
Print Assumptions C13_closure_is_least_fixpoint.

(* the specification's closure is the same notion *)
Theorem C13_spec_closure_is_least_fixpoint : forall d m,
  dep_step d (closure d m) = closure d m ->
  closed_list d (closure d m) /\ sub m (closure d m) /\ forall x, closed_list d x -> sub m x -> sub (closure d m) x.
Proof. exact spec_closure_least_fixpoint. Qed.
Print Assumptions C13_spec_closure_is_least_fixpoint.

(* every archetype lookup widens the requested set by the closure: the archetype found or created for m has mask m + extras *)
Theorem C13_archetype_mask_is_closed : forall s m sh s' ai,
  get_arch s m sh = Ok (s', ai) ->
  exists r a, extra_components s m = Ok r /\ nth_error (archs s') ai = Some a /\ am_mask a = munion m r.
Proof.
  intros s m sh s' ai H. unfold get_arch, bind in H.
  destruct (extra_components s m) as [r|] eqn:E; [|discriminate]. exists r.
  destruct (find_arch (archs s) (munion m r) sh 0) as [i|] eqn:Ef.
  - inversion H; subst. clear H.
    assert (G : forall l k i, find_arch l (munion m r) sh k = Some i -> exists a, nth_error l (i - k) = Some a /\ am_mask a = munion m r /\ k <= i).
    { induction l as [|a t IH]; intros k i Hf; simpl in Hf; [discriminate|].
      destruct ((am_mask a =? munion m r)%N && si_eqb (am_shared a) sh) eqn:Eb.
      - inversion Hf; subst. exists a. rewrite PeanoNat.Nat.sub_diag. apply andb_prop in Eb. destruct Eb as (Eb & _). apply N.eqb_eq in Eb. auto.
      - destruct (IH _ _ Hf) as (a' & Hn & Hm & Hle). exists a'. split; [|split; [assumption|lia]].
        replace (i - k) with (S (i - S k)) by lia. exact Hn. }
    destruct (G _ _ _ Ef) as (a & Hn & Hm & _). rewrite PeanoNat.Nat.sub_0_r in Hn. exists a. auto.
  - destruct (resolve_chunk s (munion m r)) as [cs|]; [|discriminate]. inversion H; subst; clear H. simpl.
    eexists. split; [reflexivity|]. split; [rewrite nth_error_app2 by lia; rewrite PeanoNat.Nat.sub_diag; reflexivity|reflexivity].
Qed.
Print Assumptions C13_archetype_mask_is_closed.

(* the full statement for entities (every way of gaining a component, immediate and deferred; dependents carry their
   default values; removing a dependent is a no-op) is the refinement statement of Refine.v restricted to scripts with
   declarations; it is evaluated here on concrete scripts and by the correspondence on random dependency graphs. The
   excluded pattern is the open finding C13/pack-remove-then-assign-master. *)
Definition cis4 : list cinfo := [pal_info 0 0; pal_info 2 0; pal_info 3 0; pal_info 5 0].
Definition script_deps : list xop :=
  [XoDep 1 4; XoDep 2 2; XoDep 0 8;                  (* 1 requires 2; 2 requires 1 (a cycle); 0 requires 3 *)
   XoCreate 0 1 [] false; XoCreate 0 2 [] false; XoUpdate;
   XoAssign 0 1 0 (Some 7%Z); XoRemove 0 1 2 true; XoRemove 0 0 3 true; XoRemove 0 0 0 true;
   XoLock; XoCreate 1 4 [] false; XoAssign 1 2 0 (Some 9%Z); XoUnlock]%N.
Example C13_on_script : refines_on true 16 cis4 script_deps = true /\ refines_on false 16 cis4 script_deps = true.
Proof. split; vm_compute; reflexivity. Qed.

(* the open finding as a theorem about the faithful model: program order inside a pack is lost *)
Theorem C13_pack_remove_then_assign_master_refuted :
  exists ops, x_viol (xrun 16 cis4 ops) = 0 /\ refines_on true 16 cis4 ops = false.
Proof.
  exists [XoDep 3 2; XoCreate 0 1 [] false; XoAssign 0 0 1 (Some 77%Z); XoLock; XoRemove 0 0 1 true; XoAssign 0 0 3 None; XoUnlock]%N.
  split; vm_compute; reflexivity.
Qed.
Print Assumptions C13_pack_remove_then_assign_master_refuted.
