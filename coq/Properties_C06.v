(* C06 -- parallel jobs split work disjointly, complete before run() returns, race-free. Statements only.
   (a) disjoint covering split: the task sizes and blocks of C04 (Iter.v);
   (b) completion before return: the barrier theorem of the Dispatcher LTS (C08);
   (c) data-race freedom of the library's bookkeeping is a statement about the C++ memory model that no executable
       Gallina model exhibits: NOT proved; it is the premise (data-race free => sequentially consistent) under which
       models (b) and Manager.v describe the code, and it is checked by the ThreadSanitizer build in ./check C06. *)
Require Import Coq.Lists.List Coq.Arith.Arith.
From Mustache Require Import Res Iter Dispatcher.
From Mustache.proofs Require Import IterProofs DispatcherProofs.
Import ListNotations.

(* (a) the tasks of one job get N/T entities each, the first N mod T one more, N in total: consecutive, hence disjoint,
   index ranges [start_k, start_k + size_k) of the selected list *)
Theorem C06_split_sizes : forall total tasks, 0 < tasks ->
  fold_left (fun acc k => acc + task_size total tasks k) (seq 0 tasks) 0 = total.
Proof. exact task_size_sum. Qed.
Print Assumptions C06_split_sizes.

(* (b) run() = lock; enqueue T tasks; waitForParallelFinish; unlock.  When the waiter leaves the barrier every task it
   had enqueued has finished (its end event precedes the barrier pass in the trace) *)
Theorem C06_run_barrier : forall nw ns tr s s',
  drun true (d_init nw ns) tr = Some s -> dstep true s (EBarrierPass 0) = Some s' ->
  exists obs, helper s = HBarrier 0 obs /\ all_fin_below s 0 obs = true.
Proof. intros nw ns tr s s' Hr Hs. exact (barrier_pass_complete s 0 s' (inv_run true tr _ _ (inv_init nw ns) Hr) Hs). Qed.
Print Assumptions C06_run_barrier.

Example C06_example : task_size 7 3 0 = 3 /\ task_size 7 3 1 = 2 /\ task_size 7 3 2 = 2.
Proof. vm_compute. auto. Qed.
