(* C05 -- changes made while locked are isolated, then applied faithfully at unlock.
   Statements only. The model is Manager.v (tied to the code by the tier-B correspondence of ./check C05). *)
Require Import Coq.Lists.List Coq.NArith.NArith Coq.ZArith.ZArith.
From Mustache Require Import Res Manager Palette MgrSpec Refine.
From Mustache.proofs Require Import ManagerIsolation ManagerDeferred.
Import ListNotations.

(* (1) isolation: while the manager is locked, a creation / destruction / assignment / removal issued from ANY thread id
   (with or without value, typed or by id) leaves everything observable unchanged: slot table, locations, free list,
   every archetype (members, columns, stamps), pending destroy set, dependencies, shared pool, world version, lock depth.
   Only the command buffers, their temporaries and the id counter move. For every state, not only reachable ones. *)
Theorem C05_isolation : forall s o s' r,
  lockc s <> 0 -> is_structural o = true -> step s o = Ok (s', r) -> observe s' = observe s.
Proof. exact isolation_while_locked. Qed.
Print Assumptions C05_isolation.

(* (2) only the outermost unlock flushes *)
Theorem C05_nested_unlock : forall s n,
  lockc s = S (S n) -> step s OUnlock = Ok (set_lock s (S n), RBool false).
Proof. exact nested_unlock_does_not_flush. Qed.
Print Assumptions C05_nested_unlock.

(* (3) commands whose target is not alive at the moment their pack is applied are skipped *)
Theorem C05_dead_target_skipped : forall tid s c t,
  (match c with ACreate _ _ _ _ => False | _ => True end) ->
  is_valid s (cmd_handle c) = false -> apply_pack tid s (c :: t) = Ok s.
Proof. exact dead_target_pack_skipped. Qed.
Print Assumptions C05_dead_target_skipped.

(* (4) FULL STATEMENT of the second sentence (flush = sequential application in thread order / program order):
   Refine.refinement_statement.  It is evaluated on the concrete scripts below inside Coq and on every generated script
   by the tier-A/tier-B correspondence runs; it is PROVED, for all scripts over the alphabet with lock / unlock without
   dependencies and shared components on which the model run does not end in Err, in part 3 at the end of this file
   (C05_flush_faithful, C05_locked_refines_on).  The excluded patterns are the open known findings (a pack that assigns
   and removes the same component: the model run ends in Err NullDeref, see C05_pack_assign_then_remove_refuted and
   C05_ok_hypothesis_needed; program order lost inside a pack where dependencies are involved: no dependencies here). *)
Definition C05_flush_faithful_statement := refinement_statement.

Definition cis3 : list cinfo := [pal_info 0 0; pal_info 2 0; pal_info 3 0].
(* two worker threads and the owner record interleaved commands on shared and fresh entities *)
Definition script_a : list xop :=
  [XoCreate 0 1 [] false; XoCreate 0 3 [] false; XoUpdate; XoLock; XoLock;
   XoAssign 1 0 1 (Some 5%Z); XoCreate 2 4 [] false; XoAssign 2 2 0 (Some 9%Z); XoDestroyNow 1 1;
   XoRemove 0 0 0 true; XoDestroy 2 0; XoCreate 1 1 [] false; XoDestroyNow 1 3;
   XoUnlock; XoAssign 0 2 1 None; XoUnlock; XoUpdate]%N.
Example C05_flush_faithful_on_script_a : refines_on true 16 cis3 script_a = true /\ refines_on false 16 cis3 script_a = true.
Proof. split; vm_compute; reflexivity. Qed.

(* a command on an entity that another thread's buffer destroys first is skipped *)
Definition script_b : list xop :=
  [XoCreate 0 1 [] false; XoUpdate; XoLock; XoAssign 2 0 1 (Some 7%Z); XoDestroyNow 1 0; XoUnlock]%N.
Example C05_flush_faithful_on_script_b : refines_on true 16 cis3 script_b = true.
Proof. vm_compute. reflexivity. Qed.

(* the open finding, as a theorem about the faithful model: an in-contract script on which unlock fails *)
Theorem C05_pack_assign_then_remove_refuted :
  exists ops, x_viol (xrun 16 cis3 ops) = 0 /\ mrun true 16 cis3 ops = Err NullDeref.
Proof.
  exists [XoCreate 0 1 [] false; XoLock; XoAssign 0 0 1 (Some 5%Z); XoRemove 0 0 1 true; XoUnlock]%N.
  split; vm_compute; reflexivity.
Qed.
Print Assumptions C05_pack_assign_then_remove_refuted.

(* ------------------------------------------------------------------------------------------------------------ *)
(* Deferred mode, part 2 (proofs/ManagerDeferred.v). All theorems are for EVERY state of the model.               *)

(* (5) packs: applyStorage cuts a buffer into the maximal runs of consecutive commands on one handle.
   uniform p: all commands of p have handle_eqb handles; adjacent_differ: commands of consecutive packs never do. *)
Theorem C05_split_packs : forall b,
  concat (split_packs b []) = b /\
  Forall (fun p => p <> [] /\ uniform p) (split_packs b []) /\
  adjacent_differ (split_packs b []).
Proof. exact split_packs_correct. Qed.
Print Assumptions C05_split_packs.

Theorem C05_handle_eqb_is_equality : forall a b, handle_eqb a b = true <-> a = b.
Proof. exact handle_eqb_eq. Qed.
Print Assumptions C05_handle_eqb_is_equality.

(* (6) unlock with nothing recorded: the flush is the identity up to the epoch counter and the cleared temporaries *)
Theorem C05_flush_empty : forall s,
  Forall (fun b => b = []) (bufs s) ->
  flush s = Ok (set_epoch (set_bufs s (bufs s) (map (fun _ => []) (tmps s))) (S (epoch s))).
Proof. exact flush_empty. Qed.
Print Assumptions C05_flush_empty.

(* (7) a buffer all of whose commands have targets that are not valid and that it does not create (buf_deadb; the
   component ids of its assign commands are registered, as assign_locked guarantees) is skipped as a whole:
   the state is unchanged except for the log, which gains exactly the destruction events (EvD) of the buffer's own
   temporaries (dtor_events: one per assign command whose component type has an instrumented destructor) *)
Theorem C05_dead_buffer_skipped : forall s tid b,
  buf_deadb s b = true -> apply_storage s (tid, b) = Ok (set_log s (rev (dtor_events s tid b) ++ log s)).
Proof. exact apply_storage_dead. Qed.
Print Assumptions C05_dead_buffer_skipped.

Theorem C05_dead_buffer_events_own : forall s tid b e, In e (dtor_events s tid b) ->
  exists h cid n inf, In (AAssign h cid n) b /\ nth_error (cinfos s) cid = Some inf /\
                      e = EvD (ci_pal inf) (PTmp (epoch s * 64 + tid) n).
Proof. exact dtor_events_own. Qed.
Print Assumptions C05_dead_buffer_events_own.

(* the whole flush when every buffer is dead *)
Theorem C05_flush_all_dead : forall s,
  forallb (buf_deadb s) (bufs s) = true ->
  flush s = Ok (set_epoch (set_bufs (set_log s (rev (flush_events s (numbered_bufs s)) ++ log s))
                                    (map (fun _ => []) (bufs s)) (map (fun _ => []) (tmps s)))
                          (S (epoch s))).
Proof. exact flush_all_dead. Qed.
Print Assumptions C05_flush_all_dead.

(* inside any buffer: a pack whose target is dead when the pack is reached contributes nothing *)
Theorem C05_dead_pack_in_sequence : forall tid ps1 c t ps2 s s1,
  fold_res (apply_pack tid) ps1 s = Ok s1 -> cmd_deadb s1 c = true ->
  fold_res (apply_pack tid) (ps1 ++ (c :: t) :: ps2) s = fold_res (apply_pack tid) ps2 s1.
Proof. exact dead_pack_in_sequence. Qed.
Print Assumptions C05_dead_pack_in_sequence.

(* (8) the entity builder while locked. with_rec s e b t l is s with ONLY the id counter, the buffers, the temporaries and
   the log replaced.  On an existing entity: one AAssign per assignment, in order, numbered from the current number of
   temporaries of the caller's buffer, then one ARemove per removed component; the temporaries hold the assigned values
   (types without a readable value: None); the log gains one EvV per instrumented assignment, at the new temporary. *)
Theorem C05_builder_records_existing : forall s tid h assigns removes s' r k,
  lockc s = S k -> step s (OBuild tid (Some h) assigns removes) = Ok (s', r) ->
  s' = with_rec s (next_eid s)
         (upd (bufs s) tid (nth tid (bufs s) [] ++
            assign_cmds h (length (nth tid (tmps s) [])) assigns ++ map (ARemove h) (mitems (mask_of_list removes))))
         (upd (tmps s) tid (nth tid (tmps s) [] ++ map (assign_cell (cinfos s)) assigns))
         (rev (assign_evs (cinfos s) (epoch s * 64 + tid) (length (nth tid (tmps s) [])) assigns) ++ log s) /\
  r = RNone.
Proof. exact build_locked_some. Qed.
Print Assumptions C05_builder_records_existing.

(* On a new entity: first one ACreate of the fresh handle (empty mask), then the assignments; the id counter advances.
   The removal list of such a builder is not recorded (the model mirrors the implementation here). *)
Theorem C05_builder_records_new : forall s tid assigns removes s' r k,
  lockc s = S k -> step s (OBuild tid None assigns removes) = Ok (s', r) ->
  s' = with_rec s (next_eid s + 1)%N
         (upd (bufs s) tid (nth tid (bufs s) [] ++
            ACreate (fresh_handle s) false 0%N si_null :: assign_cmds (fresh_handle s) (length (nth tid (tmps s) [])) assigns))
         (upd (tmps s) tid (nth tid (tmps s) [] ++ map (assign_cell (cinfos s)) assigns))
         (rev (assign_evs (cinfos s) (epoch s * 64 + tid) (length (nth tid (tmps s) [])) assigns) ++ log s) /\
  r = RHandle (fresh_handle s).
Proof. exact build_locked_none. Qed.
Print Assumptions C05_builder_records_new.

(* the i-th assignment becomes the i-th assign command, on the builder's handle, with the next temporary number *)
Theorem C05_builder_assign_cmds : forall h assigns n0 i a,
  nth_error assigns i = Some a -> nth_error (assign_cmds h n0 assigns) i = Some (AAssign h (fst a) (n0 + i)).
Proof. exact assign_cmds_nth. Qed.
Print Assumptions C05_builder_assign_cmds.

(* the removal commands: increasing component order, exactly the distinct listed components below the mask width *)
Theorem C05_builder_removals : forall h removes,
  Sorted.StronglySorted lt (mitems (mask_of_list removes)) /\
  forall c, In (ARemove h c) (map (ARemove h) (mitems (mask_of_list removes))) <-> (In c removes /\ c < MASK_BITS).
Proof. exact build_removals_exact. Qed.
Print Assumptions C05_builder_removals.

(* isolation (1) extended to the builder *)
Theorem C05_isolation_builder : forall s tid target assigns removes s' r,
  lockc s <> 0 -> step s (OBuild tid target assigns removes) = Ok (s', r) -> observe s' = observe s.
Proof. exact build_isolated. Qed.
Print Assumptions C05_isolation_builder.

(* ---- non-vacuity of the hypotheses above, on reachable states ---- *)
Definition run_ops (s : mst) (ops : list op) : res mst := fold_res (fun st o => do r <- step st o; Ok (fst r)) ops s.
Definition cisD : list cinfo := [pal_info 0 0; pal_info 2 0].
(* entity (0,0) is created and destroyed; under lock, thread 1 assigns the instrumented component 1 to it and removes
   component 0 from it, the owner destroys it again *)
Definition dead_script : list op :=
  [OCreate 0 1%N [] false; ODestroyNow 0 (0, 0)%N; OLock;
   OAssign 1 (0, 0)%N 1 (AValue 5%Z) true; ORemove 1 (0, 0)%N 0 true; ODestroyNow 0 (0, 0)%N].

Example C05_dead_buffer_example :
  exists s, run_ops (init 2 cisD) dead_script = Ok s /\
    bufs s = [[ADestroyNow (0, 0)%N]; [AAssign (0, 0)%N 1 0; ARemove (0, 0)%N 0]] /\
    forallb (buf_deadb s) (bufs s) = true /\
    dtor_events s 1 (nth 1 (bufs s) []) = [EvD 2 (PTmp 1 0)] /\
    split_packs (nth 1 (bufs s) []) [] = [[AAssign (0, 0)%N 1 0; ARemove (0, 0)%N 0]].
Proof. eexists. split; [vm_compute; reflexivity|]. repeat split; vm_compute; reflexivity. Qed.

(* flush_empty: a lock taken and nothing recorded *)
Example C05_flush_empty_example :
  exists s, run_ops (init 2 cisD) [OCreate 0 1%N [] false; OLock] = Ok s /\ bufs s = [[]; []] /\ lockc s = 1.
Proof. eexists. split; [vm_compute; reflexivity|]. split; reflexivity. Qed.

(* dead_pack_in_sequence: a live pack first, then a dead one, then a live one *)
Example C05_dead_pack_example :
  exists s s1, run_ops (init 2 cisD) [OCreate 0 1%N [] false; OCreate 0 1%N [] false; ODestroyNow 0 (0, 0)%N; OLock] = Ok s /\
    fold_res (apply_pack 0) [[ARemove (1, 0)%N 0]] s = Ok s1 /\ cmd_deadb s1 (ADestroyNow (0, 0)%N) = true.
Proof. eexists. eexists. split; [vm_compute; reflexivity|]. split; vm_compute; reflexivity. Qed.

(* the builder under lock, on an existing entity and on a new one, from thread 1 *)
Example C05_builder_example :
  exists s s1 s2 h,
    run_ops (init 2 cisD) [OCreate 0 3%N [] false; OLock] = Ok s /\ lockc s = 1 /\
    step s (OBuild 1 (Some (0, 0)%N) [(1, 7%Z); (0, 8%Z)] [1; 0; 1]) = Ok (s1, RNone) /\
    bufs s1 = [[]; [AAssign (0, 0)%N 1 0; AAssign (0, 0)%N 0 1; ARemove (0, 0)%N 0; ARemove (0, 0)%N 1]] /\
    tmps s1 = [[]; [Some 7%Z; Some 8%Z]] /\ log s1 = EvV 2 (PTmp 1 0) :: log s /\
    step s1 (OBuild 1 None [(1, 9%Z)] [0]) = Ok (s2, RHandle h) /\ h = (1, 0)%N /\
    nth 1 (bufs s2) [] = nth 1 (bufs s1) [] ++ [ACreate h false 0%N si_null; AAssign h 1 2] /\
    next_eid s2 = (next_eid s1 + 1)%N.
Proof.
  eexists. eexists. eexists. eexists. split; [vm_compute; reflexivity|]. split; [reflexivity|].
  split; [vm_compute; reflexivity|]. split; [reflexivity|]. split; [reflexivity|]. split; [reflexivity|].
  split; [vm_compute; reflexivity|]. repeat split; vm_compute; reflexivity.
Qed.

(* ------------------------------------------------------------------------------------------------------------ *)
(* Deferred mode, part 3: THE REFINEMENT over the alphabet with lock / unlock (proofs/SkelMoveRem.v, ManagerLInv.v,
   ManagerPack.v, ManagerFlush.v, ManagerLocked.v, ManagerLockedMain.v).

   Alphabet (ManagerLockedMain.alphaL_b): lock, unlock (nested to any depth, also an unlock without lock); while locked
   create (both entry points, any mask, no shared ids), destroy, destroyNow, assign (typed / untyped, default / value),
   removeComponent (typed / untyped) from ANY thread id (a thread id beyond the buffer count is a contract violation in
   the specification and Err in the model), on handles alive or not, issued or not (the null handle), created in the
   same locked section or not; not locked: the same operations (C02), destroy + update; at any time a write through
   getComponent<T>().  No dependencies, no shared components, component ids below 128, cis_ok as in C02.

   Relation (ManagerLocked.LR cis s hs x): the C02 invariant (structure G of the Skeleton on the projection, with the
   recorded creations pending; well-formed archetypes; the VALUE clause: the cells at the slot of every member are the
   values the specification gives that entity) + the buffers: every recorded command of the model is the command of the
   specification at the same place of the same thread's buffer (crel: handle = the k-th issued handle, and the
   temporary of an assign command holds the assigned value, the default value for a default assignment), commands
   through the null handle being recorded by the model only (brel) + marked set, lock depth, id counter. *)
Require Import Coq.micromega.Lia Coq.Arith.Arith.
From Mustache Require Import SkelSpec.
From Mustache.proofs Require Import ManagerBasics ManagerMoves ManagerInv ManagerLInv ManagerPack ManagerFlush ManagerLocked ManagerLockedMain.

(* (9) the temporaries carry the assigned values: the last loop of applyCommandPack (wr_step = its body) leaves in the
   cell of every component at the entity's slot the temporary of the LAST assign command of that component in the pack
   (last_asg), and the cell it had before where the pack assigns nothing; cells_of: nothing else of the state moves
   (other slots, other archetypes, locations, slots: untouched; only the log grows) *)
Theorem C05_assigned_values_arrive : forall tid h ai a idx tl s a0,
  nth_error (archs s) ai = Some a0 -> am_mask a0 = am_mask a ->
  length (am_cols a0) = length (mitems (am_mask a)) -> nth_error (tmps s) tid = Some tl ->
  forall p st a_st s',
  Forall asg_ok p -> cells_of s ai idx a0 st a_st ->
  fold_res (wr_step tid h ai a idx) p st = Ok s' ->
  exists a', cells_of s ai idx a0 s' a' /\
    forall c, c < MASK_BITS -> acell a' c idx = match last_asg tl p c with Some w => w | None => acell a_st c idx end.
Proof. exact wr_fold. Qed.
Print Assumptions C05_assigned_values_arrive.

(* (10) THE PACK LEMMA: applying one pack p (a non-empty run of commands on one handle h of thread tid, recorded as the
   specification commands xp) from a state of the flush invariant FInv reaches the state the specification reaches by
   applying the commands of xp ONE AT A TIME (fold_left x_cmd), whatever the pack does: creation of its entity (then
   destroyed at once, or inserted with the final mask and the assigned values), an entity that is not alive any more
   (skipped), destroyNow in the middle (the rest means nothing), a changed component set (one externalMove, then the
   assigned values), an unchanged one (values written in place).  rem' = the creations still pending after the pack.
   Hypotheses: the pack's commands stay inside the contract (no x_viol: e.g. no assign of a component the entity has at
   that moment) and applyCommandPack does not end in Err (it does for assign-then-remove of one component). *)
Theorem C05_pack_is_sequential : forall cis tid tl s hs x h p xp rem' s',
  FInv cis s hs x (xrem xp ++ rem') -> cis_ok cis -> within (length hs) -> nth_error (tmps s) tid = Some tl ->
  p <> [] -> allh h p -> brel cis hs tl p xp -> mcf p ->
  x_viol (fold_left x_cmd xp x) = x_viol x ->
  apply_pack tid s p = Ok s' ->
  FInv cis s' hs (fold_left x_cmd xp x) rem' /\ fr4 s' = fr4 s.
Proof. exact F_pack. Qed.
Print Assumptions C05_pack_is_sequential.

(* (11) THE FLUSH: from related states, the flush of the recorded buffers (lock depth set to 0, as the outermost unlock
   does) reaches the state the specification's x_flush reaches: every buffer's commands one at a time in program order,
   buffers in thread-id order; afterwards the two states are related again (all buffers empty, nothing pending) *)
Theorem C05_flush_faithful : forall cis s hs x s',
  LR cis s hs x -> cis_ok cis -> within (length hs) -> x_viol (x_flush (xw_lock x 0)) = x_viol x ->
  flush (set_lock s 0) = Ok s' -> LR cis s' hs (x_flush (xw_lock x 0)).
Proof. exact flush_faithful. Qed.
Print Assumptions C05_flush_faithful.

(* the relation holds along every script of the alphabet *)
Theorem C05_locked_run_related : forall typed n cis ops s hs,
  cis_ok cis -> forallb (alphaL_b cis) ops = true ->
  mrun typed n cis ops = Ok (s, hs) -> x_viol (xrun n cis ops) = 0 -> within (length hs) ->
  LR cis s hs (xrun n cis ops).
Proof. exact locked_run_related. Qed.
Print Assumptions C05_locked_run_related.

(* (12) the statement of Refine.v: for every script over the alphabet that stays inside the contract and on which the
   model does not end in Err, with fewer than 16 777 000 handles issued (as in C01 / C02), what queries observe of
   the Manager is the abstract world *)
Theorem C05_locked_refines_on : forall typed n cis ops s hs,
  cis_ok cis -> forallb (alphaL_b cis) ops = true ->
  mrun typed n cis ops = Ok (s, hs) -> x_viol (xrun n cis ops) = 0 -> within (length hs) ->
  refines_on typed n cis ops = true.
Proof. exact locked_refines_on. Qed.
Print Assumptions C05_locked_refines_on.

(* handle by handle (also in the middle of a locked section: the recorded changes are not observable, first sentence) *)
Theorem C05_locked_refinement : forall typed n cis ops s hs,
  cis_ok cis -> forallb (alphaL_b cis) ops = true ->
  mrun typed n cis ops = Ok (s, hs) -> x_viol (xrun n cis ops) = 0 -> within (length hs) ->
  length hs = x_count (xrun n cis ops) /\
  forall k,
    match find_ent (xrun n cis ops) k with
    | Some e => exists e', abs_ent s k (nth k hs null_handle) = Some e' /\ ent_match e e' = true
    | None => abs_ent s k (nth k hs null_handle) = None
    end.
Proof. exact locked_refinement. Qed.
Print Assumptions C05_locked_refinement.

(* the alphabet of C02 is included *)
Theorem C05_alphabet_extends_C02 : forall cis o, ManagerMain.alpha_b cis o = true -> alphaL_b cis o = true.
Proof. exact alpha_b_alphaL. Qed.
Print Assumptions C05_alphabet_extends_C02.

Example C05_alphabet_extends_C02_example : ManagerMain.alpha_b cis3 (XoAssign 1 0 1 (Some 5%Z)) = true.
Proof. reflexivity. Qed.

(* ---- the hypotheses are satisfiable ---- *)
Lemma cis3_ok : cis_ok cis3.
Proof. unfold cis_ok, cis3. repeat constructor; simpl; intros; congruence. Qed.

(* script_a (above): two worker threads and the owner, nested locks, commands on entities created in the same locked
   section, on an entity destroyed by another command, a create + destroyNow pack, assign after the inner unlock *)
Example C05_locked_nonvacuous :
  cis_ok cis3 /\ forallb (alphaL_b cis3) script_a = true /\ x_viol (xrun 16 cis3 script_a) = 0 /\
  (forall typed, exists s hs, mrun typed 16 cis3 script_a = Ok (s, hs) /\ within (length hs) /\
                              map (is_valid s) hs = [false; false; true; false]) /\
  map (fun e => (e_k e, e_comps e)) (x_ents (xrun 16 cis3 script_a)) = [(2, [(0, Some 9%Z); (2, Some 1003%Z)])].
Proof.
  split; [exact cis3_ok|]. split; [vm_compute; reflexivity|]. split; [vm_compute; reflexivity|]. split.
  - intros typed. destruct typed; eexists; eexists; (split; [vm_compute; reflexivity|]); split; vm_compute; reflexivity.
  - vm_compute. reflexivity.
Qed.

(* the theorem applied (not evaluated) to script_a *)
Example C05_locked_refines_on_script_a : forall typed, refines_on typed 16 cis3 script_a = true.
Proof.
  intros typed. destruct C05_locked_nonvacuous as (Hok & Ha & Hv & Hrun & _). destruct (Hrun typed) as (s & hs & Hr & Hb & _).
  exact (C05_locked_refines_on typed 16 cis3 script_a s hs Hok Ha Hr Hv Hb).
Qed.

(* a reachable locked state with three recorded packs in two buffers: related (by the theorem), and its flush succeeds *)
Definition script_l : list xop :=
  [XoCreate 0 1 [] false; XoCreate 0 3 [] false; XoLock;
   XoAssign 1 0 1 (Some 5%Z); XoRemove 1 0 0 true; XoCreate 2 4 [] false; XoAssign 2 2 0 None; XoDestroyNow 1 1]%N.

Definition st_l : mst := match mrun true 16 cis3 script_l with Ok (s, _) => s | Err _ => init 16 cis3 end.
Definition hs_l : list handle := match mrun true 16 cis3 script_l with Ok (_, hs) => hs | Err _ => [] end.
Lemma run_l : mrun true 16 cis3 script_l = Ok (st_l, hs_l).
Proof. vm_compute. reflexivity. Qed.

Example C05_flush_nonvacuous :
  mrun true 16 cis3 script_l = Ok (st_l, hs_l) /\ LR cis3 st_l hs_l (xrun 16 cis3 script_l) /\ within (length hs_l) /\
  x_lock (xrun 16 cis3 script_l) = 1 /\
  x_viol (x_flush (xw_lock (xrun 16 cis3 script_l) 0)) = x_viol (xrun 16 cis3 script_l) /\
  (exists s', flush (set_lock st_l 0) = Ok s') /\
  bufs st_l = [[]; [AAssign (0, 0) 1 0; ARemove (0, 0) 0; ADestroyNow (1, 0)]; [ACreate (2, 0) true 4 si_null; AAssign (2, 0) 0 0];
            []; []; []; []; []; []; []; []; []; []; []; []; []]%N /\
  tmps st_l = [[]; [Some 5%Z]; [None]; []; []; []; []; []; []; []; []; []; []; []; []; []].
Proof.
  assert (Hb : within (length hs_l)) by (vm_compute; reflexivity).
  assert (Hv : x_viol (xrun 16 cis3 script_l) = 0) by (vm_compute; reflexivity).
  split; [exact run_l|]. split; [apply (C05_locked_run_related true 16 cis3 script_l st_l hs_l cis3_ok); [vm_compute; reflexivity|exact run_l|exact Hv|exact Hb]|].
  split; [exact Hb|]. split; [vm_compute; reflexivity|]. split; [vm_compute; reflexivity|]. split; [vm_compute; eauto|].
  split; vm_compute; reflexivity.
Qed.

(* the pack lemma and the value lemma on the first pack of thread 1 in that state: assign component 1 := 5 to entity #0 and
   remove its component 0; the entity moves from archetype {0} to archetype {1} *)
Definition state_l : mst := set_lock st_l 0.
Definition pack_l : list acmd := [AAssign (0, 0)%N 1 0; ARemove (0, 0)%N 0].
Definition xpack_l : list xcmd := [XAssign 0 1 (Some 5%Z); XRemove 0 0].

Example C05_pack_nonvacuous :
  cis_ok cis3 /\ within (length hs_l) /\ nth_error (tmps state_l) 1 = Some [Some 5%Z] /\
  pack_l <> [] /\ allh (0, 0)%N pack_l /\ brel cis3 hs_l [Some 5%Z] pack_l xpack_l /\ mcf pack_l /\
  x_viol (fold_left x_cmd xpack_l (xw_lock (xrun 16 cis3 script_l) 0)) = x_viol (xw_lock (xrun 16 cis3 script_l) 0) /\
  (exists s', apply_pack 1 state_l pack_l = Ok s') /\
  (* the invariant, for the whole remaining contents of the buffers *)
  FInv cis3 state_l hs_l (xw_lock (xrun 16 cis3 script_l) 0) (xrem (concat (x_bufs (xrun 16 cis3 script_l)))) /\
  xrem (concat (x_bufs (xrun 16 cis3 script_l))) = [SCreate 2 4%N].
Proof.
  destruct C05_flush_nonvacuous as (Hr & HR & Hb & _).
  split; [exact cis3_ok|]. split; [exact Hb|]. split; [vm_compute; reflexivity|]. split; [discriminate|].
  split; [repeat constructor|]. split.
  - apply br_cons; [vm_compute; repeat split; lia|]. apply br_cons; [vm_compute; repeat split; lia|]. constructor.
  - split.
    + intros b1 h ha m sh b2 E. destruct b1 as [|c1 [|c2 [|c3 b1]]]; discriminate.
    + split; [vm_compute; reflexivity|]. split; [vm_compute; eauto|]. split; [|vm_compute; reflexivity].
      apply LR_FInv. exact HR.
Qed.

(* the write loop on the archetype {1} (index 2) the entity has moved to: slot 0 receives the value 5 of temporary 0 *)
Example C05_values_nonvacuous :
  exists s5 a5 s6, nth_error (archs s5) 2 = Some a5 /\ am_mask a5 = 2%N /\ length (am_cols a5) = length (mitems (am_mask a5)) /\
    nth_error (tmps s5) 1 = Some [Some 5%Z] /\ Forall asg_ok pack_l /\
    fold_res (wr_step 1 (0, 0)%N 2 a5 0) pack_l s5 = Ok s6 /\ last_asg [Some 5%Z] pack_l 1 = Some (Some 5%Z) /\
    exists a6, nth_error (archs s6) 2 = Some a6 /\ acell a6 1 0 = Some 5%Z.
Proof.
  set (s5 := match (do r <- get_arch state_l 2%N si_null; external_move (fst r) (snd r) (0, 0)%N 0 0 2%N) with Ok st => st | Err _ => state_l end).
  set (a5 := nth 2 (archs s5) (new_arch 0%N si_null 0)).
  assert (H6 : exists s6, fold_res (wr_step 1 (0, 0)%N 2 a5 0) pack_l s5 = Ok s6) by (vm_compute; eauto).
  destruct H6 as (s6 & H6). exists s5, a5, s6.
  assert (Ha5 : nth_error (archs s5) 2 = Some a5) by (vm_compute; reflexivity).
  assert (Hm5 : am_mask a5 = 2%N) by (vm_compute; reflexivity).
  assert (Hc5 : length (am_cols a5) = length (mitems (am_mask a5))) by (vm_compute; reflexivity).
  assert (Ht5 : nth_error (tmps s5) 1 = Some [Some 5%Z]) by (vm_compute; reflexivity).
  assert (Hp : Forall asg_ok pack_l) by (repeat constructor).
  repeat (split; [first [assumption|vm_compute; reflexivity]|]).
  destruct (C05_assigned_values_arrive 1 (0, 0)%N 2 a5 0 [Some 5%Z] s5 a5 Ha5 eq_refl Hc5 Ht5 pack_l s5 a5 s6 Hp (cells_of_refl _ _ _ _ Ha5) H6) as (a6 & Hc6 & Hv6).
  exists a6. split; [exact (cells_of_nth _ _ _ _ _ _ Ha5 Hc6)|]. rewrite (Hv6 1); [reflexivity|vm_compute; lia].
Qed.

(* ---- why "the model run does not end in Err" is a hypothesis: the open finding ---- *)
(* assign + remove of one component in one pack: every other hypothesis of C05_locked_refines_on holds (alphabet,
   cis_ok, inside the contract, two handles issued) and the conclusion fails, because unlock ends in Err NullDeref
   (applyCommandPack move-constructs the temporary into a component the final archetype does not have) *)
Definition script_x : list xop := [XoCreate 0 1 [] false; XoLock; XoAssign 0 0 1 (Some 5%Z); XoRemove 0 0 1 true; XoUnlock]%N.
Example C05_ok_hypothesis_needed :
  cis_ok cis3 /\ forallb (alphaL_b cis3) script_x = true /\ x_viol (xrun 16 cis3 script_x) = 0 /\
  mrun true 16 cis3 script_x = Err NullDeref /\ refines_on true 16 cis3 script_x = false /\
  (* the same pack followed by a second assignment of the component is fine: the last assignment wins *)
  refines_on true 16 cis3 (removelast script_x ++ [XoAssign 0 0 1 (Some 6%Z); XoUnlock]) = true.
Proof. split; [exact cis3_ok|]. repeat split; vm_compute; reflexivity. Qed.

(* ------------------------------------------------------------------------------------------------------------ *)
(* Deferred mode, part 4: THE MODEL RUN IS TOTAL over the alphabet with lock / unlock -- the hypothesis
   `mrun typed n cis ops = Ok (s, hs)` of part 3 is discharged (proofs/LockedTotalPack.v, LockedTotalFlush.v,
   LockedTotalMain.v, LockedTotalSpec.v), as C02_model_run_total does for the unlocked alphabet.

   Every Err of the model on this alphabet is excluded by the refinement relation LR of part 3, the shape invariant
   TI of C02 (version storage, registered component ids), the contract x_viol = 0, the registration condition reg_b
   (the component ids the script names have a description) -- and ONE more contract, the open finding
   pack-assign-then-remove-same-component:

     within one pack (the consecutive commands of one thread on one entity in one locked section) every component that
     is assigned is assigned by the LAST command of the pack that names it -- no component is assigned and removed
     afterwards without being assigned again later in the pack (ar_ok), unless the pack destroys its entity at once
     (destroyNow: the write loop of applyCommandPack is not reached) or goes through the null handle (skipped).

   The contract is exact (C05_pack_contract_exact: outside it, a pack on a live target ends in Err NullDeref).
   It is decidable and stated three ways: on the model's packs at every flush (ar_script; pack_ar), and on the
   SPECIFICATION's buffers along the specification's run, exact (xare_script: the maximal runs of one buffer's commands
   on one issue number, together with "every handle used while locked has been issued" -- a command through a handle
   not issued yet is recorded through the null handle and splits the pack around it) or plain (xar_script: in no run a
   component is assigned and removed afterwards; sufficient without the condition on handles). *)
From Mustache.proofs Require Import ManagerTotal LockedTotalPack LockedTotalFlush LockedTotalMain LockedTotalSpec.

(* (13) the contract says exactly that the component set the mask loop of applyCommandPack ends with (pmask, from any
   initial set fm) contains every component the pack assigns; the write loop move-constructs the temporary of every
   assign command into that set and returns Err NullDeref for a component it lacks *)
Theorem C05_contract_meaning : forall p,
  ar_ok p = true <-> forall h c n, In (AAssign h c n) p -> forall fm, mhas (pmask p fm) c = true.
Proof. exact ar_ok_meaning. Qed.
Print Assumptions C05_contract_meaning.

(* the plain contract implies the exact one, pack by pack *)
Theorem C05_plain_contract_stronger : forall p, pack_ap p = true -> pack_ar p = true.
Proof. exact pack_ap_ar. Qed.
Print Assumptions C05_plain_contract_stronger.

(* the exact contract read off the specification's buffers implies the contract on the model's packs, provided no
   recorded command goes through the null handle (NNl); the plain one needs no such proviso *)
Theorem C05_contract_on_specification : forall cis s hs x, LR cis s hs x ->
  (NNl (bufs s) -> xpacks_e x = true -> packs_ar s = true) /\ (xpacks_p x = true -> packs_ar s = true).
Proof. intros cis s hs x HR. split; [apply (xe_packs_ok cis s hs x HR)|apply (xap_packs_ok cis s hs x HR)]. Qed.
Print Assumptions C05_contract_on_specification.

(* (14) FORWARD: one pack.  From a state of the flush invariant FInv (part 3) and of the shape invariant TI, a pack of
   recorded commands (brel) that names described component ids only (cmd_reg) and satisfies the contract is applied
   without Err, whatever it does: creation of its entity, an entity that is not alive any more, destroyNow in the
   middle, one externalMove, values written in place.  No hypothesis on x_viol: staying inside the contract of the
   interface is needed for the refinement (10), not for totality. *)
Theorem C05_pack_total : forall cis tid tl s hs x h p xp rem',
  FInv cis s hs x (xrem xp ++ rem') -> TI cis s -> nth_error (tmps s) tid = Some tl ->
  p <> [] -> allh h p -> brel cis hs tl p xp -> mcf p ->
  Forall (cmd_reg (length cis)) p -> pack_ar p = true ->
  exists s', apply_pack tid s p = Ok s' /\ TI cis s'.
Proof. exact T_pack. Qed.
Print Assumptions C05_pack_total.

(* ... and THE CONTRACT IS EXACT: under the same hypotheses, a pack whose target is alive when the pack is reached, or
   which creates its target (pack_live), and which is outside the contract ends in Err NullDeref -- the open finding
   pack-assign-then-remove-same-component, for every state and every such pack *)
Theorem C05_pack_contract_exact : forall cis tid tl s hs x h p xp rem',
  FInv cis s hs x (xrem xp ++ rem') -> TI cis s -> nth_error (tmps s) tid = Some tl ->
  p <> [] -> allh h p -> brel cis hs tl p xp -> mcf p ->
  Forall (cmd_reg (length cis)) p -> pack_live s p = true -> pack_ar p = false ->
  apply_pack tid s p = Err NullDeref.
Proof. exact N_pack. Qed.
Print Assumptions C05_pack_contract_exact.

(* (15) FORWARD: the flush at the outermost unlock returns Ok; afterwards every buffer is empty *)
Theorem C05_flush_total : forall cis s hs x,
  LR cis s hs x -> cis_ok cis -> within (length hs) -> x_viol (x_flush (xw_lock x 0)) = x_viol x ->
  TI cis s -> Forall (Forall (cmd_reg (length cis))) (bufs s) -> packs_ar s = true ->
  exists s', flush (set_lock s 0) = Ok s' /\ TI cis s' /\ bufs s' = map (fun _ => []) (bufs s) /\
             lockc s' = 0 /\ nthreads s' = nthreads s.
Proof. exact flush_total. Qed.
Print Assumptions C05_flush_total.

(* (16) FORWARD: one operation of the alphabet, in any lock state.  LT = LR + TI + the recorded commands name described
   component ids + one buffer per thread while locked.  ar_guard: when the operation is an unlock that flushes, the
   packs satisfy the contract.  The last clause: as long as every handle used while locked has been issued
   (xiss_guard), no recorded command goes through the null handle. *)
Theorem C05_step_total : forall cis typed s hs x o,
  LT cis s hs x -> cis_ok cis -> alphaL_b cis o = true -> reg_b cis o = true ->
  x_viol x = 0 -> x_viol (x_step x o) = 0 -> ar_guard s o = true ->
  within (length hs + (if ManagerTotal.is_create o then 1 else 0)) ->
  exists s' hs', mstep typed (s, hs) o = Ok (s', hs') /\ LT cis s' hs' (x_step x o) /\
                 length hs' = length hs + (if ManagerTotal.is_create o then 1 else 0) /\
                 (NNl (bufs s) -> xiss_guard x o = true -> NNl (bufs s')).
Proof. exact mstepL_total. Qed.
Print Assumptions C05_step_total.

(* (17) THE RUN IS TOTAL: for every script over the alphabet with lock / unlock that names described component ids
   only (reg_b), stays inside the contract of the interface (x_viol = 0), issues fewer than 16 777 000 handles and
   satisfies the pack contract (exact form, on the specification's run), the model run does not end in Err *)
Theorem C05_model_run_total : forall typed n cis ops,
  cis_ok cis -> forallb (alphaL_b cis) ops = true -> forallb (reg_b cis) ops = true ->
  x_viol (xrun n cis ops) = 0 -> within (creates ops) -> xare_script n cis ops = true ->
  exists s hs, mrun typed n cis ops = Ok (s, hs) /\ length hs = creates ops.
Proof. exact locked_run_total. Qed.
Print Assumptions C05_model_run_total.

(* ... with the plain contract, whatever handles the script uses *)
Theorem C05_model_run_total_plain : forall typed n cis ops,
  cis_ok cis -> forallb (alphaL_b cis) ops = true -> forallb (reg_b cis) ops = true ->
  x_viol (xrun n cis ops) = 0 -> within (creates ops) -> xar_script n cis ops = true ->
  exists s hs, mrun typed n cis ops = Ok (s, hs) /\ length hs = creates ops.
Proof. exact locked_run_total_plain. Qed.
Print Assumptions C05_model_run_total_plain.

(* ... with the contract checked on the model's own packs whenever an unlock flushes (ar_script asks nothing of a run
   that has ended in Err: the theorem shows there is none); the reached state satisfies the invariant LT *)
Theorem C05_model_run_total_packs : forall typed n cis ops,
  cis_ok cis -> forallb (alphaL_b cis) ops = true -> forallb (reg_b cis) ops = true ->
  x_viol (xrun n cis ops) = 0 -> within (creates ops) -> ar_script typed n cis ops = true ->
  exists s hs, mrun typed n cis ops = Ok (s, hs) /\ length hs = creates ops /\ LT cis s hs (xrun n cis ops).
Proof. exact locked_run_total_LT. Qed.
Print Assumptions C05_model_run_total_packs.

(* (18) the refinement theorems of part 3 WITHOUT the hypothesis on the model run *)
Theorem C05_locked_refines_total : forall typed n cis ops,
  cis_ok cis -> forallb (alphaL_b cis) ops = true -> forallb (reg_b cis) ops = true ->
  x_viol (xrun n cis ops) = 0 -> within (creates ops) -> xare_script n cis ops = true ->
  refines_on typed n cis ops = true.
Proof. exact locked_refines_total. Qed.
Print Assumptions C05_locked_refines_total.

Theorem C05_locked_refines_total_plain : forall typed n cis ops,
  cis_ok cis -> forallb (alphaL_b cis) ops = true -> forallb (reg_b cis) ops = true ->
  x_viol (xrun n cis ops) = 0 -> within (creates ops) -> xar_script n cis ops = true ->
  refines_on typed n cis ops = true.
Proof. exact locked_refines_total_plain. Qed.
Print Assumptions C05_locked_refines_total_plain.

Theorem C05_locked_refines_total_packs : forall typed n cis ops,
  cis_ok cis -> forallb (alphaL_b cis) ops = true -> forallb (reg_b cis) ops = true ->
  x_viol (xrun n cis ops) = 0 -> within (creates ops) -> ar_script typed n cis ops = true ->
  refines_on typed n cis ops = true.
Proof. exact locked_refines_total_packs. Qed.
Print Assumptions C05_locked_refines_total_packs.

Theorem C05_locked_refinement_total : forall typed n cis ops,
  cis_ok cis -> forallb (alphaL_b cis) ops = true -> forallb (reg_b cis) ops = true ->
  x_viol (xrun n cis ops) = 0 -> within (creates ops) -> xare_script n cis ops = true ->
  exists s hs, mrun typed n cis ops = Ok (s, hs) /\ length hs = x_count (xrun n cis ops) /\
    forall k,
      match find_ent (xrun n cis ops) k with
      | Some e => exists e', abs_ent s k (nth k hs null_handle) = Some e' /\ ent_match e e' = true
      | None => abs_ent s k (nth k hs null_handle) = None
      end.
Proof. exact locked_refinement_total. Qed.
Print Assumptions C05_locked_refinement_total.

(* ---- the hypotheses are satisfiable ---- *)
(* three threads (the owner 0 and the workers 1, 2), a nested lock, a pack that creates its entity and assigns to it
   (thread 2, entity #2), a pack on a target an earlier pack has destroyed (thread 2 on #1, destroyed by the buffer of
   thread 1, which is applied first), a marked entity, and -- after the inner unlock -- a pack that assigns component
   2, removes it and assigns it again (thread 1 on #0): inside the exact contract, outside the plain one *)
Definition script_u : list xop :=
  [XoCreate 0 1 [] false; XoCreate 0 3 [] false; XoUpdate; XoLock; XoLock;
   XoAssign 1 0 1 (Some 5%Z); XoCreate 2 4 [] false; XoAssign 2 2 0 (Some 9%Z); XoDestroyNow 1 1;
   XoRemove 2 1 0 true; XoAssign 2 1 2 None;
   XoRemove 0 0 0 true; XoDestroy 2 0;
   XoUnlock; XoAssign 1 0 2 None; XoRemove 1 0 2 true; XoAssign 1 0 2 (Some 4%Z); XoUnlock]%N.

Example C05_total_nonvacuous :
  cis_ok cis3 /\ forallb (alphaL_b cis3) script_u = true /\ forallb (reg_b cis3) script_u = true /\
  x_viol (xrun 16 cis3 script_u) = 0 /\ within (creates script_u) /\
  xare_script 16 cis3 script_u = true /\ xar_script 16 cis3 script_u = false /\
  (forall typed, ar_script typed 16 cis3 script_u = true) /\
  (* what the specification has recorded when the outermost unlock arrives *)
  firstn 3 (x_bufs (xrun 16 cis3 (removelast script_u))) =
    [[XRemove 0 0];
     [XAssign 0 1 (Some 5%Z); XDestroyNow 1; XAssign 0 2 None; XRemove 0 2; XAssign 0 2 (Some 4%Z)];
     [XCreate 2 4%N []; XAssign 2 0 (Some 9%Z); XRemove 1 0; XAssign 1 2 None; XDestroy 0]] /\
  map (fun e => (e_k e, e_comps e)) (x_ents (xrun 16 cis3 script_u)) =
    [(0, [(1, Some 5%Z); (2, Some 4%Z)]); (2, [(0, Some 9%Z); (2, Some 1003%Z)])].
Proof.
  split; [exact cis3_ok|]. do 6 (split; [vm_compute; reflexivity|]).
  split; [intros typed; destruct typed; vm_compute; reflexivity|]. split; vm_compute; reflexivity.
Qed.

(* the theorems applied (not evaluated) to script_u *)
Example C05_total_on_script_u : forall typed,
  (exists s hs, mrun typed 16 cis3 script_u = Ok (s, hs) /\ length hs = 3) /\ refines_on typed 16 cis3 script_u = true.
Proof.
  intros typed. destruct C05_total_nonvacuous as (Hok & Ha & Hr & Hv & Hb & He & _).
  split; [exact (C05_model_run_total typed 16 cis3 script_u Hok Ha Hr Hv Hb He)|exact (C05_locked_refines_total typed 16 cis3 script_u Hok Ha Hr Hv Hb He)].
Qed.

(* a script inside the plain contract *)
Example C05_total_plain_nonvacuous :
  forallb (alphaL_b cis3) script_a = true /\ forallb (reg_b cis3) script_a = true /\ x_viol (xrun 16 cis3 script_a) = 0 /\
  within (creates script_a) /\ xar_script 16 cis3 script_a = true /\
  forall typed, refines_on typed 16 cis3 script_a = true.
Proof.
  assert (Ha : forallb (alphaL_b cis3) script_a = true) by (vm_compute; reflexivity).
  assert (Hr : forallb (reg_b cis3) script_a = true) by (vm_compute; reflexivity).
  assert (Hv : x_viol (xrun 16 cis3 script_a) = 0) by (vm_compute; reflexivity).
  assert (Hb : within (creates script_a)) by (vm_compute; reflexivity).
  assert (Hp : xar_script 16 cis3 script_a = true) by (vm_compute; reflexivity).
  repeat (split; [assumption|]). intros typed. exact (C05_locked_refines_total_plain typed 16 cis3 script_a cis3_ok Ha Hr Hv Hb Hp).
Qed.

(* (14) (15) (16) on the reached locked state st_l of part 3 (three recorded packs in two buffers): the invariant LT
   holds there by (17), so the state is in TI and its commands are registered; the flush and the first pack of thread 1
   (assign component 1 := 5 to entity #0 and remove its component 0) return Ok *)
Example C05_forward_nonvacuous :
  LT cis3 st_l hs_l (xrun 16 cis3 script_l) /\ packs_ar st_l = true /\ pack_ar pack_l = true /\
  Forall (cmd_reg (length cis3)) pack_l /\ TI cis3 state_l /\
  (exists s', flush (set_lock st_l 0) = Ok s' /\ TI cis3 s') /\
  (exists s', apply_pack 1 state_l pack_l = Ok s' /\ TI cis3 s') /\
  (exists s' hs', mstep true (st_l, hs_l) (XoAssign 2 1 2 None) = Ok (s', hs') /\
                  LT cis3 s' hs' (x_step (xrun 16 cis3 script_l) (XoAssign 2 1 2 None))).
Proof.
  assert (Ha : forallb (alphaL_b cis3) script_l = true) by (vm_compute; reflexivity).
  assert (Hr : forallb (reg_b cis3) script_l = true) by (vm_compute; reflexivity).
  assert (Hv : x_viol (xrun 16 cis3 script_l) = 0) by (vm_compute; reflexivity).
  assert (Hb : within (creates script_l)) by (vm_compute; reflexivity).
  assert (Hg : ar_script true 16 cis3 script_l = true) by (vm_compute; reflexivity).
  pose proof (locked_run_LT true 16 cis3 script_l st_l hs_l cis3_ok Ha Hr Hv Hb Hg run_l) as HL.
  destruct C05_flush_nonvacuous as (_ & HR & Hbl & _ & Hvf & _).
  destruct C05_pack_nonvacuous as (_ & _ & Htl & Hne & Hall & HB & Hcf & _ & _ & HF & Hrem).
  assert (Hpk : packs_ar st_l = true) by (vm_compute; reflexivity).
  assert (Hpa : pack_ar pack_l = true) by (vm_compute; reflexivity).
  assert (Hreg : Forall (cmd_reg (length cis3)) pack_l) by (repeat constructor).
  assert (HT : TI cis3 state_l) by (unfold state_l; apply TI_set_lock; exact (lt_T _ _ _ _ HL)).
  split; [exact HL|]. split; [exact Hpk|]. split; [exact Hpa|]. split; [exact Hreg|]. split; [exact HT|]. split; [|split].
  - destruct (C05_flush_total cis3 st_l hs_l _ HR cis3_ok Hbl Hvf (lt_T _ _ _ _ HL) (lt_reg _ _ _ _ HL) Hpk) as (s' & E & HT' & _).
    exists s'. split; [exact E|exact HT'].
  - apply (C05_pack_total cis3 1 [Some 5%Z] state_l hs_l (xw_lock (xrun 16 cis3 script_l) 0) (0, 0)%N pack_l xpack_l [SCreate 2 4%N]); try assumption.
  - destruct (C05_step_total cis3 true st_l hs_l (xrun 16 cis3 script_l) (XoAssign 2 1 2 None) HL cis3_ok) as (s' & hs' & E & HL' & _);
      try (vm_compute; reflexivity). exists s', hs'. split; [exact E|exact HL'].
Qed.

(* ---- why the pack contract is a hypothesis: script_x (part 3) satisfies every other hypothesis of
   C05_model_run_total, fails the contract in each of its three forms, and its run ends in Err NullDeref ---- *)
Example C05_pack_contract_needed :
  cis_ok cis3 /\ forallb (alphaL_b cis3) script_x = true /\ forallb (reg_b cis3) script_x = true /\
  x_viol (xrun 16 cis3 script_x) = 0 /\ within (creates script_x) /\
  xare_script 16 cis3 script_x = false /\ xar_script 16 cis3 script_x = false /\ ar_script true 16 cis3 script_x = false /\
  mrun true 16 cis3 script_x = Err NullDeref.
Proof. split; [exact cis3_ok|]. do 7 (split; [vm_compute; reflexivity|]). vm_compute. reflexivity. Qed.

(* the pack of script_x in the state the outermost unlock finds: C05_pack_contract_exact applies (not evaluated) *)
Definition st_x : mst := match mrun true 16 cis3 (removelast script_x) with Ok (s, _) => s | Err _ => init 16 cis3 end.
Definition hs_x : list handle := match mrun true 16 cis3 (removelast script_x) with Ok (_, hs) => hs | Err _ => [] end.
Lemma run_x : mrun true 16 cis3 (removelast script_x) = Ok (st_x, hs_x).
Proof. vm_compute. reflexivity. Qed.
Definition pack_x : list acmd := [AAssign (0, 0)%N 1 0; ARemove (0, 0)%N 1].
Definition xpack_x : list xcmd := [XAssign 0 1 (Some 5%Z); XRemove 0 1].

Example C05_pack_contract_exact_nonvacuous :
  bufs st_x = [[AAssign (0, 0) 1 0; ARemove (0, 0) 1]; []; []; []; []; []; []; []; []; []; []; []; []; []; []; []]%N /\
  pack_live (set_lock st_x 0) pack_x = true /\ pack_ar pack_x = false /\
  apply_pack 0 (set_lock st_x 0) pack_x = Err NullDeref.
Proof.
  assert (Ha : forallb (alphaL_b cis3) (removelast script_x) = true) by (vm_compute; reflexivity).
  assert (Hr : forallb (reg_b cis3) (removelast script_x) = true) by (vm_compute; reflexivity).
  assert (Hv : x_viol (xrun 16 cis3 (removelast script_x)) = 0) by (vm_compute; reflexivity).
  assert (Hb : within (creates (removelast script_x))) by (vm_compute; reflexivity).
  assert (Hg : ar_script true 16 cis3 (removelast script_x) = true) by (vm_compute; reflexivity).
  pose proof (locked_run_LT true 16 cis3 (removelast script_x) st_x hs_x cis3_ok Ha Hr Hv Hb Hg run_x) as HL.
  assert (Hlive : pack_live (set_lock st_x 0) pack_x = true) by (vm_compute; reflexivity).
  assert (Har : pack_ar pack_x = false) by (vm_compute; reflexivity).
  split; [vm_compute; reflexivity|]. split; [exact Hlive|]. split; [exact Har|].
  assert (Erem : xrem (concat (x_bufs (xrun 16 cis3 (removelast script_x)))) = xrem xpack_x ++ []) by (vm_compute; reflexivity).
  apply (C05_pack_contract_exact cis3 0 [Some 5%Z] (set_lock st_x 0) hs_x (xw_lock (xrun 16 cis3 (removelast script_x)) 0) (0, 0)%N pack_x xpack_x []).
  - rewrite <- Erem. apply LR_FInv. exact (lt_R _ _ _ _ HL).
  - apply TI_set_lock. exact (lt_T _ _ _ _ HL).
  - vm_compute. reflexivity.
  - discriminate.
  - repeat constructor.
  - apply br_cons; [vm_compute; repeat split; lia|]. apply br_cons; [vm_compute; repeat split; lia|]. constructor.
  - intros b1 h ha m sh b2 E. destruct b1 as [|c1 [|c2 [|c3 b1]]]; discriminate.
  - repeat constructor.
  - exact Hlive.
  - exact Har.
Qed.

(* the same pack followed by a second assignment of the component is inside the exact contract (not the plain one):
   the run is total and refines, by the theorem *)
Definition script_ara : list xop := removelast script_x ++ [XoAssign 0 0 1 (Some 6%Z); XoUnlock]%N.
Example C05_reassigned_component_is_fine :
  xare_script 16 cis3 script_ara = true /\ xar_script 16 cis3 script_ara = false /\
  forall typed, refines_on typed 16 cis3 script_ara = true.
Proof.
  split; [vm_compute; reflexivity|]. split; [vm_compute; reflexivity|]. intros typed.
  apply (C05_locked_refines_total typed 16 cis3 script_ara cis3_ok); vm_compute; reflexivity.
Qed.

(* ---- why the exact contract asks that every handle used while locked has been issued: between the removal and the
   second assignment the same thread calls destroy() on a handle it has not been given yet (issue number 7: the null
   handle).  The specification records nothing for it, its buffer reads assign - remove - assign (inside the exact
   contract); the implementation records the command, which cuts the pack in two, and the first half -- assign then
   remove -- ends in Err NullDeref.  Every other hypothesis of C05_model_run_total holds. ---- *)
Definition script_split : list xop :=
  [XoCreate 0 1 [] false; XoLock; XoAssign 0 0 1 (Some 5%Z); XoRemove 0 0 1 true; XoDestroy 0 7;
   XoAssign 0 0 1 (Some 6%Z); XoUnlock]%N.
Example C05_unissued_handle_splits_pack :
  forallb (alphaL_b cis3) script_split = true /\ forallb (reg_b cis3) script_split = true /\
  x_viol (xrun 16 cis3 script_split) = 0 /\ within (creates script_split) /\
  xpacks_e (xrun 16 cis3 (removelast script_split)) = true /\
  nth 0 (x_bufs (xrun 16 cis3 (removelast script_split))) [] = [XAssign 0 1 (Some 5%Z); XRemove 0 1; XAssign 0 1 (Some 6%Z)] /\
  xare_script 16 cis3 script_split = false /\ ar_script true 16 cis3 script_split = false /\
  mrun true 16 cis3 script_split = Err NullDeref /\
  (exists s hs, mrun true 16 cis3 (removelast script_split) = Ok (s, hs) /\
     split_packs (nth 0 (bufs s) []) [] =
       [[AAssign (0, 0)%N 1 0; ARemove (0, 0)%N 1]; [ADestroy null_handle]; [AAssign (0, 0)%N 1 1]]).
Proof.
  do 9 (split; [vm_compute; reflexivity|]). eexists. eexists. split; vm_compute; reflexivity.
Qed.
