(* C05 -- changes made while locked are isolated, then applied faithfully at unlock.
   Statements only. The model is Manager.v (tied to the code by the tier-B correspondence of ./check C05). *)
Require Import Coq.Lists.List Coq.NArith.NArith Coq.ZArith.ZArith.
From Mustache Require Import Res Manager Palette MgrSpec Refine.
From Mustache.proofs Require Import ManagerIsolation.
Import ListNotations.

(* (1) isolation: while the manager is locked, a creation / destruction / assignment / removal issued from ANY thread id
   (with or without value, typed or by id) leaves everything observable unchanged: slot table, locations, free list,
   every archetype (members, columns, stamps), pending destroy set, dependencies, shared pool, world version, lock depth.
   Only the command buffers, their temporaries and the id counter move. For every state, not only reachable ones. *)
Theorem C05_isolation : forall s o s' r,
  lockc s <> 0 -> is_structural o = true -> step s o = Ok (s', r) -> observe s' = observe s.
Proof. exact isolation_while_locked. Qed.
Print Assumptions C05_isolation.

(* (2) only the outermost unlock flushes *)
Theorem C05_nested_unlock : forall s n,
  lockc s = S (S n) -> step s OUnlock = Ok (set_lock s (S n), RBool false).
Proof. exact nested_unlock_does_not_flush. Qed.
Print Assumptions C05_nested_unlock.

(* (3) commands whose target is not alive at the moment their pack is applied are skipped *)
Theorem C05_dead_target_skipped : forall tid s c t,
  (match c with ACreate _ _ _ _ => False | _ => True end) ->
  is_valid s (cmd_handle c) = false -> apply_pack tid s (c :: t) = Ok s.
Proof. exact dead_target_pack_skipped. Qed.
Print Assumptions C05_dead_target_skipped.

(* (4) FULL STATEMENT of the second sentence (flush = sequential application in thread order / program order):
   Refine.refinement_statement.  It is NOT proved in general here: it is evaluated on the concrete scripts below
   inside Coq, and on every generated script by the tier-A/tier-B correspondence runs.  The excluded patterns are
   the open known findings (a pack that assigns and removes the same component; program order lost inside a pack
   where dependencies are involved). *)
Definition C05_flush_faithful_statement := refinement_statement.

Definition cis3 : list cinfo := [pal_info 0 0; pal_info 2 0; pal_info 3 0].
(* two worker threads and the owner record interleaved commands on shared and fresh entities *)
Definition script_a : list xop :=
  [XoCreate 0 1 [] false; XoCreate 0 3 [] false; XoUpdate; XoLock; XoLock;
   XoAssign 1 0 1 (Some 5%Z); XoCreate 2 4 [] false; XoAssign 2 2 0 (Some 9%Z); XoDestroyNow 1 1;
   XoRemove 0 0 0 true; XoDestroy 2 0; XoCreate 1 1 [] false; XoDestroyNow 1 3;
   XoUnlock; XoAssign 0 2 1 None; XoUnlock; XoUpdate]%N.
Example C05_flush_faithful_on_script_a : refines_on true 16 cis3 script_a = true /\ refines_on false 16 cis3 script_a = true.
Proof. split; vm_compute; reflexivity. Qed.

(* a command on an entity that another thread's buffer destroys first is skipped *)
Definition script_b : list xop :=
  [XoCreate 0 1 [] false; XoUpdate; XoLock; XoAssign 2 0 1 (Some 7%Z); XoDestroyNow 1 0; XoUnlock]%N.
Example C05_flush_faithful_on_script_b : refines_on true 16 cis3 script_b = true.
Proof. vm_compute. reflexivity. Qed.

(* the open finding, as a theorem about the faithful model: an in-contract script on which unlock fails *)
Theorem C05_pack_assign_then_remove_refuted :
  exists ops, x_viol (xrun 16 cis3 ops) = 0 /\ mrun true 16 cis3 ops = Err NullDeref.
Proof.
  exists [XoCreate 0 1 [] false; XoLock; XoAssign 0 0 1 (Some 5%Z); XoRemove 0 0 1 true; XoUnlock]%N.
  split; vm_compute; reflexivity.
Qed.
Print Assumptions C05_pack_assign_then_remove_refuted.
