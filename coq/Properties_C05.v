(* C05 -- changes made while locked are isolated, then applied faithfully at unlock.
   Statements only. The model is Manager.v (tied to the code by the tier-B correspondence of ./check C05). *)
Require Import Coq.Lists.List Coq.NArith.NArith Coq.ZArith.ZArith.
From Mustache Require Import Res Manager Palette MgrSpec Refine.
From Mustache.proofs Require Import ManagerIsolation ManagerDeferred.
Import ListNotations.

(* (1) isolation: while the manager is locked, a creation / destruction / assignment / removal issued from ANY thread id
   (with or without value, typed or by id) leaves everything observable unchanged: slot table, locations, free list,
   every archetype (members, columns, stamps), pending destroy set, dependencies, shared pool, world version, lock depth.
   Only the command buffers, their temporaries and the id counter move. For every state, not only reachable ones. *)
Theorem C05_isolation : forall s o s' r,
  lockc s <> 0 -> is_structural o = true -> step s o = Ok (s', r) -> observe s' = observe s.
Proof. exact isolation_while_locked. Qed.
Print Assumptions C05_isolation.

(* (2) only the outermost unlock flushes *)
Theorem C05_nested_unlock : forall s n,
  lockc s = S (S n) -> step s OUnlock = Ok (set_lock s (S n), RBool false).
Proof. exact nested_unlock_does_not_flush. Qed.
Print Assumptions C05_nested_unlock.

(* (3) commands whose target is not alive at the moment their pack is applied are skipped *)
Theorem C05_dead_target_skipped : forall tid s c t,
  (match c with ACreate _ _ _ _ => False | _ => True end) ->
  is_valid s (cmd_handle c) = false -> apply_pack tid s (c :: t) = Ok s.
Proof. exact dead_target_pack_skipped. Qed.
Print Assumptions C05_dead_target_skipped.

(* (4) FULL STATEMENT of the second sentence (flush = sequential application in thread order / program order):
   Refine.refinement_statement.  It is NOT proved in general here: it is evaluated on the concrete scripts below
   inside Coq, and on every generated script by the tier-A/tier-B correspondence runs.  The excluded patterns are
   the open known findings (a pack that assigns and removes the same component; program order lost inside a pack
   where dependencies are involved). *)
Definition C05_flush_faithful_statement := refinement_statement.

Definition cis3 : list cinfo := [pal_info 0 0; pal_info 2 0; pal_info 3 0].
(* two worker threads and the owner record interleaved commands on shared and fresh entities *)
Definition script_a : list xop :=
  [XoCreate 0 1 [] false; XoCreate 0 3 [] false; XoUpdate; XoLock; XoLock;
   XoAssign 1 0 1 (Some 5%Z); XoCreate 2 4 [] false; XoAssign 2 2 0 (Some 9%Z); XoDestroyNow 1 1;
   XoRemove 0 0 0 true; XoDestroy 2 0; XoCreate 1 1 [] false; XoDestroyNow 1 3;
   XoUnlock; XoAssign 0 2 1 None; XoUnlock; XoUpdate]%N.
Example C05_flush_faithful_on_script_a : refines_on true 16 cis3 script_a = true /\ refines_on false 16 cis3 script_a = true.
Proof. split; vm_compute; reflexivity. Qed.

(* a command on an entity that another thread's buffer destroys first is skipped *)
Definition script_b : list xop :=
  [XoCreate 0 1 [] false; XoUpdate; XoLock; XoAssign 2 0 1 (Some 7%Z); XoDestroyNow 1 0; XoUnlock]%N.
Example C05_flush_faithful_on_script_b : refines_on true 16 cis3 script_b = true.
Proof. vm_compute. reflexivity. Qed.

(* the open finding, as a theorem about the faithful model: an in-contract script on which unlock fails *)
Theorem C05_pack_assign_then_remove_refuted :
  exists ops, x_viol (xrun 16 cis3 ops) = 0 /\ mrun true 16 cis3 ops = Err NullDeref.
Proof.
  exists [XoCreate 0 1 [] false; XoLock; XoAssign 0 0 1 (Some 5%Z); XoRemove 0 0 1 true; XoUnlock]%N.
  split; vm_compute; reflexivity.
Qed.
Print Assumptions C05_pack_assign_then_remove_refuted.

(* ------------------------------------------------------------------------------------------------------------ *)
(* Deferred mode, part 2 (proofs/ManagerDeferred.v). All theorems are for EVERY state of the model.               *)

(* (5) packs: applyStorage cuts a buffer into the maximal runs of consecutive commands on one handle.
   uniform p: all commands of p have handle_eqb handles; adjacent_differ: commands of consecutive packs never do. *)
Theorem C05_split_packs : forall b,
  concat (split_packs b []) = b /\
  Forall (fun p => p <> [] /\ uniform p) (split_packs b []) /\
  adjacent_differ (split_packs b []).
Proof. exact split_packs_correct. Qed.
Print Assumptions C05_split_packs.

Theorem C05_handle_eqb_is_equality : forall a b, handle_eqb a b = true <-> a = b.
Proof. exact handle_eqb_eq. Qed.
Print Assumptions C05_handle_eqb_is_equality.

(* (6) unlock with nothing recorded: the flush is the identity up to the epoch counter and the cleared temporaries *)
Theorem C05_flush_empty : forall s,
  Forall (fun b => b = []) (bufs s) ->
  flush s = Ok (set_epoch (set_bufs s (bufs s) (map (fun _ => []) (tmps s))) (S (epoch s))).
Proof. exact flush_empty. Qed.
Print Assumptions C05_flush_empty.

(* (7) a buffer all of whose commands have targets that are not valid and that it does not create (buf_deadb; the
   component ids of its assign commands are registered, as assign_locked guarantees) is skipped as a whole:
   the state is unchanged except for the log, which gains exactly the destruction events (EvD) of the buffer's own
   temporaries (dtor_events: one per assign command whose component type has an instrumented destructor) *)
Theorem C05_dead_buffer_skipped : forall s tid b,
  buf_deadb s b = true -> apply_storage s (tid, b) = Ok (set_log s (rev (dtor_events s tid b) ++ log s)).
Proof. exact apply_storage_dead. Qed.
Print Assumptions C05_dead_buffer_skipped.

Theorem C05_dead_buffer_events_own : forall s tid b e, In e (dtor_events s tid b) ->
  exists h cid n inf, In (AAssign h cid n) b /\ nth_error (cinfos s) cid = Some inf /\
                      e = EvD (ci_pal inf) (PTmp (epoch s * 64 + tid) n).
Proof. exact dtor_events_own. Qed.
Print Assumptions C05_dead_buffer_events_own.

(* the whole flush when every buffer is dead *)
Theorem C05_flush_all_dead : forall s,
  forallb (buf_deadb s) (bufs s) = true ->
  flush s = Ok (set_epoch (set_bufs (set_log s (rev (flush_events s (numbered_bufs s)) ++ log s))
                                    (map (fun _ => []) (bufs s)) (map (fun _ => []) (tmps s)))
                          (S (epoch s))).
Proof. exact flush_all_dead. Qed.
Print Assumptions C05_flush_all_dead.

(* inside any buffer: a pack whose target is dead when the pack is reached contributes nothing *)
Theorem C05_dead_pack_in_sequence : forall tid ps1 c t ps2 s s1,
  fold_res (apply_pack tid) ps1 s = Ok s1 -> cmd_deadb s1 c = true ->
  fold_res (apply_pack tid) (ps1 ++ (c :: t) :: ps2) s = fold_res (apply_pack tid) ps2 s1.
Proof. exact dead_pack_in_sequence. Qed.
Print Assumptions C05_dead_pack_in_sequence.

(* (8) the entity builder while locked. with_rec s e b t l is s with ONLY the id counter, the buffers, the temporaries and
   the log replaced.  On an existing entity: one AAssign per assignment, in order, numbered from the current number of
   temporaries of the caller's buffer, then one ARemove per removed component; the temporaries hold the assigned values
   (types without a readable value: None); the log gains one EvV per instrumented assignment, at the new temporary. *)
Theorem C05_builder_records_existing : forall s tid h assigns removes s' r k,
  lockc s = S k -> step s (OBuild tid (Some h) assigns removes) = Ok (s', r) ->
  s' = with_rec s (next_eid s)
         (upd (bufs s) tid (nth tid (bufs s) [] ++
            assign_cmds h (length (nth tid (tmps s) [])) assigns ++ map (ARemove h) (mitems (mask_of_list removes))))
         (upd (tmps s) tid (nth tid (tmps s) [] ++ map (assign_cell (cinfos s)) assigns))
         (rev (assign_evs (cinfos s) (epoch s * 64 + tid) (length (nth tid (tmps s) [])) assigns) ++ log s) /\
  r = RNone.
Proof. exact build_locked_some. Qed.
Print Assumptions C05_builder_records_existing.

(* On a new entity: first one ACreate of the fresh handle (empty mask), then the assignments; the id counter advances.
   The removal list of such a builder is not recorded (the model mirrors the implementation here). *)
Theorem C05_builder_records_new : forall s tid assigns removes s' r k,
  lockc s = S k -> step s (OBuild tid None assigns removes) = Ok (s', r) ->
  s' = with_rec s (next_eid s + 1)%N
         (upd (bufs s) tid (nth tid (bufs s) [] ++
            ACreate (fresh_handle s) false 0%N si_null :: assign_cmds (fresh_handle s) (length (nth tid (tmps s) [])) assigns))
         (upd (tmps s) tid (nth tid (tmps s) [] ++ map (assign_cell (cinfos s)) assigns))
         (rev (assign_evs (cinfos s) (epoch s * 64 + tid) (length (nth tid (tmps s) [])) assigns) ++ log s) /\
  r = RHandle (fresh_handle s).
Proof. exact build_locked_none. Qed.
Print Assumptions C05_builder_records_new.

(* the i-th assignment becomes the i-th assign command, on the builder's handle, with the next temporary number *)
Theorem C05_builder_assign_cmds : forall h assigns n0 i a,
  nth_error assigns i = Some a -> nth_error (assign_cmds h n0 assigns) i = Some (AAssign h (fst a) (n0 + i)).
Proof. exact assign_cmds_nth. Qed.
Print Assumptions C05_builder_assign_cmds.

(* the removal commands: increasing component order, exactly the distinct listed components below the mask width *)
Theorem C05_builder_removals : forall h removes,
  Sorted.StronglySorted lt (mitems (mask_of_list removes)) /\
  forall c, In (ARemove h c) (map (ARemove h) (mitems (mask_of_list removes))) <-> (In c removes /\ c < MASK_BITS).
Proof. exact build_removals_exact. Qed.
Print Assumptions C05_builder_removals.

(* isolation (1) extended to the builder *)
Theorem C05_isolation_builder : forall s tid target assigns removes s' r,
  lockc s <> 0 -> step s (OBuild tid target assigns removes) = Ok (s', r) -> observe s' = observe s.
Proof. exact build_isolated. Qed.
Print Assumptions C05_isolation_builder.

(* ---- non-vacuity of the hypotheses above, on reachable states ---- *)
Definition run_ops (s : mst) (ops : list op) : res mst := fold_res (fun st o => do r <- step st o; Ok (fst r)) ops s.
Definition cisD : list cinfo := [pal_info 0 0; pal_info 2 0].
(* entity (0,0) is created and destroyed; under lock, thread 1 assigns the instrumented component 1 to it and removes
   component 0 from it, the owner destroys it again *)
Definition dead_script : list op :=
  [OCreate 0 1%N [] false; ODestroyNow 0 (0, 0)%N; OLock;
   OAssign 1 (0, 0)%N 1 (AValue 5%Z) true; ORemove 1 (0, 0)%N 0 true; ODestroyNow 0 (0, 0)%N].

Example C05_dead_buffer_example :
  exists s, run_ops (init 2 cisD) dead_script = Ok s /\
    bufs s = [[ADestroyNow (0, 0)%N]; [AAssign (0, 0)%N 1 0; ARemove (0, 0)%N 0]] /\
    forallb (buf_deadb s) (bufs s) = true /\
    dtor_events s 1 (nth 1 (bufs s) []) = [EvD 2 (PTmp 1 0)] /\
    split_packs (nth 1 (bufs s) []) [] = [[AAssign (0, 0)%N 1 0; ARemove (0, 0)%N 0]].
Proof. eexists. split; [vm_compute; reflexivity|]. repeat split; vm_compute; reflexivity. Qed.

(* flush_empty: a lock taken and nothing recorded *)
Example C05_flush_empty_example :
  exists s, run_ops (init 2 cisD) [OCreate 0 1%N [] false; OLock] = Ok s /\ bufs s = [[]; []] /\ lockc s = 1.
Proof. eexists. split; [vm_compute; reflexivity|]. split; reflexivity. Qed.

(* dead_pack_in_sequence: a live pack first, then a dead one, then a live one *)
Example C05_dead_pack_example :
  exists s s1, run_ops (init 2 cisD) [OCreate 0 1%N [] false; OCreate 0 1%N [] false; ODestroyNow 0 (0, 0)%N; OLock] = Ok s /\
    fold_res (apply_pack 0) [[ARemove (1, 0)%N 0]] s = Ok s1 /\ cmd_deadb s1 (ADestroyNow (0, 0)%N) = true.
Proof. eexists. eexists. split; [vm_compute; reflexivity|]. split; vm_compute; reflexivity. Qed.

(* the builder under lock, on an existing entity and on a new one, from thread 1 *)
Example C05_builder_example :
  exists s s1 s2 h,
    run_ops (init 2 cisD) [OCreate 0 3%N [] false; OLock] = Ok s /\ lockc s = 1 /\
    step s (OBuild 1 (Some (0, 0)%N) [(1, 7%Z); (0, 8%Z)] [1; 0; 1]) = Ok (s1, RNone) /\
    bufs s1 = [[]; [AAssign (0, 0)%N 1 0; AAssign (0, 0)%N 0 1; ARemove (0, 0)%N 0; ARemove (0, 0)%N 1]] /\
    tmps s1 = [[]; [Some 7%Z; Some 8%Z]] /\ log s1 = EvV 2 (PTmp 1 0) :: log s /\
    step s1 (OBuild 1 None [(1, 9%Z)] [0]) = Ok (s2, RHandle h) /\ h = (1, 0)%N /\
    nth 1 (bufs s2) [] = nth 1 (bufs s1) [] ++ [ACreate h false 0%N si_null; AAssign h 1 2] /\
    next_eid s2 = (next_eid s1 + 1)%N.
Proof.
  eexists. eexists. eexists. eexists. split; [vm_compute; reflexivity|]. split; [reflexivity|].
  split; [vm_compute; reflexivity|]. split; [reflexivity|]. split; [reflexivity|]. split; [reflexivity|].
  split; [vm_compute; reflexivity|]. repeat split; vm_compute; reflexivity.
Qed.
