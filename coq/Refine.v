(* Refine: the Manager model driven by the same scripts as MgrSpec, the abstraction function from a Manager
   state to the abstract world, and the STATEMENT of the refinement (proved for sub-alphabets in proofs/,
   evaluated on concrete scripts by vm_compute in the Properties files, and compared on generated scripts by
   the correspondence runs). NO PROOFS in this file. *)
Require Import Coq.Lists.List Coq.NArith.NArith Coq.ZArith.ZArith Coq.Arith.Arith Coq.Bool.Bool.
From Mustache Require Import Res Manager MgrSpec.
Import ListNotations.

Definition resolve (issued : list handle) (k : nat) : handle := nth k issued null_handle.

Definition concretize (typed : bool) (issued : list handle) (o : xop) : op :=
  match o with
  | XoCreate tid m sids via => OCreate tid m sids via
  | XoDestroy tid k => ODestroy tid (resolve issued k)
  | XoDestroyNow tid k => ODestroyNow tid (resolve issued k)
  | XoClearArch m sids => OClearArch m sids
  | XoClear => OClear
  | XoUpdate => OUpdate true
  | XoLock => OLock
  | XoUnlock => OUnlock
  | XoAssign tid k c v => OAssign tid (resolve issued k) c (match v with Some z => AValue z | None => ADefault end) typed
  | XoRemove tid k c ty => ORemove tid (resolve issued k) c ty
  | XoAssignShared k sid v => OAssignShared (resolve issued k) sid v
  | XoRemoveShared k sid => ORemoveShared (resolve issued k) sid
  | XoClone k => OClone (resolve issued k)
  | XoSet k c v => OGetMut (resolve issued k) c (Some v)
  | XoDep c m => ODep c m
  | XoBuild tid target assigns removes => OBuild tid (match target with Some k => Some (resolve issued k) | None => None end) assigns removes
  end.

Definition mstep (typed : bool) (x : mst * list handle) (o : xop) : res (mst * list handle) :=
  let '(s, issued) := x in
  do r <- step s (concretize typed issued o);
  let '(s1, out) := r in
  Ok (set_log s1 [], match out with RHandle h => issued ++ [h] | _ => issued end).

Definition mrun (typed : bool) (n : nat) (cis : list cinfo) (ops : list xop) : res (mst * list handle) :=
  fold_res (mstep typed) ops (init n cis, []).

Definition xrun (n : nat) (cis : list cinfo) (ops : list xop) : xst := fold_left x_step ops (x_init n cis).

(* ---- abstraction: what queries observe of a Manager state ---- *)
Fixpoint sort_shared (l : list (nat * Z)) : list (nat * Z) :=
  match l with [] => [] | (c, v) :: t => insert_shared (sort_shared t) c v end.

Definition abs_ent (s : mst) (k : nat) (h : handle) : option ent :=
  if is_valid s h then
    match nth_error (locs s) (N.to_nat (fst h)) with
    | Some l =>
      match l_arch l with
      | Some ai =>
        match nth_error (archs s) ai with
        | Some a =>
          let comps := mitems (am_mask a) in
          Some {| e_k := k;
                  e_comps := map (fun x : nat * nat => (snd x, get_cell a (fst x) (l_idx l))) (combine (seq 0 (length comps)) comps);
                  e_shared := sort_shared (map (fun x : nat * nat => (fst x, inst_value s (snd x)))
                                               (combine (si_ids (am_shared a)) (si_data (am_shared a)))) |}
        | None => None
        end
      | None => None
      end
    | None => None
    end
  else None.

Fixpoint abs_from (s : mst) (k : nat) (issued : list handle) : list ent :=
  match issued with
  | [] => []
  | h :: t => match abs_ent s k h with Some e => e :: abs_from s (S k) t | None => abs_from s (S k) t end
  end.
Definition abs (s : mst) (issued : list handle) : list ent := abs_from s 0 issued.

(* cells: a specification cell None (indeterminate: trivially constructible type never written) matches anything *)
Definition cell_le (spec impl : cell) : bool :=
  match spec with None => true | Some v => match impl with Some w => Z.eqb v w | None => false end end.
Definition comps_match (spec impl : list (nat * cell)) : bool :=
  Nat.eqb (length spec) (length impl) &&
  forallb (fun p : (nat * cell) * (nat * cell) => Nat.eqb (fst (fst p)) (fst (snd p)) && cell_le (snd (fst p)) (snd (snd p))) (combine spec impl).
Definition shared_match (a b : list (nat * Z)) : bool :=
  Nat.eqb (length a) (length b) &&
  forallb (fun p : (nat * Z) * (nat * Z) => Nat.eqb (fst (fst p)) (fst (snd p)) && Z.eqb (snd (fst p)) (snd (snd p))) (combine a b).
Definition ent_match (spec impl : ent) : bool :=
  Nat.eqb (e_k spec) (e_k impl) && comps_match (e_comps spec) (e_comps impl) && shared_match (e_shared spec) (e_shared impl).

Fixpoint insert_ent (l : list ent) (e : ent) : list ent :=
  match l with [] => [e] | x :: t => if Nat.leb (e_k e) (e_k x) then e :: l else x :: insert_ent t e end.
Definition sort_ents (l : list ent) : list ent := fold_left insert_ent l [].

Definition worlds_match (spec : list ent) (impl : list ent) : bool :=
  let sp := sort_ents spec in
  Nat.eqb (length sp) (length impl) && forallb (fun p => ent_match (fst p) (snd p)) (combine sp impl).

(* the decidable check used by the examples: run both on one script *)
Definition refines_on (typed : bool) (n : nat) (cis : list cinfo) (ops : list xop) : bool :=
  match mrun typed n cis ops with
  | Ok (s, issued) => let x := xrun n cis ops in
                      (Nat.eqb (x_viol x) 0) && worlds_match (x_ents x) (abs s issued)
  | Err _ => false
  end.

(* THE refinement statement (C02_refines_map / C05_flush_faithful / C12 / C13 at once): for every script that
   stays inside the documented contract, the Manager runs without error and what queries observe of it is the
   abstract world. *)
Definition refinement_statement (excluded : list xop -> Prop) : Prop :=
  forall typed n cis ops, x_viol (xrun n cis ops) = 0 -> ~ excluded ops -> refines_on typed n cis ops = true.
