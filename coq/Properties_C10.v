(* C10 -- component storage handed out is in bounds and correctly aligned. Statements only.
   Model: Layout.v over the align-up GENERATED from id_deff.hpp.  What is proved: alignment, disjointness and bounds of
   the column layout for every component set.  What no theorem here can carry (use-after-free, uninitialised reads,
   language-level undefined behaviour) is validated by the sanitizer build of the drivers in the thorough tier. *)
Require Import Coq.Lists.List Coq.NArith.NArith Coq.micromega.Lia.
From Mustache Require Import CInt Handle Layout.
From Mustache.gen Require Import IdDeffGen.
From Mustache.proofs Require Import LayoutProofs.
Import ListNotations.
Local Open Scope N_scope.

(* every mix of sizes and power-of-two alignments (size a multiple of the alignment, as sizeof/alignof guarantee), in
   any order, any chunk capacity, as long as the 32-bit offsets do not overflow: every item of every component is aligned *)
Theorem C10_aligned : forall cap comps base,
  Forall comp_ok comps -> bound cap comps < 2 ^ 32 ->
  base mod chunk_align cap comps = 0 ->
  forall k c, nth_error comps k = Some c -> forall i, addr base cap comps k i mod snd c = 0.
Proof. exact layout_aligned. Qed.
Print Assumptions C10_aligned.

(* columns never overlap and every item lies inside the chunk *)
Theorem C10_columns_disjoint_in_bounds : forall cap comps,
  Forall comp_ok comps -> comps <> [] -> bound cap comps + chunk_align cap comps < 2 ^ 32 ->
  forall k c, nth_error comps k = Some c ->
    let off := nth k (offsets cap comps) 0 in
    off + cap * fst c <= chunk_size cap comps /\
    (forall k' c', nth_error comps k' = Some c' -> (k < k')%nat -> off + cap * fst c <= nth k' (offsets cap comps) 0) /\
    (forall i, i < cap -> off + fst c * i + fst c <= off + cap * fst c).
Proof. exact layout_disjoint_in_bounds. Qed.
Print Assumptions C10_columns_disjoint_in_bounds.

(* the pinned tree aligned the chunk to its FIRST component only: a byte-aligned component followed by an alignas(64)
   one, chunk base 16 (a legal result of an allocation aligned to 1): the second component is misaligned *)
Theorem C10_first_component_align_refuted :
  exists comps base, Forall comp_ok comps /\ base mod chunk_align_pinned comps = 0 /\ addr base 4 comps 1 0 mod 64 <> 0.
Proof.
  exists [(1, 1); (64, 64)], 16. split.
  - repeat constructor; simpl; try lia; try reflexivity; [exists 0|exists 6]; reflexivity.
  - split; vm_compute; congruence.
Qed.
Print Assumptions C10_first_component_align_refuted.

Example C10_example :
  offsets 4 [(1, 1); (64, 64); (8, 8)] = [0; 64; 320] /\ chunk_size 4 [(1, 1); (64, 64); (8, 8)] = 384 /\
  chunk_align 4 [(1, 1); (64, 64); (8, 8)] = 64 /\ Forall comp_ok [(1, 1); (64, 64); (8, 8)].
Proof.
  split; [vm_compute; reflexivity|]. split; [vm_compute; reflexivity|]. split; [vm_compute; reflexivity|].
  repeat constructor; simpl; try lia; try reflexivity; [exists 0|exists 6|exists 3]; reflexivity.
Qed.
