(* C10 -- component storage handed out is in bounds and correctly aligned. Statements only.
   Model: Layout.v over the align-up GENERATED from id_deff.hpp.  What is proved: alignment, disjointness and bounds of
   the column layout for every component set.  What no theorem here can carry (use-after-free, uninitialised reads,
   language-level undefined behaviour) is validated by the sanitizer build of the drivers in the thorough tier. *)
Require Import Coq.Lists.List Coq.NArith.NArith Coq.micromega.Lia.
From Mustache Require Import CInt Handle Layout.
From Mustache.gen Require Import IdDeffGen.
From Mustache.proofs Require Import LayoutProofs.
Import ListNotations.
Local Open Scope N_scope.

(* every mix of sizes and power-of-two alignments (size a multiple of the alignment, as sizeof/alignof guarantee), in
   any order, any chunk capacity, as long as the 32-bit offsets do not overflow: every item of every component is aligned *)
Theorem C10_aligned : forall cap comps base,
  Forall comp_ok comps -> bound cap comps < 2 ^ 32 ->
  base mod chunk_align cap comps = 0 ->
  forall k c, nth_error comps k = Some c -> forall i, addr base cap comps k i mod snd c = 0.
Proof. exact layout_aligned. Qed.
Print Assumptions C10_aligned.

(* columns never overlap and every item lies inside the chunk *)
Theorem C10_columns_disjoint_in_bounds : forall cap comps,
  Forall comp_ok comps -> comps <> [] -> bound cap comps + chunk_align cap comps < 2 ^ 32 ->
  forall k c, nth_error comps k = Some c ->
    let off := nth k (offsets cap comps) 0 in
    off + cap * fst c <= chunk_size cap comps /\
    (forall k' c', nth_error comps k' = Some c' -> (k < k')%nat -> off + cap * fst c <= nth k' (offsets cap comps) 0) /\
    (forall i, i < cap -> off + fst c * i + fst c <= off + cap * fst c).
Proof. exact layout_disjoint_in_bounds. Qed.
Print Assumptions C10_columns_disjoint_in_bounds.

(* the pinned tree aligned the chunk to its FIRST component only: a byte-aligned component followed by an alignas(64)
   one, chunk base 16 (a legal result of an allocation aligned to 1): the second component is misaligned *)
Theorem C10_first_component_align_refuted :
  exists comps base, Forall comp_ok comps /\ base mod chunk_align_pinned comps = 0 /\ addr base 4 comps 1 0 mod 64 <> 0.
Proof.
  exists [(1, 1); (64, 64)], 16. split.
  - repeat constructor; simpl; try lia; try reflexivity; [exists 0|exists 6]; reflexivity.
  - split; vm_compute; congruence.
Qed.
Print Assumptions C10_first_component_align_refuted.

Example C10_example :
  offsets 4 [(1, 1); (64, 64); (8, 8)] = [0; 64; 320] /\ chunk_size 4 [(1, 1); (64, 64); (8, 8)] = 384 /\
  chunk_align 4 [(1, 1); (64, 64); (8, 8)] = 64 /\ Forall comp_ok [(1, 1); (64, 64); (8, 8)].
Proof.
  split; [vm_compute; reflexivity|]. split; [vm_compute; reflexivity|]. split; [vm_compute; reflexivity|].
  repeat constructor; simpl; try lia; try reflexivity; [exists 0|exists 6|exists 3]; reflexivity.
Qed.

(* ------------------------------------------------------------------------------------------------------------------
   Command-buffer storage (TemporalStorage::allocate / clear, temporal_storage.cpp): the bump allocator that holds the
   components assigned while the entity manager is locked.  Model: TempStore.v; proofs: proofs/TempStoreProofs.v.
   Quantifiers: EVERY sequence of allocate()/clear() calls from the initial state, every size >= 0, every alignment >= 1
   (not only powers of two: the C++ uses %), every address new[] may return (no alignment of a chunk base is assumed).
   Arithmetic is unbounded N; it coincides with the uint32_t/uintptr_t arithmetic of the C++ while size + align and
   total_size_ + size + align stay below 2^32 (no intermediate value wraps; the one subtraction that could underflow is
   C10_temp_no_underflow).  Results are read off ts_run, the function the correspondence driver replays. *)
From Mustache Require Import TempStore.
From Mustache.proofs Require Import TempStoreProofs.

(* 1. every returned address is a multiple of the requested alignment *)
Theorem C10_temp_aligned : forall ops k s a b i off addr,
  nth_error ops k = Some (TAlloc s a b) -> nth_error (ts_run ops ts_init) k = Some (RAlloc i off addr) ->
  1 <= a -> addr mod a = 0.
Proof. exact ts_aligned. Qed.
Print Assumptions C10_temp_aligned.

(* 2. the block [addr, addr + s) lies inside the chunk it was taken from (chunk number i of the state right after the
   call, which is the last chunk of the vector), at the reported offset *)
Theorem C10_temp_in_bounds : forall ops k s a b i off addr,
  nth_error ops k = Some (TAlloc s a b) -> nth_error (ts_run ops ts_init) k = Some (RAlloc i off addr) ->
  let st' := ts_exec (firstn (S k) ops) ts_init in
  exists c, nth_error (t_chunks st') i = Some c /\ S i = length (t_chunks st') /\
            addr = c_base c + off /\ c_base c <= addr /\ off + s <= c_cap c /\ addr + s <= c_base c + c_cap c.
Proof. exact ts_in_bounds. Qed.
Print Assumptions C10_temp_in_bounds.

(* 3. two blocks of positive size handed out with no clear() in between never overlap -- provided each chunk that
   new[] returns is disjoint from the chunks held at that moment (ts_bases_ok, an executable check on the `base`
   arguments; nothing else is assumed about them) *)
Theorem C10_temp_no_overlap : forall pre mid post s1 a1 b1 s2 a2 b2,
  let ops := pre ++ TAlloc s1 a1 b1 :: mid ++ TAlloc s2 a2 b2 :: post in
  ts_bases_ok ops ts_init = true -> ~ In TClear mid ->
  forall i1 o1 ad1 i2 o2 ad2,
    nth_error (ts_run ops ts_init) (length pre) = Some (RAlloc i1 o1 ad1) ->
    nth_error (ts_run ops ts_init) (length pre + 1 + length mid) = Some (RAlloc i2 o2 ad2) ->
    0 < s1 -> 0 < s2 -> ad1 + s1 <= ad2 \/ ad2 + s2 <= ad1.
Proof. exact ts_no_overlap. Qed.
Print Assumptions C10_temp_no_overlap.

(* the same, pairwise over all blocks handed out since the last clear() (ts_live, newest first) *)
Theorem C10_temp_live_disjoint : forall ops,
  ts_bases_ok ops ts_init = true -> ForallOrdPairs ev_disj (ts_live ops).
Proof. exact ts_live_disjoint. Qed.
Print Assumptions C10_temp_live_disjoint.

(* 4. free_space <= capacity in every chunk; total_size_ = sum of (size + padding) over the blocks handed out since the
   last clear(); every such block lies in the used part [base, base + capacity - free_space) of its chunk *)
Theorem C10_temp_accounting : forall ops,
  let st := ts_exec ops ts_init in
  Forall (fun c => c_free c <= c_cap c) (t_chunks st) /\
  t_total st = ev_sum (ts_live ops) /\
  Forall (fun e => exists c, nth_error (t_chunks st) (e_idx e) = Some c /\ c_base c <= e_addr e /\
                             e_addr e + e_size e <= c_base c + (c_cap c - c_free c)) (ts_live ops).
Proof. exact ts_accounting. Qed.
Print Assumptions C10_temp_accounting.

(* `chunk.free_space -= size + padding` never underflows, from any state *)
Theorem C10_temp_no_underflow : forall st s a b, s + ts_pad st s a b <= c_free (ts_chosen st s a b).
Proof. exact ts_alloc_fits. Qed.
Print Assumptions C10_temp_no_underflow.

(* clear() with exactly one chunk: the chunk is kept and empty again, target := total, total := 0, and the next block
   that fits is carved at its base (plus the padding the base itself needs; none if the base is aligned) *)
Theorem C10_temp_clear_one_restart : forall ops c s a b,
  let st := ts_exec ops ts_init in
  t_chunks st = [c] -> ts_max_size s a <= c_cap c ->
  t_chunks (ts_clear st) = [{| c_base := c_base c; c_cap := c_cap c; c_free := c_cap c |}] /\
  t_target (ts_clear st) = t_total st /\ t_total (ts_clear st) = 0 /\
  exists pad, pad = ts_padding (c_base c) a /\ (1 <= a -> pad < a) /\ (c_base c mod a = 0 -> pad = 0) /\
    nth_error (ts_run (ops ++ [TClear; TAlloc s a b]) ts_init) (S (length ops)) = Some (RAlloc 0 pad (c_base c + pad)).
Proof. exact ts_clear_one_restart. Qed.
Print Assumptions C10_temp_clear_one_restart.

(* A mixed run.  Chunk bases 65552, 131088, 262160, 200016 are all = 16 (mod 64): aligned for fundamental types only.
   calls 0-2 fill chunk 0; call 3 (4096 bytes aligned to 64) spills into a second chunk of 4096 + 63 bytes and is
   padded by 48; call 4 spills into a third; call 5 clears with three chunks (all dropped, target = 4208 = bytes used);
   calls 6-7 use a fresh chunk of 4208 bytes; call 8 clears with one chunk (kept); calls 9-11 restart at its base
   (call 10 has size 0, call 11 a non-power-of-two alignment). *)
Definition C10_temp_mixed : list top :=
  [TAlloc 1 1 65552; TAlloc 8 8 0; TAlloc 24 32 0; TAlloc 4096 64 131088; TAlloc 24 32 262160; TClear;
   TAlloc 24 32 200016; TAlloc 1 1 0; TClear; TAlloc 8 8 0; TAlloc 0 64 0; TAlloc 8 3 0].

Example C10_temp_example_run :
  ts_run C10_temp_mixed ts_init =
  [RAlloc 0 0 65552; RAlloc 0 8 65560; RAlloc 0 16 65568; RAlloc 1 48 131136; RAlloc 2 16 262176; RClear;
   RAlloc 0 16 200032; RAlloc 0 40 200056; RClear; RAlloc 0 0 200016; RAlloc 0 48 200064; RAlloc 0 48 200064].
Proof. vm_compute. reflexivity. Qed.

Example C10_temp_example_states :
  ts_exec (firstn 5 C10_temp_mixed) ts_init =
    {| t_chunks := [{| c_base := 65552; c_cap := 4096; c_free := 4056 |};
                    {| c_base := 131088; c_cap := 4159; c_free := 15 |};
                    {| c_base := 262160; c_cap := 4159; c_free := 4119 |}];
       t_target := 4159; t_total := 4224 |} /\
  ts_exec (firstn 6 C10_temp_mixed) ts_init = {| t_chunks := []; t_target := 4224; t_total := 0 |} /\
  ts_exec (firstn 8 C10_temp_mixed) ts_init =
    {| t_chunks := [{| c_base := 200016; c_cap := 4224; c_free := 4183 |}]; t_target := 4224; t_total := 41 |} /\
  ts_exec (firstn 9 C10_temp_mixed) ts_init =
    {| t_chunks := [{| c_base := 200016; c_cap := 4224; c_free := 4224 |}]; t_target := 41; t_total := 0 |} /\
  ts_exec C10_temp_mixed ts_init =
    {| t_chunks := [{| c_base := 200016; c_cap := 4224; c_free := 4168 |}]; t_target := 41; t_total := 56 |}.
Proof. vm_compute. repeat split; reflexivity. Qed.

(* the hypotheses of the theorems above are satisfiable on this run: the bases are acceptable (C10_temp_no_overlap with
   pre = 1 call, mid = 2 calls without clear: blocks 1 and 3 live in different chunks; C10_temp_live_disjoint), calls 3
   and 11 are allocations with alignment >= 1 (C10_temp_aligned, C10_temp_in_bounds), and after 8 calls exactly one
   chunk is held and a block of 8 bytes aligned to 8 fits (C10_temp_clear_one_restart) *)
Example C10_temp_example_hyps :
  ts_bases_ok C10_temp_mixed ts_init = true /\
  C10_temp_mixed = [TAlloc 1 1 65552] ++ TAlloc 8 8 0 :: [TAlloc 24 32 0] ++ TAlloc 4096 64 131088 ::
                   [TAlloc 24 32 262160; TClear; TAlloc 24 32 200016; TAlloc 1 1 0; TClear; TAlloc 8 8 0;
                    TAlloc 0 64 0; TAlloc 8 3 0] /\
  ~ In TClear [TAlloc 24 32 0] /\
  nth_error C10_temp_mixed 3 = Some (TAlloc 4096 64 131088) /\
  nth_error (ts_run C10_temp_mixed ts_init) 3 = Some (RAlloc 1 48 131136) /\ 131136 mod 64 = 0 /\
  nth_error C10_temp_mixed 11 = Some (TAlloc 8 3 0) /\
  nth_error (ts_run C10_temp_mixed ts_init) 11 = Some (RAlloc 0 48 200064) /\ 200064 mod 3 = 0 /\
  t_chunks (ts_exec (firstn 8 C10_temp_mixed) ts_init) = [{| c_base := 200016; c_cap := 4224; c_free := 4183 |}] /\
  ts_max_size 8 8 <= 4224 /\
  ts_live (firstn 5 C10_temp_mixed) =
    [{| e_idx := 2; e_addr := 262176; e_size := 24; e_pad := 16 |};
     {| e_idx := 1; e_addr := 131136; e_size := 4096; e_pad := 48 |};
     {| e_idx := 0; e_addr := 65568; e_size := 24; e_pad := 0 |};
     {| e_idx := 0; e_addr := 65560; e_size := 8; e_pad := 7 |};
     {| e_idx := 0; e_addr := 65552; e_size := 1; e_pad := 0 |}].
Proof.
  split; [vm_compute; reflexivity|]. split; [reflexivity|].
  split; [intros [H|[]]; discriminate H|].
  repeat (split; [vm_compute; reflexivity|]). split; [vm_compute; discriminate|]. vm_compute. reflexivity.
Qed.

(* the hypothesis on the bases is needed: if new[] returned a second chunk INSIDE the first one (which a correct
   allocator never does), ts_bases_ok rejects the run and the blocks do overlap *)
Example C10_temp_bases_needed :
  ts_bases_ok [TAlloc 4096 1 1000; TAlloc 8 1 1004] ts_init = false /\
  ts_run [TAlloc 4096 1 1000; TAlloc 8 1 1004] ts_init = [RAlloc 0 0 1000; RAlloc 1 0 1004].
Proof. vm_compute. split; reflexivity. Qed.
