(* C07 -- placeholder; theorems are added from proofs/ *)
Require Import Coq.Lists.List Coq.NArith.NArith.
From Mustache Require Import Res Iter.
Import ListNotations.
Example C07_placeholder : unrolled 6 = [0; 1; 2; 3; 4; 5].
Proof. vm_compute. reflexivity. Qed.
Print Assumptions C07_placeholder.
