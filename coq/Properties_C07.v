(* C07 -- a version-filtered job never misses a component that was modified. Statements only; proofs in proofs/VersionProofs.v.
   Model: Manager.v (version stamps am_gver/am_cver, vs_set_chunk, vs_emplace, vs_set_one, check_and_set, filter_chunks,
   job_filter) and Iter.v (filter_blocks).
   What is proved here, for all inputs: the specification of the per-row check-and-stamp; that the per-chunk decisions are
   independent; that a stamp newer than the job's last version in a checked component of a chunk makes the filter hand
   every entity position of that chunk to the job (through the global test as well, given the invariant gver_bounds that
   the stamping primitives establish); that the stamping primitives write the version they are given.
   The history-level statement (all interleavings of update(), job runs, accesses and entity creation) is in the
   second half of this file (proofs in proofs/VersionHistory.v): it needs in addition that the version handed to the
   stamping primitives is newer than the last version of every job that ran before -- the model stamps with the live
   world version, and a job's last version is always strictly below it. C07_write_detected_iff shows that this is exactly
   what is needed: a write stamped v is seen iff last < v.
   Histories WITH DESTRUCTION (destroyNow while unlocked, swap-remove relocation, recycled ids) are in the third part of
   this file (proofs in proofs/VersionDestroy{Arch,Inv,Step,Hist}.v).
   Histories WITH ARCHETYPE MOVES (unlocked assign / removeComponent: externalMove = arrival at the end of the target
   archetype + swap-remove from the previous one) are in the fourth part (proofs in proofs/VersionMove{Arch,Step,Hist}.v).
   Still not proved: clear, deferred (locked) structural calls, the entity builder (OBuild), shared-component moves. *)
Require Import Coq.Lists.List Coq.NArith.NArith Coq.ZArith.ZArith Coq.Arith.Arith Coq.micromega.Lia.
From Mustache Require Import Res Iter Manager Palette.
From Mustache.proofs Require Import ManagerBasics ManagerMoves VersionProofs IterCover VersionHistory
  VersionDestroyArch VersionDestroyInv VersionDestroyStep VersionDestroyHist VersionMoveArch VersionMoveStep VersionMoveHist.
Import ListNotations.

(* ---- (1) check_and_set: flag, stamped positions, everything else ---- *)
Theorem C07_check_and_set_spec : forall vers base check set_ last cur,
  let r := check_and_set vers base check set_ last cur in
  (snd r = true <-> last = WV_NULL \/ check = [] \/ exists i, In i check /\ (last < nth (base + i) vers 0)%N) /\
  length (fst r) = length vers /\
  (snd r = true -> forall p d,
     ((exists i, In i set_ /\ p = base + i) -> p < length vers -> nth p (fst r) d = cur) /\
     ((forall i, In i set_ -> p <> base + i) -> nth p (fst r) d = nth p vers d)) /\
  (snd r = false -> fst r = vers).
Proof. exact check_and_set_spec. Qed.
Print Assumptions C07_check_and_set_spec.

(* ---- (3) one archetype: a newer stamp of a checked component in chunk c flags chunk c ---- *)
Theorem C07_chunk_no_miss : forall nc check set_ last cur todo chunk cv c i,
  lt_all nc check -> lt_all nc set_ -> chunk <= c < chunk + todo ->
  In i check -> (last < nth (nc * c + i) cv 0)%N ->
  nth (c - chunk) (snd (filter_chunks nc check set_ last cur chunk todo cv)) false = true.
Proof. exact filter_chunks_no_miss. Qed.
Print Assumptions C07_chunk_no_miss.

Example C07_chunk_no_miss_example :
  lt_all 2 [1] /\ lt_all 2 [0] /\ 0 <= 1 < 0 + 3 /\ In 1 [1] /\ (0 < nth (2 * 1 + 1) [0; 0; 0; 1; 0; 0] 0)%N /\
  snd (filter_chunks 2 [1] [0] 0 2 0 3 [0; 0; 0; 1; 0; 0]%N) = [false; true; false].
Proof.
  split; [repeat constructor|]. split; [repeat constructor|]. split; [lia|]. split; [left; reflexivity|].
  split; reflexivity.
Qed.

(* ... and the archetype is not skipped by the global test, when every chunk stamp is bounded by the global stamp *)
Theorem C07_global_no_skip : forall a check set_ last cur c i,
  gver_bounds a -> lt_all (length (am_gver a)) check -> In i check ->
  (last < nth (length (am_gver a) * c + i) (am_cver a) 0)%N ->
  snd (check_and_set (am_gver a) 0 check set_ last cur) = true.
Proof. exact global_test_no_skip. Qed.
Print Assumptions C07_global_no_skip.

(* gver_bounds is needed: with a global stamp behind a chunk stamp the archetype is skipped although chunk 0 is newer *)
Example C07_global_skip_without_bounds :
  (3 < nth 0 [5] 0)%N /\ snd (check_and_set [0%N] 0 [0] [] 3 9) = false.
Proof. split; reflexivity. Qed.

(* ---- the whole filter ---- *)
(* the records of archetype ai in the result select exactly the positions whose chunk is flagged (and the global test
   passed); processed is defined on the INPUT state's stamps only *)
Theorem C07_job_filter_char : forall s j s1 fas ai a,
  job_filter s j = Ok (s1, fas) ->
  nth_error (archs s) ai = Some a -> jmatch j a = true -> 0 < am_chunk a -> ver_wf a ->
  forall idx, (exists fa, In fa fas /\ fa_arch fa = ai /\ In idx (selected_of_blocks (fa_blocks fa))) <-> processed j a idx.
Proof. exact job_filter_char. Qed.
Print Assumptions C07_job_filter_char.

(* no miss: entity position idx of a matching archetype, some checked component stamped newer than the job's last version
   in idx's version chunk  ==>  the filter hands idx to the job *)
Theorem C07_job_filter_no_miss : forall s j s1 fas ai a idx i,
  job_filter s j = Ok (s1, fas) ->
  nth_error (archs s) ai = Some a -> jmatch j a = true -> 0 < am_chunk a -> ver_wf a -> gver_bounds a ->
  idx < length (am_ents a) -> In i (jcheck j a) ->
  (j_last j < nth (length (am_gver a) * (idx / am_chunk a) + i) (am_cver a) 0)%N ->
  exists fa, In fa fas /\ fa_arch fa = ai /\ In idx (selected_of_blocks (fa_blocks fa)).
Proof. exact job_filter_no_miss. Qed.
Print Assumptions C07_job_filter_no_miss.

(* a job that never ran, or that checks no component of the archetype, is handed every position *)
Theorem C07_job_filter_first_run : forall s j s1 fas ai a idx,
  job_filter s j = Ok (s1, fas) ->
  nth_error (archs s) ai = Some a -> jmatch j a = true -> 0 < am_chunk a -> ver_wf a ->
  j_last j = WV_NULL \/ jcheck j a = [] -> idx < length (am_ents a) ->
  exists fa, In fa fas /\ fa_arch fa = ai /\ In idx (selected_of_blocks (fa_blocks fa)).
Proof. exact job_filter_first_run. Qed.
Print Assumptions C07_job_filter_first_run.

(* non-vacuity on a reachable state: five entities with components {0,1}, version chunks of 2, update(), a write access
   to component 1 of entity 3, update(); a job writing component 0, reading and checking component 1, last run at 0 *)
Definition run_ops (n : nat) (cis : list cinfo) (ops : list op) : res mst :=
  fold_res (fun s o => do r <- step s o; Ok (fst r)) ops (init n cis).
Definition cis2 : list cinfo := [pal_info 0 0; pal_info 2 0].
Definition ops_ex : list op :=
  [OVerChunk 2; OCreate 0 3%N [] false; OCreate 0 3%N [] false; OCreate 0 3%N [] false; OCreate 0 3%N [] false;
   OCreate 0 3%N [] false; OUpdate true; OGetMut (3, 0)%N 1 (Some 7%Z); OUpdate true].
Definition s_ex : mst := match run_ops 4 cis2 ops_ex with Ok s => s | Err _ => init 0 [] end.
Definition j_ex (last : N) : job := {| j_reqs := [(0, false, true); (1, true, true)]; j_check := 2%N; j_last := last |}.

Example C07_job_filter_no_miss_example :
  exists s1 fas a,
  job_filter s_ex (j_ex 0) = Ok (s1, fas) /\
  nth_error (archs s_ex) 0 = Some a /\ jmatch (j_ex 0) a = true /\ 0 < am_chunk a /\ ver_wf a /\ gver_bounds a /\
  3 < length (am_ents a) /\ In 1 (jcheck (j_ex 0) a) /\
  (j_last (j_ex 0) < nth (length (am_gver a) * (3 / am_chunk a) + 1) (am_cver a) 0)%N /\
  map (fun fa => (fa_arch fa, fa_blocks fa)) fas = [(0, [(2, 4)])].
Proof.
  eexists. eexists. eexists. split; [vm_compute; reflexivity|]. split; [vm_compute; reflexivity|].
  split; [vm_compute; reflexivity|]. split; [vm_compute; lia|]. split; [vm_compute; reflexivity|].
  split.
  - unfold gver_bounds. cbn [am_gver am_cver length]. intros c i Hi.
    destruct (Nat.lt_ge_cases c 3) as [Hc|Hc].
    + destruct c as [|[|[|c]]]; [| | |lia]; (destruct i as [|[|i]]; [| |lia]); vm_compute; discriminate.
    + rewrite nth_overflow by (cbn [length]; lia). apply N.le_0_l.
  - split; [vm_compute; lia|]. split; [vm_compute; left; reflexivity|]. split; vm_compute; reflexivity.
Qed.

(* the same state, a job that never ran: everything is handed over *)
Example C07_job_filter_first_run_example :
  exists s1 fas, job_filter s_ex (j_ex WV_NULL) = Ok (s1, fas) /\ map (fun fa => (fa_arch fa, fa_blocks fa)) fas = [(0, [(0, 5)])].
Proof. eexists. eexists. split; vm_compute; reflexivity. Qed.

(* ---- (5) the stamping primitives write the version they are given ---- *)
Theorem C07_vs_set_chunk_spec : forall a v c a',
  vs_set_chunk a v c = Ok a' ->
  let nc := length (am_gver a) in
  nc * c + nc <= length (am_cver a) /\
  am_gver a' = map (fun _ => v) (am_gver a) /\ length (am_cver a') = length (am_cver a) /\
  (forall i, i < nc -> nth i (am_gver a') 0%N = v) /\
  (forall i, i < nc -> nth (nc * c + i) (am_cver a') 0%N = v) /\
  (forall p, p < nc * c \/ nc * c + nc <= p -> nth p (am_cver a') 0%N = nth p (am_cver a) 0%N) /\
  am_mask a' = am_mask a /\ am_ents a' = am_ents a /\ am_chunk a' = am_chunk a /\ am_cols a' = am_cols a /\ am_size a' = am_size a.
Proof. exact vs_set_chunk_spec. Qed.
Print Assumptions C07_vs_set_chunk_spec.

(* emplace: the stamp vector is cut or grown so that the chunk of idx is its last chunk, then that chunk is set *)
Theorem C07_vs_emplace_spec : forall a v idx a',
  vs_emplace a v idx = Ok a' ->
  let nc := length (am_gver a) in
  exists c, chunk_at a idx = Ok c /\ nc * c <= length (am_cver a) /\
  am_gver a' = map (fun _ => v) (am_gver a) /\ length (am_cver a') = S c * nc /\
  (forall i, i < nc -> nth i (am_gver a') 0%N = v) /\
  (forall i, i < nc -> nth (nc * c + i) (am_cver a') 0%N = v) /\
  (forall p, p < nc * c -> nth p (am_cver a') 0%N = nth p (am_cver a) 0%N) /\
  am_mask a' = am_mask a /\ am_ents a' = am_ents a /\ am_chunk a' = am_chunk a /\ am_cols a' = am_cols a /\ am_size a' = am_size a.
Proof. exact vs_emplace_spec. Qed.
Print Assumptions C07_vs_emplace_spec.

(* mutable access / markDirty: one chunk stamp and the component's global stamp *)
Theorem C07_vs_set_one_spec : forall a v c ci a',
  vs_set_one a v c ci = Ok a' ->
  let nc := length (am_gver a) in
  ci < nc /\ nc * c + ci < length (am_cver a) /\
  am_gver a' = upd (am_gver a) ci v /\ am_cver a' = upd (am_cver a) (nc * c + ci) v /\
  nth ci (am_gver a') 0%N = v /\ nth (nc * c + ci) (am_cver a') 0%N = v /\
  (forall p, p <> nc * c + ci -> nth p (am_cver a') 0%N = nth p (am_cver a) 0%N) /\
  (forall i, i <> ci -> nth i (am_gver a') 0%N = nth i (am_gver a) 0%N).
Proof. exact vs_set_one_spec. Qed.
Print Assumptions C07_vs_set_one_spec.

(* the invariant of the global test is (re-)established by a stamp that is at least every chunk stamp present *)
Theorem C07_stamping_keeps_bounds :
  (forall a v c a', vs_set_chunk a v c = Ok a' -> Forall (fun x => (x <= v)%N) (am_cver a) ->
     gver_bounds a' /\ Forall (fun x => (x <= v)%N) (am_cver a')) /\
  (forall a v idx a', vs_emplace a v idx = Ok a' -> Forall (fun x => (x <= v)%N) (am_cver a) ->
     gver_bounds a' /\ Forall (fun x => (x <= v)%N) (am_cver a')) /\
  (forall a v c ci a', vs_set_one a v c ci = Ok a' -> gver_bounds a ->
     (forall k, (nth (length (am_gver a) * k + ci) (am_cver a) 0 <= v)%N) -> gver_bounds a').
Proof. split; [exact vs_set_chunk_bounds|split; [exact vs_emplace_bounds|exact vs_set_one_bounds]]. Qed.
Print Assumptions C07_stamping_keeps_bounds.

Definition a_small : archetype :=
  {| am_mask := 3%N; am_shared := si_null; am_ents := [(0, 0); (1, 0); (2, 0)]%N; am_cols := [[]; []];
     am_size := 3; am_chunk := 2; am_gver := [1; 1]%N; am_cver := [1; 0; 1; 1]%N |}.
Example C07_stamping_examples :
  (exists a', vs_set_chunk a_small 2 1 = Ok a' /\ am_gver a' = [2; 2]%N /\ am_cver a' = [1; 0; 2; 2]%N) /\
  (exists a', vs_emplace a_small 2 4 = Ok a' /\ am_gver a' = [2; 2]%N /\ am_cver a' = [1; 0; 1; 1; 2; 2]%N) /\
  (exists a', vs_emplace a_small 2 1 = Ok a' /\ am_gver a' = [2; 2]%N /\ am_cver a' = [2; 2]%N) /\
  (exists a', vs_set_one a_small 2 0 1 = Ok a' /\ am_gver a' = [1; 2]%N /\ am_cver a' = [1; 2; 1; 1]%N) /\
  Forall (fun x => (x <= 2)%N) (am_cver a_small).
Proof.
  repeat split; try (eexists; split; [vm_compute; reflexivity|split; reflexivity]).
  repeat constructor; vm_compute; discriminate.
Qed.

(* ---- the mechanism of C07: stamps overwrite, so a write is seen exactly when its stamp is newer than last ---- *)
Theorem C07_write_detected_iff : forall a v c ci a' set_ last cur,
  vs_set_one a v c ci = Ok a' ->
  snd (check_and_set (am_cver a') (length (am_gver a') * c) [ci] set_ last cur) = true <-> last = WV_NULL \/ (last < v)%N.
Proof. exact write_detected_iff. Qed.
Print Assumptions C07_write_detected_iff.

(* witness: a write access stamped with a version that is not newer than the job's last version (a stale cached world
   version) is invisible to the job -- the unconditional history-level C07 is false for such a stamping discipline *)
Example C07_stale_stamp_missed :
  exists a', vs_set_one a_small 1 0 1 = Ok a' /\
  snd (filter_chunks 2 [1] [] 1 5 0 2 (am_cver a')) = [false; false].
Proof. eexists. split; vm_compute; reflexivity. Qed.

(* ==================================================================================================================== *)
(* HISTORY LEVEL (proofs/VersionHistory.v).  Alphabet `vop`: VUpdate true (world.update()), VUpdate false
   (EntityManager::update()), VGetMut, VMarkDirty, VGetConst, VHas, VRun jn parallel tasks_override workers cap (a run of
   job number jn without callback actions), and -- the one structural change covered -- VCreate (createEntity while
   unlocked).  The driver state `vstate` = (manager state, job list); after a run the job's j_last becomes the `last` of
   the RJob result (ocaml/driver.ml, "runjob").  `vstep` is one operation, `vrun` a script.
   The population: entities are created first (unlocked OCreate, with OVerChunk / OChunkFn / ODep in between:
   `population`); inside a history entities may be created but are never destroyed or moved between archetypes.
   NOT covered: destruction, removal (swap-remove relocation), archetype moves (assign / remove component), clear,
   locked (deferred) structural calls, callback actions of jobs, and scripts long enough for the 32-bit world version to
   reach its null value 2^32-1: every theorem assumes (script length + 2 < 2^32-1), under which the model's
   (wv + 1) mod 2^32 is wv + 1. *)

(* ---- (1) the invariants of every run ---- *)
(* VInv: manager unlocked, nothing marked for destruction, buffers empty, no free slot; for every archetype (arch_ok):
   one global stamp per component, gver_bounds, no chunk stamp and (once populated) no global stamp ahead of the world
   version, size = population, chunk size > 0 and the chunk stamps covering all version chunks; every valid entity sits
   where its location says (loc_ok); every job's j_last is null or STRICTLY below the world version (job_ok).
   vframe: live entities stay live and where they are; every archetype keeps its mask, chunk size and its entities in
   place (created ones are appended); chunk stamps never decrease; wv never decreases; jobs keep requests and masks. *)
Theorem C07_history_invariants : forall n cis setup s0 js ops st,
  population n cis setup s0 -> fresh_jobs js -> (N.of_nat (length ops) < WV_NULL)%N ->
  vrun ops (s0, js) = Ok st ->
  VInv st /\ vframe (s0, js) st /\ (wv (fst st) <= N.of_nat (length ops))%N.
Proof. exact history_invariants. Qed.
Print Assumptions C07_history_invariants.

(* one operation: the invariant is kept, and (wv_effect) precisely:
     VUpdate true : wv' = wv + 1, cached' = Some wv'            VUpdate false : wv' = wv, cached' = Some wv
     VRun jn, no work : wv, cached, jobs unchanged, result RJob (old j_last) []
     VRun jn, work    : wv' = wv + 1, cached unchanged, job jn's j_last := wv (the version its filter ran at),
                        result RJob wv arrays
     accesses         : wv, cached, jobs unchanged           VCreate : wv, jobs unchanged *)
Theorem C07_step_invariant : forall st o st' out_,
  VInv st -> (wv (fst st) + 1 < WV_NULL)%N -> vstep st o = Ok (st', out_) ->
  VInv st' /\ vframe st st' /\ wv_effect st o st' out_.
Proof. exact vstep_inv. Qed.
Print Assumptions C07_step_invariant.

(* creating an entity while unlocked keeps the invariant: the population phase *)
Theorem C07_create_keeps_invariant : forall s js tid m sids via s' out_,
  VInv (s, js) -> step s (OCreate tid m sids via) = Ok (s', out_) -> VInv (s', js) /\ wv s' = wv s.
Proof. exact VInv_create. Qed.
Print Assumptions C07_create_keeps_invariant.

(* ... in detail: the new entity is appended to its archetype, the version chunk of its position is stamped with the world
   version in every component, nothing else changes *)
Theorem C07_create_effect : forall s js tid m sids via s' out_,
  VInv (s, js) -> step s (OCreate tid m sids via) = Ok (s', out_) ->
  VInv (s', js) /\ wv s' = wv s /\
  exists h ai a3 idx,
    out_ = RHandle h /\ is_valid s h = false /\ is_valid s' h = true /\
    nth_error (archs s') ai = Some a3 /\ S idx = length (am_ents a3) /\ nth_error (am_ents a3) idx = Some h /\
    (exists l, nth_error (locs s') (N.to_nat (fst h)) = Some l /\ l_arch l = Some ai /\ l_idx l = idx) /\
    (forall i, i < length (am_gver a3) -> nth (length (am_gver a3) * (idx / am_chunk a3) + i) (am_cver a3) 0%N = wv s) /\
    (forall h', is_valid s h' = true -> is_valid s' h' = true) /\
    (forall h' l, is_valid s h' = true -> nth_error (locs s) (N.to_nat (fst h')) = Some l ->
                  nth_error (locs s') (N.to_nat (fst h')) = Some l) /\
    (forall k a, nth_error (archs s) k = Some a -> exists a', nth_error (archs s') k = Some a' /\ evolves_w a a' /\ (k <> ai -> a' = a)) /\
    (forall k a', nth_error (archs s') k = Some a' -> k = ai \/ nth_error (archs s) k = Some a') /\
    (forall a, nth_error (archs s) ai = Some a ->
       am_ents a3 = am_ents a ++ [h] /\
       forall p, nth p (am_cver a3) 0%N = nth p (am_cver a) 0%N \/
                 exists i, i < length (am_gver a3) /\ p = length (am_gver a3) * (idx / am_chunk a3) + i) /\
    (nth_error (archs s) ai = None -> idx = 0).
Proof. exact create_effect. Qed.
Print Assumptions C07_create_effect.

(* what a run hands to the job, exactly: the entities at processed positions of matching archetypes *)
Theorem C07_run_handed_char : forall s js jn par tov wk cap st' out_,
  VInv (s, js) -> 0 < cap ->
  vstep (s, js) (VRun jn par tov wk cap) = Ok (st', out_) ->
  exists j, nth_error js jn = Some j /\
  forall h, handed out_ h <->
    exists ai a idx, nth_error (archs s) ai = Some a /\ jmatch j a = true /\ processed j a idx /\
                     nth_error (am_ents a) idx = Some h.
Proof. exact run_handed_char. Qed.
Print Assumptions C07_run_handed_char.

(* ---- (2) C07 over histories ---- *)
(* population, then any script `pre`; in the state reached, component c of entity h (present on it) is obtained for
   writing or marked dirty; then any script `mid` without a run of job jn -- updates, accesses, runs of other jobs,
   including jobs that write c --; then job jn (c in its check mask, h's archetype matching its required mask) runs:
   it is handed h.  Whether and when jn ran before, and where in the frame the modification falls, is arbitrary. *)
Theorem C07_history : forall n cis setup s0 js pre st1 o out_t st2 mid st3 jn par tov wk cap st4 out_ h c ai idx a ci j,
  population n cis setup s0 -> fresh_jobs js ->
  (N.of_nat (length pre) + N.of_nat (length mid) + 2 < WV_NULL)%N ->
  vrun pre (s0, js) = Ok st1 ->
  is_touch o h c -> touch (fst st1) h c ai idx a ci ->
  nth_error (snd st1) jn = Some j -> c < MASK_BITS -> mhas (j_check j) c = true ->
  mmatch (am_mask a) (job_required_mask j) = true ->
  vstep st1 o = Ok (st2, out_t) -> vrun mid st2 = Ok st3 -> no_run jn mid -> 0 < cap ->
  vstep st3 (VRun jn par tov wk cap) = Ok (st4, out_) ->
  handed out_ h.
Proof. exact VersionHistory.C07_history. Qed.
Print Assumptions C07_history.

(* the same from any state satisfying the invariant *)
Theorem C07_history_from_invariant : forall st1 o out_t st2 mid st3 jn par tov wk cap st4 out_ h c ai idx a ci j,
  VInv st1 -> (wv (fst st1) + N.of_nat (length mid) + 2 < WV_NULL)%N ->
  is_touch o h c -> touch (fst st1) h c ai idx a ci ->
  nth_error (snd st1) jn = Some j -> c < MASK_BITS -> mhas (j_check j) c = true ->
  mmatch (am_mask a) (job_required_mask j) = true ->
  vstep st1 o = Ok (st2, out_t) -> vrun mid st2 = Ok st3 -> no_run jn mid -> 0 < cap ->
  vstep st3 (VRun jn par tov wk cap) = Ok (st4, out_) ->
  handed out_ h.
Proof. exact C07_history_core. Qed.
Print Assumptions C07_history_from_invariant.

(* written by another job: job jn' writes c and processes entity h (at idx of archetype ai); then anything but runs of
   jn; then jn (checking c) runs: it is handed h *)
Theorem C07_history_written_by_job :
  forall n cis setup s0 js pre st1 jn' p1 t1 w1 c1 out1 st2 mid st3 jn par tov wk cap st4 out_ h c ai a idx ci j j',
  population n cis setup s0 -> fresh_jobs js ->
  (N.of_nat (length pre) + N.of_nat (length mid) + 2 < WV_NULL)%N ->
  vrun pre (s0, js) = Ok st1 ->
  nth_error (snd st1) jn = Some j -> nth_error (snd st1) jn' = Some j' -> jn' <> jn ->
  vstep st1 (VRun jn' p1 t1 w1 c1) = Ok (st2, out1) ->
  nth_error (archs (fst st1)) ai = Some a -> nth_error (am_ents a) idx = Some h -> jmatch j' a = true -> processed j' a idx ->
  In c (mitems (job_update_mask j')) -> c < MASK_BITS -> mhas (j_check j) c = true -> cindex (am_mask a) c = Some ci ->
  mmatch (am_mask a) (job_required_mask j) = true ->
  vrun mid st2 = Ok st3 -> no_run jn mid -> 0 < cap ->
  vstep st3 (VRun jn par tov wk cap) = Ok (st4, out_) ->
  handed out_ h.
Proof. exact C07_history_job. Qed.
Print Assumptions C07_history_written_by_job.

(* ... stated with what jn' was handed *)
Theorem C07_history_written_by_job_handed : forall st1 jn' p1 t1 w1 c1 out1 st2 mid st3 jn par tov wk cap st4 out_ h c j j',
  VInv st1 -> (wv (fst st1) + N.of_nat (length mid) + 2 < WV_NULL)%N ->
  nth_error (snd st1) jn = Some j -> nth_error (snd st1) jn' = Some j' -> jn' <> jn -> 0 < c1 ->
  vstep st1 (VRun jn' p1 t1 w1 c1) = Ok (st2, out1) -> handed out1 h ->
  In c (mitems (job_update_mask j')) -> mhas (j_check j) c = true ->
  (forall ai a idx, nth_error (archs (fst st1)) ai = Some a -> nth_error (am_ents a) idx = Some h ->
     mhas (am_mask a) c = true /\ mmatch (am_mask a) (job_required_mask j) = true) ->
  vrun mid st2 = Ok st3 -> no_run jn mid -> 0 < cap ->
  vstep st3 (VRun jn par tov wk cap) = Ok (st4, out_) ->
  handed out_ h.
Proof. exact C07_history_job_handed. Qed.
Print Assumptions C07_history_written_by_job_handed.

(* the entity is created: createEntity (unlocked) returns h; any operations but runs of jn; then jn runs, checking a
   component c the new entity carries (its archetype matching jn's required mask): it is handed h *)
Theorem C07_history_created : forall n cis setup s0 js pre st1 tid m sids via st2 h mid st3 jn par tov wk cap st4 out_ j c,
  population n cis setup s0 -> fresh_jobs js ->
  (N.of_nat (length pre) + N.of_nat (length mid) + 2 < WV_NULL)%N ->
  vrun pre (s0, js) = Ok st1 ->
  nth_error (snd st1) jn = Some j ->
  vstep st1 (VCreate tid m sids via) = Ok (st2, RHandle h) ->
  (forall ai a idx, nth_error (archs (fst st2)) ai = Some a -> nth_error (am_ents a) idx = Some h ->
     mhas (am_mask a) c = true /\ mmatch (am_mask a) (job_required_mask j) = true) ->
  c < MASK_BITS -> mhas (j_check j) c = true ->
  vrun mid st2 = Ok st3 -> no_run jn mid -> 0 < cap ->
  vstep st3 (VRun jn par tov wk cap) = Ok (st4, out_) ->
  handed out_ h.
Proof. exact VersionHistory.C07_history_created. Qed.
Print Assumptions C07_history_created.

(* ---- non-vacuity: a concrete history ---- *)
(* five entities with components {0,1}, version chunks of 2; job 0 writes 0 and reads+checks 1; job 1 writes 1; job 2 only
   reads 0 *)
Definition get_res {A} (r : res A) (d : A) : A := match r with Ok x => x | Err _ => d end.
Definition setup_ex : list op :=
  [OVerChunk 2; OCreate 0 3%N [] false; OCreate 0 3%N [] false; OCreate 0 3%N [] false; OCreate 0 3%N [] false; OCreate 0 3%N [] false].
Definition s0_ex : mst := get_res (setup_run (init 4 cis2) setup_ex) (init 0 []).
Definition jobs_ex : list job :=
  [ {| j_reqs := [(0, false, true); (1, true, true)]; j_check := 2%N; j_last := WV_NULL |};
    {| j_reqs := [(1, false, true)]; j_check := 0%N; j_last := WV_NULL |};
    {| j_reqs := [(0, true, true)]; j_check := 0%N; j_last := WV_NULL |} ].
Definition vst_dummy : vstate := (init 0 [], []).
Definition handles_of (o : out) : list handle :=
  match o with RJob _ arrays => flat_map (fun v : visit => map fst (snd v)) arrays | _ => [] end.

Lemma population_ex : population 4 cis2 setup_ex s0_ex /\ fresh_jobs jobs_ex.
Proof. split; [split; [repeat constructor|vm_compute; reflexivity]|repeat constructor]. Qed.

(* the invariant holds on the example's states (by the theorems above; it contains a universally quantified part) *)
Example C07_history_invariants_example :
  population 4 cis2 setup_ex s0_ex /\ fresh_jobs jobs_ex /\ (N.of_nat (length [VUpdate true; VRun 0 false 0 0 16]) < WV_NULL)%N /\
  exists st, vrun [VUpdate true; VRun 0 false 0 0 16] (s0_ex, jobs_ex) = Ok st /\ wv (fst st) = 2%N /\
             map j_last (snd st) = [1%N; WV_NULL; WV_NULL] /\ cached (fst st) = Some 1%N.
Proof.
  split; [apply population_ex|]. split; [apply population_ex|]. split; [vm_compute; reflexivity|].
  eexists. split; [vm_compute; reflexivity|]. repeat split; vm_compute; reflexivity.
Qed.

(* update(); run of job 0 (everything); update()  |  write access to component 1 of entity 3  |  manager update, a run of
   job 2, world update  |  run of job 0: it is handed the version chunk of entity 3 (entities 2 and 3) *)
Definition pre_ex : list vop := [VUpdate true; VRun 0 false 0 0 16; VUpdate true].
Definition mid_ex : list vop := [VUpdate false; VRun 2 true 0 3 16; VUpdate true].
Definition st1_ex : vstate := get_res (vrun pre_ex (s0_ex, jobs_ex)) vst_dummy.
Definition st2_ex : vstate := fst (get_res (vstep st1_ex (VGetMut (3, 0)%N 1 (Some 7%Z))) (vst_dummy, RNone)).
Definition st3_ex : vstate := get_res (vrun mid_ex st2_ex) vst_dummy.

Example C07_history_example :
  exists out_t st4 out_ a j,
  population 4 cis2 setup_ex s0_ex /\ fresh_jobs jobs_ex /\
  (N.of_nat (length pre_ex) + N.of_nat (length mid_ex) + 2 < WV_NULL)%N /\
  vrun pre_ex (s0_ex, jobs_ex) = Ok st1_ex /\
  is_touch (VGetMut (3, 0)%N 1 (Some 7%Z)) (3, 0)%N 1 /\ touch (fst st1_ex) (3, 0)%N 1 0 3 a 1 /\
  nth_error (snd st1_ex) 0 = Some j /\ 1 < MASK_BITS /\ mhas (j_check j) 1 = true /\
  mmatch (am_mask a) (job_required_mask j) = true /\
  vstep st1_ex (VGetMut (3, 0)%N 1 (Some 7%Z)) = Ok (st2_ex, out_t) /\ vrun mid_ex st2_ex = Ok st3_ex /\ no_run 0 mid_ex /\ 0 < 16 /\
  vstep st3_ex (VRun 0 true 0 3 16) = Ok (st4, out_) /\
  handles_of out_ = [(2, 0); (3, 0)]%N /\ j_last j = 1%N /\ wv (fst st3_ex) = 5%N.
Proof.
  eexists. eexists. eexists. eexists. eexists.
  split; [apply population_ex|]. split; [apply population_ex|]. split; [vm_compute; reflexivity|].
  split; [vm_compute; reflexivity|]. split; [left; eexists; reflexivity|].
  split.
  { split; [vm_compute; reflexivity|]. split; [eexists; split; [vm_compute; reflexivity|split; reflexivity]|].
    split; [vm_compute; reflexivity|vm_compute; reflexivity]. }
  split; [vm_compute; reflexivity|]. split; [unfold MASK_BITS; lia|]. split; [vm_compute; reflexivity|].
  split; [vm_compute; reflexivity|]. split; [vm_compute; reflexivity|]. split; [vm_compute; reflexivity|].
  split; [repeat constructor; discriminate|]. split; [lia|].
  split; [vm_compute; reflexivity|]. split; [vm_compute; reflexivity|]. split; vm_compute; reflexivity.
Qed.

(* job 1 (writes component 1) runs for the first time and processes everything, in particular entity 3; later job 0
   (checking component 1, last run at version 1) runs: it is handed entity 3 (and all others: job 1 stamped every chunk) *)
Definition st2j_ex : vstate := fst (get_res (vstep st1_ex (VRun 1 false 0 0 16)) (vst_dummy, RNone)).
Definition st3j_ex : vstate := get_res (vrun mid_ex st2j_ex) vst_dummy.

Example C07_history_written_by_job_example :
  exists out1 st4 out_ a j j',
  population 4 cis2 setup_ex s0_ex /\ fresh_jobs jobs_ex /\
  (N.of_nat (length pre_ex) + N.of_nat (length mid_ex) + 2 < WV_NULL)%N /\
  vrun pre_ex (s0_ex, jobs_ex) = Ok st1_ex /\
  nth_error (snd st1_ex) 0 = Some j /\ nth_error (snd st1_ex) 1 = Some j' /\ 1 <> 0 /\
  vstep st1_ex (VRun 1 false 0 0 16) = Ok (st2j_ex, out1) /\
  nth_error (archs (fst st1_ex)) 0 = Some a /\ nth_error (am_ents a) 3 = Some (3, 0)%N /\ jmatch j' a = true /\ processed j' a 3 /\
  In 1 (mitems (job_update_mask j')) /\ 1 < MASK_BITS /\ mhas (j_check j) 1 = true /\ cindex (am_mask a) 1 = Some 1 /\
  mmatch (am_mask a) (job_required_mask j) = true /\
  vrun mid_ex st2j_ex = Ok st3j_ex /\ no_run 0 mid_ex /\ 0 < 16 /\
  vstep st3j_ex (VRun 0 false 0 0 16) = Ok (st4, out_) /\
  handed out1 (3, 0)%N /\ handles_of out_ = [(0, 0); (1, 0); (2, 0); (3, 0); (4, 0)]%N.
Proof.
  eexists. eexists. eexists. eexists. eexists. eexists.
  split; [apply population_ex|]. split; [apply population_ex|]. split; [vm_compute; reflexivity|].
  split; [vm_compute; reflexivity|]. split; [vm_compute; reflexivity|]. split; [vm_compute; reflexivity|]. split; [discriminate|].
  split; [vm_compute; reflexivity|]. split; [vm_compute; reflexivity|]. split; [vm_compute; reflexivity|]. split; [vm_compute; reflexivity|].
  split; [split; [vm_compute; lia|split; vm_compute; reflexivity]|].
  split; [vm_compute; left; reflexivity|]. split; [unfold MASK_BITS; lia|]. split; [vm_compute; reflexivity|].
  split; [vm_compute; reflexivity|]. split; [vm_compute; reflexivity|]. split; [vm_compute; reflexivity|].
  split; [repeat constructor; discriminate|]. split; [lia|]. split; [vm_compute; reflexivity|]. split.
  - vm_compute. eexists. eexists. split; [left; reflexivity|]. split; [right; right; right; left; reflexivity|reflexivity].
  - vm_compute. reflexivity.
Qed.

(* hypotheses of the one-step theorems on the example *)
Example C07_step_example :
  exists st' out_, (wv (fst st1_ex) + 1 < WV_NULL)%N /\ 0 < 16 /\
    vstep st1_ex (VRun 0 true 0 3 16) = Ok (st', out_) /\ handles_of out_ = [] /\
    vrun pre_ex (s0_ex, jobs_ex) = Ok st1_ex.
Proof. eexists. eexists. split; [vm_compute; reflexivity|]. split; [lia|]. split; [vm_compute; reflexivity|]. split; vm_compute; reflexivity. Qed.

Lemma VInv_st1_ex : VInv st1_ex.
Proof.
  destruct population_ex as (Hp & Hj).
  refine (proj1 (C07_history_invariants 4 cis2 setup_ex s0_ex jobs_ex pre_ex st1_ex Hp Hj _ _)); vm_compute; reflexivity.
Qed.

Lemma VInv_pair st : VInv st -> VInv (fst st, snd st).
Proof. destruct st. exact (fun H => H). Qed.

Example C07_create_keeps_invariant_example :
  VInv (fst st1_ex, snd st1_ex) /\ exists s' out_, step (fst st1_ex) (OCreate 0 1%N [] false) = Ok (s', out_).
Proof. split; [apply VInv_pair, VInv_st1_ex|]. eexists. eexists. vm_compute. reflexivity. Qed.

(* after the run of job 0: a sixth entity {0,1} is created (it shares version chunk 2 with entity 4); update; job 0 runs
   and is handed the new entity (and entity 4 of the same chunk) *)
Definition st2c_ex : vstate := fst (get_res (vstep st1_ex (VCreate 0 3%N [] false)) (vst_dummy, RNone)).
Definition st3c_ex : vstate := get_res (vrun [VUpdate true] st2c_ex) vst_dummy.

Example C07_history_created_example :
  exists st4 out_ j,
  population 4 cis2 setup_ex s0_ex /\ fresh_jobs jobs_ex /\
  (N.of_nat (length pre_ex) + N.of_nat (length [VUpdate true]) + 2 < WV_NULL)%N /\
  vrun pre_ex (s0_ex, jobs_ex) = Ok st1_ex /\ nth_error (snd st1_ex) 0 = Some j /\
  vstep st1_ex (VCreate 0 3%N [] false) = Ok (st2c_ex, RHandle (5, 0)%N) /\
  (forall ai a idx, nth_error (archs (fst st2c_ex)) ai = Some a -> nth_error (am_ents a) idx = Some (5, 0)%N ->
     mhas (am_mask a) 1 = true /\ mmatch (am_mask a) (job_required_mask j) = true) /\
  1 < MASK_BITS /\ mhas (j_check j) 1 = true /\
  vrun [VUpdate true] st2c_ex = Ok st3c_ex /\ no_run 0 [VUpdate true] /\ 0 < 16 /\
  vstep st3c_ex (VRun 0 false 0 0 16) = Ok (st4, out_) /\ handles_of out_ = [(4, 0); (5, 0)]%N.
Proof.
  eexists. eexists. eexists.
  split; [apply population_ex|]. split; [apply population_ex|]. split; [vm_compute; reflexivity|].
  split; [vm_compute; reflexivity|]. split; [vm_compute; reflexivity|]. split; [vm_compute; reflexivity|].
  split.
  { let x := eval vm_compute in (archs (fst st2c_ex)) in replace (archs (fst st2c_ex)) with x by (vm_compute; reflexivity).
    intros ai a idx Ha _. destruct ai as [|n]; [|destruct n; discriminate].
    inversion Ha; subst a. split; vm_compute; reflexivity. }
  split; [unfold MASK_BITS; lia|]. split; [vm_compute; reflexivity|]. split; [vm_compute; reflexivity|].
  split; [repeat constructor|]. split; [lia|]. split; vm_compute; reflexivity.
Qed.

(* ==================================================================================================================== *)
(* HISTORY LEVEL WITH DESTRUCTION (proofs/VersionDestroyArch.v, VersionDestroyInv.v, VersionDestroyStep.v,
   VersionDestroyHist.v).  Alphabet `vopd` = VOld o (every operation o of the alphabet above, creation included) and
   VDestroyNow tid h (destroyNow while unlocked: Manager.destroy_now_unlocked -> arch_remove -> release_id).
   `dstep` is one operation, `drun` a script.

   What destroyNow does (Archetype::remove, archetype.cpp): the LAST member of the entity's archetype is popped; unless it
   is the destroyed entity itself it is moved into the hole (internalMove) and its location follows; BOTH version chunks
   -- the one of the hole and the one the last member left -- are stamped with the LIVE world version in every component
   and every global stamp of the archetype becomes that version; chunk_versions_ keeps its length (stale version chunks
   stay behind the population until the next emplace cuts them off); the id goes onto the free list with its slot version
   bumped, and a later create hands it out again.

   The invariant VInvD replaces VInv: arch_okd (chunk stamps cover AT LEAST the version chunks of the population) for
   arch_ok; the free list is a duplicate-free chain of empty_slots ids from next_slot, all without archetype in their
   location (free_okF), for "no free slot"; mem_ok (every member of an archetype carries the version of its slot and is
   where its location says) in addition to loc_ok.

   PROPER scripts (proper_run, a boolean computed along the run): every VDestroyNow is applied to a handle that is not
   valid (nothing happens) or is located in an archetype.  isEntityValid compares slot versions only, so a handle
   (id, current slot version) of an id that is ON THE FREE LIST passes it; destroyNow on such a handle -- one no create
   ever returned -- releases the id a second time and corrupts the free list, in the C++ as in the model; such calls
   are excluded.  Not covered: archetype moves (assign/remove component), clear, locked (deferred) structural calls. *)

(* ---- (1) the invariant of every proper run ---- *)
Theorem C07_history_invariants_with_destruction : forall n cis setup s0 js ops st,
  population n cis setup s0 -> fresh_jobs js -> (N.of_nat (length ops) < WV_NULL)%N ->
  proper_run ops (s0, js) = true -> drun ops (s0, js) = Ok st ->
  VInvD st /\ (wv (fst st) <= N.of_nat (length ops))%N.
Proof. exact history_invariants_d. Qed.
Print Assumptions C07_history_invariants_with_destruction.

(* one operation: VDestroyNow leaves the world version, its cached copy and the jobs alone (wv_effect_d); for the old
   operations wv_effect as above *)
Theorem C07_step_invariant_with_destruction : forall st o st' out_,
  VInvD st -> (wv (fst st) + 1 < WV_NULL)%N -> properb (fst st) o = true -> dstep st o = Ok (st', out_) ->
  VInvD st' /\ wv_effect_d st o st' out_.
Proof. exact dstep_inv. Qed.
Print Assumptions C07_step_invariant_with_destruction.

(* ---- (2) the exact effect of destroyNow on populations, stamps and locations ---- *)
(* removal a a' idx w (VersionDestroyStep.v): a has S last members, idx <= last; a' has the same mask and chunk size and
   `last` members: every position p < last other than idx keeps its member, position idx (if idx < last) holds the former
   last member; restamped: every global stamp is w, the chunk stamps of version chunks last/chunk and idx/chunk are w in
   every component, all other chunk stamps (also the stale ones) are unchanged, the stamp vector keeps its length *)
Theorem C07_destroy_effect : forall s js tid (h : handle) s' out_,
  VInvD (s, js) -> properb s (VDestroyNow tid h) = true -> step s (ODestroyNow tid h) = Ok (s', out_) ->
  VInvD (s', js) /\ wv s' = wv s /\ cached s' = cached s /\
  ((s' = s /\ is_valid s h = false) \/
   exists l ai a a', is_valid s h = true /\ nth_error (locs s) (N.to_nat (fst h)) = Some l /\ l_arch l = Some ai /\
     nth_error (archs s) ai = Some a /\ nth_error (am_ents a) (l_idx l) = Some h /\
     archs s' = upd (archs s) ai a' /\ removal a a' (l_idx l) (wv s)).
Proof. exact destroy_d. Qed.
Print Assumptions C07_destroy_effect.

(* Archetype::remove in isolation, with its version stamps and the location table *)
Theorem C07_arch_remove_effect : forall s ai idx h skip s' a,
  nth_error (archs s) ai = Some a -> am_size a = length (am_ents a) -> arch_remove s ai idx h skip = Ok s' ->
  exists a' last, length (am_ents a) = S last /\ fr2 s' = fr2 s /\ archs s' = upd (archs s) ai a' /\
    am_mask a' = am_mask a /\ am_chunk a' = am_chunk a /\ am_size a' = last /\ 0 < am_chunk a /\
    restamped a a' (wv s) (fun ch => ch = last / am_chunk a \/ ch = idx / am_chunk a) /\
    ((idx = last /\ am_ents a' = removelast (am_ents a) /\
      N.to_nat (fst h) < length (locs s) /\ locs s' = upd (locs s) (N.to_nat (fst h)) default_loc)
     \/
     (idx <> last /\ exists src dst, nth_error (am_ents a) last = Some src /\ nth_error (am_ents a) idx = Some dst /\
        am_ents a' = removelast (upd (am_ents a) idx src) /\
        N.to_nat (fst dst) < length (locs s) /\ N.to_nat (fst src) < length (locs s) /\
        locs s' = upd (upd (locs s) (N.to_nat (fst dst)) default_loc) (N.to_nat (fst src)) {| l_arch := Some ai; l_idx := idx |})).
Proof. exact arch_remove_effect. Qed.
Print Assumptions C07_arch_remove_effect.

(* createEntity with the free list in play: fresh or recycled id; the stamps of the new state come from the old state or
   are those of the version chunk of the new entity *)
Theorem C07_create_effect_with_destruction : forall s js tid m sids via s' out_,
  VInvD (s, js) -> step s (OCreate tid m sids via) = Ok (s', out_) ->
  VInvD (s', js) /\ wv s' = wv s /\ sframe (s, js) (s', js) /\
  exists h ai a3 idx,
    out_ = RHandle h /\ nth_error (archs s') ai = Some a3 /\ S idx = length (am_ents a3) /\ nth_error (am_ents a3) idx = Some h /\
    (forall i, i < length (am_gver a3) -> nth (length (am_gver a3) * (idx / am_chunk a3) + i) (am_cver a3) 0%N = wv s) /\
    (forall k a i, nth_error (archs s) k = Some a -> nth_error (am_ents a) i = Some h -> False) /\
    nth_error (locs s') (N.to_nat (fst h)) = Some {| l_arch := Some ai; l_idx := idx |} /\
    (forall ai0 a' k i, nth_error (archs s') ai0 = Some a' -> i < length (am_gver a') ->
       (nth (length (am_gver a') * k + i) (am_cver a') 0 <= stampof s ai0 k i)%N \/ (ai0 = ai /\ k = idx / am_chunk a3)).
Proof. exact create_d. Qed.
Print Assumptions C07_create_effect_with_destruction.

(* what a run hands to the job, under the weaker invariant *)
Theorem C07_run_handed_char_with_destruction : forall s js jn par tov wk cap st' out_,
  VInvD (s, js) -> 0 < cap ->
  vstep (s, js) (VRun jn par tov wk cap) = Ok (st', out_) ->
  exists j, nth_error js jn = Some j /\
  forall h, handed out_ h <->
    exists ai a idx, nth_error (archs s) ai = Some a /\ jmatch j a = true /\ processed j a idx /\
                     nth_error (am_ents a) idx = Some h.
Proof. exact run_handed_char_d. Qed.
Print Assumptions C07_run_handed_char_with_destruction.

(* ---- (3) C07: relocated by the removal of another entity ---- *)
(* relocates s a b ai A: a is alive in archetype ai (= A); b is the LAST member of A and is not a.
   The relocation itself: after destroyNow a, b sits in a's former slot and every component stamp of that version chunk is
   the world version (carries ... (wv s)) *)
Theorem C07_destroy_relocates : forall s js tid (a b : handle) ai A st2 out_t c ci,
  VInvD (s, js) -> relocates s a b ai A -> cindex (am_mask A) c = Some ci -> c < MASK_BITS ->
  dstep (s, js) (VDestroyNow tid a) = Ok (st2, out_t) ->
  snd st2 = js /\ wv (fst st2) = wv s /\ carries (fst st2) b ai (am_mask A) c (wv s) /\
  exists l A', nth_error (locs s) (N.to_nat (fst a)) = Some l /\ nth_error (archs (fst st2)) ai = Some A' /\
    nth_error (am_ents A') (l_idx l) = Some b /\ l_idx l < length (am_ents A) - 1.
Proof. exact destroy_relocates. Qed.
Print Assumptions C07_destroy_relocates.

(* population, then any proper script `pre`; in the state reached entity a is destroyed, which relocates b; then any proper
   script `mid` over the extended alphabet without a run of job jn and without destroyNow b -- b may be relocated again by
   further removals, entities may be created into recycled slots --; then jn runs (c in its check mask, c a component of
   the archetype, the archetype matching its required mask): it is handed b. *)
Theorem C07_history_relocated :
  forall n cis setup s0 js pre st1 tid (a b : handle) ai A out_t st2 mid st3 jn par tov wk cap st4 out_ c j,
  population n cis setup s0 -> fresh_jobs js ->
  (N.of_nat (length pre) + N.of_nat (length mid) + 2 < WV_NULL)%N ->
  proper_run pre (s0, js) = true -> drun pre (s0, js) = Ok st1 ->
  relocates (fst st1) a b ai A ->
  nth_error (snd st1) jn = Some j -> c < MASK_BITS -> mhas (j_check j) c = true -> mhas (am_mask A) c = true ->
  mmatch (am_mask A) (job_required_mask j) = true ->
  dstep st1 (VDestroyNow tid a) = Ok (st2, out_t) ->
  drun mid st2 = Ok st3 -> proper_run mid st2 = true -> no_run_d jn mid -> not_destroyed b mid -> 0 < cap ->
  vstep st3 (VRun jn par tov wk cap) = Ok (st4, out_) ->
  handed out_ b.
Proof. exact C07_relocated_pop. Qed.
Print Assumptions C07_history_relocated.

Theorem C07_history_relocated_from_invariant :
  forall st1 tid (a b : handle) ai A out_t st2 mid st3 jn par tov wk cap st4 out_ c j,
  VInvD st1 -> (wv (fst st1) + N.of_nat (length mid) + 2 < WV_NULL)%N ->
  relocates (fst st1) a b ai A ->
  nth_error (snd st1) jn = Some j -> c < MASK_BITS -> mhas (j_check j) c = true -> mhas (am_mask A) c = true ->
  mmatch (am_mask A) (job_required_mask j) = true ->
  dstep st1 (VDestroyNow tid a) = Ok (st2, out_t) ->
  drun mid st2 = Ok st3 -> proper_run mid st2 = true -> no_run_d jn mid -> not_destroyed b mid -> 0 < cap ->
  vstep st3 (VRun jn par tov wk cap) = Ok (st4, out_) ->
  handed out_ b.
Proof. exact C07_relocated_core. Qed.
Print Assumptions C07_history_relocated_from_invariant.

(* ---- (4) C07 (mutable access / markDirty) over the extended alphabet ---- *)
(* as C07_history, but `pre` and `mid` range over the extended alphabet: between the modification of h and the run of jn
   other entities may be destroyed (h may change its position by relocations, any number of times) and created; h itself
   is not destroyed in `mid` (not_destroyed h mid: no VDestroyNow h occurs in it) *)
Theorem C07_history_with_destruction :
  forall n cis setup s0 js pre st1 o out_t st2 mid st3 jn par tov wk cap st4 out_ h c ai idx a ci j,
  population n cis setup s0 -> fresh_jobs js ->
  (N.of_nat (length pre) + N.of_nat (length mid) + 2 < WV_NULL)%N ->
  proper_run pre (s0, js) = true -> drun pre (s0, js) = Ok st1 ->
  is_touch o h c -> touch (fst st1) h c ai idx a ci ->
  nth_error (snd st1) jn = Some j -> c < MASK_BITS -> mhas (j_check j) c = true ->
  mmatch (am_mask a) (job_required_mask j) = true ->
  vstep st1 o = Ok (st2, out_t) ->
  drun mid st2 = Ok st3 -> proper_run mid st2 = true -> no_run_d jn mid -> not_destroyed h mid -> 0 < cap ->
  vstep st3 (VRun jn par tov wk cap) = Ok (st4, out_) ->
  handed out_ h.
Proof. exact C07_touched_pop. Qed.
Print Assumptions C07_history_with_destruction.

Theorem C07_history_with_destruction_from_invariant :
  forall st1 o out_t st2 mid st3 jn par tov wk cap st4 out_ h c ai idx a ci j,
  VInvD st1 -> (wv (fst st1) + N.of_nat (length mid) + 2 < WV_NULL)%N ->
  is_touch o h c -> touch (fst st1) h c ai idx a ci ->
  nth_error (snd st1) jn = Some j -> c < MASK_BITS -> mhas (j_check j) c = true ->
  mmatch (am_mask a) (job_required_mask j) = true ->
  vstep st1 o = Ok (st2, out_t) ->
  drun mid st2 = Ok st3 -> proper_run mid st2 = true -> no_run_d jn mid -> not_destroyed h mid -> 0 < cap ->
  vstep st3 (VRun jn par tov wk cap) = Ok (st4, out_) ->
  handed out_ h.
Proof. exact C07_touched_core. Qed.
Print Assumptions C07_history_with_destruction_from_invariant.

(* the tracking lemma behind (3) and (4): `carries s b ai m c W` -- b is a member of archetype ai (mask m) and the stamp of
   (version chunk of b's position, component c) is at least W -- survives every proper script that does not destroy b *)
Theorem C07_stamp_follows_entity : forall b ai m c W jn ops st st',
  VInvD st -> (wv (fst st) + N.of_nat (length ops) < WV_NULL)%N -> proper_run ops st = true -> c < MASK_BITS ->
  drun ops st = Ok st' -> not_destroyed b ops -> no_run_d jn ops -> carries (fst st) b ai m c W ->
  carries (fst st') b ai m c W /\ nth_error (snd st') jn = nth_error (snd st) jn.
Proof. exact carries_run. Qed.
Print Assumptions C07_stamp_follows_entity.

(* ---- (5) C07 for created entities over the extended alphabet (fresh or recycled slot) ---- *)
Theorem C07_history_created_with_destruction :
  forall n cis setup s0 js pre st1 tid m sids via st2 h mid st3 jn par tov wk cap st4 out_ j c,
  population n cis setup s0 -> fresh_jobs js ->
  (N.of_nat (length pre) + N.of_nat (length mid) + 2 < WV_NULL)%N ->
  proper_run pre (s0, js) = true -> drun pre (s0, js) = Ok st1 ->
  nth_error (snd st1) jn = Some j ->
  vstep st1 (VCreate tid m sids via) = Ok (st2, RHandle h) ->
  (forall ai a idx, nth_error (archs (fst st2)) ai = Some a -> nth_error (am_ents a) idx = Some h ->
     mhas (am_mask a) c = true /\ mmatch (am_mask a) (job_required_mask j) = true) ->
  c < MASK_BITS -> mhas (j_check j) c = true ->
  drun mid st2 = Ok st3 -> proper_run mid st2 = true -> no_run_d jn mid -> not_destroyed h mid -> 0 < cap ->
  vstep st3 (VRun jn par tov wk cap) = Ok (st4, out_) ->
  handed out_ h.
Proof. exact C07_created_pop. Qed.
Print Assumptions C07_history_created_with_destruction.

(* ---- non-vacuity: concrete histories with destruction ---- *)
Ltac vm_conj := repeat (match goal with |- _ /\ _ => split; [vm_compute; reflexivity|] end); vm_compute; reflexivity.
(* the population of the examples above (five entities {0,1} in one archetype, version chunks of 2; job 0 writes 0 and
   reads+checks 1); update(); run of job 0 (everything); update() *)
Definition pre_exd : list vopd := map VOld pre_ex.
Definition st1d_ex : vstate := get_res (drun pre_exd (s0_ex, jobs_ex)) vst_dummy.
(* destroyNow of the FIRST entity: the last one, (4,0), moves into slot 0 *)
Definition st2d_ex : vstate := fst (get_res (dstep st1d_ex (VDestroyNow 0 (0, 0)%N)) (vst_dummy, RNone)).
Definition midd_ex : list vopd := [VOld (VUpdate false); VOld (VRun 2 true 0 3 16); VOld (VUpdate true)].
Definition st3d_ex : vstate := get_res (drun midd_ex st2d_ex) vst_dummy.

Lemma VInvD_pair st : VInvD st -> VInvD (fst st, snd st).
Proof. destruct st. exact (fun H => H). Qed.

Lemma VInvD_st1d_ex : VInvD st1d_ex.
Proof.
  destruct population_ex as (Hp & Hj).
  refine (proj1 (C07_history_invariants_with_destruction 4 cis2 setup_ex s0_ex jobs_ex pre_exd st1d_ex Hp Hj _ _ _)); vm_compute; reflexivity.
Qed.

Example C07_history_invariants_with_destruction_example :
  population 4 cis2 setup_ex s0_ex /\ fresh_jobs jobs_ex /\
  (N.of_nat (length (pre_exd ++ VDestroyNow 0 (0, 0)%N :: midd_ex)) < WV_NULL)%N /\
  proper_run (pre_exd ++ VDestroyNow 0 (0, 0)%N :: midd_ex) (s0_ex, jobs_ex) = true /\
  drun (pre_exd ++ VDestroyNow 0 (0, 0)%N :: midd_ex) (s0_ex, jobs_ex) = Ok st3d_ex /\
  wv (fst st3d_ex) = 5%N /\ empty_slots (fst st3d_ex) = 1 /\ next_slot (fst st3d_ex) = 0%N.
Proof.
  split; [apply population_ex|]. split; [apply population_ex|]. vm_conj.
Qed.

(* the relocation: job 0 (last run at version 1) is handed version chunk 0, where (4,0) now sits next to (1,0); the version
   chunk the last one left (chunk 2) is stamped too but holds no entity any more; chunk 1 is not handed over *)
Example C07_history_relocated_example :
  exists out_t st4 out_ A j,
  population 4 cis2 setup_ex s0_ex /\ fresh_jobs jobs_ex /\
  (N.of_nat (length pre_exd) + N.of_nat (length midd_ex) + 2 < WV_NULL)%N /\
  proper_run pre_exd (s0_ex, jobs_ex) = true /\ drun pre_exd (s0_ex, jobs_ex) = Ok st1d_ex /\
  relocates (fst st1d_ex) (0, 0)%N (4, 0)%N 0 A /\
  nth_error (snd st1d_ex) 0 = Some j /\ 1 < MASK_BITS /\ mhas (j_check j) 1 = true /\ mhas (am_mask A) 1 = true /\
  mmatch (am_mask A) (job_required_mask j) = true /\
  dstep st1d_ex (VDestroyNow 0 (0, 0)%N) = Ok (st2d_ex, out_t) /\
  drun midd_ex st2d_ex = Ok st3d_ex /\ proper_run midd_ex st2d_ex = true /\ no_run_d 0 midd_ex /\ not_destroyed (4, 0)%N midd_ex /\ 0 < 16 /\
  vstep st3d_ex (VRun 0 true 0 3 16) = Ok (st4, out_) /\
  handles_of out_ = [(4, 0); (1, 0)]%N /\
  map (fun a => (am_ents a, am_gver a, am_cver a)) (archs (fst st1d_ex)) =
    [([(0, 0); (1, 0); (2, 0); (3, 0); (4, 0)], [1; 0], [1; 0; 1; 0; 1; 0])]%N /\
  map (fun a => (am_ents a, am_gver a, am_cver a)) (archs (fst st2d_ex)) =
    [([(4, 0); (1, 0); (2, 0); (3, 0)], [3; 3], [3; 3; 1; 0; 3; 3])]%N.
Proof.
  eexists. eexists. eexists. eexists. eexists.
  split; [apply population_ex|]. split; [apply population_ex|]. split; [vm_compute; reflexivity|].
  split; [vm_compute; reflexivity|]. split; [vm_compute; reflexivity|].
  split.
  { split; [vm_compute; reflexivity|]. split; [eexists; split; [vm_compute; reflexivity|reflexivity]|].
    split; [vm_compute; reflexivity|]. split; [vm_compute; reflexivity|discriminate]. }
  split; [vm_compute; reflexivity|]. split; [unfold MASK_BITS; lia|]. split; [vm_compute; reflexivity|].
  split; [vm_compute; reflexivity|]. split; [vm_compute; reflexivity|]. split; [vm_compute; reflexivity|].
  split; [vm_compute; reflexivity|]. split; [vm_compute; reflexivity|].
  split; [repeat constructor; discriminate|]. split; [repeat constructor|]. split; [lia|].
  split; [vm_compute; reflexivity|]. split; [vm_compute; reflexivity|]. split; vm_compute; reflexivity.
Qed.

(* six entities: the last one, (5,0), leaves version chunk 2 where (4,0) stays behind: job 0 is handed chunk 0 -- (5,0) and
   (1,0) -- AND the chunk the last one left -- (4,0) *)
Definition setup6_ex : list op := setup_ex ++ [OCreate 0 3%N [] false].
Definition s06_ex : mst := get_res (setup_run (init 4 cis2) setup6_ex) (init 0 []).
Definition st16_ex : vstate := get_res (drun pre_exd (s06_ex, jobs_ex)) vst_dummy.
Definition st26_ex : vstate := fst (get_res (dstep st16_ex (VDestroyNow 0 (0, 0)%N)) (vst_dummy, RNone)).

Lemma population6_ex : population 4 cis2 setup6_ex s06_ex.
Proof. split; [repeat constructor|vm_compute; reflexivity]. Qed.

Lemma VInvD_st16_ex : VInvD st16_ex.
Proof.
  refine (proj1 (C07_history_invariants_with_destruction 4 cis2 setup6_ex s06_ex jobs_ex pre_exd st16_ex population6_ex (proj2 population_ex) _ _ _));
    vm_compute; reflexivity.
Qed.

Example C07_destroy_relocates_example :
  exists out_t A st4 out_,
  VInvD (fst st16_ex, snd st16_ex) /\ relocates (fst st16_ex) (0, 0)%N (5, 0)%N 0 A /\ cindex (am_mask A) 1 = Some 1 /\ 1 < MASK_BITS /\
  dstep (fst st16_ex, snd st16_ex) (VDestroyNow 0 (0, 0)%N) = Ok (st26_ex, out_t) /\
  map (fun a => (am_ents a, am_gver a, am_cver a)) (archs (fst st26_ex)) =
    [([(5, 0); (1, 0); (2, 0); (3, 0); (4, 0)], [3; 3], [3; 3; 1; 0; 3; 3])]%N /\
  vstep st26_ex (VRun 0 true 0 3 16) = Ok (st4, out_) /\ handles_of out_ = [(5, 0); (1, 0); (4, 0)]%N.
Proof.
  eexists. eexists. eexists. eexists.
  split; [apply VInvD_pair, VInvD_st16_ex|].
  split.
  { split; [vm_compute; reflexivity|]. split; [eexists; split; [vm_compute; reflexivity|reflexivity]|].
    split; [vm_compute; reflexivity|]. split; [vm_compute; reflexivity|discriminate]. }
  split; [vm_compute; reflexivity|]. split; [unfold MASK_BITS; lia|]. split; [vm_compute; reflexivity|].
  split; [vm_compute; reflexivity|]. split; vm_compute; reflexivity.
Qed.

(* the same history, from the invariant *)
Example C07_history_relocated_from_invariant_example :
  exists out_t st4 out_ A j,
  VInvD st1d_ex /\ (wv (fst st1d_ex) + N.of_nat (length midd_ex) + 2 < WV_NULL)%N /\
  relocates (fst st1d_ex) (0, 0)%N (4, 0)%N 0 A /\
  nth_error (snd st1d_ex) 0 = Some j /\ 1 < MASK_BITS /\ mhas (j_check j) 1 = true /\ mhas (am_mask A) 1 = true /\
  mmatch (am_mask A) (job_required_mask j) = true /\
  dstep st1d_ex (VDestroyNow 0 (0, 0)%N) = Ok (st2d_ex, out_t) /\
  drun midd_ex st2d_ex = Ok st3d_ex /\ proper_run midd_ex st2d_ex = true /\ no_run_d 0 midd_ex /\ not_destroyed (4, 0)%N midd_ex /\ 0 < 16 /\
  vstep st3d_ex (VRun 0 true 0 3 16) = Ok (st4, out_) /\ handles_of out_ = [(4, 0); (1, 0)]%N.
Proof.
  eexists. eexists. eexists. eexists. eexists.
  split; [exact VInvD_st1d_ex|]. split; [vm_compute; reflexivity|].
  split.
  { split; [vm_compute; reflexivity|]. split; [eexists; split; [vm_compute; reflexivity|reflexivity]|].
    split; [vm_compute; reflexivity|]. split; [vm_compute; reflexivity|discriminate]. }
  split; [vm_compute; reflexivity|]. split; [unfold MASK_BITS; lia|]. split; [vm_compute; reflexivity|].
  split; [vm_compute; reflexivity|]. split; [vm_compute; reflexivity|]. split; [vm_compute; reflexivity|].
  split; [vm_compute; reflexivity|]. split; [vm_compute; reflexivity|].
  split; [repeat constructor; discriminate|]. split; [repeat constructor|]. split; [lia|].
  split; vm_compute; reflexivity.
Qed.

(* hypotheses of the one-step theorems: destroyNow of the first entity in st1d_ex *)
Example C07_step_invariant_with_destruction_example :
  exists out_t,
  VInvD st1d_ex /\ (wv (fst st1d_ex) + 1 < WV_NULL)%N /\ properb (fst st1d_ex) (VDestroyNow 0 (0, 0)%N) = true /\
  dstep st1d_ex (VDestroyNow 0 (0, 0)%N) = Ok (st2d_ex, out_t) /\
  slots (fst st2d_ex) = [{| s_id := 1; s_ver := 1 |}; {| s_id := 1; s_ver := 0 |}; {| s_id := 2; s_ver := 0 |};
                         {| s_id := 3; s_ver := 0 |}; {| s_id := 4; s_ver := 0 |}]%N /\
  map (fun l => (l_arch l, l_idx l)) (locs (fst st2d_ex)) = [(None, 0); (Some 0, 1); (Some 0, 2); (Some 0, 3); (Some 0, 0)] /\
  next_slot (fst st2d_ex) = 0%N /\ empty_slots (fst st2d_ex) = 1.
Proof.
  eexists. split; [exact VInvD_st1d_ex|]. vm_conj.
Qed.

Example C07_destroy_effect_example :
  exists s' out_,
  VInvD (fst st1d_ex, snd st1d_ex) /\ properb (fst st1d_ex) (VDestroyNow 0 (0, 0)%N) = true /\
  step (fst st1d_ex) (ODestroyNow 0 (0, 0)%N) = Ok (s', out_) /\ s' = fst st2d_ex /\
  (* a handle that is not valid: nothing happens *)
  properb (fst st2d_ex) (VDestroyNow 0 (0, 0)%N) = true /\
  step (fst st2d_ex) (ODestroyNow 0 (0, 0)%N) = Ok (fst st2d_ex, RNone) /\
  (* the handle (0,1) passes isEntityValid although id 0 is on the free list: destroyNow on it is NOT proper *)
  is_valid (fst st2d_ex) (0, 1)%N = true /\ properb (fst st2d_ex) (VDestroyNow 0 (0, 1)%N) = false.
Proof.
  eexists. eexists. split; [apply VInvD_pair, VInvD_st1d_ex|]. split; [vm_compute; reflexivity|].
  split; [vm_compute; reflexivity|]. vm_conj.
Qed.

(* ... and what the improper call does: id 0 is released twice, the free list (next_slot 0, 2 free slots) loops on slot 0,
   and two createEntity calls both return id 0 -- the second while the first entity is alive *)
Example C07_improper_destroy_corrupts_free_list :
  exists s1 s2 s3,
  step (fst st2d_ex) (ODestroyNow 0 (0, 1)%N) = Ok (s1, RNone) /\ empty_slots s1 = 2 /\ next_slot s1 = 0%N /\
  nth_error (slots s1) 0 = Some {| s_id := 0; s_ver := 2 |}%N /\
  step s1 (OCreate 0 3%N [] false) = Ok (s2, RHandle (0, 2)%N) /\
  step s2 (OCreate 0 3%N [] false) = Ok (s3, RHandle (0, 2)%N).
Proof. eexists. eexists. eexists. vm_conj. Qed.

Example C07_arch_remove_effect_example :
  exists a s',
  nth_error (archs (fst st1d_ex)) 0 = Some a /\ am_size a = length (am_ents a) /\
  arch_remove (fst st1d_ex) 0 0 (0, 0)%N 0%N = Ok s' /\
  map (fun a => (am_ents a, am_gver a, am_cver a)) (archs s') = [([(4, 0); (1, 0); (2, 0); (3, 0)], [3; 3], [3; 3; 1; 0; 3; 3])]%N.
Proof. eexists. eexists. split; [vm_compute; reflexivity|]. vm_conj. Qed.

(* createEntity after the destruction: the slot of id 0 is recycled, the entity (0,1) is appended at position 4, whose
   version chunk 2 -- the stale one -- is stamped *)
Lemma VInvD_st2d_ex : VInvD st2d_ex.
Proof.
  destruct population_ex as (Hp & Hj).
  refine (proj1 (C07_history_invariants_with_destruction 4 cis2 setup_ex s0_ex jobs_ex (pre_exd ++ [VDestroyNow 0 (0, 0)%N]) st2d_ex Hp Hj _ _ _));
    vm_compute; reflexivity.
Qed.

Example C07_create_effect_with_destruction_example :
  exists s',
  VInvD (fst st2d_ex, snd st2d_ex) /\ step (fst st2d_ex) (OCreate 0 3%N [] false) = Ok (s', RHandle (0, 1)%N) /\
  map (fun a => (am_ents a, am_gver a, am_cver a)) (archs s') =
    [([(4, 0); (1, 0); (2, 0); (3, 0); (0, 1)], [3; 3], [3; 3; 1; 0; 3; 3])]%N /\ empty_slots s' = 0.
Proof. eexists. split; [apply VInvD_pair, VInvD_st2d_ex|]. vm_conj. Qed.

Example C07_run_handed_char_with_destruction_example :
  exists st' out_,
  VInvD (fst st2d_ex, snd st2d_ex) /\ 0 < 16 /\
  vstep (fst st2d_ex, snd st2d_ex) (VRun 0 true 0 3 16) = Ok (st', out_) /\ handles_of out_ = [(4, 0); (1, 0)]%N.
Proof. eexists. eexists. split; [apply VInvD_pair, VInvD_st2d_ex|]. split; [lia|]. split; vm_compute; reflexivity. Qed.

(* the stamp follows the entity: (4,0) carries the stamp 3 of component 1 through the script *)
Example C07_stamp_follows_entity_example :
  VInvD st2d_ex /\ (wv (fst st2d_ex) + N.of_nat (length midd_ex) < WV_NULL)%N /\ proper_run midd_ex st2d_ex = true /\ 1 < MASK_BITS /\
  drun midd_ex st2d_ex = Ok st3d_ex /\ not_destroyed (4, 0)%N midd_ex /\ no_run_d 0 midd_ex /\
  carries (fst st2d_ex) (4, 0)%N 0 3%N 1 3%N.
Proof.
  split; [exact VInvD_st2d_ex|]. split; [vm_compute; reflexivity|]. split; [vm_compute; reflexivity|]. split; [unfold MASK_BITS; lia|].
  split; [vm_compute; reflexivity|]. split; [repeat constructor|]. split; [repeat constructor; discriminate|].
  eexists. exists 0, 1. split; [vm_compute; reflexivity|]. split; [vm_compute; reflexivity|]. split; [vm_compute; reflexivity|].
  split; [vm_compute; reflexivity|]. vm_compute. discriminate.
Qed.

(* write access to component 1 of the LAST entity (4,0) (version chunk 2)  |  destroyNow of the first entity: (4,0) is
   relocated to slot 0; manager update; destroyNow (2,0): (3,0) is relocated; createEntity into the recycled slot of id 2;
   destroyNow of a handle that is not valid; world update  |  run of job 0: it is handed (4,0) (and the others: every
   version chunk was stamped by the removals and the arrival) *)
Definition st2t_ex : vstate := fst (get_res (vstep st1d_ex (VGetMut (4, 0)%N 1 (Some 7%Z))) (vst_dummy, RNone)).
Definition midt_ex : list vopd :=
  [VDestroyNow 0 (0, 0)%N; VOld (VUpdate false); VDestroyNow 0 (2, 0)%N; VOld (VCreate 0 3%N [] false); VDestroyNow 0 (9, 9)%N;
   VOld (VUpdate true)].
Definition st3t_ex : vstate := get_res (drun midt_ex st2t_ex) vst_dummy.

Example C07_history_with_destruction_example :
  exists out_t st4 out_ a j,
  population 4 cis2 setup_ex s0_ex /\ fresh_jobs jobs_ex /\
  (N.of_nat (length pre_exd) + N.of_nat (length midt_ex) + 2 < WV_NULL)%N /\
  proper_run pre_exd (s0_ex, jobs_ex) = true /\ drun pre_exd (s0_ex, jobs_ex) = Ok st1d_ex /\
  is_touch (VGetMut (4, 0)%N 1 (Some 7%Z)) (4, 0)%N 1 /\ touch (fst st1d_ex) (4, 0)%N 1 0 4 a 1 /\
  nth_error (snd st1d_ex) 0 = Some j /\ 1 < MASK_BITS /\ mhas (j_check j) 1 = true /\
  mmatch (am_mask a) (job_required_mask j) = true /\
  vstep st1d_ex (VGetMut (4, 0)%N 1 (Some 7%Z)) = Ok (st2t_ex, out_t) /\
  drun midt_ex st2t_ex = Ok st3t_ex /\ proper_run midt_ex st2t_ex = true /\ no_run_d 0 midt_ex /\ not_destroyed (4, 0)%N midt_ex /\ 0 < 16 /\
  vstep st3t_ex (VRun 0 true 0 3 16) = Ok (st4, out_) /\
  handles_of out_ = [(4, 0); (1, 0); (3, 0); (2, 1)]%N /\
  map (fun a => (am_ents a, am_cver a)) (archs (fst st3t_ex)) = [([(4, 0); (1, 0); (3, 0); (2, 1)], [3; 3; 3; 3])]%N.
Proof.
  eexists. eexists. eexists. eexists. eexists.
  split; [apply population_ex|]. split; [apply population_ex|]. split; [vm_compute; reflexivity|].
  split; [vm_compute; reflexivity|]. split; [vm_compute; reflexivity|]. split; [left; eexists; reflexivity|].
  split.
  { split; [vm_compute; reflexivity|]. split; [eexists; split; [vm_compute; reflexivity|split; reflexivity]|].
    split; [vm_compute; reflexivity|vm_compute; reflexivity]. }
  split; [vm_compute; reflexivity|]. split; [unfold MASK_BITS; lia|]. split; [vm_compute; reflexivity|].
  split; [vm_compute; reflexivity|]. split; [vm_compute; reflexivity|]. split; [vm_compute; reflexivity|].
  split; [vm_compute; reflexivity|]. split; [repeat constructor|].
  split; [repeat constructor; discriminate|]. split; [lia|].
  split; [vm_compute; reflexivity|]. split; vm_compute; reflexivity.
Qed.

Example C07_history_with_destruction_from_invariant_example :
  exists out_t st4 out_ a j,
  VInvD st1d_ex /\ (wv (fst st1d_ex) + N.of_nat (length midt_ex) + 2 < WV_NULL)%N /\
  is_touch (VGetMut (4, 0)%N 1 (Some 7%Z)) (4, 0)%N 1 /\ touch (fst st1d_ex) (4, 0)%N 1 0 4 a 1 /\
  nth_error (snd st1d_ex) 0 = Some j /\ 1 < MASK_BITS /\ mhas (j_check j) 1 = true /\
  mmatch (am_mask a) (job_required_mask j) = true /\
  vstep st1d_ex (VGetMut (4, 0)%N 1 (Some 7%Z)) = Ok (st2t_ex, out_t) /\
  drun midt_ex st2t_ex = Ok st3t_ex /\ proper_run midt_ex st2t_ex = true /\ no_run_d 0 midt_ex /\ not_destroyed (4, 0)%N midt_ex /\ 0 < 16 /\
  vstep st3t_ex (VRun 0 true 0 3 16) = Ok (st4, out_).
Proof.
  eexists. eexists. eexists. eexists. eexists.
  split; [exact VInvD_st1d_ex|]. split; [vm_compute; reflexivity|]. split; [left; eexists; reflexivity|].
  split.
  { split; [vm_compute; reflexivity|]. split; [eexists; split; [vm_compute; reflexivity|split; reflexivity]|].
    split; [vm_compute; reflexivity|vm_compute; reflexivity]. }
  split; [vm_compute; reflexivity|]. split; [unfold MASK_BITS; lia|]. split; [vm_compute; reflexivity|].
  split; [vm_compute; reflexivity|]. split; [vm_compute; reflexivity|]. split; [vm_compute; reflexivity|].
  split; [vm_compute; reflexivity|]. split; [repeat constructor|].
  split; [repeat constructor; discriminate|]. split; [lia|]. vm_compute; reflexivity.
Qed.

(* entity (1,0) is destroyed; createEntity returns (1,1) -- the recycled slot --, appended behind (3,0); update; job 0 runs
   and is handed the new entity (with the version chunks stamped by the removal) *)
Definition prec_exd : list vopd := pre_exd ++ [VDestroyNow 0 (1, 0)%N].
Definition st1c_exd : vstate := get_res (drun prec_exd (s0_ex, jobs_ex)) vst_dummy.
Definition st2c_exd : vstate := fst (get_res (vstep st1c_exd (VCreate 0 3%N [] false)) (vst_dummy, RNone)).
Definition st3c_exd : vstate := get_res (drun [VOld (VUpdate true)] st2c_exd) vst_dummy.

Example C07_history_created_with_destruction_example :
  exists st4 out_ j,
  population 4 cis2 setup_ex s0_ex /\ fresh_jobs jobs_ex /\
  (N.of_nat (length prec_exd) + N.of_nat (length [VOld (VUpdate true)]) + 2 < WV_NULL)%N /\
  proper_run prec_exd (s0_ex, jobs_ex) = true /\ drun prec_exd (s0_ex, jobs_ex) = Ok st1c_exd /\
  nth_error (snd st1c_exd) 0 = Some j /\
  vstep st1c_exd (VCreate 0 3%N [] false) = Ok (st2c_exd, RHandle (1, 1)%N) /\
  (forall ai a idx, nth_error (archs (fst st2c_exd)) ai = Some a -> nth_error (am_ents a) idx = Some (1, 1)%N ->
     mhas (am_mask a) 1 = true /\ mmatch (am_mask a) (job_required_mask j) = true) /\
  1 < MASK_BITS /\ mhas (j_check j) 1 = true /\
  drun [VOld (VUpdate true)] st2c_exd = Ok st3c_exd /\ proper_run [VOld (VUpdate true)] st2c_exd = true /\
  no_run_d 0 [VOld (VUpdate true)] /\ not_destroyed (1, 1)%N [VOld (VUpdate true)] /\ 0 < 16 /\
  vstep st3c_exd (VRun 0 false 0 0 16) = Ok (st4, out_) /\ handles_of out_ = [(0, 0); (4, 0); (1, 1)]%N.
Proof.
  eexists. eexists. eexists.
  split; [apply population_ex|]. split; [apply population_ex|]. split; [vm_compute; reflexivity|].
  split; [vm_compute; reflexivity|]. split; [vm_compute; reflexivity|]. split; [vm_compute; reflexivity|].
  split; [vm_compute; reflexivity|].
  split.
  { let x := eval vm_compute in (archs (fst st2c_exd)) in replace (archs (fst st2c_exd)) with x by (vm_compute; reflexivity).
    intros ai a idx Ha _. destruct ai as [|n]; [|destruct n; discriminate].
    inversion Ha; subst a. split; vm_compute; reflexivity. }
  split; [unfold MASK_BITS; lia|]. split; [vm_compute; reflexivity|]. split; [vm_compute; reflexivity|].
  split; [vm_compute; reflexivity|]. split; [repeat constructor|]. split; [repeat constructor|]. split; [lia|].
  split; vm_compute; reflexivity.
Qed.

(* ==================================================================================================================== *)
(* HISTORY LEVEL WITH ARCHETYPE MOVES (proofs/VersionMoveArch.v, VersionMoveStep.v, VersionMoveHist.v).  Alphabet `vopm` =
   VD o (every operation o of the alphabet above: update, accesses, job runs, unlocked creation, destroyNow), and
   VAssign tid h c v typed / VRemove tid h c typed (Manager.OAssign / ORemove while unlocked: assign<C>(e [, args]),
   removeComponent<C>(e) / removeComponent(e, id)).  `mstep` is one operation, `mrun` a script.

   What a move does (EntityManager::assign / removeComponent -> getArchetype -> Archetype::externalMove, archetype.cpp):
   the entity is appended to the target archetype (pushBack: the version chunk it lands in is stamped with the LIVE world
   version in every component of the target, every global stamp of the target becomes that version, stale version chunks
   behind the population are cut off; getArchetype may have just made the target), its cells are moved / constructed, it
   leaves the previous archetype by Archetype::remove (the `removal` of the third part: the last member is relocated into
   the hole, both version chunks stamped), its location becomes the new slot.  World version, its cached copy and the jobs
   are left alone.

   PROPER scripts (proper_mrun): in addition to the condition on destroyNow, every VAssign is applied to a valid handle
   and every VRemove to a valid handle unless it is the typed call (removeComponent<C>, which tests validity itself):
   assign and removeComponent(e, id) read the location table without testing the handle, so on a stale handle of a
   recycled id they would move the entity that owns the id now and record the stale handle in the target archetype.
   Dependencies and shared components are NOT excluded (getArchetype enters only through: the target exists or is
   appended empty).  Not covered: clear, locked (deferred) structural calls, the entity builder. *)

(* ---- (1) the invariant of every proper run ---- *)
Theorem C07_history_invariants_with_moves : forall n cis setup s0 js ops st,
  population n cis setup s0 -> fresh_jobs js -> (N.of_nat (length ops) < WV_NULL)%N ->
  proper_mrun ops (s0, js) = true -> mrun ops (s0, js) = Ok st ->
  VInvD st /\ (wv (fst st) <= N.of_nat (length ops))%N.
Proof. exact history_invariants_m. Qed.
Print Assumptions C07_history_invariants_with_moves.

(* one operation: VAssign / VRemove leave the world version, its cached copy and the jobs alone (wv_effect_m); for the
   other operations wv_effect_d as above *)
Theorem C07_step_invariant_with_moves : forall st o st' out_,
  VInvD st -> (wv (fst st) + 1 < WV_NULL)%N -> properm (fst st) o = true -> mstep st o = Ok (st', out_) ->
  VInvD st' /\ wv_effect_m st o st' out_.
Proof. exact mstep_inv. Qed.
Print Assumptions C07_step_invariant_with_moves.

(* ---- (2) the exact effect of one move on populations, stamps and locations ---- *)
(* move_effect s s' h ai (VersionMoveStep.v): h, located at position pidx of archetype prev (= pa) in s, is in s' the LAST
   member of archetype ai <> prev; prev underwent `removal pa pa' pidx (wv s)`; the target underwent
   `arrival (target before, None if new) a2 h (wv s)`: h appended, every component stamp of the version chunk of h's
   position is wv s, every other member keeps its position and the stamps of its version chunk do not decrease (aframe);
   the location of h is (ai, last position); every archetype other than prev and ai is unchanged *)
Theorem C07_assign_effect : forall s js tid (h : handle) c v typed s' out_,
  VInvD (s, js) -> is_valid s h = true -> step s (OAssign tid h c v typed) = Ok (s', out_) ->
  VInvD (s', js) /\ wv s' = wv s /\ cached s' = cached s /\ exists ai, move_effect s s' h ai.
Proof. exact assign_m. Qed.
Print Assumptions C07_assign_effect.

(* removeComponent: nothing happens (handle not valid, entity without archetype, component absent, or -- with dependencies --
   the closed mask is the old one), or the entity is moved *)
Theorem C07_remove_effect : forall s js tid (h : handle) c typed s' out_,
  VInvD (s, js) -> is_valid s h = true \/ typed = true -> step s (ORemove tid h c typed) = Ok (s', out_) ->
  VInvD (s', js) /\ wv s' = wv s /\ cached s' = cached s /\
  (s' = s \/ (is_valid s h = true /\ exists ai, move_effect s s' h ai)).
Proof. exact remove_m. Qed.
Print Assumptions C07_remove_effect.

(* Archetype::externalMove in isolation, with its version stamps and the location table: a1 is the target after the ONE
   emplace of pushBack, a2 the target in the final state (a1 with the entity appended, up to cells); pa -> pa' as in
   C07_arch_remove_effect *)
Theorem C07_external_move_effect : forall s ai (h : handle) prev pidx skip s' a pa,
  nth_error (archs s) ai = Some a -> nth_error (archs s) prev = Some pa -> am_size pa = length (am_ents pa) ->
  external_move s ai h prev pidx skip = Ok s' ->
  ai <> prev /\ exists a1 a2 pa' pent last l3,
    vs_emplace a (wv s) (length (am_ents a)) = Ok a1 /\
    ab1 a2 = ab1 (with_size (with_ents a1 (am_ents a1 ++ [h])) (Nat.max (am_size a1) (S (length (am_ents a))))) /\
    nth_error (am_ents pa) pidx = Some pent /\
    fr2 s' = fr2 s /\ archs s' = upd (upd (archs s) ai a2) prev pa' /\
    length (am_ents pa) = S last /\ am_mask pa' = am_mask pa /\ am_chunk pa' = am_chunk pa /\ am_size pa' = last /\ 0 < am_chunk pa /\
    restamped pa pa' (wv s) (fun ch => ch = last / am_chunk pa \/ ch = pidx / am_chunk pa) /\
    ((pidx = last /\ am_ents pa' = removelast (am_ents pa) /\
      N.to_nat (fst pent) < length (locs s) /\ l3 = upd (locs s) (N.to_nat (fst pent)) default_loc)
     \/
     (pidx <> last /\ exists src dst, nth_error (am_ents pa) last = Some src /\ nth_error (am_ents pa) pidx = Some dst /\
        am_ents pa' = removelast (upd (am_ents pa) pidx src) /\
        N.to_nat (fst dst) < length (locs s) /\ N.to_nat (fst src) < length (locs s) /\
        l3 = upd (upd (locs s) (N.to_nat (fst dst)) default_loc) (N.to_nat (fst src)) {| l_arch := Some prev; l_idx := pidx |})) /\
    N.to_nat (fst h) < length l3 /\
    locs s' = upd l3 (N.to_nat (fst h)) {| l_arch := Some ai; l_idx := length (am_ents a) |}.
Proof. exact external_move_effect. Qed.
Print Assumptions C07_external_move_effect.

(* pushBack keeps the archetype invariant; the stamps after it *)
Theorem C07_push_back_effect : forall w a h a1 a2,
  arch_okd w a -> vs_emplace a w (length (am_ents a)) = Ok a1 ->
  ab1 a2 = ab1 (with_size (with_ents a1 (am_ents a1 ++ [h])) (Nat.max (am_size a1) (S (length (am_ents a))))) ->
  (arch_okd w a2 /\ am_ents a2 = am_ents a ++ [h]) /\ aframe a a2 /\
  am_mask a2 = am_mask a /\ am_chunk a2 = am_chunk a /\ 0 < am_chunk a /\ length (am_gver a2) = length (am_gver a) /\
  am_gver a2 = map (fun _ => w) (am_gver a) /\
  length (am_cver a2) = length (am_gver a) * S (length (am_ents a) / am_chunk a) /\
  (forall i, i < length (am_gver a) -> nth (length (am_gver a) * (length (am_ents a) / am_chunk a) + i) (am_cver a2) 0%N = w) /\
  (forall ch i, ch < length (am_ents a) / am_chunk a -> i < length (am_gver a) ->
     nth (length (am_gver a) * ch + i) (am_cver a2) 0%N = nth (length (am_gver a) * ch + i) (am_cver a) 0%N) /\
  (forall ch i, length (am_ents a) / am_chunk a < ch -> nth (length (am_gver a) * ch + i) (am_cver a2) 0%N = 0%N).
Proof.
  intros w a h a1 a2 H1 H2 H3.
  exact (conj (pushed_okd w a h a1 a2 H1 H2 H3) (conj (pushed_aframe w a h a1 a2 H1 H2 H3) (pushed_stamps w a h a1 a2 H1 H2 H3))).
Qed.
Print Assumptions C07_push_back_effect.

(* ---- (3) C07: moved between archetypes ---- *)
(* moved_into s s' h ai A: after the step h is located in archetype ai (= A); before the step it was not.
   The move itself: the invariant holds afterwards, the jobs and the world version are untouched, h is the last member of
   A and every component stamp of its version chunk is the world version (carries ... (wv s)) *)
Theorem C07_move_arrives : forall s js o st2 out_t (h : handle) ai A c ci,
  VInvD (s, js) -> is_move o h -> properm s o = true -> mstep (s, js) o = Ok (st2, out_t) -> moved_into s (fst st2) h ai A ->
  cindex (am_mask A) c = Some ci -> c < MASK_BITS ->
  VInvD st2 /\ snd st2 = js /\ wv (fst st2) = wv s /\ move_effect s (fst st2) h ai /\
  carries (fst st2) h ai (am_mask A) c (wv s) /\ nth_error (am_ents A) (length (am_ents A) - 1) = Some h.
Proof. exact move_arrives. Qed.
Print Assumptions C07_move_arrives.

(* population, then any proper script `pre` over the extended alphabet; in the state reached entity h is moved into archetype
   ai (= A) by assign or removeComponent; then any proper script `mid` over the extended alphabet without a run of job jn
   in which h is not destroyed and not moved again (untouched h mid: no VDestroyNow / VAssign / VRemove on h occurs in
   it) -- other entities may be moved into and out of A, destroyed and created, h may be relocated by that any number of
   times --; then jn runs (c in its check mask, c a component of A, A matching its required mask): it is handed h. *)
Theorem C07_history_moved :
  forall n cis setup s0 js pre st1 o out_t st2 mid st3 jn par tov wk cap st4 out_ (h : handle) ai A c j,
  population n cis setup s0 -> fresh_jobs js ->
  (N.of_nat (length pre) + N.of_nat (length mid) + 2 < WV_NULL)%N ->
  proper_mrun pre (s0, js) = true -> mrun pre (s0, js) = Ok st1 ->
  is_move o h -> properm (fst st1) o = true -> mstep st1 o = Ok (st2, out_t) -> moved_into (fst st1) (fst st2) h ai A ->
  nth_error (snd st1) jn = Some j -> c < MASK_BITS -> mhas (j_check j) c = true -> mhas (am_mask A) c = true ->
  mmatch (am_mask A) (job_required_mask j) = true ->
  mrun mid st2 = Ok st3 -> proper_mrun mid st2 = true -> no_run_m jn mid -> untouched h mid -> 0 < cap ->
  vstep st3 (VRun jn par tov wk cap) = Ok (st4, out_) ->
  handed out_ h.
Proof. exact C07_moved_pop. Qed.
Print Assumptions C07_history_moved.

Theorem C07_history_moved_from_invariant :
  forall st1 o out_t st2 mid st3 jn par tov wk cap st4 out_ (h : handle) ai A c j,
  VInvD st1 -> (wv (fst st1) + N.of_nat (length mid) + 2 < WV_NULL)%N ->
  is_move o h -> properm (fst st1) o = true -> mstep st1 o = Ok (st2, out_t) -> moved_into (fst st1) (fst st2) h ai A ->
  nth_error (snd st1) jn = Some j -> c < MASK_BITS -> mhas (j_check j) c = true -> mhas (am_mask A) c = true ->
  mmatch (am_mask A) (job_required_mask j) = true ->
  mrun mid st2 = Ok st3 -> proper_mrun mid st2 = true -> no_run_m jn mid -> untouched h mid -> 0 < cap ->
  vstep st3 (VRun jn par tov wk cap) = Ok (st4, out_) ->
  handed out_ h.
Proof. exact C07_moved_core. Qed.
Print Assumptions C07_history_moved_from_invariant.

(* ---- (4) C07 (mutable access / markDirty) over the alphabet with moves ---- *)
(* as C07_history_with_destruction, but `pre` and `mid` range over the alphabet with moves: between the modification of h and
   the run of jn other entities may be moved into h's archetype (appended behind it) and out of it (h may be relocated by
   the swap-remove, any number of times), destroyed and created; h itself stays in its archetype (untouched h mid) *)
Theorem C07_history_with_moves :
  forall n cis setup s0 js pre st1 o out_t st2 mid st3 jn par tov wk cap st4 out_ h c ai idx a ci j,
  population n cis setup s0 -> fresh_jobs js ->
  (N.of_nat (length pre) + N.of_nat (length mid) + 2 < WV_NULL)%N ->
  proper_mrun pre (s0, js) = true -> mrun pre (s0, js) = Ok st1 ->
  is_touch o h c -> touch (fst st1) h c ai idx a ci ->
  nth_error (snd st1) jn = Some j -> c < MASK_BITS -> mhas (j_check j) c = true ->
  mmatch (am_mask a) (job_required_mask j) = true ->
  vstep st1 o = Ok (st2, out_t) ->
  mrun mid st2 = Ok st3 -> proper_mrun mid st2 = true -> no_run_m jn mid -> untouched h mid -> 0 < cap ->
  vstep st3 (VRun jn par tov wk cap) = Ok (st4, out_) ->
  handed out_ h.
Proof. exact C07_touched_m_pop. Qed.
Print Assumptions C07_history_with_moves.

Theorem C07_history_with_moves_from_invariant :
  forall st1 o out_t st2 mid st3 jn par tov wk cap st4 out_ h c ai idx a ci j,
  VInvD st1 -> (wv (fst st1) + N.of_nat (length mid) + 2 < WV_NULL)%N ->
  is_touch o h c -> touch (fst st1) h c ai idx a ci ->
  nth_error (snd st1) jn = Some j -> c < MASK_BITS -> mhas (j_check j) c = true ->
  mmatch (am_mask a) (job_required_mask j) = true ->
  vstep st1 o = Ok (st2, out_t) ->
  mrun mid st2 = Ok st3 -> proper_mrun mid st2 = true -> no_run_m jn mid -> untouched h mid -> 0 < cap ->
  vstep st3 (VRun jn par tov wk cap) = Ok (st4, out_) ->
  handed out_ h.
Proof. exact C07_touched_m_core. Qed.
Print Assumptions C07_history_with_moves_from_invariant.

(* the tracking lemma behind (3) and (4): `carries s b ai m c W` survives every proper script over the alphabet with moves
   that leaves b alone *)
Theorem C07_stamp_follows_entity_with_moves : forall b ai m c W jn ops st st',
  VInvD st -> (wv (fst st) + N.of_nat (length ops) < WV_NULL)%N -> proper_mrun ops st = true -> c < MASK_BITS ->
  mrun ops st = Ok st' -> untouched b ops -> no_run_m jn ops -> carries (fst st) b ai m c W ->
  carries (fst st') b ai m c W /\ nth_error (snd st') jn = nth_error (snd st) jn.
Proof. exact carries_mrun. Qed.
Print Assumptions C07_stamp_follows_entity_with_moves.

(* one move of ANOTHER entity h <> b *)
Theorem C07_stamp_survives_move : forall s js s' (h : handle) ai_t b ai m c W,
  VInvD (s, js) -> c < MASK_BITS -> move_effect s s' h ai_t -> b <> h -> carries s b ai m c W -> carries s' b ai m c W.
Proof. exact carries_move. Qed.
Print Assumptions C07_stamp_survives_move.

(* ---- non-vacuity: concrete histories with moves ---- *)
(* two archetypes: {0} with entities 0 1 2 and {0,1} with entities 3 4; version chunks of 2; the jobs of the examples above
   (job 0 writes 0, reads and checks 1, requires both: it matches the second archetype only; job 2 reads 0);
   update(); run of job 0 (everything); update() *)
Definition setupm_ex : list op :=
  [OVerChunk 2; OCreate 0 1%N [] false; OCreate 0 1%N [] false; OCreate 0 1%N [] false; OCreate 0 3%N [] false; OCreate 0 3%N [] false].
Definition s0m_ex : mst := get_res (setup_run (init 4 cis2) setupm_ex) (init 0 []).
Definition pre_exm : list vopm := map VD pre_exd.
Definition st1m_ex : vstate := get_res (mrun pre_exm (s0m_ex, jobs_ex)) vst_dummy.
(* assign<component 1>(entity 0): it leaves {0} -- entity 2, the last one, moves into its slot -- and arrives behind 3 and 4 *)
Definition movm_ex : vopm := VAssign 0 (0, 0)%N 1 ADefault false.
Definition st2m_ex : vstate := fst (get_res (mstep st1m_ex movm_ex) (vst_dummy, RNone)).
(* manager update; removeComponent<1>(entity 3): it leaves {0,1}, and entity 0 -- the last one -- is relocated into slot 0;
   a run of job 2; assign<1>(entity 1, 5): it arrives behind 0 and 4; world update *)
Definition midm_ex : list vopm :=
  [VD (VOld (VUpdate false)); VRemove 0 (3, 0)%N 1 true; VD (VOld (VRun 2 true 0 3 16)); VAssign 0 (1, 0)%N 1 (AValue 5%Z) true;
   VD (VOld (VUpdate true))].
Definition st3m_ex : vstate := get_res (mrun midm_ex st2m_ex) vst_dummy.
Definition show_archs (st : vstate) := map (fun a => (am_mask a, am_ents a, am_gver a, am_cver a)) (archs (fst st)).
Definition show_locs (st : vstate) := map (fun l => (l_arch l, l_idx l)) (locs (fst st)).

Lemma populationm_ex : population 4 cis2 setupm_ex s0m_ex.
Proof. split; [repeat constructor|vm_compute; reflexivity]. Qed.

Lemma VInvD_st1m_ex : VInvD st1m_ex.
Proof.
  refine (proj1 (C07_history_invariants_with_moves 4 cis2 setupm_ex s0m_ex jobs_ex pre_exm st1m_ex populationm_ex (proj2 population_ex) _ _ _));
    vm_compute; reflexivity.
Qed.

Example C07_history_invariants_with_moves_example :
  population 4 cis2 setupm_ex s0m_ex /\ fresh_jobs jobs_ex /\
  (N.of_nat (length (pre_exm ++ movm_ex :: midm_ex)) < WV_NULL)%N /\
  proper_mrun (pre_exm ++ movm_ex :: midm_ex) (s0m_ex, jobs_ex) = true /\
  mrun (pre_exm ++ movm_ex :: midm_ex) (s0m_ex, jobs_ex) = Ok st3m_ex /\
  wv (fst st3m_ex) = 5%N /\
  show_archs st1m_ex = [(1, [(0, 0); (1, 0); (2, 0)], [0], [0; 0]); (3, [(3, 0); (4, 0)], [1; 0], [1; 0])]%N /\
  show_archs st2m_ex = [(1, [(2, 0); (1, 0)], [3], [3; 3]); (3, [(3, 0); (4, 0); (0, 0)], [3; 3], [1; 0; 3; 3])]%N /\
  show_archs st3m_ex = [(1, [(2, 0); (3, 0)], [4], [4; 4]); (3, [(0, 0); (4, 0); (1, 0)], [4; 4], [3; 3; 4; 4])]%N /\
  show_locs st3m_ex = [(Some 1, 0); (Some 1, 2); (Some 0, 0); (Some 0, 1); (Some 1, 1)].
Proof.
  split; [exact populationm_ex|]. split; [apply population_ex|]. vm_conj.
Qed.

Lemma is_move_movm_ex : is_move movm_ex (0, 0)%N.
Proof. left. do 4 eexists. reflexivity. Qed.

Lemma moved_into_ex : exists A, moved_into (fst st1m_ex) (fst st2m_ex) (0, 0)%N 1 A /\ am_mask A = 3%N.
Proof.
  eexists. split; [split; [|split]|].
  - eexists. split; [vm_compute; reflexivity|reflexivity].
  - intros l Hl. vm_compute in Hl. inversion Hl; subst l. cbn. discriminate.
  - vm_compute. reflexivity.
  - reflexivity.
Qed.

(* entity 0 is moved into {0,1} at position 2 (version chunk 1, stamped 3 in both components); job 0 (last run at version 1)
   is handed it after the script midm_ex, in which it is relocated to position 0 by the departure of entity 3 -- together
   with entities 4 and 1 (every version chunk of the archetype was stamped by the moves) *)
Example C07_history_moved_example :
  exists out_t st4 out_ A j,
  population 4 cis2 setupm_ex s0m_ex /\ fresh_jobs jobs_ex /\
  (N.of_nat (length pre_exm) + N.of_nat (length midm_ex) + 2 < WV_NULL)%N /\
  proper_mrun pre_exm (s0m_ex, jobs_ex) = true /\ mrun pre_exm (s0m_ex, jobs_ex) = Ok st1m_ex /\
  is_move movm_ex (0, 0)%N /\ properm (fst st1m_ex) movm_ex = true /\ mstep st1m_ex movm_ex = Ok (st2m_ex, out_t) /\
  moved_into (fst st1m_ex) (fst st2m_ex) (0, 0)%N 1 A /\
  nth_error (snd st1m_ex) 0 = Some j /\ 1 < MASK_BITS /\ mhas (j_check j) 1 = true /\ mhas (am_mask A) 1 = true /\
  mmatch (am_mask A) (job_required_mask j) = true /\
  mrun midm_ex st2m_ex = Ok st3m_ex /\ proper_mrun midm_ex st2m_ex = true /\ no_run_m 0 midm_ex /\ untouched (0, 0)%N midm_ex /\ 0 < 16 /\
  vstep st3m_ex (VRun 0 true 0 3 16) = Ok (st4, out_) /\
  handles_of out_ = [(0, 0); (4, 0); (1, 0)]%N /\ j_last j = 1%N.
Proof.
  destruct moved_into_ex as (A & HA & EA).
  eexists. eexists. eexists. exists A. eexists.
  split; [exact populationm_ex|]. split; [apply population_ex|]. split; [vm_compute; reflexivity|].
  split; [vm_compute; reflexivity|]. split; [vm_compute; reflexivity|]. split; [exact is_move_movm_ex|].
  split; [vm_compute; reflexivity|]. split; [vm_compute; reflexivity|]. split; [exact HA|].
  split; [vm_compute; reflexivity|]. split; [unfold MASK_BITS; lia|]. split; [vm_compute; reflexivity|].
  split; [rewrite EA; vm_compute; reflexivity|]. split; [rewrite EA; vm_compute; reflexivity|].
  split; [vm_compute; reflexivity|]. split; [vm_compute; reflexivity|].
  split; [repeat constructor; cbn; discriminate|]. split; [repeat constructor; cbn; discriminate|]. split; [lia|].
  split; [vm_compute; reflexivity|]. split; vm_compute; reflexivity.
Qed.

Example C07_history_moved_from_invariant_example :
  exists out_t st4 out_ A j,
  VInvD st1m_ex /\ (wv (fst st1m_ex) + N.of_nat (length midm_ex) + 2 < WV_NULL)%N /\
  is_move movm_ex (0, 0)%N /\ properm (fst st1m_ex) movm_ex = true /\ mstep st1m_ex movm_ex = Ok (st2m_ex, out_t) /\
  moved_into (fst st1m_ex) (fst st2m_ex) (0, 0)%N 1 A /\
  nth_error (snd st1m_ex) 0 = Some j /\ 1 < MASK_BITS /\ mhas (j_check j) 1 = true /\ mhas (am_mask A) 1 = true /\
  mmatch (am_mask A) (job_required_mask j) = true /\
  mrun midm_ex st2m_ex = Ok st3m_ex /\ proper_mrun midm_ex st2m_ex = true /\ no_run_m 0 midm_ex /\ untouched (0, 0)%N midm_ex /\ 0 < 16 /\
  vstep st3m_ex (VRun 0 true 0 3 16) = Ok (st4, out_).
Proof.
  destruct moved_into_ex as (A & HA & EA).
  eexists. eexists. eexists. exists A. eexists.
  split; [exact VInvD_st1m_ex|]. split; [vm_compute; reflexivity|]. split; [exact is_move_movm_ex|].
  split; [vm_compute; reflexivity|]. split; [vm_compute; reflexivity|]. split; [exact HA|].
  split; [vm_compute; reflexivity|]. split; [unfold MASK_BITS; lia|]. split; [vm_compute; reflexivity|].
  split; [rewrite EA; vm_compute; reflexivity|]. split; [rewrite EA; vm_compute; reflexivity|].
  split; [vm_compute; reflexivity|]. split; [vm_compute; reflexivity|].
  split; [repeat constructor; cbn; discriminate|]. split; [repeat constructor; cbn; discriminate|]. split; [lia|].
  vm_compute; reflexivity.
Qed.

(* the move itself *)
Example C07_move_arrives_example :
  exists out_t A,
  VInvD (fst st1m_ex, snd st1m_ex) /\ is_move movm_ex (0, 0)%N /\ properm (fst st1m_ex) movm_ex = true /\
  mstep (fst st1m_ex, snd st1m_ex) movm_ex = Ok (st2m_ex, out_t) /\ moved_into (fst st1m_ex) (fst st2m_ex) (0, 0)%N 1 A /\
  cindex (am_mask A) 1 = Some 1 /\ 1 < MASK_BITS /\
  show_locs st1m_ex = [(Some 0, 0); (Some 0, 1); (Some 0, 2); (Some 1, 0); (Some 1, 1)] /\
  show_locs st2m_ex = [(Some 1, 2); (Some 0, 1); (Some 0, 0); (Some 1, 0); (Some 1, 1)].
Proof.
  destruct moved_into_ex as (A & HA & EA).
  eexists. exists A. split; [apply VInvD_pair, VInvD_st1m_ex|]. split; [exact is_move_movm_ex|].
  split; [vm_compute; reflexivity|]. split; [vm_compute; reflexivity|]. split; [exact HA|].
  split; [rewrite EA; vm_compute; reflexivity|]. split; [unfold MASK_BITS; lia|]. split; vm_compute; reflexivity.
Qed.

Example C07_step_invariant_with_moves_example :
  exists out_t,
  VInvD st1m_ex /\ (wv (fst st1m_ex) + 1 < WV_NULL)%N /\ properm (fst st1m_ex) movm_ex = true /\
  mstep st1m_ex movm_ex = Ok (st2m_ex, out_t).
Proof. eexists. split; [exact VInvD_st1m_ex|]. vm_conj. Qed.

(* hypotheses of the one-step theorems; removeComponent<0>(entity 3) makes getArchetype create the archetype {1}: the
   entity arrives as its only member (version chunk 0 stamped), entity 4 is relocated to slot 0 of {0,1} *)
Example C07_assign_remove_effect_example :
  (exists s' out_, VInvD (fst st1m_ex, snd st1m_ex) /\ is_valid (fst st1m_ex) (0, 0)%N = true /\
     step (fst st1m_ex) (OAssign 0 (0, 0)%N 1 ADefault false) = Ok (s', out_) /\ s' = fst st2m_ex) /\
  (exists s' out_, VInvD (fst st1m_ex, snd st1m_ex) /\ (is_valid (fst st1m_ex) (3, 0)%N = true \/ true = true) /\
     step (fst st1m_ex) (ORemove 0 (3, 0)%N 0 true) = Ok (s', out_) /\
     map (fun a => (am_mask a, am_ents a, am_gver a, am_cver a)) (archs s') =
       [(1, [(0, 0); (1, 0); (2, 0)], [0], [0; 0]); (3, [(4, 0)], [3; 3], [3; 3]); (2, [(3, 0)], [3], [3])]%N) /\
  (* removeComponent of a component the entity does not have, and the typed call on a handle that is not valid: nothing *)
  step (fst st1m_ex) (ORemove 0 (0, 0)%N 1 false) = Ok (fst st1m_ex, RNone) /\
  step (fst st1m_ex) (ORemove 0 (9, 9)%N 1 true) = Ok (fst st1m_ex, RNone).
Proof.
  split; [eexists; eexists; split; [apply VInvD_pair, VInvD_st1m_ex|vm_conj]|].
  split; [eexists; eexists; split; [apply VInvD_pair, VInvD_st1m_ex|split; [left; vm_compute; reflexivity|vm_conj]]|]. vm_conj.
Qed.

Example C07_external_move_effect_example :
  exists a pa s',
  nth_error (archs (fst st1m_ex)) 1 = Some a /\ nth_error (archs (fst st1m_ex)) 0 = Some pa /\ am_size pa = length (am_ents pa) /\
  external_move (fst st1m_ex) 1 (0, 0)%N 0 0 0%N = Ok s' /\
  map (fun a => (am_mask a, am_ents a, am_gver a, am_cver a)) (archs s') =
    [(1, [(2, 0); (1, 0)], [3], [3; 3]); (3, [(3, 0); (4, 0); (0, 0)], [3; 3], [1; 0; 3; 3])]%N.
Proof. eexists. eexists. eexists. vm_conj. Qed.

Example C07_push_back_effect_example :
  exists a a1 a2,
  nth_error (archs (fst st1m_ex)) 1 = Some a /\ arch_okd (wv (fst st1m_ex)) a /\
  vs_emplace a (wv (fst st1m_ex)) (length (am_ents a)) = Ok a1 /\
  ab1 a2 = ab1 (with_size (with_ents a1 (am_ents a1 ++ [(0, 0)%N])) (Nat.max (am_size a1) (S (length (am_ents a))))) /\
  wv (fst st1m_ex) = 3%N /\ am_gver a2 = [3; 3]%N /\ am_cver a2 = [1; 0; 3; 3]%N /\ am_ents a2 = [(3, 0); (4, 0); (0, 0)]%N.
Proof.
  assert (Ha : exists a, nth_error (archs (fst st1m_ex)) 1 = Some a) by (eexists; vm_compute; reflexivity).
  destruct Ha as (a & Ha). exists a.
  pose proof (Forall_nth_error _ _ _ _ (vd_archs _ VInvD_st1m_ex) Ha) as Hok.
  assert (Ea : Some a = nth_error (archs (fst st1m_ex)) 1) by (symmetry; exact Ha). vm_compute in Ea. inversion Ea; subst a; clear Ea.
  eexists. eexists. split; [exact Ha|]. split; [exact Hok|]. split; [vm_compute; reflexivity|]. split; [reflexivity|].
  split; [vm_compute; reflexivity|]. split; [reflexivity|]. split; reflexivity.
Qed.

(* write access to component 1 of entity 4 (slot 1 of {0,1}, version chunk 0)  |  removeComponent(entity 3, 1): entity 4 is
   relocated to slot 0; manager update; assign<1>(entity 0): it arrives behind entity 4; destroyNow(entity 1); world update
   |  run of job 0: it is handed entity 4 (and entity 0) *)
Definition st2mt_ex : vstate := fst (get_res (vstep st1m_ex (VGetMut (4, 0)%N 1 (Some 7%Z))) (vst_dummy, RNone)).
Definition midmt_ex : list vopm :=
  [VRemove 0 (3, 0)%N 1 false; VD (VOld (VUpdate false)); VAssign 0 (0, 0)%N 1 ADefault false; VD (VDestroyNow 0 (1, 0)%N);
   VD (VOld (VUpdate true))].
Definition st3mt_ex : vstate := get_res (mrun midmt_ex st2mt_ex) vst_dummy.

Example C07_history_with_moves_example :
  exists out_t st4 out_ a j,
  population 4 cis2 setupm_ex s0m_ex /\ fresh_jobs jobs_ex /\
  (N.of_nat (length pre_exm) + N.of_nat (length midmt_ex) + 2 < WV_NULL)%N /\
  proper_mrun pre_exm (s0m_ex, jobs_ex) = true /\ mrun pre_exm (s0m_ex, jobs_ex) = Ok st1m_ex /\
  is_touch (VGetMut (4, 0)%N 1 (Some 7%Z)) (4, 0)%N 1 /\ touch (fst st1m_ex) (4, 0)%N 1 1 1 a 1 /\
  nth_error (snd st1m_ex) 0 = Some j /\ 1 < MASK_BITS /\ mhas (j_check j) 1 = true /\
  mmatch (am_mask a) (job_required_mask j) = true /\
  vstep st1m_ex (VGetMut (4, 0)%N 1 (Some 7%Z)) = Ok (st2mt_ex, out_t) /\
  mrun midmt_ex st2mt_ex = Ok st3mt_ex /\ proper_mrun midmt_ex st2mt_ex = true /\ no_run_m 0 midmt_ex /\ untouched (4, 0)%N midmt_ex /\ 0 < 16 /\
  vstep st3mt_ex (VRun 0 true 0 3 16) = Ok (st4, out_) /\
  handles_of out_ = [(4, 0); (0, 0)]%N /\
  show_archs st2mt_ex = [(1, [(0, 0); (1, 0); (2, 0)], [0], [0; 0]); (3, [(3, 0); (4, 0)], [1; 3], [1; 3])]%N /\
  show_archs st3mt_ex = [(1, [(3, 0); (2, 0)], [3], [3; 3]); (3, [(4, 0); (0, 0)], [3; 3], [3; 3])]%N.
Proof.
  eexists. eexists. eexists. eexists. eexists.
  split; [exact populationm_ex|]. split; [apply population_ex|]. split; [vm_compute; reflexivity|].
  split; [vm_compute; reflexivity|]. split; [vm_compute; reflexivity|]. split; [left; eexists; reflexivity|].
  split.
  { split; [vm_compute; reflexivity|]. split; [eexists; split; [vm_compute; reflexivity|split; reflexivity]|].
    split; [vm_compute; reflexivity|vm_compute; reflexivity]. }
  split; [vm_compute; reflexivity|]. split; [unfold MASK_BITS; lia|]. split; [vm_compute; reflexivity|].
  split; [vm_compute; reflexivity|]. split; [vm_compute; reflexivity|]. split; [vm_compute; reflexivity|].
  split; [vm_compute; reflexivity|]. split; [repeat constructor; cbn; discriminate|].
  split; [repeat constructor; cbn; discriminate|]. split; [lia|].
  split; [vm_compute; reflexivity|]. split; [vm_compute; reflexivity|]. split; vm_compute; reflexivity.
Qed.

Example C07_history_with_moves_from_invariant_example :
  exists out_t st4 out_ a j,
  VInvD st1m_ex /\ (wv (fst st1m_ex) + N.of_nat (length midmt_ex) + 2 < WV_NULL)%N /\
  is_touch (VGetMut (4, 0)%N 1 (Some 7%Z)) (4, 0)%N 1 /\ touch (fst st1m_ex) (4, 0)%N 1 1 1 a 1 /\
  nth_error (snd st1m_ex) 0 = Some j /\ 1 < MASK_BITS /\ mhas (j_check j) 1 = true /\
  mmatch (am_mask a) (job_required_mask j) = true /\
  vstep st1m_ex (VGetMut (4, 0)%N 1 (Some 7%Z)) = Ok (st2mt_ex, out_t) /\
  mrun midmt_ex st2mt_ex = Ok st3mt_ex /\ proper_mrun midmt_ex st2mt_ex = true /\ no_run_m 0 midmt_ex /\ untouched (4, 0)%N midmt_ex /\ 0 < 16 /\
  vstep st3mt_ex (VRun 0 true 0 3 16) = Ok (st4, out_).
Proof.
  eexists. eexists. eexists. eexists. eexists.
  split; [exact VInvD_st1m_ex|]. split; [vm_compute; reflexivity|]. split; [left; eexists; reflexivity|].
  split.
  { split; [vm_compute; reflexivity|]. split; [eexists; split; [vm_compute; reflexivity|split; reflexivity]|].
    split; [vm_compute; reflexivity|vm_compute; reflexivity]. }
  split; [vm_compute; reflexivity|]. split; [unfold MASK_BITS; lia|]. split; [vm_compute; reflexivity|].
  split; [vm_compute; reflexivity|]. split; [vm_compute; reflexivity|]. split; [vm_compute; reflexivity|].
  split; [vm_compute; reflexivity|]. split; [repeat constructor; cbn; discriminate|].
  split; [repeat constructor; cbn; discriminate|]. split; [lia|]. vm_compute; reflexivity.
Qed.

(* the stamp follows the entity: entity 4 carries the stamp 3 of component 1 through the script midmt_ex; one move of another
   entity (removeComponent(entity 3, 1)) on the way *)
Lemma VInvD_st2mt_ex : VInvD st2mt_ex.
Proof.
  refine (proj1 (C07_history_invariants_with_moves 4 cis2 setupm_ex s0m_ex jobs_ex
            (pre_exm ++ [VD (VOld (VGetMut (4, 0)%N 1 (Some 7%Z)))]) st2mt_ex populationm_ex (proj2 population_ex) _ _ _));
    vm_compute; reflexivity.
Qed.

Example C07_stamp_follows_entity_with_moves_example :
  VInvD st2mt_ex /\ (wv (fst st2mt_ex) + N.of_nat (length midmt_ex) < WV_NULL)%N /\ proper_mrun midmt_ex st2mt_ex = true /\ 1 < MASK_BITS /\
  mrun midmt_ex st2mt_ex = Ok st3mt_ex /\ untouched (4, 0)%N midmt_ex /\ no_run_m 0 midmt_ex /\
  carries (fst st2mt_ex) (4, 0)%N 1 3%N 1 3%N.
Proof.
  split; [exact VInvD_st2mt_ex|]. split; [vm_compute; reflexivity|]. split; [vm_compute; reflexivity|]. split; [unfold MASK_BITS; lia|].
  split; [vm_compute; reflexivity|]. split; [repeat constructor; cbn; discriminate|]. split; [repeat constructor; cbn; discriminate|].
  eexists. exists 1, 1. split; [vm_compute; reflexivity|]. split; [vm_compute; reflexivity|]. split; [vm_compute; reflexivity|].
  split; [vm_compute; reflexivity|]. vm_compute. discriminate.
Qed.

Definition s_rm_ex : mst := fst (get_res (step (fst st2mt_ex) (ORemove 0 (3, 0)%N 1 false)) (init 0 [], RNone)).

Example C07_stamp_survives_move_example :
  exists ai_t,
  VInvD (fst st2mt_ex, snd st2mt_ex) /\ 1 < MASK_BITS /\
  step (fst st2mt_ex) (ORemove 0 (3, 0)%N 1 false) = Ok (s_rm_ex, RNone) /\
  move_effect (fst st2mt_ex) s_rm_ex (3, 0)%N ai_t /\ (4, 0)%N <> (3, 0)%N /\
  carries (fst st2mt_ex) (4, 0)%N 1 3%N 1 3%N /\
  map (fun a => (am_mask a, am_ents a, am_gver a, am_cver a)) (archs s_rm_ex) =
    [(1, [(0, 0); (1, 0); (2, 0); (3, 0)], [3], [0; 3]); (3, [(4, 0)], [3; 3], [3; 3])]%N.
Proof.
  assert (Hstep : step (fst st2mt_ex) (ORemove 0 (3, 0)%N 1 false) = Ok (s_rm_ex, RNone)) by (vm_compute; reflexivity).
  assert (Hv : is_valid (fst st2mt_ex) (3, 0)%N = true) by (vm_compute; reflexivity).
  destruct (C07_remove_effect _ _ _ _ _ _ _ _ (VInvD_pair _ VInvD_st2mt_ex) (or_introl Hv) Hstep) as (_ & _ & _ & [E|(_ & ai_t & Heff)]).
  { exfalso. apply (f_equal (fun s => map (fun a => length (am_ents a)) (archs s))) in E. vm_compute in E. discriminate. }
  exists ai_t. split; [apply VInvD_pair, VInvD_st2mt_ex|]. split; [unfold MASK_BITS; lia|]. split; [exact Hstep|].
  split; [exact Heff|]. split; [discriminate|]. split.
  - eexists. exists 1, 1. split; [vm_compute; reflexivity|]. split; [vm_compute; reflexivity|]. split; [vm_compute; reflexivity|].
    split; [vm_compute; reflexivity|]. vm_compute. discriminate.
  - vm_compute. reflexivity.
Qed.
