(* C07 -- a version-filtered job never misses a component that was modified. Statements only; proofs in proofs/VersionProofs.v.
   Model: Manager.v (version stamps am_gver/am_cver, vs_set_chunk, vs_emplace, vs_set_one, check_and_set, filter_chunks,
   job_filter) and Iter.v (filter_blocks).
   What is proved here, for all inputs: the specification of the per-row check-and-stamp; that the per-chunk decisions are
   independent; that a stamp newer than the job's last version in a checked component of a chunk makes the filter hand
   every entity position of that chunk to the job (through the global test as well, given the invariant gver_bounds that
   the stamping primitives establish); that the stamping primitives write the version they are given.
   What is NOT proved here: the history-level statement (all interleavings of update(), job runs and accesses), which
   needs in addition that the version handed to the stamping primitives is newer than the last version of every job that
   ran before. C07_write_detected_iff shows that this is exactly what is needed: a write stamped v is seen iff last < v. *)
Require Import Coq.Lists.List Coq.NArith.NArith Coq.ZArith.ZArith Coq.Arith.Arith Coq.micromega.Lia.
From Mustache Require Import Res Iter Manager Palette.
From Mustache.proofs Require Import VersionProofs.
Import ListNotations.

(* ---- (1) check_and_set: flag, stamped positions, everything else ---- *)
Theorem C07_check_and_set_spec : forall vers base check set_ last cur,
  let r := check_and_set vers base check set_ last cur in
  (snd r = true <-> last = WV_NULL \/ check = [] \/ exists i, In i check /\ (last < nth (base + i) vers 0)%N) /\
  length (fst r) = length vers /\
  (snd r = true -> forall p d,
     ((exists i, In i set_ /\ p = base + i) -> p < length vers -> nth p (fst r) d = cur) /\
     ((forall i, In i set_ -> p <> base + i) -> nth p (fst r) d = nth p vers d)) /\
  (snd r = false -> fst r = vers).
Proof. exact check_and_set_spec. Qed.
Print Assumptions C07_check_and_set_spec.

(* ---- (3) one archetype: a newer stamp of a checked component in chunk c flags chunk c ---- *)
Theorem C07_chunk_no_miss : forall nc check set_ last cur todo chunk cv c i,
  lt_all nc check -> lt_all nc set_ -> chunk <= c < chunk + todo ->
  In i check -> (last < nth (nc * c + i) cv 0)%N ->
  nth (c - chunk) (snd (filter_chunks nc check set_ last cur chunk todo cv)) false = true.
Proof. exact filter_chunks_no_miss. Qed.
Print Assumptions C07_chunk_no_miss.

Example C07_chunk_no_miss_example :
  lt_all 2 [1] /\ lt_all 2 [0] /\ 0 <= 1 < 0 + 3 /\ In 1 [1] /\ (0 < nth (2 * 1 + 1) [0; 0; 0; 1; 0; 0] 0)%N /\
  snd (filter_chunks 2 [1] [0] 0 2 0 3 [0; 0; 0; 1; 0; 0]%N) = [false; true; false].
Proof.
  split; [repeat constructor|]. split; [repeat constructor|]. split; [lia|]. split; [left; reflexivity|].
  split; reflexivity.
Qed.

(* ... and the archetype is not skipped by the global test, when every chunk stamp is bounded by the global stamp *)
Theorem C07_global_no_skip : forall a check set_ last cur c i,
  gver_bounds a -> lt_all (length (am_gver a)) check -> In i check ->
  (last < nth (length (am_gver a) * c + i) (am_cver a) 0)%N ->
  snd (check_and_set (am_gver a) 0 check set_ last cur) = true.
Proof. exact global_test_no_skip. Qed.
Print Assumptions C07_global_no_skip.

(* gver_bounds is needed: with a global stamp behind a chunk stamp the archetype is skipped although chunk 0 is newer *)
Example C07_global_skip_without_bounds :
  (3 < nth 0 [5] 0)%N /\ snd (check_and_set [0%N] 0 [0] [] 3 9) = false.
Proof. split; reflexivity. Qed.

(* ---- the whole filter ---- *)
(* the records of archetype ai in the result select exactly the positions whose chunk is flagged (and the global test
   passed); processed is defined on the INPUT state's stamps only *)
Theorem C07_job_filter_char : forall s j s1 fas ai a,
  job_filter s j = Ok (s1, fas) ->
  nth_error (archs s) ai = Some a -> jmatch j a = true -> 0 < am_chunk a -> ver_wf a ->
  forall idx, (exists fa, In fa fas /\ fa_arch fa = ai /\ In idx (selected_of_blocks (fa_blocks fa))) <-> processed j a idx.
Proof. exact job_filter_char. Qed.
Print Assumptions C07_job_filter_char.

(* no miss: entity position idx of a matching archetype, some checked component stamped newer than the job's last version
   in idx's version chunk  ==>  the filter hands idx to the job *)
Theorem C07_job_filter_no_miss : forall s j s1 fas ai a idx i,
  job_filter s j = Ok (s1, fas) ->
  nth_error (archs s) ai = Some a -> jmatch j a = true -> 0 < am_chunk a -> ver_wf a -> gver_bounds a ->
  idx < length (am_ents a) -> In i (jcheck j a) ->
  (j_last j < nth (length (am_gver a) * (idx / am_chunk a) + i) (am_cver a) 0)%N ->
  exists fa, In fa fas /\ fa_arch fa = ai /\ In idx (selected_of_blocks (fa_blocks fa)).
Proof. exact job_filter_no_miss. Qed.
Print Assumptions C07_job_filter_no_miss.

(* a job that never ran, or that checks no component of the archetype, is handed every position *)
Theorem C07_job_filter_first_run : forall s j s1 fas ai a idx,
  job_filter s j = Ok (s1, fas) ->
  nth_error (archs s) ai = Some a -> jmatch j a = true -> 0 < am_chunk a -> ver_wf a ->
  j_last j = WV_NULL \/ jcheck j a = [] -> idx < length (am_ents a) ->
  exists fa, In fa fas /\ fa_arch fa = ai /\ In idx (selected_of_blocks (fa_blocks fa)).
Proof. exact job_filter_first_run. Qed.
Print Assumptions C07_job_filter_first_run.

(* non-vacuity on a reachable state: five entities with components {0,1}, version chunks of 2, update(), a write access
   to component 1 of entity 3, update(); a job writing component 0, reading and checking component 1, last run at 0 *)
Definition run_ops (n : nat) (cis : list cinfo) (ops : list op) : res mst :=
  fold_res (fun s o => do r <- step s o; Ok (fst r)) ops (init n cis).
Definition cis2 : list cinfo := [pal_info 0 0; pal_info 2 0].
Definition ops_ex : list op :=
  [OVerChunk 2; OCreate 0 3%N [] false; OCreate 0 3%N [] false; OCreate 0 3%N [] false; OCreate 0 3%N [] false;
   OCreate 0 3%N [] false; OUpdate true; OGetMut (3, 0)%N 1 (Some 7%Z); OUpdate true].
Definition s_ex : mst := match run_ops 4 cis2 ops_ex with Ok s => s | Err _ => init 0 [] end.
Definition j_ex (last : N) : job := {| j_reqs := [(0, false, true); (1, true, true)]; j_check := 2%N; j_last := last |}.

Example C07_job_filter_no_miss_example :
  exists s1 fas a,
  job_filter s_ex (j_ex 0) = Ok (s1, fas) /\
  nth_error (archs s_ex) 0 = Some a /\ jmatch (j_ex 0) a = true /\ 0 < am_chunk a /\ ver_wf a /\ gver_bounds a /\
  3 < length (am_ents a) /\ In 1 (jcheck (j_ex 0) a) /\
  (j_last (j_ex 0) < nth (length (am_gver a) * (3 / am_chunk a) + 1) (am_cver a) 0)%N /\
  map (fun fa => (fa_arch fa, fa_blocks fa)) fas = [(0, [(2, 4)])].
Proof.
  eexists. eexists. eexists. split; [vm_compute; reflexivity|]. split; [vm_compute; reflexivity|].
  split; [vm_compute; reflexivity|]. split; [vm_compute; lia|]. split; [vm_compute; reflexivity|].
  split.
  - unfold gver_bounds. cbn [am_gver am_cver length]. intros c i Hi.
    destruct (Nat.lt_ge_cases c 3) as [Hc|Hc].
    + destruct c as [|[|[|c]]]; [| | |lia]; (destruct i as [|[|i]]; [| |lia]); vm_compute; discriminate.
    + rewrite nth_overflow by (cbn [length]; lia). apply N.le_0_l.
  - split; [vm_compute; lia|]. split; [vm_compute; left; reflexivity|]. split; vm_compute; reflexivity.
Qed.

(* the same state, a job that never ran: everything is handed over *)
Example C07_job_filter_first_run_example :
  exists s1 fas, job_filter s_ex (j_ex WV_NULL) = Ok (s1, fas) /\ map (fun fa => (fa_arch fa, fa_blocks fa)) fas = [(0, [(0, 5)])].
Proof. eexists. eexists. split; vm_compute; reflexivity. Qed.

(* ---- (5) the stamping primitives write the version they are given ---- *)
Theorem C07_vs_set_chunk_spec : forall a v c a',
  vs_set_chunk a v c = Ok a' ->
  let nc := length (am_gver a) in
  nc * c + nc <= length (am_cver a) /\
  am_gver a' = map (fun _ => v) (am_gver a) /\ length (am_cver a') = length (am_cver a) /\
  (forall i, i < nc -> nth i (am_gver a') 0%N = v) /\
  (forall i, i < nc -> nth (nc * c + i) (am_cver a') 0%N = v) /\
  (forall p, p < nc * c \/ nc * c + nc <= p -> nth p (am_cver a') 0%N = nth p (am_cver a) 0%N) /\
  am_mask a' = am_mask a /\ am_ents a' = am_ents a /\ am_chunk a' = am_chunk a /\ am_cols a' = am_cols a /\ am_size a' = am_size a.
Proof. exact vs_set_chunk_spec. Qed.
Print Assumptions C07_vs_set_chunk_spec.

(* emplace: the stamp vector is cut or grown so that the chunk of idx is its last chunk, then that chunk is set *)
Theorem C07_vs_emplace_spec : forall a v idx a',
  vs_emplace a v idx = Ok a' ->
  let nc := length (am_gver a) in
  exists c, chunk_at a idx = Ok c /\ nc * c <= length (am_cver a) /\
  am_gver a' = map (fun _ => v) (am_gver a) /\ length (am_cver a') = S c * nc /\
  (forall i, i < nc -> nth i (am_gver a') 0%N = v) /\
  (forall i, i < nc -> nth (nc * c + i) (am_cver a') 0%N = v) /\
  (forall p, p < nc * c -> nth p (am_cver a') 0%N = nth p (am_cver a) 0%N) /\
  am_mask a' = am_mask a /\ am_ents a' = am_ents a /\ am_chunk a' = am_chunk a /\ am_cols a' = am_cols a /\ am_size a' = am_size a.
Proof. exact vs_emplace_spec. Qed.
Print Assumptions C07_vs_emplace_spec.

(* mutable access / markDirty: one chunk stamp and the component's global stamp *)
Theorem C07_vs_set_one_spec : forall a v c ci a',
  vs_set_one a v c ci = Ok a' ->
  let nc := length (am_gver a) in
  ci < nc /\ nc * c + ci < length (am_cver a) /\
  am_gver a' = upd (am_gver a) ci v /\ am_cver a' = upd (am_cver a) (nc * c + ci) v /\
  nth ci (am_gver a') 0%N = v /\ nth (nc * c + ci) (am_cver a') 0%N = v /\
  (forall p, p <> nc * c + ci -> nth p (am_cver a') 0%N = nth p (am_cver a) 0%N) /\
  (forall i, i <> ci -> nth i (am_gver a') 0%N = nth i (am_gver a) 0%N).
Proof. exact vs_set_one_spec. Qed.
Print Assumptions C07_vs_set_one_spec.

(* the invariant of the global test is (re-)established by a stamp that is at least every chunk stamp present *)
Theorem C07_stamping_keeps_bounds :
  (forall a v c a', vs_set_chunk a v c = Ok a' -> Forall (fun x => (x <= v)%N) (am_cver a) ->
     gver_bounds a' /\ Forall (fun x => (x <= v)%N) (am_cver a')) /\
  (forall a v idx a', vs_emplace a v idx = Ok a' -> Forall (fun x => (x <= v)%N) (am_cver a) ->
     gver_bounds a' /\ Forall (fun x => (x <= v)%N) (am_cver a')) /\
  (forall a v c ci a', vs_set_one a v c ci = Ok a' -> gver_bounds a ->
     (forall k, (nth (length (am_gver a) * k + ci) (am_cver a) 0 <= v)%N) -> gver_bounds a').
Proof. split; [exact vs_set_chunk_bounds|split; [exact vs_emplace_bounds|exact vs_set_one_bounds]]. Qed.
Print Assumptions C07_stamping_keeps_bounds.

Definition a_small : archetype :=
  {| am_mask := 3%N; am_shared := si_null; am_ents := [(0, 0); (1, 0); (2, 0)]%N; am_cols := [[]; []];
     am_size := 3; am_chunk := 2; am_gver := [1; 1]%N; am_cver := [1; 0; 1; 1]%N |}.
Example C07_stamping_examples :
  (exists a', vs_set_chunk a_small 2 1 = Ok a' /\ am_gver a' = [2; 2]%N /\ am_cver a' = [1; 0; 2; 2]%N) /\
  (exists a', vs_emplace a_small 2 4 = Ok a' /\ am_gver a' = [2; 2]%N /\ am_cver a' = [1; 0; 1; 1; 2; 2]%N) /\
  (exists a', vs_emplace a_small 2 1 = Ok a' /\ am_gver a' = [2; 2]%N /\ am_cver a' = [2; 2]%N) /\
  (exists a', vs_set_one a_small 2 0 1 = Ok a' /\ am_gver a' = [1; 2]%N /\ am_cver a' = [1; 2; 1; 1]%N) /\
  Forall (fun x => (x <= 2)%N) (am_cver a_small).
Proof.
  repeat split; try (eexists; split; [vm_compute; reflexivity|split; reflexivity]).
  repeat constructor; vm_compute; discriminate.
Qed.

(* ---- the mechanism of C07: stamps overwrite, so a write is seen exactly when its stamp is newer than last ---- *)
Theorem C07_write_detected_iff : forall a v c ci a' set_ last cur,
  vs_set_one a v c ci = Ok a' ->
  snd (check_and_set (am_cver a') (length (am_gver a') * c) [ci] set_ last cur) = true <-> last = WV_NULL \/ (last < v)%N.
Proof. exact write_detected_iff. Qed.
Print Assumptions C07_write_detected_iff.

(* witness: a write access stamped with a version that is not newer than the job's last version (a stale cached world
   version) is invisible to the job -- the unconditional history-level C07 is false for such a stamping discipline *)
Example C07_stale_stamp_missed :
  exists a', vs_set_one a_small 1 0 1 = Ok a' /\
  snd (filter_chunks 2 [1] [] 1 5 0 2 (am_cver a')) = [false; false].
Proof. eexists. split; vm_compute; reflexivity. Qed.
