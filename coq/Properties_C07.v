(* C07 -- a version-filtered job never misses a component that was modified. Statements only; proofs in proofs/VersionProofs.v.
   Model: Manager.v (version stamps am_gver/am_cver, vs_set_chunk, vs_emplace, vs_set_one, check_and_set, filter_chunks,
   job_filter) and Iter.v (filter_blocks).
   What is proved here, for all inputs: the specification of the per-row check-and-stamp; that the per-chunk decisions are
   independent; that a stamp newer than the job's last version in a checked component of a chunk makes the filter hand
   every entity position of that chunk to the job (through the global test as well, given the invariant gver_bounds that
   the stamping primitives establish); that the stamping primitives write the version they are given.
   The history-level statement (all interleavings of update(), job runs, accesses and entity creation) is in the
   second half of this file (proofs in proofs/VersionHistory.v): it needs in addition that the version handed to the
   stamping primitives is newer than the last version of every job that ran before -- the model stamps with the live
   world version, and a job's last version is always strictly below it. C07_write_detected_iff shows that this is exactly
   what is needed: a write stamped v is seen iff last < v.  Still not proved: histories with destruction or moves. *)
Require Import Coq.Lists.List Coq.NArith.NArith Coq.ZArith.ZArith Coq.Arith.Arith Coq.micromega.Lia.
From Mustache Require Import Res Iter Manager Palette.
From Mustache.proofs Require Import VersionProofs IterCover VersionHistory.
Import ListNotations.

(* ---- (1) check_and_set: flag, stamped positions, everything else ---- *)
Theorem C07_check_and_set_spec : forall vers base check set_ last cur,
  let r := check_and_set vers base check set_ last cur in
  (snd r = true <-> last = WV_NULL \/ check = [] \/ exists i, In i check /\ (last < nth (base + i) vers 0)%N) /\
  length (fst r) = length vers /\
  (snd r = true -> forall p d,
     ((exists i, In i set_ /\ p = base + i) -> p < length vers -> nth p (fst r) d = cur) /\
     ((forall i, In i set_ -> p <> base + i) -> nth p (fst r) d = nth p vers d)) /\
  (snd r = false -> fst r = vers).
Proof. exact check_and_set_spec. Qed.
Print Assumptions C07_check_and_set_spec.

(* ---- (3) one archetype: a newer stamp of a checked component in chunk c flags chunk c ---- *)
Theorem C07_chunk_no_miss : forall nc check set_ last cur todo chunk cv c i,
  lt_all nc check -> lt_all nc set_ -> chunk <= c < chunk + todo ->
  In i check -> (last < nth (nc * c + i) cv 0)%N ->
  nth (c - chunk) (snd (filter_chunks nc check set_ last cur chunk todo cv)) false = true.
Proof. exact filter_chunks_no_miss. Qed.
Print Assumptions C07_chunk_no_miss.

Example C07_chunk_no_miss_example :
  lt_all 2 [1] /\ lt_all 2 [0] /\ 0 <= 1 < 0 + 3 /\ In 1 [1] /\ (0 < nth (2 * 1 + 1) [0; 0; 0; 1; 0; 0] 0)%N /\
  snd (filter_chunks 2 [1] [0] 0 2 0 3 [0; 0; 0; 1; 0; 0]%N) = [false; true; false].
Proof.
  split; [repeat constructor|]. split; [repeat constructor|]. split; [lia|]. split; [left; reflexivity|].
  split; reflexivity.
Qed.

(* ... and the archetype is not skipped by the global test, when every chunk stamp is bounded by the global stamp *)
Theorem C07_global_no_skip : forall a check set_ last cur c i,
  gver_bounds a -> lt_all (length (am_gver a)) check -> In i check ->
  (last < nth (length (am_gver a) * c + i) (am_cver a) 0)%N ->
  snd (check_and_set (am_gver a) 0 check set_ last cur) = true.
Proof. exact global_test_no_skip. Qed.
Print Assumptions C07_global_no_skip.

(* gver_bounds is needed: with a global stamp behind a chunk stamp the archetype is skipped although chunk 0 is newer *)
Example C07_global_skip_without_bounds :
  (3 < nth 0 [5] 0)%N /\ snd (check_and_set [0%N] 0 [0] [] 3 9) = false.
Proof. split; reflexivity. Qed.

(* ---- the whole filter ---- *)
(* the records of archetype ai in the result select exactly the positions whose chunk is flagged (and the global test
   passed); processed is defined on the INPUT state's stamps only *)
Theorem C07_job_filter_char : forall s j s1 fas ai a,
  job_filter s j = Ok (s1, fas) ->
  nth_error (archs s) ai = Some a -> jmatch j a = true -> 0 < am_chunk a -> ver_wf a ->
  forall idx, (exists fa, In fa fas /\ fa_arch fa = ai /\ In idx (selected_of_blocks (fa_blocks fa))) <-> processed j a idx.
Proof. exact job_filter_char. Qed.
Print Assumptions C07_job_filter_char.

(* no miss: entity position idx of a matching archetype, some checked component stamped newer than the job's last version
   in idx's version chunk  ==>  the filter hands idx to the job *)
Theorem C07_job_filter_no_miss : forall s j s1 fas ai a idx i,
  job_filter s j = Ok (s1, fas) ->
  nth_error (archs s) ai = Some a -> jmatch j a = true -> 0 < am_chunk a -> ver_wf a -> gver_bounds a ->
  idx < length (am_ents a) -> In i (jcheck j a) ->
  (j_last j < nth (length (am_gver a) * (idx / am_chunk a) + i) (am_cver a) 0)%N ->
  exists fa, In fa fas /\ fa_arch fa = ai /\ In idx (selected_of_blocks (fa_blocks fa)).
Proof. exact job_filter_no_miss. Qed.
Print Assumptions C07_job_filter_no_miss.

(* a job that never ran, or that checks no component of the archetype, is handed every position *)
Theorem C07_job_filter_first_run : forall s j s1 fas ai a idx,
  job_filter s j = Ok (s1, fas) ->
  nth_error (archs s) ai = Some a -> jmatch j a = true -> 0 < am_chunk a -> ver_wf a ->
  j_last j = WV_NULL \/ jcheck j a = [] -> idx < length (am_ents a) ->
  exists fa, In fa fas /\ fa_arch fa = ai /\ In idx (selected_of_blocks (fa_blocks fa)).
Proof. exact job_filter_first_run. Qed.
Print Assumptions C07_job_filter_first_run.

(* non-vacuity on a reachable state: five entities with components {0,1}, version chunks of 2, update(), a write access
   to component 1 of entity 3, update(); a job writing component 0, reading and checking component 1, last run at 0 *)
Definition run_ops (n : nat) (cis : list cinfo) (ops : list op) : res mst :=
  fold_res (fun s o => do r <- step s o; Ok (fst r)) ops (init n cis).
Definition cis2 : list cinfo := [pal_info 0 0; pal_info 2 0].
Definition ops_ex : list op :=
  [OVerChunk 2; OCreate 0 3%N [] false; OCreate 0 3%N [] false; OCreate 0 3%N [] false; OCreate 0 3%N [] false;
   OCreate 0 3%N [] false; OUpdate true; OGetMut (3, 0)%N 1 (Some 7%Z); OUpdate true].
Definition s_ex : mst := match run_ops 4 cis2 ops_ex with Ok s => s | Err _ => init 0 [] end.
Definition j_ex (last : N) : job := {| j_reqs := [(0, false, true); (1, true, true)]; j_check := 2%N; j_last := last |}.

Example C07_job_filter_no_miss_example :
  exists s1 fas a,
  job_filter s_ex (j_ex 0) = Ok (s1, fas) /\
  nth_error (archs s_ex) 0 = Some a /\ jmatch (j_ex 0) a = true /\ 0 < am_chunk a /\ ver_wf a /\ gver_bounds a /\
  3 < length (am_ents a) /\ In 1 (jcheck (j_ex 0) a) /\
  (j_last (j_ex 0) < nth (length (am_gver a) * (3 / am_chunk a) + 1) (am_cver a) 0)%N /\
  map (fun fa => (fa_arch fa, fa_blocks fa)) fas = [(0, [(2, 4)])].
Proof.
  eexists. eexists. eexists. split; [vm_compute; reflexivity|]. split; [vm_compute; reflexivity|].
  split; [vm_compute; reflexivity|]. split; [vm_compute; lia|]. split; [vm_compute; reflexivity|].
  split.
  - unfold gver_bounds. cbn [am_gver am_cver length]. intros c i Hi.
    destruct (Nat.lt_ge_cases c 3) as [Hc|Hc].
    + destruct c as [|[|[|c]]]; [| | |lia]; (destruct i as [|[|i]]; [| |lia]); vm_compute; discriminate.
    + rewrite nth_overflow by (cbn [length]; lia). apply N.le_0_l.
  - split; [vm_compute; lia|]. split; [vm_compute; left; reflexivity|]. split; vm_compute; reflexivity.
Qed.

(* the same state, a job that never ran: everything is handed over *)
Example C07_job_filter_first_run_example :
  exists s1 fas, job_filter s_ex (j_ex WV_NULL) = Ok (s1, fas) /\ map (fun fa => (fa_arch fa, fa_blocks fa)) fas = [(0, [(0, 5)])].
Proof. eexists. eexists. split; vm_compute; reflexivity. Qed.

(* ---- (5) the stamping primitives write the version they are given ---- *)
Theorem C07_vs_set_chunk_spec : forall a v c a',
  vs_set_chunk a v c = Ok a' ->
  let nc := length (am_gver a) in
  nc * c + nc <= length (am_cver a) /\
  am_gver a' = map (fun _ => v) (am_gver a) /\ length (am_cver a') = length (am_cver a) /\
  (forall i, i < nc -> nth i (am_gver a') 0%N = v) /\
  (forall i, i < nc -> nth (nc * c + i) (am_cver a') 0%N = v) /\
  (forall p, p < nc * c \/ nc * c + nc <= p -> nth p (am_cver a') 0%N = nth p (am_cver a) 0%N) /\
  am_mask a' = am_mask a /\ am_ents a' = am_ents a /\ am_chunk a' = am_chunk a /\ am_cols a' = am_cols a /\ am_size a' = am_size a.
Proof. exact vs_set_chunk_spec. Qed.
Print Assumptions C07_vs_set_chunk_spec.

(* emplace: the stamp vector is cut or grown so that the chunk of idx is its last chunk, then that chunk is set *)
Theorem C07_vs_emplace_spec : forall a v idx a',
  vs_emplace a v idx = Ok a' ->
  let nc := length (am_gver a) in
  exists c, chunk_at a idx = Ok c /\ nc * c <= length (am_cver a) /\
  am_gver a' = map (fun _ => v) (am_gver a) /\ length (am_cver a') = S c * nc /\
  (forall i, i < nc -> nth i (am_gver a') 0%N = v) /\
  (forall i, i < nc -> nth (nc * c + i) (am_cver a') 0%N = v) /\
  (forall p, p < nc * c -> nth p (am_cver a') 0%N = nth p (am_cver a) 0%N) /\
  am_mask a' = am_mask a /\ am_ents a' = am_ents a /\ am_chunk a' = am_chunk a /\ am_cols a' = am_cols a /\ am_size a' = am_size a.
Proof. exact vs_emplace_spec. Qed.
Print Assumptions C07_vs_emplace_spec.

(* mutable access / markDirty: one chunk stamp and the component's global stamp *)
Theorem C07_vs_set_one_spec : forall a v c ci a',
  vs_set_one a v c ci = Ok a' ->
  let nc := length (am_gver a) in
  ci < nc /\ nc * c + ci < length (am_cver a) /\
  am_gver a' = upd (am_gver a) ci v /\ am_cver a' = upd (am_cver a) (nc * c + ci) v /\
  nth ci (am_gver a') 0%N = v /\ nth (nc * c + ci) (am_cver a') 0%N = v /\
  (forall p, p <> nc * c + ci -> nth p (am_cver a') 0%N = nth p (am_cver a) 0%N) /\
  (forall i, i <> ci -> nth i (am_gver a') 0%N = nth i (am_gver a) 0%N).
Proof. exact vs_set_one_spec. Qed.
Print Assumptions C07_vs_set_one_spec.

(* the invariant of the global test is (re-)established by a stamp that is at least every chunk stamp present *)
Theorem C07_stamping_keeps_bounds :
  (forall a v c a', vs_set_chunk a v c = Ok a' -> Forall (fun x => (x <= v)%N) (am_cver a) ->
     gver_bounds a' /\ Forall (fun x => (x <= v)%N) (am_cver a')) /\
  (forall a v idx a', vs_emplace a v idx = Ok a' -> Forall (fun x => (x <= v)%N) (am_cver a) ->
     gver_bounds a' /\ Forall (fun x => (x <= v)%N) (am_cver a')) /\
  (forall a v c ci a', vs_set_one a v c ci = Ok a' -> gver_bounds a ->
     (forall k, (nth (length (am_gver a) * k + ci) (am_cver a) 0 <= v)%N) -> gver_bounds a').
Proof. split; [exact vs_set_chunk_bounds|split; [exact vs_emplace_bounds|exact vs_set_one_bounds]]. Qed.
Print Assumptions C07_stamping_keeps_bounds.

Definition a_small : archetype :=
  {| am_mask := 3%N; am_shared := si_null; am_ents := [(0, 0); (1, 0); (2, 0)]%N; am_cols := [[]; []];
     am_size := 3; am_chunk := 2; am_gver := [1; 1]%N; am_cver := [1; 0; 1; 1]%N |}.
Example C07_stamping_examples :
  (exists a', vs_set_chunk a_small 2 1 = Ok a' /\ am_gver a' = [2; 2]%N /\ am_cver a' = [1; 0; 2; 2]%N) /\
  (exists a', vs_emplace a_small 2 4 = Ok a' /\ am_gver a' = [2; 2]%N /\ am_cver a' = [1; 0; 1; 1; 2; 2]%N) /\
  (exists a', vs_emplace a_small 2 1 = Ok a' /\ am_gver a' = [2; 2]%N /\ am_cver a' = [2; 2]%N) /\
  (exists a', vs_set_one a_small 2 0 1 = Ok a' /\ am_gver a' = [1; 2]%N /\ am_cver a' = [1; 2; 1; 1]%N) /\
  Forall (fun x => (x <= 2)%N) (am_cver a_small).
Proof.
  repeat split; try (eexists; split; [vm_compute; reflexivity|split; reflexivity]).
  repeat constructor; vm_compute; discriminate.
Qed.

(* ---- the mechanism of C07: stamps overwrite, so a write is seen exactly when its stamp is newer than last ---- *)
Theorem C07_write_detected_iff : forall a v c ci a' set_ last cur,
  vs_set_one a v c ci = Ok a' ->
  snd (check_and_set (am_cver a') (length (am_gver a') * c) [ci] set_ last cur) = true <-> last = WV_NULL \/ (last < v)%N.
Proof. exact write_detected_iff. Qed.
Print Assumptions C07_write_detected_iff.

(* witness: a write access stamped with a version that is not newer than the job's last version (a stale cached world
   version) is invisible to the job -- the unconditional history-level C07 is false for such a stamping discipline *)
Example C07_stale_stamp_missed :
  exists a', vs_set_one a_small 1 0 1 = Ok a' /\
  snd (filter_chunks 2 [1] [] 1 5 0 2 (am_cver a')) = [false; false].
Proof. eexists. split; vm_compute; reflexivity. Qed.

(* ==================================================================================================================== *)
(* HISTORY LEVEL (proofs/VersionHistory.v).  Alphabet `vop`: VUpdate true (world.update()), VUpdate false
   (EntityManager::update()), VGetMut, VMarkDirty, VGetConst, VHas, VRun jn parallel tasks_override workers cap (a run of
   job number jn without callback actions), and -- the one structural change covered -- VCreate (createEntity while
   unlocked).  The driver state `vstate` = (manager state, job list); after a run the job's j_last becomes the `last` of
   the RJob result (ocaml/driver.ml, "runjob").  `vstep` is one operation, `vrun` a script.
   The population: entities are created first (unlocked OCreate, with OVerChunk / OChunkFn / ODep in between:
   `population`); inside a history entities may be created but are never destroyed or moved between archetypes.
   NOT covered: destruction, removal (swap-remove relocation), archetype moves (assign / remove component), clear,
   locked (deferred) structural calls, callback actions of jobs, and scripts long enough for the 32-bit world version to
   reach its null value 2^32-1: every theorem assumes (script length + 2 < 2^32-1), under which the model's
   (wv + 1) mod 2^32 is wv + 1. *)

(* ---- (1) the invariants of every run ---- *)
(* VInv: manager unlocked, nothing marked for destruction, buffers empty, no free slot; for every archetype (arch_ok):
   one global stamp per component, gver_bounds, no chunk stamp and (once populated) no global stamp ahead of the world
   version, size = population, chunk size > 0 and the chunk stamps covering all version chunks; every valid entity sits
   where its location says (loc_ok); every job's j_last is null or STRICTLY below the world version (job_ok).
   vframe: live entities stay live and where they are; every archetype keeps its mask, chunk size and its entities in
   place (created ones are appended); chunk stamps never decrease; wv never decreases; jobs keep requests and masks. *)
Theorem C07_history_invariants : forall n cis setup s0 js ops st,
  population n cis setup s0 -> fresh_jobs js -> (N.of_nat (length ops) < WV_NULL)%N ->
  vrun ops (s0, js) = Ok st ->
  VInv st /\ vframe (s0, js) st /\ (wv (fst st) <= N.of_nat (length ops))%N.
Proof. exact history_invariants. Qed.
Print Assumptions C07_history_invariants.

(* one operation: the invariant is kept, and (wv_effect) precisely:
     VUpdate true : wv' = wv + 1, cached' = Some wv'            VUpdate false : wv' = wv, cached' = Some wv
     VRun jn, no work : wv, cached, jobs unchanged, result RJob (old j_last) []
     VRun jn, work    : wv' = wv + 1, cached unchanged, job jn's j_last := wv (the version its filter ran at),
                        result RJob wv arrays
     accesses         : wv, cached, jobs unchanged           VCreate : wv, jobs unchanged *)
Theorem C07_step_invariant : forall st o st' out_,
  VInv st -> (wv (fst st) + 1 < WV_NULL)%N -> vstep st o = Ok (st', out_) ->
  VInv st' /\ vframe st st' /\ wv_effect st o st' out_.
Proof. exact vstep_inv. Qed.
Print Assumptions C07_step_invariant.

(* creating an entity while unlocked keeps the invariant: the population phase *)
Theorem C07_create_keeps_invariant : forall s js tid m sids via s' out_,
  VInv (s, js) -> step s (OCreate tid m sids via) = Ok (s', out_) -> VInv (s', js) /\ wv s' = wv s.
Proof. exact VInv_create. Qed.
Print Assumptions C07_create_keeps_invariant.

(* ... in detail: the new entity is appended to its archetype, the version chunk of its position is stamped with the world
   version in every component, nothing else changes *)
Theorem C07_create_effect : forall s js tid m sids via s' out_,
  VInv (s, js) -> step s (OCreate tid m sids via) = Ok (s', out_) ->
  VInv (s', js) /\ wv s' = wv s /\
  exists h ai a3 idx,
    out_ = RHandle h /\ is_valid s h = false /\ is_valid s' h = true /\
    nth_error (archs s') ai = Some a3 /\ S idx = length (am_ents a3) /\ nth_error (am_ents a3) idx = Some h /\
    (exists l, nth_error (locs s') (N.to_nat (fst h)) = Some l /\ l_arch l = Some ai /\ l_idx l = idx) /\
    (forall i, i < length (am_gver a3) -> nth (length (am_gver a3) * (idx / am_chunk a3) + i) (am_cver a3) 0%N = wv s) /\
    (forall h', is_valid s h' = true -> is_valid s' h' = true) /\
    (forall h' l, is_valid s h' = true -> nth_error (locs s) (N.to_nat (fst h')) = Some l ->
                  nth_error (locs s') (N.to_nat (fst h')) = Some l) /\
    (forall k a, nth_error (archs s) k = Some a -> exists a', nth_error (archs s') k = Some a' /\ evolves_w a a' /\ (k <> ai -> a' = a)) /\
    (forall k a', nth_error (archs s') k = Some a' -> k = ai \/ nth_error (archs s) k = Some a') /\
    (forall a, nth_error (archs s) ai = Some a ->
       am_ents a3 = am_ents a ++ [h] /\
       forall p, nth p (am_cver a3) 0%N = nth p (am_cver a) 0%N \/
                 exists i, i < length (am_gver a3) /\ p = length (am_gver a3) * (idx / am_chunk a3) + i) /\
    (nth_error (archs s) ai = None -> idx = 0).
Proof. exact create_effect. Qed.
Print Assumptions C07_create_effect.

(* what a run hands to the job, exactly: the entities at processed positions of matching archetypes *)
Theorem C07_run_handed_char : forall s js jn par tov wk cap st' out_,
  VInv (s, js) -> 0 < cap ->
  vstep (s, js) (VRun jn par tov wk cap) = Ok (st', out_) ->
  exists j, nth_error js jn = Some j /\
  forall h, handed out_ h <->
    exists ai a idx, nth_error (archs s) ai = Some a /\ jmatch j a = true /\ processed j a idx /\
                     nth_error (am_ents a) idx = Some h.
Proof. exact run_handed_char. Qed.
Print Assumptions C07_run_handed_char.

(* ---- (2) C07 over histories ---- *)
(* population, then any script `pre`; in the state reached, component c of entity h (present on it) is obtained for
   writing or marked dirty; then any script `mid` without a run of job jn -- updates, accesses, runs of other jobs,
   including jobs that write c --; then job jn (c in its check mask, h's archetype matching its required mask) runs:
   it is handed h.  Whether and when jn ran before, and where in the frame the modification falls, is arbitrary. *)
Theorem C07_history : forall n cis setup s0 js pre st1 o out_t st2 mid st3 jn par tov wk cap st4 out_ h c ai idx a ci j,
  population n cis setup s0 -> fresh_jobs js ->
  (N.of_nat (length pre) + N.of_nat (length mid) + 2 < WV_NULL)%N ->
  vrun pre (s0, js) = Ok st1 ->
  is_touch o h c -> touch (fst st1) h c ai idx a ci ->
  nth_error (snd st1) jn = Some j -> c < MASK_BITS -> mhas (j_check j) c = true ->
  mmatch (am_mask a) (job_required_mask j) = true ->
  vstep st1 o = Ok (st2, out_t) -> vrun mid st2 = Ok st3 -> no_run jn mid -> 0 < cap ->
  vstep st3 (VRun jn par tov wk cap) = Ok (st4, out_) ->
  handed out_ h.
Proof. exact VersionHistory.C07_history. Qed.
Print Assumptions C07_history.

(* the same from any state satisfying the invariant *)
Theorem C07_history_from_invariant : forall st1 o out_t st2 mid st3 jn par tov wk cap st4 out_ h c ai idx a ci j,
  VInv st1 -> (wv (fst st1) + N.of_nat (length mid) + 2 < WV_NULL)%N ->
  is_touch o h c -> touch (fst st1) h c ai idx a ci ->
  nth_error (snd st1) jn = Some j -> c < MASK_BITS -> mhas (j_check j) c = true ->
  mmatch (am_mask a) (job_required_mask j) = true ->
  vstep st1 o = Ok (st2, out_t) -> vrun mid st2 = Ok st3 -> no_run jn mid -> 0 < cap ->
  vstep st3 (VRun jn par tov wk cap) = Ok (st4, out_) ->
  handed out_ h.
Proof. exact C07_history_core. Qed.
Print Assumptions C07_history_from_invariant.

(* written by another job: job jn' writes c and processes entity h (at idx of archetype ai); then anything but runs of
   jn; then jn (checking c) runs: it is handed h *)
Theorem C07_history_written_by_job :
  forall n cis setup s0 js pre st1 jn' p1 t1 w1 c1 out1 st2 mid st3 jn par tov wk cap st4 out_ h c ai a idx ci j j',
  population n cis setup s0 -> fresh_jobs js ->
  (N.of_nat (length pre) + N.of_nat (length mid) + 2 < WV_NULL)%N ->
  vrun pre (s0, js) = Ok st1 ->
  nth_error (snd st1) jn = Some j -> nth_error (snd st1) jn' = Some j' -> jn' <> jn ->
  vstep st1 (VRun jn' p1 t1 w1 c1) = Ok (st2, out1) ->
  nth_error (archs (fst st1)) ai = Some a -> nth_error (am_ents a) idx = Some h -> jmatch j' a = true -> processed j' a idx ->
  In c (mitems (job_update_mask j')) -> c < MASK_BITS -> mhas (j_check j) c = true -> cindex (am_mask a) c = Some ci ->
  mmatch (am_mask a) (job_required_mask j) = true ->
  vrun mid st2 = Ok st3 -> no_run jn mid -> 0 < cap ->
  vstep st3 (VRun jn par tov wk cap) = Ok (st4, out_) ->
  handed out_ h.
Proof. exact C07_history_job. Qed.
Print Assumptions C07_history_written_by_job.

(* ... stated with what jn' was handed *)
Theorem C07_history_written_by_job_handed : forall st1 jn' p1 t1 w1 c1 out1 st2 mid st3 jn par tov wk cap st4 out_ h c j j',
  VInv st1 -> (wv (fst st1) + N.of_nat (length mid) + 2 < WV_NULL)%N ->
  nth_error (snd st1) jn = Some j -> nth_error (snd st1) jn' = Some j' -> jn' <> jn -> 0 < c1 ->
  vstep st1 (VRun jn' p1 t1 w1 c1) = Ok (st2, out1) -> handed out1 h ->
  In c (mitems (job_update_mask j')) -> mhas (j_check j) c = true ->
  (forall ai a idx, nth_error (archs (fst st1)) ai = Some a -> nth_error (am_ents a) idx = Some h ->
     mhas (am_mask a) c = true /\ mmatch (am_mask a) (job_required_mask j) = true) ->
  vrun mid st2 = Ok st3 -> no_run jn mid -> 0 < cap ->
  vstep st3 (VRun jn par tov wk cap) = Ok (st4, out_) ->
  handed out_ h.
Proof. exact C07_history_job_handed. Qed.
Print Assumptions C07_history_written_by_job_handed.

(* the entity is created: createEntity (unlocked) returns h; any operations but runs of jn; then jn runs, checking a
   component c the new entity carries (its archetype matching jn's required mask): it is handed h *)
Theorem C07_history_created : forall n cis setup s0 js pre st1 tid m sids via st2 h mid st3 jn par tov wk cap st4 out_ j c,
  population n cis setup s0 -> fresh_jobs js ->
  (N.of_nat (length pre) + N.of_nat (length mid) + 2 < WV_NULL)%N ->
  vrun pre (s0, js) = Ok st1 ->
  nth_error (snd st1) jn = Some j ->
  vstep st1 (VCreate tid m sids via) = Ok (st2, RHandle h) ->
  (forall ai a idx, nth_error (archs (fst st2)) ai = Some a -> nth_error (am_ents a) idx = Some h ->
     mhas (am_mask a) c = true /\ mmatch (am_mask a) (job_required_mask j) = true) ->
  c < MASK_BITS -> mhas (j_check j) c = true ->
  vrun mid st2 = Ok st3 -> no_run jn mid -> 0 < cap ->
  vstep st3 (VRun jn par tov wk cap) = Ok (st4, out_) ->
  handed out_ h.
Proof. exact VersionHistory.C07_history_created. Qed.
Print Assumptions C07_history_created.

(* ---- non-vacuity: a concrete history ---- *)
(* five entities with components {0,1}, version chunks of 2; job 0 writes 0 and reads+checks 1; job 1 writes 1; job 2 only
   reads 0 *)
Definition get_res {A} (r : res A) (d : A) : A := match r with Ok x => x | Err _ => d end.
Definition setup_ex : list op :=
  [OVerChunk 2; OCreate 0 3%N [] false; OCreate 0 3%N [] false; OCreate 0 3%N [] false; OCreate 0 3%N [] false; OCreate 0 3%N [] false].
Definition s0_ex : mst := get_res (setup_run (init 4 cis2) setup_ex) (init 0 []).
Definition jobs_ex : list job :=
  [ {| j_reqs := [(0, false, true); (1, true, true)]; j_check := 2%N; j_last := WV_NULL |};
    {| j_reqs := [(1, false, true)]; j_check := 0%N; j_last := WV_NULL |};
    {| j_reqs := [(0, true, true)]; j_check := 0%N; j_last := WV_NULL |} ].
Definition vst_dummy : vstate := (init 0 [], []).
Definition handles_of (o : out) : list handle :=
  match o with RJob _ arrays => flat_map (fun v : visit => map fst (snd v)) arrays | _ => [] end.

Lemma population_ex : population 4 cis2 setup_ex s0_ex /\ fresh_jobs jobs_ex.
Proof. split; [split; [repeat constructor|vm_compute; reflexivity]|repeat constructor]. Qed.

(* the invariant holds on the example's states (by the theorems above; it contains a universally quantified part) *)
Example C07_history_invariants_example :
  population 4 cis2 setup_ex s0_ex /\ fresh_jobs jobs_ex /\ (N.of_nat (length [VUpdate true; VRun 0 false 0 0 16]) < WV_NULL)%N /\
  exists st, vrun [VUpdate true; VRun 0 false 0 0 16] (s0_ex, jobs_ex) = Ok st /\ wv (fst st) = 2%N /\
             map j_last (snd st) = [1%N; WV_NULL; WV_NULL] /\ cached (fst st) = Some 1%N.
Proof.
  split; [apply population_ex|]. split; [apply population_ex|]. split; [vm_compute; reflexivity|].
  eexists. split; [vm_compute; reflexivity|]. repeat split; vm_compute; reflexivity.
Qed.

(* update(); run of job 0 (everything); update()  |  write access to component 1 of entity 3  |  manager update, a run of
   job 2, world update  |  run of job 0: it is handed the version chunk of entity 3 (entities 2 and 3) *)
Definition pre_ex : list vop := [VUpdate true; VRun 0 false 0 0 16; VUpdate true].
Definition mid_ex : list vop := [VUpdate false; VRun 2 true 0 3 16; VUpdate true].
Definition st1_ex : vstate := get_res (vrun pre_ex (s0_ex, jobs_ex)) vst_dummy.
Definition st2_ex : vstate := fst (get_res (vstep st1_ex (VGetMut (3, 0)%N 1 (Some 7%Z))) (vst_dummy, RNone)).
Definition st3_ex : vstate := get_res (vrun mid_ex st2_ex) vst_dummy.

Example C07_history_example :
  exists out_t st4 out_ a j,
  population 4 cis2 setup_ex s0_ex /\ fresh_jobs jobs_ex /\
  (N.of_nat (length pre_ex) + N.of_nat (length mid_ex) + 2 < WV_NULL)%N /\
  vrun pre_ex (s0_ex, jobs_ex) = Ok st1_ex /\
  is_touch (VGetMut (3, 0)%N 1 (Some 7%Z)) (3, 0)%N 1 /\ touch (fst st1_ex) (3, 0)%N 1 0 3 a 1 /\
  nth_error (snd st1_ex) 0 = Some j /\ 1 < MASK_BITS /\ mhas (j_check j) 1 = true /\
  mmatch (am_mask a) (job_required_mask j) = true /\
  vstep st1_ex (VGetMut (3, 0)%N 1 (Some 7%Z)) = Ok (st2_ex, out_t) /\ vrun mid_ex st2_ex = Ok st3_ex /\ no_run 0 mid_ex /\ 0 < 16 /\
  vstep st3_ex (VRun 0 true 0 3 16) = Ok (st4, out_) /\
  handles_of out_ = [(2, 0); (3, 0)]%N /\ j_last j = 1%N /\ wv (fst st3_ex) = 5%N.
Proof.
  eexists. eexists. eexists. eexists. eexists.
  split; [apply population_ex|]. split; [apply population_ex|]. split; [vm_compute; reflexivity|].
  split; [vm_compute; reflexivity|]. split; [left; eexists; reflexivity|].
  split.
  { split; [vm_compute; reflexivity|]. split; [eexists; split; [vm_compute; reflexivity|split; reflexivity]|].
    split; [vm_compute; reflexivity|vm_compute; reflexivity]. }
  split; [vm_compute; reflexivity|]. split; [unfold MASK_BITS; lia|]. split; [vm_compute; reflexivity|].
  split; [vm_compute; reflexivity|]. split; [vm_compute; reflexivity|]. split; [vm_compute; reflexivity|].
  split; [repeat constructor; discriminate|]. split; [lia|].
  split; [vm_compute; reflexivity|]. split; [vm_compute; reflexivity|]. split; vm_compute; reflexivity.
Qed.

(* job 1 (writes component 1) runs for the first time and processes everything, in particular entity 3; later job 0
   (checking component 1, last run at version 1) runs: it is handed entity 3 (and all others: job 1 stamped every chunk) *)
Definition st2j_ex : vstate := fst (get_res (vstep st1_ex (VRun 1 false 0 0 16)) (vst_dummy, RNone)).
Definition st3j_ex : vstate := get_res (vrun mid_ex st2j_ex) vst_dummy.

Example C07_history_written_by_job_example :
  exists out1 st4 out_ a j j',
  population 4 cis2 setup_ex s0_ex /\ fresh_jobs jobs_ex /\
  (N.of_nat (length pre_ex) + N.of_nat (length mid_ex) + 2 < WV_NULL)%N /\
  vrun pre_ex (s0_ex, jobs_ex) = Ok st1_ex /\
  nth_error (snd st1_ex) 0 = Some j /\ nth_error (snd st1_ex) 1 = Some j' /\ 1 <> 0 /\
  vstep st1_ex (VRun 1 false 0 0 16) = Ok (st2j_ex, out1) /\
  nth_error (archs (fst st1_ex)) 0 = Some a /\ nth_error (am_ents a) 3 = Some (3, 0)%N /\ jmatch j' a = true /\ processed j' a 3 /\
  In 1 (mitems (job_update_mask j')) /\ 1 < MASK_BITS /\ mhas (j_check j) 1 = true /\ cindex (am_mask a) 1 = Some 1 /\
  mmatch (am_mask a) (job_required_mask j) = true /\
  vrun mid_ex st2j_ex = Ok st3j_ex /\ no_run 0 mid_ex /\ 0 < 16 /\
  vstep st3j_ex (VRun 0 false 0 0 16) = Ok (st4, out_) /\
  handed out1 (3, 0)%N /\ handles_of out_ = [(0, 0); (1, 0); (2, 0); (3, 0); (4, 0)]%N.
Proof.
  eexists. eexists. eexists. eexists. eexists. eexists.
  split; [apply population_ex|]. split; [apply population_ex|]. split; [vm_compute; reflexivity|].
  split; [vm_compute; reflexivity|]. split; [vm_compute; reflexivity|]. split; [vm_compute; reflexivity|]. split; [discriminate|].
  split; [vm_compute; reflexivity|]. split; [vm_compute; reflexivity|]. split; [vm_compute; reflexivity|]. split; [vm_compute; reflexivity|].
  split; [split; [vm_compute; lia|split; vm_compute; reflexivity]|].
  split; [vm_compute; left; reflexivity|]. split; [unfold MASK_BITS; lia|]. split; [vm_compute; reflexivity|].
  split; [vm_compute; reflexivity|]. split; [vm_compute; reflexivity|]. split; [vm_compute; reflexivity|].
  split; [repeat constructor; discriminate|]. split; [lia|]. split; [vm_compute; reflexivity|]. split.
  - vm_compute. eexists. eexists. split; [left; reflexivity|]. split; [right; right; right; left; reflexivity|reflexivity].
  - vm_compute. reflexivity.
Qed.

(* hypotheses of the one-step theorems on the example *)
Example C07_step_example :
  exists st' out_, (wv (fst st1_ex) + 1 < WV_NULL)%N /\ 0 < 16 /\
    vstep st1_ex (VRun 0 true 0 3 16) = Ok (st', out_) /\ handles_of out_ = [] /\
    vrun pre_ex (s0_ex, jobs_ex) = Ok st1_ex.
Proof. eexists. eexists. split; [vm_compute; reflexivity|]. split; [lia|]. split; [vm_compute; reflexivity|]. split; vm_compute; reflexivity. Qed.

Lemma VInv_st1_ex : VInv st1_ex.
Proof.
  destruct population_ex as (Hp & Hj).
  refine (proj1 (C07_history_invariants 4 cis2 setup_ex s0_ex jobs_ex pre_ex st1_ex Hp Hj _ _)); vm_compute; reflexivity.
Qed.

Lemma VInv_pair st : VInv st -> VInv (fst st, snd st).
Proof. destruct st. exact (fun H => H). Qed.

Example C07_create_keeps_invariant_example :
  VInv (fst st1_ex, snd st1_ex) /\ exists s' out_, step (fst st1_ex) (OCreate 0 1%N [] false) = Ok (s', out_).
Proof. split; [apply VInv_pair, VInv_st1_ex|]. eexists. eexists. vm_compute. reflexivity. Qed.

(* after the run of job 0: a sixth entity {0,1} is created (it shares version chunk 2 with entity 4); update; job 0 runs
   and is handed the new entity (and entity 4 of the same chunk) *)
Definition st2c_ex : vstate := fst (get_res (vstep st1_ex (VCreate 0 3%N [] false)) (vst_dummy, RNone)).
Definition st3c_ex : vstate := get_res (vrun [VUpdate true] st2c_ex) vst_dummy.

Example C07_history_created_example :
  exists st4 out_ j,
  population 4 cis2 setup_ex s0_ex /\ fresh_jobs jobs_ex /\
  (N.of_nat (length pre_ex) + N.of_nat (length [VUpdate true]) + 2 < WV_NULL)%N /\
  vrun pre_ex (s0_ex, jobs_ex) = Ok st1_ex /\ nth_error (snd st1_ex) 0 = Some j /\
  vstep st1_ex (VCreate 0 3%N [] false) = Ok (st2c_ex, RHandle (5, 0)%N) /\
  (forall ai a idx, nth_error (archs (fst st2c_ex)) ai = Some a -> nth_error (am_ents a) idx = Some (5, 0)%N ->
     mhas (am_mask a) 1 = true /\ mmatch (am_mask a) (job_required_mask j) = true) /\
  1 < MASK_BITS /\ mhas (j_check j) 1 = true /\
  vrun [VUpdate true] st2c_ex = Ok st3c_ex /\ no_run 0 [VUpdate true] /\ 0 < 16 /\
  vstep st3c_ex (VRun 0 false 0 0 16) = Ok (st4, out_) /\ handles_of out_ = [(4, 0); (5, 0)]%N.
Proof.
  eexists. eexists. eexists.
  split; [apply population_ex|]. split; [apply population_ex|]. split; [vm_compute; reflexivity|].
  split; [vm_compute; reflexivity|]. split; [vm_compute; reflexivity|]. split; [vm_compute; reflexivity|].
  split.
  { let x := eval vm_compute in (archs (fst st2c_ex)) in replace (archs (fst st2c_ex)) with x by (vm_compute; reflexivity).
    intros ai a idx Ha _. destruct ai as [|n]; [|destruct n; discriminate].
    inversion Ha; subst a. split; vm_compute; reflexivity. }
  split; [unfold MASK_BITS; lia|]. split; [vm_compute; reflexivity|]. split; [vm_compute; reflexivity|].
  split; [repeat constructor|]. split; [lia|]. split; vm_compute; reflexivity.
Qed.
