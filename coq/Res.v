(* Result monad: how undefined behaviour, throws and crashes of the C++ are modelled. *)
Require Import Coq.Lists.List Coq.NArith.NArith Coq.Arith.Arith.
Import ListNotations.

Inductive err :=
| OobIndex | NullDeref | Underflow | DivZero | EmptyFunction
| ThrowInNoexcept (msg : nat) | Throw (msg : nat) | OutOfFuel.

Inductive res (A : Type) := Ok (a : A) | Err (e : err).
Arguments Ok {A} a.
Arguments Err {A} e.

Definition bind {A B} (r : res A) (f : A -> res B) : res B :=
  match r with Ok a => f a | Err e => Err e end.
Notation "'do' x <- r ; k" := (bind r (fun x => k)) (at level 200, x pattern, r at level 100, k at level 200).

Definition nth_res {A} (l : list A) (i : nat) : res A :=
  match nth_error l i with Some a => Ok a | None => Err OobIndex end.

Fixpoint upd {A} (l : list A) (i : nat) (x : A) : list A :=
  match l, i with
  | [], _ => []
  | _ :: t, O => x :: t
  | h :: t, S i' => h :: upd t i' x
  end.

Definition upd_res {A} (l : list A) (i : nat) (x : A) : res (list A) :=
  if i <? length l then Ok (upd l i x) else Err OobIndex.

Fixpoint fold_res {A S} (f : S -> A -> res S) (l : list A) (s : S) : res S :=
  match l with
  | [] => Ok s
  | a :: t => do s' <- f s a; fold_res f t s'
  end.

(* resize a vector with a filler (std::vector::resize) *)
Definition resize {A} (l : list A) (n : nat) (d : A) : list A :=
  firstn n l ++ repeat d (n - length l).

Lemma upd_length {A} (l : list A) i x : length (upd l i x) = length l.
Proof. revert i; induction l as [|h t IH]; intros [|i]; simpl; auto. Qed.
