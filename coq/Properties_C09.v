(* C09 -- operations through dead, null or foreign handles are harmless. Statements only.
   "Not valid" covers all three kinds: the null handle, a handle of another world (the implementation compares world
   ids; the model's handles are per world, so a foreign handle is one no creation of this world returned), and a handle
   whose entity was destroyed -- also after its id was recycled, because a recycled id carries a newer version (C01). *)
Require Import Coq.Lists.List Coq.NArith.NArith Coq.ZArith.ZArith.
From Mustache Require Import Res Manager Palette MgrSpec Refine.
From Mustache.proofs Require Import ManagerIsolation ManagerDeferred.
Import ListNotations.

(* every checked entry point, immediate mode: result is null / false / nothing and the state is unchanged -- for
   EVERY state (not only reachable ones) and every handle the validity test rejects *)
Theorem C09_harmless_immediate : forall s h,
  lockc s = 0 -> is_valid s h = false ->
  (forall tid, step s (ODestroyNow tid h) = Ok (s, RNone)) /\
  (forall tid c, step s (ORemove tid h c true) = Ok (s, RNone)) /\
  (forall c, step s (OGetConst h c) = Ok (s, RCell false None)) /\
  (forall c w, step s (OGetMut h c w) = Ok (s, RCell false None)) /\
  (forall c, step s (OHas h c) = Ok (s, RBool false)) /\
  (forall c, step s (OMarkDirty h c) = Ok (s, RNone)) /\
  step s (OClone h) = Ok (s, RNullHandle) /\
  (forall sid, step s (ORemoveShared h sid) = Ok (s, RBool false)).
Proof. exact harmless_unlocked. Qed.
Print Assumptions C09_harmless_immediate.

(* destroy(h) of a dead handle only records a request; update() drops requests for handles that are not valid *)
Theorem C09_update_drops_dead_requests : forall l s,
  (forall h, In h l -> is_valid s h = false) -> fold_res destroy_now_unlocked l s = Ok s.
Proof. exact fold_destroy_invalid. Qed.
Print Assumptions C09_update_drops_dead_requests.

(* deferred mode: recording changes only the caller's buffer (C05_isolation); at unlock the whole pack of a target
   that is not valid at that moment is skipped, whatever commands it holds *)
Theorem C09_harmless_deferred : forall tid s c t,
  (match c with ACreate _ _ _ _ => False | _ => True end) ->
  is_valid s (cmd_handle c) = false -> apply_pack tid s (c :: t) = Ok s.
Proof. exact dead_target_pack_skipped. Qed.
Print Assumptions C09_harmless_deferred.

(* the null handle is never valid *)
Theorem C09_null_invalid : forall s, is_valid s null_handle = false.
Proof. intro s. reflexivity. Qed.
Print Assumptions C09_null_invalid.

(* non-vacuity: a reachable state with a recycled id, a stale handle of it, and a pending stale command *)
Definition cis2 : list cinfo := [pal_info 0 0; pal_info 2 0].
Example C09_example :
  exists s issued, mrun true 16 cis2
     [XoCreate 0 3 [] false; XoDestroyNow 0 0; XoCreate 0 3 [] false; XoUpdate; XoLock; XoRemove 0 0 1 true]%N = Ok (s, issued)
  /\ map (is_valid s) issued = [false; true] /\ map fst issued = [0; 0]%N.
Proof. eexists. eexists. split; [vm_compute; reflexivity|]. split; vm_compute; reflexivity. Qed.

(* ------------------------------------------------------------------------------------------------------------ *)
(* Deferred mode, end to end (proofs/ManagerDeferred.v). All theorems are for EVERY state of the model.            *)

(* queries and guarded calls do not look at the lock: through a handle that is not valid they do nothing at any depth *)
Theorem C09_harmless_any_lock : forall s h,
  is_valid s h = false ->
  (forall c, step s (OGetConst h c) = Ok (s, RCell false None)) /\
  (forall c w, step s (OGetMut h c w) = Ok (s, RCell false None)) /\
  (forall c, step s (OHas h c) = Ok (s, RBool false)) /\
  (forall c, step s (OMarkDirty h c) = Ok (s, RNone)) /\
  step s (OClone h) = Ok (s, RNullHandle) /\
  (forall sid, step s (ORemoveShared h sid) = Ok (s, RBool false)).
Proof. exact harmless_any_lock. Qed.
Print Assumptions C09_harmless_any_lock.

(* every mutation recorded under lock through handle h (destroy, destroyNow, removal typed or by id, assignment, the
   builder on an existing entity) appends to the caller's buffer only commands on h, none of them a creation, with
   registered component ids; besides the buffer only the temporaries and the log (events about temporaries) change *)
Theorem C09_deferred_op_records : forall s o tid h s' r,
  lockc s <> 0 -> deferred_target o = Some (tid, h) -> step s o = Ok (s', r) ->
  exists cs, records s s' tid cs /\
    forall c, In c cs -> cmd_handle c = h /\ (match c with ACreate _ _ _ _ => False | _ => True end) /\ cmd_regb s c = true.
Proof. exact deferred_op_records. Qed.
Print Assumptions C09_deferred_op_records.

(* a whole buffer of commands on dead targets is skipped at unlock; only its own temporaries are destroyed *)
Theorem C09_dead_buffer_skipped : forall s tid b,
  buf_deadb s b = true -> apply_storage s (tid, b) = Ok (set_log s (rev (dtor_events s tid b) ++ log s)).
Proof. exact apply_storage_dead. Qed.
Print Assumptions C09_dead_buffer_skipped.

(* THE ROUND TRIP. The manager is locked once and whatever the buffers already hold is dead (in particular: they are
   empty). A mutation through a handle that is not valid is issued from any thread. Then the unlock succeeds and
   reports the flush, and everything queries and iteration can observe -- slot table, locations, free list, every
   archetype, pending destroy set, dependencies, shared pool, world version -- is exactly as before; the buffers are
   empty again; the lifecycle log gained only events about command temporaries (their construction and destruction). *)
Theorem C09_deferred_roundtrip : forall s o tid h s1 r,
  lockc s = 1 -> forallb (buf_deadb s) (bufs s) = true ->
  deferred_target o = Some (tid, h) -> is_valid s h = false -> step s o = Ok (s1, r) ->
  exists s2, step s1 OUnlock = Ok (s2, RBool true) /\ observe s2 = observe (set_lock s 0) /\
             Forall (fun b => b = []) (bufs s2) /\ epoch s2 = S (epoch s) /\
             exists evs, log s2 = evs ++ log s /\ Forall ev_tmp evs.
Proof. exact deferred_dead_harmless. Qed.
Print Assumptions C09_deferred_roundtrip.

(* the same for any number of recorded dead commands (iterate C09_deferred_op_records; buf_deadb is stable under recording) *)
Theorem C09_dead_commands_roundtrip : forall s s1 tid cs,
  lockc s = 1 -> forallb (buf_deadb s) (bufs s) = true -> records s s1 tid cs -> buf_deadb s cs = true ->
  exists s2, step s1 OUnlock = Ok (s2, RBool true) /\ observe s2 = observe (set_lock s 0) /\
             Forall (fun b => b = []) (bufs s2) /\ epoch s2 = S (epoch s) /\
             exists evs, log s2 = evs ++ log s /\ Forall ev_tmp evs.
Proof. exact dead_commands_roundtrip. Qed.
Print Assumptions C09_dead_commands_roundtrip.

(* THE UNLOCKED BUILDER IS NOT A CHECKED ENTRY POINT (entity_manager.hpp:1013-1027 has no validity test; C09's list of
   checked calls does not name it). What the model does with begin(h)...end() for a handle that is not valid:
   - no location at the handle's id (id beyond the table, e.g. the null handle; or an id that is currently free):
     Err OobIndex, i.e. the crash of archetypes_[null index] -- theorem below;
   - the id has been recycled: the call goes through and restructures the entity that NOW owns the id, and files the
     stale handle in the archetype's entity list -- C09_builder_stale_example. Both are outside the contract. *)
Theorem C09_builder_unlocked_unchecked : forall s tid h assigns removes,
  lockc s = 0 ->
  match nth_error (locs s) (N.to_nat (fst h)) with Some l => l_arch l = None | None => True end ->
  step s (OBuild tid (Some h) assigns removes) = Err OobIndex.
Proof. exact build_unlocked_no_location. Qed.
Print Assumptions C09_builder_unlocked_unchecked.

(* ---- non-vacuity ---- *)
Definition run_ops (s : mst) (ops : list op) : res mst := fold_res (fun st o => do r <- step st o; Ok (fst r)) ops s.

(* id 0 is created, destroyed and recycled; (0,0) is stale, (0,1) alive; the manager is locked once, buffers empty.
   Every deferred mutation through the stale handle satisfies the hypotheses of C09_deferred_roundtrip. *)
Example C09_roundtrip_example :
  exists s, run_ops (init 2 cis2) [OCreate 0 3%N [] false; ODestroyNow 0 (0, 0)%N; OCreate 0 3%N [] false; OLock] = Ok s /\
    lockc s = 1 /\ forallb (buf_deadb s) (bufs s) = true /\ is_valid s (0, 0)%N = false /\ is_valid s (0, 1)%N = true /\
    (exists s1, step s (ODestroyNow 1 (0, 0)%N) = Ok (s1, RNone)) /\
    (exists s1, step s (ODestroy 1 (0, 0)%N) = Ok (s1, RNone)) /\
    (exists s1, step s (ORemove 1 (0, 0)%N 1 true) = Ok (s1, RNone)) /\
    (exists s1, step s (OAssign 1 (0, 0)%N 1 (AValue 4%Z) true) = Ok (s1, RNone)) /\
    (exists s1, step s (OBuild 1 (Some (0, 0)%N) [(1, 4%Z)] [0]) = Ok (s1, RNone)).
Proof.
  eexists. split; [vm_compute; reflexivity|]. repeat split; try (vm_compute; reflexivity);
    eexists; vm_compute; reflexivity.
Qed.

(* the stale assign, end to end: its temporary is constructed (EvV) and destroyed (EvD), nothing else happens *)
Example C09_roundtrip_run :
  exists s s2, run_ops (init 2 cis2) [OCreate 0 3%N [] false; ODestroyNow 0 (0, 0)%N; OCreate 0 3%N [] false; OLock] = Ok s /\
    run_ops s [OAssign 1 (0, 0)%N 1 (AValue 4%Z) true; OUnlock] = Ok s2 /\
    observe s2 = observe (set_lock s 0) /\ log s2 = [EvD 2 (PTmp 1 0); EvV 2 (PTmp 1 0)] ++ log s.
Proof. eexists. eexists. split; [vm_compute; reflexivity|]. split; [vm_compute; reflexivity|]. split; reflexivity. Qed.

(* the unlocked builder: null handle and free id crash, a recycled id is reached through the stale handle *)
Example C09_builder_null_and_free :
  exists s, run_ops (init 2 cis2) [OCreate 0 1%N [] false; ODestroyNow 0 (0, 0)%N] = Ok s /\ lockc s = 0 /\
    step s (OBuild 0 (Some null_handle) [] []) = Err OobIndex /\
    step s (OBuild 0 (Some (0, 0)%N) [(1, 4%Z)] []) = Err OobIndex.
Proof. eexists. split; [vm_compute; reflexivity|]. repeat split; vm_compute; reflexivity. Qed.

Example C09_builder_stale_example :
  exists s s1, run_ops (init 2 cis2) [OCreate 0 1%N [] false; ODestroyNow 0 (0, 0)%N; OCreate 0 1%N [] false] = Ok s /\
    is_valid s (0, 0)%N = false /\ is_valid s (0, 1)%N = true /\
    step s (OHas (0, 1)%N 1) = Ok (s, RBool false) /\
    step s (OBuild 0 (Some (0, 0)%N) [(1, 4%Z)] []) = Ok (s1, RNone) /\
    step s1 (OHas (0, 1)%N 1) = Ok (s1, RBool true) /\
    (exists a, nth_error (archs s1) 1 = Some a /\ am_ents a = [(0, 0)%N]).
Proof.
  eexists. eexists. split; [vm_compute; reflexivity|]. split; [reflexivity|]. split; [reflexivity|].
  split; [vm_compute; reflexivity|]. split; [vm_compute; reflexivity|]. split; [vm_compute; reflexivity|].
  eexists. split; vm_compute; reflexivity.
Qed.
