(* C09 -- placeholder; theorems are added from proofs/ *)
Require Import Coq.Lists.List Coq.NArith.NArith.
From Mustache Require Import Res Manager.
Import ListNotations.
Example C09_placeholder : mitems 5%N = [0; 2].
Proof. vm_compute. reflexivity. Qed.
Print Assumptions C09_placeholder.
