(* C09 -- operations through dead, null or foreign handles are harmless. Statements only.
   "Not valid" covers all three kinds: the null handle, a handle of another world (the implementation compares world
   ids; the model's handles are per world, so a foreign handle is one no creation of this world returned), and a handle
   whose entity was destroyed -- also after its id was recycled, because a recycled id carries a newer version (C01). *)
Require Import Coq.Lists.List Coq.NArith.NArith Coq.ZArith.ZArith.
From Mustache Require Import Res Manager Palette MgrSpec Refine.
From Mustache.proofs Require Import ManagerIsolation.
Import ListNotations.

(* every checked entry point, immediate mode: result is null / false / nothing and the state is unchanged -- for
   EVERY state (not only reachable ones) and every handle the validity test rejects *)
Theorem C09_harmless_immediate : forall s h,
  lockc s = 0 -> is_valid s h = false ->
  (forall tid, step s (ODestroyNow tid h) = Ok (s, RNone)) /\
  (forall tid c, step s (ORemove tid h c true) = Ok (s, RNone)) /\
  (forall c, step s (OGetConst h c) = Ok (s, RCell false None)) /\
  (forall c w, step s (OGetMut h c w) = Ok (s, RCell false None)) /\
  (forall c, step s (OHas h c) = Ok (s, RBool false)) /\
  (forall c, step s (OMarkDirty h c) = Ok (s, RNone)) /\
  step s (OClone h) = Ok (s, RNullHandle) /\
  (forall sid, step s (ORemoveShared h sid) = Ok (s, RBool false)).
Proof. exact harmless_unlocked. Qed.
Print Assumptions C09_harmless_immediate.

(* destroy(h) of a dead handle only records a request; update() drops requests for handles that are not valid *)
Theorem C09_update_drops_dead_requests : forall l s,
  (forall h, In h l -> is_valid s h = false) -> fold_res destroy_now_unlocked l s = Ok s.
Proof. exact fold_destroy_invalid. Qed.
Print Assumptions C09_update_drops_dead_requests.

(* deferred mode: recording changes only the caller's buffer (C05_isolation); at unlock the whole pack of a target
   that is not valid at that moment is skipped, whatever commands it holds *)
Theorem C09_harmless_deferred : forall tid s c t,
  (match c with ACreate _ _ _ _ => False | _ => True end) ->
  is_valid s (cmd_handle c) = false -> apply_pack tid s (c :: t) = Ok s.
Proof. exact dead_target_pack_skipped. Qed.
Print Assumptions C09_harmless_deferred.

(* the null handle is never valid *)
Theorem C09_null_invalid : forall s, is_valid s null_handle = false.
Proof. intro s. reflexivity. Qed.
Print Assumptions C09_null_invalid.

(* non-vacuity: a reachable state with a recycled id, a stale handle of it, and a pending stale command *)
Definition cis2 : list cinfo := [pal_info 0 0; pal_info 2 0].
Example C09_example :
  exists s issued, mrun true 16 cis2
     [XoCreate 0 3 [] false; XoDestroyNow 0 0; XoCreate 0 3 [] false; XoUpdate; XoLock; XoRemove 0 0 1 true]%N = Ok (s, issued)
  /\ map (is_valid s) issued = [false; true] /\ map fst issued = [0; 0]%N.
Proof. eexists. eexists. split; [vm_compute; reflexivity|]. split; vm_compute; reflexivity. Qed.
