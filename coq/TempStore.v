(* TempStore: the bump allocator behind the command buffer used while the entity manager is locked
   (src/mustache/ecs/temporal_storage.hpp: struct DataChunk, chunks_, target_chunk_size_ = 4096, total_size_;
    temporal_storage.cpp: TemporalStorage::allocate(size, align) and TemporalStorage::clear()).  NO PROOFS in this file.

   Arithmetic: the C++ uses uint32_t for sizes and uintptr_t for the address.  The model uses unbounded N.  The two agree
   as long as no intermediate value wraps, i.e. under the bound
       size + align < 2^32   (max_size),   total_size_ + size + align < 2^32   (total_size_ += ...),
       base + capacity fits in uintptr_t   (guaranteed by operator new[] for a live array),
   which is the regime the theorems of proofs/TempStoreProofs.v speak about ("total sizes stay below 2^32").
   The only subtraction that could underflow, chunk.free_space -= size + padding, is PROVED not to (ts_alloc_fits);
   `align - 1` and `align - misalign` are guarded by the same tests as in the C++.

   What the model does not assume: the address `base` of a new chunk is an ARGUMENT of TAlloc (it is what
   `new std::byte[capacity]` returned); nothing is assumed about its alignment.  It is ignored when no chunk is created. *)
Require Import Coq.Lists.List Coq.NArith.NArith Coq.Bool.Bool.
Import ListNotations.
Local Open Scope N_scope.

(* DataChunk: data.get(), capacity, free_space *)
Record chunk := { c_base : N; c_cap : N; c_free : N }.

(* chunks_ (front first, back() last), target_chunk_size_, total_size_ *)
Record tstate := { t_chunks : list chunk; t_target : N; t_total : N }.

Definition ts_init : tstate := {| t_chunks := []; t_target := 4096; t_total := 0 |}.

Inductive top :=
| TAlloc (size align base : N)   (* allocate(size, align); base = result of new[] IF a chunk is created *)
| TClear.                        (* clear() *)

(* index of the chunk used, offset of the returned pointer inside that chunk, returned address *)
Inductive result :=
| RAlloc (idx : nat) (off addr : N)
| RClear.

(* const uint32_t max_size = size + (align > 1u ? align - 1u : 0u); *)
Definition ts_max_size (size align : N) : N := size + (if 1 <? align then align - 1 else 0).

(* chunks_.empty() || chunks_.back().free_space < max_size *)
Definition ts_needs_new (st : tstate) (size align : N) : bool :=
  match rev (t_chunks st) with
  | [] => true
  | c :: _ => c_free c <? ts_max_size size align
  end.

(* if (target_chunk_size_ < max_size) target_chunk_size_ = max_size;   (only on the new-chunk path) *)
Definition ts_new_cap (st : tstate) (size align : N) : N :=
  if t_target st <? ts_max_size size align then ts_max_size size align else t_target st.

(* misalign = align > 1 ? uintptr(ptr) % align : 0 ; padding = misalign > 0 ? align - misalign : 0 *)
Definition ts_padding (ptr align : N) : N :=
  let misalign := if 1 <? align then ptr mod align else 0 in
  if 0 <? misalign then align - misalign else 0.

(* the part of allocate() after the chunk has been chosen: `pre` = all chunks but back(), `c` = back() *)
Definition ts_bump (pre : list chunk) (c : chunk) (target total size align : N) : result * tstate :=
  let offset := c_cap c - c_free c in
  let ptr := c_base c + offset in
  let padding := ts_padding ptr align in
  (RAlloc (length pre) (offset + padding) (ptr + padding),
   {| t_chunks := pre ++ [{| c_base := c_base c; c_cap := c_cap c; c_free := c_free c - (size + padding) |}];
      t_target := target;
      t_total := total + (size + padding) |}).

Definition ts_alloc (st : tstate) (size align base : N) : result * tstate :=
  if ts_needs_new st size align then
    let cap := ts_new_cap st size align in
    ts_bump (t_chunks st) {| c_base := base; c_cap := cap; c_free := cap |} cap (t_total st) size align
  else
    match rev (t_chunks st) with
    | [] => (RClear, st)   (* unreachable: ts_needs_new is true on an empty vector *)
    | c :: rpre => ts_bump (rev rpre) c (t_target st) (t_total st) size align
    end.

(* clear(): more than one chunk -> all dropped; exactly one -> kept, free_space = capacity;
   target_chunk_size_ = total_size_; total_size_ = 0 *)
Definition ts_clear (st : tstate) : tstate :=
  {| t_chunks := match t_chunks st with
                 | [c] => [{| c_base := c_base c; c_cap := c_cap c; c_free := c_cap c |}]
                 | _ => []
                 end;
     t_target := t_total st;
     t_total := 0 |}.

Definition ts_step (op : top) (st : tstate) : result * tstate :=
  match op with
  | TAlloc size align base => ts_alloc st size align base
  | TClear => (RClear, ts_clear st)
  end.

(* final state / list of results of a sequence of calls *)
Fixpoint ts_exec (ops : list top) (st : tstate) : tstate :=
  match ops with
  | [] => st
  | op :: rest => ts_exec rest (snd (ts_step op st))
  end.

Fixpoint ts_run (ops : list top) (st : tstate) : list result :=
  match ops with
  | [] => []
  | op :: rest => let '(r, st') := ts_step op st in r :: ts_run rest st'
  end.

(* The hypothesis of the no-overlap theorem, as an executable check: whenever a call creates a chunk, the range
   [base, base + capacity) that new[] returned is disjoint from the ranges of the chunks currently held (an empty
   range is disjoint from everything).  This is what the C++ allocator guarantees for simultaneously live arrays. *)
Definition rdisjb (b1 c1 b2 c2 : N) : bool :=
  (c1 =? 0) || (c2 =? 0) || (b1 + c1 <=? b2) || (b2 + c2 <=? b1).

Definition ts_base_ok (st : tstate) (op : top) : bool :=
  match op with
  | TAlloc size align base =>
      if ts_needs_new st size align
      then forallb (fun c => rdisjb base (ts_new_cap st size align) (c_base c) (c_cap c)) (t_chunks st)
      else true
  | TClear => true
  end.

Fixpoint ts_bases_ok (ops : list top) (st : tstate) : bool :=
  match ops with
  | [] => true
  | op :: rest => ts_base_ok st op && ts_bases_ok rest (snd (ts_step op st))
  end.

(* flat views for the correspondence driver (nat/N stay inductive after extraction) *)
Definition ts_chunk_view (st : tstate) : list (N * (N * N)) :=
  map (fun c => (c_base c, (c_cap c, c_free c))) (t_chunks st).
