(* Fixed-width unsigned C arithmetic over N, used by the generated leaf code. *)
Require Import Coq.NArith.NArith.
Local Open Scope N_scope.

Definition wrap (w x : N) : N := x mod 2 ^ w.
(* a - b in w-bit unsigned arithmetic, for a, b < 2^w *)
Definition sub_w (w a b : N) : N := (a + 2 ^ w - b) mod 2 ^ w.
