(* G_move (proofs/SkelMove.v) with commands pending: moving a live entity between archetypes preserves the Skeleton
   invariant G also while creations recorded under lock are still waiting in the buffers (needed at the flush, C05). *)
Require Import Coq.Lists.List Coq.NArith.NArith Coq.Arith.Arith Coq.Bool.Bool Coq.micromega.Lia.
From Mustache Require Import Res Skeleton SkelSpec.
From Mustache.proofs Require Import ListLemmas SkelBasics SkelInv SkelSteps SkelMove.
Import ListNotations.

Lemma G_move_rem s s1 s' hs al rem k key key' i v pai pidx pa ai a :
  G s hs al rem -> In (k, key) al -> hnd hs k = (i, v) ->
  nth_error (locs s) (N.to_nat i) = Some {| l_arch := Some pai; l_idx := pidx |} ->
  nth_error (archs s) pai = Some pa -> nth_error (a_ents pa) pidx = Some (i, v) ->
  arch_remove s pai pidx (i, v) = Ok s1 ->
  ai <> pai -> nth_error (archs s) ai = Some a -> a_key a = key' ->
  arch_insert s1 ai (i, v) = Ok s' ->
  G s' hs (retag al k key') rem.
Proof.
  intros HG Hk Eh Hloc Hpa Hent Hrm Hne Ha Hkey Hins.
  destruct (arch_remove_facts s hs al rem pai pa pidx i v s1 HG Hpa Hent Hrm)
    as (Es & En & Ee & _ & ents' & Ea1 & El1 & Hnew & Hkeep & Hother).
  assert (Hpai : pai < length (archs s)) by (apply nth_error_Some; congruence).
  assert (Hai : ai < length (archs s)) by (apply nth_error_Some; congruence).
  assert (Ha1 : nth_error (archs s1) ai = Some a) by (rewrite Ea1, nth_error_upd_other by congruence; exact Ha).
  unfold arch_insert in Hins. rewrite (nth_res_some _ _ _ Ha1) in Hins. simpl in Hins.
  unfold update_location in Hins. apply bind_ok in Hins. destruct Hins as (ls & Hu & Hs'). inversion Hs'; subst s'; clear Hs'.
  apply upd_res_ok in Hu. simpl in Hu. destruct Hu as (Hilt & ->).
  destruct (g_alive HG k key Hk) as (Hklt & HnW & Hslot & _). rewrite Eh in HnW, Hslot. simpl in HnW, Hslot.
  set (na := {| a_key := a_key a; a_ents := a_ents a ++ [(i, v)] |}).
  set (npa := {| a_key := a_key pa; a_ents := ents' |}).
  match goal with |- G ?x _ _ _ => remember x as sf eqn:Esf end.
  assert (Fs : slots sf = slots s) by (rewrite Esf; simpl; exact Es).
  assert (Fn : next_slot sf = next_slot s) by (rewrite Esf; simpl; exact En).
  assert (Fe : empty_slots sf = empty_slots s) by (rewrite Esf; simpl; exact Ee).
  assert (Fl : locs sf = upd (locs s1) (N.to_nat i) {| l_arch := Some ai; l_idx := length (a_ents a) |}) by (rewrite Esf; reflexivity).
  assert (Fa : archs sf = upd (archs s1) ai na) by (rewrite Esf; reflexivity).
  clear Esf.
  assert (EA : forall j, nth_error (archs sf) j =
                 if Nat.eqb j ai then Some na else if Nat.eqb j pai then Some npa else nth_error (archs s) j).
  { intros j. rewrite Fa. destruct (Nat.eqb_spec j ai) as [->|Hja].
    - apply nth_error_upd_same. rewrite Ea1, upd_length. exact Hai.
    - rewrite nth_error_upd_other by congruence. rewrite Ea1. destruct (Nat.eqb_spec j pai) as [->|Hjp].
      + apply nth_error_upd_same. exact Hpai.
      + apply nth_error_upd_other. congruence. }
  assert (HW : W sf = W s) by (unfold W; rewrite Fs, Fn, Fe; reflexivity).
  (* members of the old archetype are alive and located there *)
  assert (Hmem : forall h', In h' (a_ents pa) -> exists k' idx', In (k', a_key pa) al /\ k' < length hs /\ hnd hs k' = h' /\
                    nth_error (locs s) (N.to_nat (fst h')) = Some {| l_arch := Some pai; l_idx := idx' |}).
  { intros h' Hin. apply In_nth_error in Hin. destruct Hin as (idx' & Hn).
    destruct (g_arch_members HG pai pa idx' h' (noex_no _ _) Hpa Hn) as (k' & A & B & C & D). exists k', idx'. auto. }
  assert (Hid : forall k' key0, In (k', key0) al -> fst (hnd hs k') = i -> k' = k).
  { intros k' key0 Hin E. eapply (live_ids_distinct s hs al rem); eauto. rewrite Eh. exact E. }
  (* an alive entity located outside the old archetype shares its id with no member of it *)
  assert (Houtside : forall k' key0 ai' idx', In (k', key0) al ->
            nth_error (locs s) (N.to_nat (fst (hnd hs k'))) = Some {| l_arch := Some ai'; l_idx := idx' |} -> ai' <> pai ->
            forall h', In h' (a_ents pa) -> N.to_nat (fst h') <> N.to_nat (fst (hnd hs k'))).
  { intros k' key0 ai' idx' Hin Hl Hn h' Hh' E. destruct (Hmem h' Hh') as (k'' & idx'' & A & B & C & D).
    assert (k'' = k') by (eapply (live_ids_distinct s hs al rem); eauto; rewrite C; apply N2Nat.inj; exact E).
    subst k''. rewrite <- C in D. rewrite D in Hl. inversion Hl. congruence. }
  assert (Hnat : forall x, x <> i -> N.to_nat x <> N.to_nat i) by (intros x Hx E; apply Hx; apply N2Nat.inj; assumption).
  constructor.
  - rewrite Fl, Fs, upd_length, El1. apply (g_len HG).
  - rewrite HW. apply (g_free_nodup HG).
  - intros j Hj. rewrite HW in Hj. rewrite Fs. apply (g_free_range HG). exact Hj.
  - intros j sl Hj Hsl. rewrite HW in Hj. rewrite Fs in Hsl. eapply (g_free_ver HG); eassumption.
  - apply (g_hs_ver HG).
  - apply (g_hs_id HG).
  - apply (g_hs_nodup HG).
  - rewrite retag_fst. apply (g_al_nodup HG).
  - (* alive *)
    intros k' key0 Hin. apply retag_in in Hin. destruct Hin as [(-> & -> & _)|(Hnk & Hin)].
    + split; [exact Hklt|]. rewrite Eh. unfold live_at. rewrite HW, Fs, Fl. simpl fst. simpl snd. split; [exact HnW|].
      split; [exact Hslot|].
      exists ai, (length (a_ents a)), na. split; [apply nth_error_upd_same; exact Hilt|].
      split; [rewrite EA, Nat.eqb_refl; reflexivity|]. split; [exact Hkey|apply nth_error_app_last].
    + destruct (g_alive HG k' key0 Hin) as (Hk'lt & HnW' & Hslot' & ai' & idx' & a' & Hloc' & Harch' & Hkey' & Hent').
      split; [exact Hk'lt|]. unfold live_at. rewrite HW, Fs, Fl.
      assert (Hne_i : fst (hnd hs k') <> i) by (intros E; apply Hnk; eapply Hid; eauto).
      split; [exact HnW'|]. split; [exact Hslot'|].
      rewrite nth_error_upd_other by (intros E; apply (Hnat _ Hne_i); symmetry; exact E).
      destruct (Nat.eq_dec ai' pai) as [->|Hnp].
      * rewrite Hpa in Harch'. inversion Harch'; subst a'.
        assert (Hin' : In (hnd hs k') ents').
        { apply Hkeep; [eapply nth_error_In; eassumption|]. intros E. apply Hne_i. rewrite E. reflexivity. }
        apply In_nth_error in Hin'. destruct Hin' as (idx'' & Hn''). destruct (Hnew idx'' _ Hn'') as (_ & _ & Hl'').
        exists pai, idx'', npa. rewrite EA. apply Nat.eqb_neq in Hne. rewrite Nat.eqb_sym in Hne. rewrite Hne, Nat.eqb_refl. auto.
      * rewrite Hother by (eapply Houtside; eassumption).
        destruct (Nat.eq_dec ai' ai) as [->|Hna].
        -- rewrite Ha in Harch'. inversion Harch'; subst a'. exists ai, idx', na. rewrite EA, Nat.eqb_refl. simpl.
           repeat split; try assumption. rewrite nth_error_app1; [assumption|]. apply nth_error_Some. congruence.
        -- exists ai', idx', a'. rewrite EA. apply Nat.eqb_neq in Hna, Hnp. rewrite Hna, Hnp. auto.
  - (* dead *)
    intros k' Hk'lt Hna Hnp. rewrite retag_alive in Hna. destruct (g_dead HG k' Hk'lt Hna Hnp) as (sl & Hsl & Hlt).
    exists sl. rewrite Fs. auto.
  - (* pending *)
    intros k' Hp'. destruct (g_pend HG k' Hp') as (A & B & C & D & U). split; [exact A|]. split; [rewrite retag_alive; exact B|].
    split; [exact C|]. split; [|exact U]. unfold pend_at, gap in *. rewrite Fs, HW. exact D.
  - (* every slot *)
    intros j Hj. rewrite Fs in Hj. unfold gap. rewrite HW, Fs.
    destruct (g_slots HG j Hj) as [H|[(k' & key0 & Hin & E)|H]]; [left; exact H| |right; right; exact H].
    right. left. destruct (Nat.eq_dec k' k) as [->|Hnk].
    + exists k, key'. split; [eapply retag_same; eassumption|exact E].
    + exists k', key0. split; [apply retag_other; assumption|exact E].
  - (* archetype keys *)
    assert (E : map a_key (archs sf) = map a_key (archs s)).
    { rewrite Fa, Ea1. unfold na. rewrite map_key_upd by (rewrite nth_error_upd_other by congruence; exact Ha).
      apply map_key_upd. exact Hpa. }
    rewrite E. apply (g_arch_keys HG).
  - (* members *)
    intros ai' a' idx' h' _ Ha' Hh'. rewrite EA in Ha'. rewrite Fl.
    destruct (Nat.eqb_spec ai' ai) as [->|Hna].
    + inversion Ha'; subst a'. simpl in *. destruct (Nat.lt_ge_cases idx' (length (a_ents a))) as [Hlt|Hge].
      * rewrite nth_error_app1 in Hh' by exact Hlt.
        destruct (g_arch_members HG ai a idx' h' (noex_no _ _) Ha Hh') as (k' & A & B & C & D).
        assert (Hnk : k' <> k).
        { intros ->. rewrite Eh in C. subst h'. simpl in D. rewrite Hloc in D. inversion D. congruence. }
        assert (Hne_i : fst h' <> i) by (rewrite <- C; intros E; apply Hnk; eapply Hid; eauto).
        exists k'. split; [apply retag_other; assumption|]. split; [exact B|]. split; [exact C|].
        rewrite nth_error_upd_other by (intros E; apply (Hnat _ Hne_i); symmetry; exact E).
        rewrite Hother; [exact D|]. rewrite <- C. rewrite <- C in D. eapply Houtside; eassumption.
      * assert (idx' = length (a_ents a)).
        { assert (idx' < length (a_ents a ++ [(i, v)])) by (apply nth_error_Some; congruence). rewrite app_length in H. simpl in H. lia. }
        subst idx'. rewrite nth_error_app_last in Hh'. inversion Hh'; subst h'.
        exists k. split; [rewrite <- Hkey; eapply retag_same; eassumption|]. split; [exact Hklt|]. split; [exact Eh|].
        simpl. apply nth_error_upd_same. exact Hilt.
    + destruct (Nat.eqb_spec ai' pai) as [->|Hnp].
      * inversion Ha'; subst a'. simpl in *. destruct (Hnew idx' h' Hh') as (Hnh & Hin & Hl).
        destruct (Hmem h' Hin) as (k' & idx'' & A & B & C & D).
        assert (Hnk : k' <> k) by (intros ->; apply Hnh; congruence).
        assert (Hne_i : fst h' <> i) by (rewrite <- C; intros E; apply Hnk; eapply Hid; eauto).
        exists k'. split; [apply retag_other; assumption|]. split; [exact B|]. split; [exact C|].
        rewrite nth_error_upd_other by (intros E; apply (Hnat _ Hne_i); symmetry; exact E). exact Hl.
      * destruct (g_arch_members HG ai' a' idx' h' (noex_no _ _) Ha' Hh') as (k' & A & B & C & D).
        assert (Hnk : k' <> k).
        { intros ->. rewrite Eh in C. subst h'. simpl in D. rewrite Hloc in D. inversion D. congruence. }
        assert (Hne_i : fst h' <> i) by (rewrite <- C; intros E; apply Hnk; eapply Hid; eauto).
        exists k'. split; [apply retag_other; assumption|]. split; [exact B|]. split; [exact C|].
        rewrite nth_error_upd_other by (intros E; apply (Hnat _ Hne_i); symmetry; exact E).
        rewrite Hother; [exact D|]. rewrite <- C. rewrite <- C in D. eapply Houtside; eassumption.
  - (* history *)
    intros j sl w Hsl. rewrite Fs in Hsl. apply (g_hist HG j sl w Hsl).
Qed.
