(* C13: the refinement theorem for the Manager on the unlocked alphabet WITH dependency declarations
   (create, destroyNow, assign, removeComponent, write through getComponent, addDependency), by induction over scripts. *)
Require Import Coq.Lists.List Coq.NArith.NArith Coq.ZArith.ZArith Coq.Arith.Arith Coq.Bool.Bool Coq.micromega.Lia.
From Mustache Require Import Res Manager MgrSpec Refine.
From Mustache Require Skeleton.
From Mustache Require Import SkelSpec.
From Mustache.proofs Require Import ListLemmas SkelBasics SkelInv SkelSteps SkelMove SkelMain ClosureProofs
  ManagerBasics ManagerMoves ManagerProj ManagerInv ManagerMain ManagerWorlds DepsFrame DepsClosure DepsInv.
Import ListNotations.

(* the operations covered: those of ManagerMain.alpha_b, with creation masks inside the 128 bits of the implementation's
   bitset, plus declarations "c requires m" for component ids and masks inside the 128 bits *)
Definition alpha_d (cis : list cinfo) (o : xop) : bool :=
  match o with
  | XoCreate _ m sids _ => (match sids with [] => true | _ => false end) && lowmb m
  | XoDep c m => Nat.ltb c MASK_BITS && lowmb m
  | _ => alpha_b cis o
  end.

(* every declaration leaves the component set of every live entity closed under the new table
   (true in particular for declarations made before the entities concerned exist) *)
Fixpoint decl_ok (x : xst) (ops : list xop) : bool :=
  match ops with
  | [] => true
  | o :: t => (match o with XoDep _ _ => ents_closed (x_step x o) | _ => true end) && decl_ok (x_step x o) t
  end.

(* ---- the violation counter never decreases ---- *)
Lemma x_viol_step_mono_d cis x o : alpha_d cis o = true -> x_viol x <= x_viol (x_step x o).
Proof.
  intros Ha. destruct o; try (apply (x_viol_step_mono cis); exact Ha).
  - unfold x_step. destruct (out_of_contract x _); [simpl; lia|]. unfold x_step_in.
    destruct (x_lock x); [rewrite x_viol_create|rewrite x_viol_push]; simpl; lia.
  - unfold x_step. simpl. lia.
Qed.

Lemma x_viol_run_mono_d cis : forall ops x, forallb (alpha_d cis) ops = true -> x_viol x <= x_viol (fold_left x_step ops x).
Proof.
  induction ops as [|o t IH]; intros x Ha; simpl in *; [lia|]. apply andb_true_iff in Ha. destruct Ha as (Ho & Ht).
  pose proof (x_viol_step_mono_d cis x o Ho). pose proof (IH (x_step x o) Ht). lia.
Qed.

(* ---- one step ---- *)
Lemma DInv_step cis typed s hs al x o s' hs' :
  DInv cis s hs al x -> cis_ok cis -> alpha_d cis o = true -> x_viol x = 0 -> x_viol (x_step x o) = 0 ->
  (match o with XoDep _ _ => ents_closed (x_step x o) = true | _ => True end) ->
  mstep typed (s, hs) o = Ok (s', hs') -> within (length hs') ->
  exists al', DInv cis s' hs' al' (x_step x o).
Proof.
  intros HD Hok Ha Hv0 Hv1 Hdecl H Hb. unfold mstep in H. bd H r Hst. destruct r as (s1, out). inversion H; subst s' hs'; clear H.
  destruct (DInv_ctl _ _ _ _ _ HD) as (Hl & Hc & Hxl & Hxc & Hcnt & Hal & Hawf).
  unfold x_step in *. destruct (out_of_contract x o) eqn:Eooc; [simpl in Hv1; lia|].
  assert (Hb0 : within (length hs)).
  { eapply within_le; [|exact Hb]. destruct out; rewrite ?app_length; simpl; lia. }
  destruct o; simpl in Ha; try discriminate; cbn [concretize] in Hst.
  - (* create *)
    apply andb_true_iff in Ha. destruct Ha as (Hs & Hlm). destruct sids; [|discriminate]. apply lowmb_ok in Hlm.
    destruct (step_create_out _ _ _ _ _ _ Hl Hst) as (h & ->).
    rewrite app_length in Hb. simpl in Hb. replace (length hs + 1) with (S (length hs)) in Hb by lia.
    destruct (DInv_create cis s hs al x tid m via_arch s1 _ HD Hok Hb Hlm Hst) as (h' & E & HD'). inversion E; subst h'.
    eexists. apply DInv_set_log. exact HD'.
  - (* destroyNow *)
    rewrite resolve_hnd in Hst. destruct (DInv_destroy_now cis s hs al x tid k s1 out HD) as (-> & HD'); [|exact Hst|].
    + exact Hb0.
    + eexists. apply DInv_set_log. exact HD'.
  - (* assign *)
    apply andb_true_iff in Ha. destruct Ha as (Hc' & Hhv). apply Nat.ltb_lt in Hc'.
    rewrite resolve_hnd in Hst. simpl in Eooc. rewrite Hxl in Eooc. apply negb_false_iff in Eooc.
    destruct (DInv_assign cis s hs al x tid k c v typed s1 out HD Hc') as (-> & al' & HD'); [|exact Eooc|lia|exact Hst|].
    + intros z inf -> Hinf. rewrite Hinf in Hhv. exact Hhv.
    + exists al'. apply DInv_set_log. exact HD'.
  - (* removeComponent *)
    apply Nat.ltb_lt in Ha. rewrite resolve_hnd in Hst. simpl in Eooc. rewrite Hxl in Eooc.
    destruct (DInv_remove cis s hs al x tid k c typed0 s1 out HD Ha) as (-> & al' & HD'); [|exact Hst|].
    + destruct typed0; [left; reflexivity|right]. simpl in Eooc. apply negb_false_iff in Eooc. exact Eooc.
    + exists al'. apply DInv_set_log. exact HD'.
  - (* write through getComponent *)
    apply Nat.ltb_lt in Ha. rewrite resolve_hnd in Hst.
    destruct (DInv_set cis s hs al x k c v s1 out HD Ha Hst) as ((p & w & ->) & HD').
    exists al. apply DInv_set_log. exact HD'.
  - (* declaration *)
    apply andb_true_iff in Ha. destruct Ha as (Hc' & Hlm). apply Nat.ltb_lt in Hc'. apply lowmb_ok in Hlm.
    destruct (DInv_dep cis s hs al x c m s1 out HD Hc' Hlm Hdecl Hst) as (-> & HD').
    exists al. apply DInv_set_log. exact HD'.
Qed.

Lemma DInv_run cis typed : forall ops s hs al x s' hs',
  DInv cis s hs al x -> cis_ok cis -> forallb (alpha_d cis) ops = true -> decl_ok x ops = true -> x_viol x = 0 ->
  x_viol (fold_left x_step ops x) = 0 ->
  fold_res (mstep typed) ops (s, hs) = Ok (s', hs') -> within (length hs') ->
  exists al', DInv cis s' hs' al' (fold_left x_step ops x).
Proof.
  induction ops as [|o t IH]; intros s hs al x s' hs' HD Hok Ha Hdk Hv0 Hv1 H Hb; simpl in *.
  - inversion H; subst. eauto.
  - apply andb_true_iff in Ha. destruct Ha as (Ho & Ht). apply andb_true_iff in Hdk. destruct Hdk as (Hd1 & Hd2).
    bd H r H1. destruct r as (s1, hs1).
    assert (Hv1' : x_viol (x_step x o) = 0).
    { pose proof (x_viol_run_mono_d cis t (x_step x o) Ht). lia. }
    destruct (DInv_step cis typed s hs al x o s1 hs1 HD Hok Ho Hv0 Hv1') as (al1 & HD1).
    { destruct o; try exact I. exact Hd1. }
    { exact H1. }
    { eapply within_le; [|exact Hb]. eapply mrun_mono. exact H. }
    apply (IH s1 hs1 al1 (x_step x o) s' hs' HD1 Hok Ht Hd2 Hv1' Hv1 H Hb).
Qed.

Lemma DInv_init n cis : DInv cis (init n cis) [] [] (x_init n cis).
Proof.
  constructor.
  - exact (MInv_init n cis).
  - reflexivity.
  - apply dwf_nil.
  - intros k key [].
Qed.

(* ---- what queries observe ---- *)
Lemma abs_ent_nd s k h : abs_ent (nd s) k h = abs_ent s k h.
Proof. reflexivity. Qed.

Theorem deps_refinement typed n cis ops s hs :
  cis_ok cis -> forallb (alpha_d cis) ops = true -> decl_ok (x_init n cis) ops = true ->
  mrun typed n cis ops = Ok (s, hs) -> x_viol (xrun n cis ops) = 0 -> within (length hs) ->
  length hs = x_count (xrun n cis ops) /\
  forall k,
    match find_ent (xrun n cis ops) k with
    | Some e => exists e', abs_ent s k (nth k hs null_handle) = Some e' /\ ent_match e e' = true
    | None => abs_ent s k (nth k hs null_handle) = None
    end.
Proof.
  intros Hok Ha Hdk Hrun Hviol Hb. unfold mrun in Hrun. unfold xrun in *.
  destruct (DInv_run cis typed ops _ _ _ _ _ _ (DInv_init n cis) Hok Ha Hdk eq_refl Hviol Hrun Hb) as (al & HD).
  generalize dependent (fold_left x_step ops (x_init n cis)). intros X _ HD.
  pose proof (di_M _ _ _ _ _ HD) as HI.
  split; [symmetry; exact (mi_count _ _ _ _ _ HI)|]. intros k.
  destruct (find_ent X k) as [e|] eqn:Hfe.
  - rewrite <- abs_ent_nd. apply (MInv_abs_alive _ _ _ _ (xnd X) _ _ HI). exact Hfe.
  - rewrite <- abs_ent_nd. apply (MInv_abs_dead _ _ _ _ (xnd X) _ HI). exact Hfe.
Qed.

(* ---- the entity table of the specification stays well formed ---- *)
Definition xwf2 (x : xst) : Prop :=
  NoDup (map e_k (x_ents x)) /\ forall e, In e (x_ents x) -> e_k e < x_count x.

Lemma xwf2_put x x' e : xwf2 x -> x_ents x' = put_ent (x_ents x) e -> x_count x <= x_count x' -> e_k e < x_count x' -> xwf2 x'.
Proof.
  intros (C & D) E Hc Hk. split; rewrite E; [apply put_ent_nodup; exact C|].
  intros z Hz. apply put_ent_in in Hz. destruct Hz as [->|Hz]; [exact Hk|]. specialize (D z Hz). lia.
Qed.

Lemma xwf2_same x x' : xwf2 x -> x_ents x' = x_ents x -> x_count x <= x_count x' -> xwf2 x'.
Proof. intros (C & D) E Hc. split; rewrite E; [exact C|]. intros z Hz. specialize (D z Hz). lia. Qed.

Lemma find_ent_lt2 x k e : xwf2 x -> find_ent x k = Some e -> k < x_count x.
Proof.
  intros (_ & D) H. pose proof (findk_key _ _ _ H) as Ek. unfold find_ent in H. apply find_some in H. destruct H as (H & _).
  rewrite <- Ek. apply D. exact H.
Qed.

Lemma xwf2_step cis x o : x_lock x = 0 -> xwf2 x -> alpha_d cis o = true -> xwf2 (x_step x o) /\ x_lock (x_step x o) = 0.
Proof.
  intros Hl Hw Ha. unfold x_step. destruct (out_of_contract x o); [split; [exact Hw|exact Hl]|].
  destruct o; simpl in Ha; try discriminate; unfold x_step_in; rewrite ?Hl.
  - (* create *)
    unfold x_create. destruct (widen _ _ _) as [cs att]. split; [|exact Hl].
    eapply xwf2_put; [exact Hw|reflexivity|simpl; lia|simpl; lia].
  - (* destroyNow *)
    destruct (negb (issued_b x k)); [split; [exact Hw|exact Hl]|]. unfold x_kill. destruct (find_ent x k); [|split; [exact Hw|exact Hl]].
    split; [|exact Hl]. destruct Hw as (Hnd & Hlt). split; simpl.
    + rewrite drop_ent_keys. apply NoDup_filter. exact Hnd.
    + intros z Hz. unfold drop_ent in Hz. apply filter_In in Hz. apply Hlt. tauto.
  - (* assign *)
    destruct (negb (issued_b x k)); [split; [exact Hw|exact Hl]|]. unfold x_assign. destruct (find_ent x k) as [e|] eqn:Hf; [|split; [exact Hw|exact Hl]].
    destruct (has_comp (e_comps e) c); [split; [exact Hw|exact Hl]|]. destruct (widen _ _ _) as [cs att]. split; [|exact Hl].
    eapply xwf2_put; [exact Hw|reflexivity|simpl; lia|]. simpl. eapply find_ent_lt2; eassumption.
  - (* remove *)
    destruct (negb (issued_b x k)); [split; [exact Hw|exact Hl]|]. unfold x_remove. destruct (find_ent x k) as [e|] eqn:Hf; [|split; [exact Hw|exact Hl]].
    destruct (negb (has_comp (e_comps e) c)); [split; [exact Hw|exact Hl]|]. destruct (mhas _ c); [split; [exact Hw|exact Hl]|]. split; [|exact Hl].
    eapply xwf2_put; [exact Hw|reflexivity|simpl; lia|]. simpl. eapply find_ent_lt2; eassumption.
  - (* set *)
    destruct (find_ent x k) as [e|] eqn:Hf; [|split; [exact Hw|exact Hl]]. destruct (has_comp (e_comps e) c); [|split; [exact Hw|exact Hl]].
    split; [|exact Hl]. eapply xwf2_put; [exact Hw|reflexivity|simpl; lia|]. simpl. eapply find_ent_lt2; eassumption.
  - (* declaration *)
    split; [|exact Hl]. eapply xwf2_same; [exact Hw|reflexivity|simpl; lia].
Qed.

Lemma xwf2_run cis : forall ops x, x_lock x = 0 -> xwf2 x -> forallb (alpha_d cis) ops = true ->
  xwf2 (fold_left x_step ops x) /\ x_lock (fold_left x_step ops x) = 0.
Proof.
  induction ops as [|o t IH]; intros x Hl Hw Ha; simpl in *; [split; assumption|]. apply andb_true_iff in Ha. destruct Ha as (Ho & Ht).
  destruct (xwf2_step cis x o Hl Hw Ho) as (Hw' & Hl'). apply IH; assumption.
Qed.

Lemma sorted_is_ordered_d x : x_lock x = 0 -> xwf2 x -> sort_ents (x_ents x) = ordered_from x 0 (x_count x).
Proof.
  intros Hl (Hnd & Hlt).
  assert (Hw : xwf (xnd x)) by (split; [exact Hl|]; split; [reflexivity|]; split; [exact Hnd|exact Hlt]).
  exact (sorted_is_ordered (xnd x) Hw).
Qed.

(* the statement of Refine.v, for the unlocked alphabet with declarations *)
Theorem deps_refines_on typed n cis ops s hs :
  cis_ok cis -> forallb (alpha_d cis) ops = true -> decl_ok (x_init n cis) ops = true ->
  mrun typed n cis ops = Ok (s, hs) -> x_viol (xrun n cis ops) = 0 -> within (length hs) ->
  refines_on typed n cis ops = true.
Proof.
  intros Hok Ha Hdk Hrun Hviol Hb. destruct (deps_refinement typed n cis ops s hs Hok Ha Hdk Hrun Hviol Hb) as (Hcnt & Hpt).
  unfold refines_on. rewrite Hrun, Hviol. simpl. unfold worlds_match.
  destruct (xwf2_run cis ops (x_init n cis) eq_refl) as (Hw & Hl); [split; [constructor|intros e []]|exact Ha|].
  unfold xrun in *. rewrite (sorted_is_ordered_d _ Hl Hw), <- Hcnt. apply Forall2_worlds. unfold abs. apply abs_from_match.
  intros j Hj. simpl. apply Hpt.
Qed.

(* ---- every live entity has all direct and transitive dependents of each of its components ---- *)
Theorem deps_entities_closed typed n cis ops s hs :
  cis_ok cis -> forallb (alpha_d cis) ops = true -> decl_ok (x_init n cis) ops = true ->
  mrun typed n cis ops = Ok (s, hs) -> x_viol (xrun n cis ops) = 0 -> within (length hs) ->
  deps s = x_deps (xrun n cis ops) /\
  forall k e, find_ent (xrun n cis ops) k = Some e ->
  forall c dm, c < MASK_BITS -> dep_find (deps s) c = Some dm -> has_comp (e_comps e) c = true ->
  forall c', mhas dm c' = true -> has_comp (e_comps e) c' = true.
Proof.
  intros Hok Ha Hdk Hrun Hviol Hb. unfold mrun in Hrun. unfold xrun in *.
  destruct (DInv_run cis typed ops _ _ _ _ _ _ (DInv_init n cis) Hok Ha Hdk eq_refl Hviol Hrun Hb) as (al & HD).
  generalize dependent (fold_left x_step ops (x_init n cis)). intros X _ HD.
  split; [exact (di_deps _ _ _ _ _ HD)|]. intros k e Hfe c dm Hc Hdf Hh c' Hc'.
  destruct (DInv_ctl _ _ _ _ _ HD) as (_ & _ & _ & _ & _ & Hal & _).
  assert (Hak : alive al k) by (apply Hal; apply alive_x_find; congruence).
  destruct (alive_in _ _ Hak) as (key & Hin).
  destruct (live_vmatch_d _ _ _ _ _ _ _ _ HD Hin Hfe) as (_ & ai & idx & a & _ & _ & Hkey & _ & (Hm & _)).
  destruct (di_keys _ _ _ _ _ HD k key Hin) as (Hcl & Hlow).
  assert (Ecm : comp_mask (e_comps e) = key) by (apply comp_mask_keys; [rewrite Hm, Hkey; reflexivity|exact Hlow]).
  rewrite <- comp_mask_has in *. rewrite Ecm in *. apply (Hcl c dm Hc Hdf Hh c' Hc').
Qed.

(* ---- when the hypothesis on declarations holds for free ---- *)
Definition is_dep (o : xop) : bool := match o with XoDep _ _ => true | _ => false end.

Lemma decl_ok_nodep : forall ops x, forallb (fun o => negb (is_dep o)) ops = true -> decl_ok x ops = true.
Proof.
  induction ops as [|o t IH]; intros x H; simpl in *; [reflexivity|]. apply andb_true_iff in H. destruct H as (Ho & Ht).
  rewrite (IH _ Ht), andb_true_r. destruct o; try reflexivity. discriminate.
Qed.

(* all declarations first: nothing is alive when they are made *)
Lemma decl_ok_decls_first : forall ds x rest, x_ents x = [] -> forallb is_dep ds = true ->
  forallb (fun o => negb (is_dep o)) rest = true -> decl_ok x (ds ++ rest) = true.
Proof.
  induction ds as [|o t IH]; intros x rest He Hd Hr; simpl in *; [apply decl_ok_nodep; exact Hr|].
  apply andb_true_iff in Hd. destruct Hd as (Ho & Ht). destruct o; try discriminate.
  assert (E : x_ents (x_step x (XoDep c m)) = []) by (unfold x_step; simpl; exact He).
  rewrite (IH _ _ E Ht Hr), andb_true_r. unfold ents_closed. rewrite E. reflexivity.
Qed.

(* ---- the read-only queries on the final state ---- *)
Lemma DInv_observe cis s hs al x k c : DInv cis s hs al x -> c < MASK_BITS ->
  step s (OHas (hnd hs k) c) = Ok (s, RBool (spec_has x k c)) /\
  exists v, step s (OGetConst (hnd hs k) c) = Ok (s, RCell (spec_has x k c) v) /\
            forall e w, find_ent x k = Some e -> In (c, w) (e_comps e) -> cell_le w v = true.
Proof.
  intros HD Hc. rewrite step_has, step_getconst. unfold spec_has.
  destruct (DInv_ctl _ _ _ _ _ HD) as (_ & _ & _ & _ & _ & Hal & _).
  destruct (find_ent x k) as [e|] eqn:Hfe.
  - assert (Ha : alive al k) by (apply Hal; apply alive_x_find; congruence).
    destruct (alive_in _ _ Ha) as (key & Hin).
    destruct (live_vmatch_d _ _ _ _ _ _ _ _ HD Hin Hfe) as (Hk & ai & idx & a & Hloc & Harch & Hkey & Hent & Hvm).
    assert (Ev : is_valid s (hnd hs k) = true) by (apply (valid_m (nd s) _ _ _ (mi_G _ _ _ _ _ (di_M _ _ _ _ _ HD)) Hk); exact Ha).
    rewrite Ev. simpl negb. cbv iota. rewrite (nth_res_some _ _ _ Hloc), !bind_Ok. simpl l_arch. cbv iota.
    rewrite (nth_res_some _ _ _ Harch), !bind_Ok. simpl l_idx. rewrite (vmatch_has _ _ _ _ Hvm Hc).
    split; [reflexivity|]. destruct (cindex (am_mask a) c) as [ci|] eqn:Eci.
    + rewrite (cindex_some_has _ _ _ Eci). eexists. split; [reflexivity|]. intros e0 w E Hin'. inversion E; subst e0.
      destruct Hvm as (_ & _ & Hv). specialize (Hv c w Hin'). unfold acell in Hv. rewrite Eci in Hv. exact Hv.
    + rewrite (proj1 (cindex_none_has _ _) Eci). exists None. split; [reflexivity|]. intros e0 w E Hin'. inversion E; subst e0. exfalso.
      destruct (vmatch_lt _ _ _ _ _ Hvm Hin') as (_ & Hm). apply cindex_none_has in Eci. congruence.
  - assert (Ev : is_valid s (hnd hs k) = false).
    { destruct (is_valid s (hnd hs k)) eqn:Ev; [|reflexivity]. destruct (valid_find_d _ _ _ _ _ _ HD Ev) as (_ & _ & e & He). congruence. }
    rewrite Ev. simpl. split; [reflexivity|]. exists None. split; [reflexivity|]. intros e w E. discriminate.
Qed.

Theorem deps_observations typed n cis ops s hs :
  cis_ok cis -> forallb (alpha_d cis) ops = true -> decl_ok (x_init n cis) ops = true ->
  mrun typed n cis ops = Ok (s, hs) -> x_viol (xrun n cis ops) = 0 -> within (length hs) ->
  forall k c, c < MASK_BITS ->
    step s (OHas (nth k hs null_handle) c) = Ok (s, RBool (spec_has (xrun n cis ops) k c)) /\
    exists v, step s (OGetConst (nth k hs null_handle) c) = Ok (s, RCell (spec_has (xrun n cis ops) k c) v) /\
              forall e w, find_ent (xrun n cis ops) k = Some e -> In (c, w) (e_comps e) -> cell_le w v = true.
Proof.
  intros Hok Ha Hdk Hrun Hviol Hb k c Hc. unfold mrun in Hrun. unfold xrun in *.
  destruct (DInv_run cis typed ops _ _ _ _ _ _ (DInv_init n cis) Hok Ha Hdk eq_refl Hviol Hrun Hb) as (al & HD).
  apply (DInv_observe _ _ _ _ _ k c HD Hc).
Qed.

(* hasComponent on the final state of the model is closed under the model's own table *)
Theorem deps_has_closed typed n cis ops s hs :
  cis_ok cis -> forallb (alpha_d cis) ops = true -> decl_ok (x_init n cis) ops = true ->
  mrun typed n cis ops = Ok (s, hs) -> x_viol (xrun n cis ops) = 0 -> within (length hs) ->
  forall k c dm c', c < MASK_BITS -> c' < MASK_BITS -> dep_find (deps s) c = Some dm -> mhas dm c' = true ->
    step s (OHas (nth k hs null_handle) c) = Ok (s, RBool true) ->
    step s (OHas (nth k hs null_handle) c') = Ok (s, RBool true).
Proof.
  intros Hok Ha Hdk Hrun Hviol Hb k c dm c' Hc Hc' Hdf Hm Hhas.
  destruct (deps_observations typed n cis ops s hs Hok Ha Hdk Hrun Hviol Hb k c Hc) as (O1 & _).
  destruct (deps_observations typed n cis ops s hs Hok Ha Hdk Hrun Hviol Hb k c' Hc') as (O2 & _).
  destruct (deps_entities_closed typed n cis ops s hs Hok Ha Hdk Hrun Hviol Hb) as (_ & Hcl).
  rewrite O1 in Hhas. injection Hhas as E. rewrite O2. unfold spec_has in *.
  destruct (find_ent (xrun n cis ops) k) as [e|] eqn:Hfe; [|discriminate].
  rewrite (Hcl k e Hfe c dm Hc Hdf E c' Hm). reflexivity.
Qed.
