(* C05: the relation LR between a Manager run and the run of the specification over the alphabet with lock / unlock,
   and the step lemmas for everything but the flush: the unlocked operations (through the C02 step lemmas, plus
   destroy() and update()), lock / nested unlock, and the recording of creations, destructions, assignments and
   removals while locked. *)
Require Import Coq.Lists.List Coq.NArith.NArith Coq.ZArith.ZArith Coq.Arith.Arith Coq.Bool.Bool Coq.micromega.Lia Coq.Sorting.Permutation.
From Mustache Require Import Res Manager MgrSpec Refine.
From Mustache Require Skeleton.
From Mustache Require Import SkelSpec.
From Mustache.proofs Require Import ListLemmas SkelBasics SkelInv SkelSteps SkelRefine SkelLocked SkelFlush SkelMove SkelMoveRem ClosureProofs
  ManagerBasics ManagerMoves ManagerProj ManagerInv ManagerMain ManagerLInv ManagerPack ManagerFlush.
From Mustache.proofs Require ManagerDeferred.
Import ListNotations.

(* ---------------------------------------------------------------------------------------- *)
(* frames of the structural primitives: with well-formed archetypes they touch the archetypes, the locations, the
   slot table and the log only *)
Lemma get_arch_awf s m s1 ai : deps s = [] -> Forall awf (archs s) -> get_arch s m si_null = Ok (s1, ai) ->
  fr1 s1 = fr1 s /\ Forall awf (archs s1) /\ (forall j a', nth_error (archs s) j = Some a' -> nth_error (archs s1) j = Some a') /\
  exists a, nth_error (archs s1) ai = Some a /\ am_mask a = m.
Proof.
  intros Hd Hawf H. destruct (get_arch_ok _ _ _ _ _ Hd H) as [(-> & a & Ha & Hm & _)|(Hf & -> & cs & ->)].
  - split; [reflexivity|]. split; [exact Hawf|]. split; [auto|]. exists a. auto.
  - split; [reflexivity|]. split; [simpl; apply Forall_app; split; [exact Hawf|constructor; [apply awf_new|constructor]]|]. split.
    + intros j a' Hj. simpl. rewrite nth_error_app1; [exact Hj|]. apply nth_error_Some. congruence.
    + exists (new_arch m si_null cs). simpl. split; [apply nth_error_app_last|reflexivity].
Qed.

Lemma arch_insert_fr s ai h skip s' : Forall awf (archs s) -> arch_insert s ai h skip = Ok s' ->
  fr2 s' = fr2 s /\ Forall awf (archs s').
Proof.
  intros Hawf H. assert (Ha : exists a, nth_error (archs s) ai = Some a).
  { unfold arch_insert in H. bd H r Hpb. unfold push_back in Hpb. bd Hpb a Ha. apply nth_res_ok in Ha. eauto. }
  destruct Ha as (a & Ha). pose proof (awf_nth _ _ _ Hawf Ha) as Hwa.
  destruct (arch_insert_ok _ _ _ _ _ _ Ha (proj2 (proj2 Hwa)) H) as (a3 & F & A & _ & _ & Hab & He & Hz & Hcl & _).
  split; [exact F|]. rewrite A. apply Forall_upd; [exact Hawf|]. eapply awf_inserted; eassumption.
Qed.

Lemma arch_remove_fr s ai idx h skip s' : Forall awf (archs s) -> arch_remove s ai idx h skip = Ok s' ->
  fr2 s' = fr2 s /\ Forall awf (archs s').
Proof.
  intros Hawf H. assert (Ha : exists a, nth_error (archs s) ai = Some a).
  { unfold arch_remove in H. bd H a Ha. apply nth_res_ok in Ha. eauto. }
  destruct Ha as (a & Ha). destruct (awf_nth _ _ _ Hawf Ha) as (W1 & W2 & W3).
  destruct (arch_remove_ok _ _ _ _ _ _ _ Ha W2 W3 H) as (a' & F & A & Hrm).
  split; [exact F|]. rewrite A. apply Forall_upd; [exact Hawf|]. eapply awf_removed; [|exact Hrm]. split; [|split]; assumption.
Qed.

Lemma external_move_fr s ai h prev pidx skip s' : Forall awf (archs s) -> external_move s ai h prev pidx skip = Ok s' ->
  fr2 s' = fr2 s /\ Forall awf (archs s').
Proof.
  intros Hawf H. assert (Ha : exists a pa, nth_error (archs s) ai = Some a /\ nth_error (archs s) prev = Some pa).
  { unfold external_move in H. destruct (Nat.eqb_spec ai prev) as [E|Hne]; [discriminate|]. bd H r Hpb. destruct r as (s1, idx).
    cbv beta iota in H. bd H a1 Ha1. bd H pa Hpa. apply nth_res_ok in Hpa.
    unfold push_back in Hpb. bd Hpb a Ha. apply nth_res_ok in Ha. bd Hpb a2 He. inversion Hpb; subst s1.
    simpl in Hpa. rewrite nth_error_upd_other in Hpa by exact Hne. eauto. }
  destruct Ha as (a & pa & Ha & Hpa). destruct (awf_nth _ _ _ Hawf Ha) as (Wt1 & Wt2 & Wt3). destruct (awf_nth _ _ _ Hawf Hpa) as (Wp1 & Wp2 & Wp3).
  destruct (external_move_ok _ _ _ _ _ _ _ _ _ Ha Hpa Wt3 Wp2 Wp3 H)
    as (Hne & a2 & pa' & pent & l3 & F & A & Hpent & Hrm & Hlt & L & Hab & He & Hz & Hcl & _).
  split; [exact F|]. rewrite A. apply Forall_upd; [apply Forall_upd; [exact Hawf|]|].
  - apply (awf_inserted a a2 h); [split; [|split]| | | |]; assumption.
  - eapply awf_removed; [|exact Hrm]. split; [|split]; assumption.
Qed.

Lemma destroy_now_fr s h s' : Forall awf (archs s) -> destroy_now_unlocked s h = Ok s' ->
  fr4 s' = fr4 s /\ marked s' = marked s /\ Forall awf (archs s').
Proof.
  intros Hawf H. unfold destroy_now_unlocked in H. destruct (is_valid s h); [|inversion H; subst; auto].
  bd H l Hl. bd H s1 H1. inversion H; subst s'; clear H.
  assert (F : fr2 s1 = fr2 s /\ Forall awf (archs s1)).
  { destruct (l_arch l) as [ai|]; [eapply arch_remove_fr; eassumption|inversion H1; subst; auto]. }
  destruct F as (F & Hawf1). split; [rewrite fr4_release; apply fr2_fr4; exact F|].
  split; [change (marked (release_id s1 h)) with (marked s1); apply fr3_marked, fr2_fr3, F|exact Hawf1].
Qed.

Lemma fr_unlocked_create s tid m via s' out : lockc s = 0 -> deps s = [] -> Forall awf (archs s) ->
  step s (OCreate tid m [] via) = Ok (s', out) -> fr4 s' = fr4 s /\ marked s' = marked s.
Proof.
  intros Hl Hd Hawf H. rewrite (step_create_unlocked _ _ _ _ Hl) in H.
  bd H r Hga. destruct r as (s1, ai). cbv beta iota in H. bd H r2 Hcid. destruct r2 as (s2, h). cbv beta iota in H.
  bd H s3 Hins. inversion H; subst s' out; clear H.
  destruct (get_arch_awf _ _ _ _ Hd Hawf Hga) as (F1 & Hawf1 & _). destruct (create_id_frame _ _ _ Hcid) as (A2 & F2).
  assert (Hawf2 : Forall awf (archs s2)) by (rewrite A2; exact Hawf1).
  destruct (arch_insert_fr _ _ _ _ _ Hawf2 Hins) as (F3 & _).
  split.
  - rewrite (fr2_fr4 _ _ F3), (fr3_fr4 _ _ F2). apply fr1_fr4. exact F1.
  - rewrite (fr3_marked _ _ (fr2_fr3 _ _ F3)), (fr3_marked _ _ F2). apply fr3_marked, fr2_fr3, fr1_fr2. exact F1.
Qed.

Lemma fr_unlocked_destroy_now s tid h s' out : lockc s = 0 -> Forall awf (archs s) ->
  step s (ODestroyNow tid h) = Ok (s', out) -> fr4 s' = fr4 s /\ marked s' = marked s.
Proof.
  intros Hl Hawf H. rewrite (step_destroy_now_unlocked _ _ _ Hl) in H. bd H s1 Hd. inversion H; subst s' out.
  destruct (destroy_now_fr _ _ _ Hawf Hd) as (A & B & _). auto.
Qed.

Lemma fr4_emit s e : fr4 (emit s e) = fr4 s. Proof. reflexivity. Qed.
Lemma fr4_set_arch s ai a : fr4 (set_arch s ai a) = fr4 s. Proof. reflexivity. Qed.

Lemma fr_unlocked_assign s tid h c v typed s' out : lockc s = 0 -> deps s = [] -> Forall awf (archs s) ->
  step s (OAssign tid h c v typed) = Ok (s', out) -> fr4 s' = fr4 s /\ marked s' = marked s.
Proof.
  intros Hl Hd Hawf H. rewrite (step_assign_unlocked _ _ _ _ _ _ Hl) in H. bd H inf Hinf.
  bd H r Hr. destruct r as (s2, ((ai, ci), slot)). cbv beta iota in H.
  assert (F2 : fr2 s2 = fr2 s).
  { unfold assign_unlocked in Hr. bd Hr la Hla. destruct la as (pai, pidx). cbv beta iota in Hr. bd Hr pa Hpa. apply nth_res_ok in Hpa.
    cbv zeta in Hr. destruct (awf_nth _ _ _ Hawf Hpa) as (Wsh & _). rewrite Wsh in Hr.
    bd Hr rg Hga. destruct rg as (sg, ai'). cbv beta iota in Hr. bd Hr s2' Hmv.
    destruct (get_arch_awf _ _ _ _ Hd Hawf Hga) as (Fg & Hawfg & _). destruct (external_move_fr _ _ _ _ _ _ _ Hawfg Hmv) as (Fm & _).
    bd Hr a2 Ha2. bd Hr l2 Hl2. destruct (cindex (am_mask a2) c); [|discriminate]. inversion Hr; subst s2'.
    rewrite Fm. apply fr1_fr2. exact Fg. }
  assert (Hres : fr4 s2 = fr4 s /\ marked s2 = marked s) by (split; [apply fr2_fr4; exact F2|apply fr3_marked, fr2_fr3; exact F2]).
  destruct v as [|z]; [inversion H; subst; exact Hres|].
  bd H s3 Hw. assert (F3 : fr4 s3 = fr4 s2 /\ marked s3 = marked s2).
  { destruct (ci_hasval inf); [|inversion Hw; subst; auto]. apply write_cell_ok in Hw. destruct Hw as (a0 & _ & ->). auto. }
  destruct F3 as (F3 & M3). destruct Hres as (F & M).
  destruct typed; inversion H; subst s' out; [destruct (ci_aa inf), (ci_ev inf)|]; simpl marked; rewrite ?fr4_emit; split; congruence.
Qed.

Lemma fr_unlocked_remove s tid h c typed s' out : lockc s = 0 -> deps s = [] -> Forall awf (archs s) ->
  step s (ORemove tid h c typed) = Ok (s', out) -> fr4 s' = fr4 s /\ marked s' = marked s.
Proof.
  intros Hl Hd Hawf H. rewrite (step_remove_unlocked _ _ _ _ _ Hl) in H.
  destruct (typed && negb (is_valid s h)); [inversion H; subst; auto|]. bd H s1 Hr. inversion H; subst s' out; clear H.
  assert (F2 : fr2 s1 = fr2 s).
  { unfold remove_unlocked in Hr. bd Hr l Hl0. destruct (l_arch l) as [pai|]; [|inversion Hr; reflexivity].
    bd Hr pa Hpa. apply nth_res_ok in Hpa. destruct (negb (mhas (am_mask pa) c)); [inversion Hr; reflexivity|].
    destruct (awf_nth _ _ _ Hawf Hpa) as (Wsh & _). rewrite Wsh in Hr.
    bd Hr rg Hga. destruct rg as (sg, ai). cbv beta iota in Hr.
    destruct (get_arch_awf _ _ _ _ Hd Hawf Hga) as (Fg & Hawfg & _).
    destruct (Nat.eqb ai pai); [inversion Hr; subst; apply fr1_fr2; exact Fg|].
    destruct (external_move_fr _ _ _ _ _ _ _ Hawfg Hr) as (Fm & _). rewrite Fm. apply fr1_fr2. exact Fg. }
  split; [apply fr2_fr4; exact F2|apply fr3_marked, fr2_fr3; exact F2].
Qed.

Lemma fr_getmut s h c w s' out : step s (OGetMut h c w) = Ok (s', out) -> fr4 s' = fr4 s /\ marked s' = marked s.
Proof.
  intros H. rewrite step_getmut in H. destruct (negb (is_valid s h)); [inversion H; subst; auto|].
  bd H l Hl0. destruct (l_arch l) as [ai|]; [|inversion H; subst; auto]. bd H a Ha.
  destruct (cindex (am_mask a) c) as [ci|]; [|inversion H; subst; auto]. bd H ch Hch. bd H a1 Ha1. cbv zeta in H. inversion H; subst. auto.
Qed.

(* ---------------------------------------------------------------------------------------- *)
(* three lists related position by position *)
Lemma F3_length {A B C} (R : A -> B -> C -> Prop) la lb lc : F3 R la lb lc -> length la = length lb /\ length lb = length lc.
Proof. induction 1; simpl; [auto|]. destruct IHF3. split; congruence. Qed.

Lemma F3_nth {A B C} (R : A -> B -> C -> Prop) la lb lc : F3 R la lb lc -> forall i b, nth_error lb i = Some b ->
  exists a c, nth_error la i = Some a /\ nth_error lc i = Some c /\ R a b c.
Proof.
  induction 1 as [|a b c la lb lc Hr H IH]; intros i b' Hb; [destruct i; discriminate|].
  destruct i as [|i]; simpl in *; [inversion Hb; subst; eauto|apply IH; exact Hb].
Qed.

Lemma F3_upd {A B C} (R : A -> B -> C -> Prop) la lb lc : F3 R la lb lc -> forall i a b c, R a b c ->
  F3 R (upd la i a) (upd lb i b) (upd lc i c).
Proof.
  induction 1 as [|a0 b0 c0 la lb lc Hr H IH]; intros i a b c Hn; [destruct i; constructor|].
  destruct i as [|i]; simpl; constructor; auto.
Qed.

Lemma F3_mono {A B C} (R R' : A -> B -> C -> Prop) la lb lc : (forall a b c, R a b c -> R' a b c) -> F3 R la lb lc -> F3 R' la lb lc.
Proof. intros Hi. induction 1; constructor; auto. Qed.

Lemma F3_all {A B C} (R : A -> B -> C -> Prop) : forall la lb lc, length la = length lb -> length lb = length lc ->
  (forall a b c, In b lb -> In c lc -> R a b c) -> F3 R la lb lc.
Proof.
  induction la as [|a la IH]; intros [|b lb] [|c lc] H1 H2 Hr; simpl in *; try discriminate; constructor.
  - apply Hr; left; reflexivity.
  - apply IH; [lia|lia|]. intros a' b' c' Hb Hc. apply Hr; right; assumption.
Qed.

Lemma brel_nil_all cis hs (T : list (list cell)) (B : list (list acmd)) (X : list (list xcmd)) :
  length T = length B -> length B = length X -> Forall (fun b => b = []) B -> Forall (fun b => b = []) X -> F3 (brel cis hs) T B X.
Proof.
  intros H1 H2 HB HX. apply F3_all; [exact H1|exact H2|]. intros a b c Hb Hc.
  rewrite (proj1 (Forall_forall _ _) HB b Hb), (proj1 (Forall_forall _ _) HX c Hc). constructor.
Qed.

Lemma all_nil_concat' {A} (l : list (list A)) : Forall (fun b => b = []) l -> concat l = [].
Proof. induction 1 as [|x t Hx Ht IH]; [reflexivity|]. simpl. rewrite Hx, IH. reflexivity. Qed.

Lemma all_nil_map_nil {A B} (l : list A) : Forall (fun b : list B => b = []) (map (fun _ => []) l).
Proof. induction l; simpl; constructor; auto. Qed.

(* ---------------------------------------------------------------------------------------- *)
(* the relation *)
Record LR (cis : list cinfo) (s : mst) (hs : list handle) (x : xst) : Prop := {
  lr_inv : exists al, LInv cis s hs al (xrem (concat (x_bufs x))) x;
  lr_lock : lockc s = x_lock x;
  lr_nthr : nthreads s = x_nthr x;
  lr_bufs : F3 (brel cis hs) (tmps s) (bufs s) (x_bufs x);
  lr_unl_x : x_lock x = 0 -> Forall (fun b => b = []) (x_bufs x);
  lr_unl_m : x_lock x = 0 -> Forall (fun b => b = []) (bufs s);
  lr_created : NoDup (created (xrem (concat (x_bufs x))));
  lr_mr : MR hs (marked s) (x_marked x);
  lr_eid : x_lock x <> 0 -> (N.of_nat (length (slots s)) <= next_eid s)%N /\ (next_eid s <= N.of_nat (length hs))%N /\
                             forall h, In h hs -> (fst h < next_eid s)%N;
  lr_cf : Forall mcf (bufs s)
}.

Lemma LR_rem_nil cis s hs x : LR cis s hs x -> x_lock x = 0 -> xrem (concat (x_bufs x)) = [].
Proof. intros HR Hl. rewrite (all_nil_concat' _ (lr_unl_x _ _ _ _ HR Hl)). reflexivity. Qed.

Lemma LR_MInv cis s hs x : LR cis s hs x -> x_lock x = 0 -> exists al, MInv cis s hs al x.
Proof.
  intros HR Hl. destruct (lr_inv _ _ _ _ HR) as (al & HI). rewrite (LR_rem_nil _ _ _ _ HR Hl) in HI.
  exists al. apply MInv_of_LInv; [exact HI|rewrite (lr_lock _ _ _ _ HR); exact Hl|exact Hl].
Qed.

Lemma mcf_nil : mcf [].
Proof. intros b1 h ha m sh b2 E. destruct b1; discriminate. Qed.

Lemma all_nil_mcf (l : list (list acmd)) : Forall (fun b => b = []) l -> Forall mcf l.
Proof. intros H. eapply Forall_impl; [|exact H]. simpl. intros b ->. apply mcf_nil. Qed.

(* ---- the specification's control fields: untouched by the meaning of a command ---- *)
Definition xctl (x : xst) := (x_lock x, x_bufs x, x_nthr x, x_marked x).
Lemma xctl_create x k m sh : xctl (x_create x k m sh) = xctl x.
Proof. unfold x_create. destruct (widen x k _) as [cs att]. reflexivity. Qed.
Lemma xctl_kill x k : xctl (x_kill x k) = xctl x.
Proof. unfold x_kill. destruct (find_ent x k); reflexivity. Qed.
Lemma xctl_assign x k c v : xctl (x_assign x k c v) = xctl x.
Proof.
  unfold x_assign. destruct (find_ent x k) as [e|]; [|reflexivity]. destruct (has_comp (e_comps e) c); [reflexivity|].
  destruct (widen x k _) as [cs att]. reflexivity.
Qed.
Lemma xctl_remove x k c : xctl (x_remove x k c) = xctl x.
Proof.
  unfold x_remove. destruct (find_ent x k) as [e|]; [|reflexivity]. destruct (negb (has_comp (e_comps e) c)); [reflexivity|].
  destruct (mhas _ c); reflexivity.
Qed.
Lemma xctl_fields x x' : xctl x' = xctl x -> x_lock x' = x_lock x /\ x_bufs x' = x_bufs x /\ x_nthr x' = x_nthr x /\ x_marked x' = x_marked x.
Proof. unfold xctl. intros H. inversion H. auto. Qed.

Lemma xctl_step_unlocked cis x o : x_lock x = 0 -> alpha_b cis o = true -> xctl (x_step x o) = xctl x.
Proof.
  intros Hl Ha. unfold x_step. destruct (out_of_contract x o); [reflexivity|].
  destruct o; simpl in Ha; try discriminate; unfold x_step_in; rewrite ?Hl.
  - rewrite xctl_create. reflexivity.
  - destruct (negb (issued_b x k)); [reflexivity|apply xctl_kill].
  - destruct (negb (issued_b x k)); [reflexivity|apply xctl_assign].
  - destruct (negb (issued_b x k)); [reflexivity|apply xctl_remove].
  - destruct (find_ent x k) as [e|]; [|reflexivity]. destruct (has_comp (e_comps e) c); reflexivity.
Qed.

Lemma MR_app hs h m sm : MR hs m sm -> ~ In h hs -> h <> null_handle -> MR (hs ++ [h]) m sm.
Proof.
  intros (M1 & M2 & M3) Hni Hnn. split; [|split].
  - intros h' Hin. destruct (M1 h' Hin); [left; assumption|right; apply in_or_app; auto].
  - intros k Hk. rewrite app_length. simpl. pose proof (M2 k Hk). lia.
  - intros k Hk. rewrite app_length in Hk. simpl in Hk. destruct (Nat.eq_dec k (length hs)) as [->|Hne].
    + rewrite hnd_app_last. split.
      * intros Hin. exfalso. destruct (M1 _ Hin) as [E|Hin']; [exact (Hnn E)|exact (Hni Hin')].
      * intros Hin. pose proof (M2 _ Hin). lia.
    + rewrite hnd_app1 by lia. apply M3. lia.
Qed.

(* ---- the operations of the C02 alphabet while the manager is not locked ---- *)
Lemma mstep_unlocked_frame cis typed s hs al x o s' hs' : MInv cis s hs al x -> alpha_b cis o = true ->
  mstep typed (s, hs) o = Ok (s', hs') -> fr4 s' = fr4 s /\ marked s' = marked s /\ (hs' = hs \/ exists h, hs' = hs ++ [h]).
Proof.
  intros HI Ha H. unfold mstep in H. bd H r Hst. destruct r as (s1, out). inversion H; subst s' hs'; clear H.
  pose proof (mi_lock _ _ _ _ _ HI) as Hl. pose proof (mi_deps _ _ _ _ _ HI) as Hd. pose proof (mi_awf _ _ _ _ _ HI) as Hawf.
  assert (Hhs : (match out with RHandle h => hs ++ [h] | _ => hs end) = hs \/ exists h, (match out with RHandle h => hs ++ [h] | _ => hs end) = hs ++ [h])
    by (destruct out; eauto).
  change (fr4 (set_log s1 [])) with (fr4 s1). change (marked (set_log s1 [])) with (marked s1).
  destruct o; simpl in Ha; try discriminate; cbn [concretize] in Hst.
  - destruct sids; [|discriminate]. destruct (fr_unlocked_create _ _ _ _ _ _ Hl Hd Hawf Hst). auto.
  - destruct (fr_unlocked_destroy_now _ _ _ _ _ Hl Hawf Hst). auto.
  - destruct (fr_unlocked_assign _ _ _ _ _ _ _ _ Hl Hd Hawf Hst). auto.
  - destruct (fr_unlocked_remove _ _ _ _ _ _ _ Hl Hd Hawf Hst). auto.
  - destruct (fr_getmut _ _ _ _ _ _ Hst). auto.
Qed.

Lemma LR_unlocked_c02 cis typed s hs x o s' hs' :
  LR cis s hs x -> cis_ok cis -> x_lock x = 0 -> alpha_b cis o = true -> x_viol x = 0 -> x_viol (x_step x o) = 0 ->
  mstep typed (s, hs) o = Ok (s', hs') -> within (length hs') -> LR cis s' hs' (x_step x o).
Proof.
  intros HR Hok Hl Ha Hv0 Hv1 H Hb. destruct (LR_MInv _ _ _ _ HR Hl) as (al & HM).
  destruct (MInv_step cis typed s hs al x o s' hs' HM Hok Ha Hv0 Hv1 H Hb) as (al' & HM').
  destruct (mstep_unlocked_frame cis typed s hs al x o s' hs' HM Ha H) as (F & M & Hhs).
  destruct (xctl_fields _ _ (xctl_step_unlocked cis x o Hl Ha)) as (X1 & X2 & X3 & X4).
  destruct (fr4_fields _ _ F) as (E1 & _ & _ & _ & E5 & E6 & E7 & _).
  destruct HR as [_ Hlk Hn H3 Hux Hum Hcr Hmr _ Hcf].
  destruct (F3_length _ _ _ _ H3) as (L1 & L2).
  assert (Hnil : xrem (concat (x_bufs (x_step x o))) = []) by (rewrite X2, (all_nil_concat' _ (Hux Hl)); reflexivity).
  constructor.
  - exists al'. rewrite Hnil. apply LInv_of_MInv. exact HM'.
  - congruence.
  - congruence.
  - rewrite E6, E7, X2. apply brel_nil_all; auto.
  - intros _. rewrite X2. auto.
  - intros _. rewrite E6. auto.
  - rewrite Hnil. constructor.
  - rewrite M, X4. destruct Hhs as [->|(h & ->)]; [exact Hmr|]. pose proof (mi_G _ _ _ _ _ HM') as HG'.
    apply MR_app; [exact Hmr| |].
    + pose proof (g_hs_nodup HG') as Hnd. apply nodup_app_inv in Hnd. destruct Hnd as (_ & _ & Hd). intros Hin. apply (Hd h Hin). left. reflexivity.
    + intros E. apply (null_not_in _ _ _ _ HG'). apply in_or_app. right. left. exact E.
  - rewrite X1, Hl. intros E. congruence.
  - rewrite E6. exact Hcf.
Qed.

(* ---- destroy() while not locked: the request waits for update() ---- *)
Lemma MR_null hs m sm s al rem : G s hs al rem -> MR hs m sm -> MR hs (Manager.set_insert m null_handle) sm.
Proof.
  intros HG (M1 & M2 & M3). rewrite mset_insert_eq. split; [|split].
  - intros x Hx. apply set_insert_in in Hx. destruct Hx as [->|Hx]; [left; reflexivity|auto].
  - exact M2.
  - intros k Hk. rewrite set_insert_in. rewrite <- (M3 k Hk). split; [intros [E|Hin]; [exfalso; exact (hnd_not_null _ _ _ _ _ HG Hk E)|exact Hin]|auto].
Qed.

Lemma xw_marked_find x l k : find_ent (xw_marked x l) k = find_ent x k.
Proof. reflexivity. Qed.

Lemma LR_destroy_unlocked cis typed s hs x tid k s' hs' :
  LR cis s hs x -> x_lock x = 0 -> mstep typed (s, hs) (XoDestroy tid k) = Ok (s', hs') ->
  hs' = hs /\ LR cis s' hs (x_step x (XoDestroy tid k)).
Proof.
  intros HR Hl H. unfold mstep in H. bd H r Hst. destruct r as (s1, out). cbn [concretize] in Hst. unfold step in Hst.
  pose proof HR as [(al & HI) Hlk Hn H3 Hux Hum Hcr Hmr He Hcf]. rewrite Hlk, Hl in Hst. inversion Hst; subst s1 out; clear Hst.
  inversion H; subst s' hs'; clear H. split; [reflexivity|].
  unfold x_step. simpl out_of_contract. rewrite Hl. unfold x_step_in. rewrite Hl. unfold issued_b. rewrite (li_count _ _ _ _ _ _ HI).
  pose proof (li_G _ _ _ _ _ _ HI) as HG.
  destruct (Nat.ltb_spec k (length hs)) as [Hk|Hk]; simpl negb; cbv iota.
  - constructor; simpl; try assumption.
    + exists al. eapply LInv_ext; [eapply LInv_frame; [| | | | | | |exact HI]; reflexivity|reflexivity|reflexivity|reflexivity|reflexivity].
    + rewrite ManagerMain.resolve_hnd. apply MR_insert_m; [apply (g_hs_nodup HG)|exact Hk|exact Hmr].
  - constructor; simpl; try assumption.
    + exists al. eapply LInv_frame; [| | | | | | |exact HI]; reflexivity.
    + rewrite ManagerMain.resolve_hnd, hnd_beyond by exact Hk. eapply MR_null; eassumption.
Qed.

(* ---- update() while not locked: the marked entities are destroyed ---- *)
Lemma find_fold_kill : forall l x k, find_ent (fold_left x_kill l x) k = if existsb (Nat.eqb k) l then None else find_ent x k.
Proof.
  induction l as [|k0 l IH]; intros x k; simpl; [reflexivity|]. rewrite IH. destruct (x_kill_eq x k0) as (_ & Hf). rewrite Hf.
  destruct (Nat.eqb k k0); simpl; [destruct (existsb (Nat.eqb k) l); reflexivity|reflexivity].
Qed.

Lemma xfr_fold_kill : forall l x, xfr (fold_left x_kill l x) = xfr x.
Proof. induction l as [|k0 l IH]; intros x; simpl; [reflexivity|]. rewrite IH. apply x_kill_eq. Qed.

Lemma LInv_destroy_list cis hs rem : forall m s al x s',
  LInv cis s hs al rem x -> within (length hs) -> (forall h, In h m -> h = null_handle \/ In h hs) ->
  fold_res destroy_now_unlocked m s = Ok s' ->
  exists al' x', LInv cis s' hs al' rem x' /\ fr4 s' = fr4 s /\ marked s' = marked s /\
    x_deps x' = x_deps x /\ x_cinfos x' = x_cinfos x /\ x_count x' = x_count x /\
    forall k', k' < length hs -> find_ent x' k' = if existsb (fun h => handle_eqb (hnd hs k') h) m then None else find_ent x k'.
Proof.
  induction m as [|h m IH]; intros s al x s' HI Hb Hm H.
  - simpl in H. inversion H; subst s'. exists al, x. repeat (split; [first [exact HI|reflexivity]|]). intros k' _. reflexivity.
  - simpl in H. bd H s1 Hd. destruct (Hm h (or_introl eq_refl)) as [->|Hin].
    + rewrite destroy_now_null in Hd. inversion Hd; subst s1.
      destruct (IH s al x s' HI Hb (fun h' Hh' => Hm h' (or_intror Hh')) H) as (al' & x' & HI' & F & M & X1 & X2 & X3 & Hf).
      exists al', x'. repeat (split; [assumption|]). intros k' Hk'. rewrite (Hf k' Hk'). simpl.
      assert (E : handle_eqb (hnd hs k') null_handle = false).
      { apply ManagerDeferred.handle_eqb_neq. apply (hnd_not_null _ _ _ _ _ (li_G _ _ _ _ _ _ HI) Hk'). }
      rewrite E. reflexivity.
    + destruct (In_hnd _ _ Hin) as (k & Hk & Eh). rewrite <- Eh in Hd.
      destruct (LInv_destroy_now cis s hs al rem x k s1 HI Hb Hk Hd) as (HI1 & F1 & M1).
      destruct (IH s1 _ (x_kill x k) s' HI1 Hb (fun h' Hh' => Hm h' (or_intror Hh')) H) as (al' & x' & HI' & F & M & X1 & X2 & X3 & Hf).
      destruct (x_kill_eq x k) as (Fx & Hfk). destruct (xfr_fields _ _ Fx) as (Y1 & Y2 & Y3 & Y4 & Y5).
      exists al', x'. split; [exact HI'|]. split; [congruence|]. split; [congruence|]. split; [congruence|]. split; [congruence|]. split; [congruence|].
      intros k' Hk'. rewrite (Hf k' Hk'), Hfk. simpl. rewrite <- Eh.
      destruct (Nat.eqb_spec k' k) as [->|Hne].
      * rewrite (proj2 (ManagerDeferred.handle_eqb_eq _ _) eq_refl). simpl. destruct (existsb _ m); reflexivity.
      * assert (E : handle_eqb (hnd hs k') (hnd hs k) = false).
        { apply ManagerDeferred.handle_eqb_neq. intros E. apply Hne. eapply (hnd_inj _ hs _ _ _ _ (li_G _ _ _ _ _ _ HI)); eassumption. }
        rewrite E. reflexivity.
Qed.

Lemma existsb_handle_in hs k m : existsb (fun h => handle_eqb (hnd hs k) h) m = true <-> In (hnd hs k) m.
Proof.
  rewrite existsb_exists. split.
  - intros (h & Hin & E). apply ManagerDeferred.handle_eqb_eq in E. rewrite E. exact Hin.
  - intros Hin. exists (hnd hs k). split; [exact Hin|apply ManagerDeferred.handle_eqb_eq; reflexivity].
Qed.

Lemma existsb_nat_in k l : existsb (Nat.eqb k) l = true <-> In k l.
Proof.
  rewrite existsb_exists. split; [intros (y & Hin & E); apply Nat.eqb_eq in E; subst; exact Hin|intros Hin; exists k; split; [exact Hin|apply Nat.eqb_refl]].
Qed.

Lemma step_update_unlocked s : lockc s = 0 ->
  step s (OUpdate true) =
  (do s2 <- fold_res destroy_now_unlocked (marked s) (set_wv (inc_wv s) (wv (inc_wv s)) (Some (wv (inc_wv s)))); Ok (set_marked s2 [], RNone)).
Proof. intros Hl. unfold step. cbv zeta. cbv iota. change (lockc (inc_wv s)) with (lockc s). rewrite Hl. reflexivity. Qed.

Lemma LR_update cis typed s hs x s' hs' :
  LR cis s hs x -> x_lock x = 0 -> within (length hs) -> mstep typed (s, hs) XoUpdate = Ok (s', hs') ->
  hs' = hs /\ LR cis s' hs (x_step x XoUpdate).
Proof.
  intros HR Hl Hb H. unfold mstep in H. bd H r Hst. destruct r as (s1, out). cbn [concretize] in Hst.
  pose proof HR as [(al & HI) Hlk Hn H3 Hux Hum Hcr Hmr He Hcf].
  rewrite step_update_unlocked in Hst by congruence.
  bd Hst s2 Hfold. inversion Hst; subst s1 out; clear Hst. inversion H; subst s' hs'; clear H. split; [reflexivity|].
  set (s0 := set_wv (inc_wv s) (wv (inc_wv s)) (Some (wv (inc_wv s)))) in *.
  assert (HI0 : LInv cis s0 hs al (xrem (concat (x_bufs x))) x) by (eapply LInv_frame; [| | | | | | |exact HI]; reflexivity).
  destruct Hmr as (M1 & M2 & M3).
  destruct (LInv_destroy_list cis hs _ (marked s) s0 al x s2 HI0 Hb M1 Hfold) as (al' & x' & HI' & F & M & X1 & X2 & X3 & Hf).
  unfold x_step. simpl out_of_contract. rewrite Hl. simpl negb. cbv iota. unfold x_step_in.
  set (xk := fold_left x_kill (x_marked x) x).
  pose proof (xfr_fold_kill (x_marked x) x) as Fk. fold xk in Fk. destruct (xfr_fields _ _ Fk) as (Y1 & Y2 & Y3 & Y4 & Y5).
  assert (Yb : x_bufs xk = x_bufs x) by (apply (f_equal x_bufs) in Fk; exact Fk).
  assert (Yn : x_nthr xk = x_nthr x) by (apply (f_equal x_nthr) in Fk; exact Fk).
  destruct (fr4_fields _ _ F) as (E1 & _ & _ & _ & E5 & E6 & E7 & _).
  constructor; simpl; rewrite ?Yb; try assumption.
  - exists al'. eapply LInv_ext; [eapply LInv_frame; [| | | | | | |exact HI']; reflexivity|simpl; congruence|simpl; congruence|simpl; congruence|].
    intros k'. rewrite xw_marked_find. unfold xk. rewrite find_fold_kill.
    destruct (Nat.lt_ge_cases k' (length hs)) as [Hk'|Hk'].
    + rewrite (Hf k' Hk').
      destruct (existsb (Nat.eqb k') (x_marked x)) eqn:E1'; destruct (existsb (fun h => handle_eqb (hnd hs k') h) (marked s)) eqn:E2'; try reflexivity; exfalso.
      * apply existsb_nat_in in E1'. apply (M3 k' Hk') in E1'. apply existsb_handle_in in E1'. congruence.
      * apply existsb_handle_in in E2'. apply (M3 k' Hk') in E2'. apply existsb_nat_in in E2'. congruence.
    + assert (Hx : find_ent x k' = None).
      { apply alive_x_false. destruct (alive_x x k') eqn:E; [|reflexivity]. exfalso. apply (li_alive _ _ _ _ _ _ HI) in E. destruct (alive_in _ _ E) as (key & Hin).
        destruct (g_alive (li_G _ _ _ _ _ _ HI) k' key Hin) as (Hlt & _). exact (Nat.lt_irrefl _ (Nat.lt_le_trans _ _ _ Hlt Hk')). }
      assert (Hx' : find_ent x' k' = None).
      { apply alive_x_false. destruct (alive_x x' k') eqn:E; [|reflexivity]. exfalso. apply (li_alive _ _ _ _ _ _ HI') in E. destruct (alive_in _ _ E) as (key & Hin).
        destruct (g_alive (li_G _ _ _ _ _ _ HI') k' key Hin) as (Hlt & _). exact (Nat.lt_irrefl _ (Nat.lt_le_trans _ _ _ Hlt Hk')). }
      rewrite Hx, Hx'. destruct (existsb _ _); reflexivity.
  - rewrite E1. simpl. congruence.
  - rewrite E5. simpl. congruence.
  - rewrite E6, E7. exact H3.
  - intros _. apply Hux. exact Hl.
  - intros _. rewrite E6. apply Hum. exact Hl.
  - split; [intros h []|]. split; [intros k []|]. intros k _. split; intros [].
  - rewrite Y1. intros E. congruence.
  - rewrite E6. exact Hcf.
Qed.

(* ---- lock() ---- *)
Lemma LR_lock cis typed s hs x s' hs' : LR cis s hs x -> mstep typed (s, hs) XoLock = Ok (s', hs') ->
  hs' = hs /\ LR cis s' hs (x_step x XoLock).
Proof.
  intros HR H. unfold mstep in H. cbn [concretize step] in H. rewrite bind_Ok in H. cbv beta iota in H. inversion H; subst s' hs'; clear H.
  split; [reflexivity|]. pose proof HR as [(al & HI) Hlk Hn H3 Hux Hum Hcr Hmr He Hcf].
  unfold x_step. simpl out_of_contract. cbv iota. unfold x_step_in, do_lock. rewrite Hlk.
  destruct (x_lock x) as [|n] eqn:El.
  - pose proof (Hux eq_refl) as Hnx. pose proof (Hum eq_refl) as Hnm.
    assert (Hrem : xrem (concat (x_bufs x)) = []) by (rewrite (all_nil_concat' _ Hnx); reflexivity).
    assert (Hnx' : Forall (fun b : list xcmd => b = []) (resize (x_bufs x) (x_nthr x) [])) by (apply Forall_resize; auto).
    assert (Hnm' : Forall (fun b : list acmd => b = []) (resize (bufs s) (nthreads s) [])) by (apply Forall_resize; auto).
    assert (Hrem' : xrem (concat (resize (x_bufs x) (x_nthr x) [])) = []) by (rewrite (all_nil_concat' _ Hnx'); reflexivity).
    constructor; simpl.
    + exists al. rewrite Hrem'. rewrite Hrem in HI. eapply LInv_ext; [eapply LInv_frame; [| | | | | | |exact HI]; reflexivity| | | |]; reflexivity.
    + reflexivity.
    + exact Hn.
    + apply brel_nil_all; rewrite ?SkelFlush.resize_length; auto.
    + intros E. discriminate.
    + intros E. discriminate.
    + rewrite Hrem'. constructor.
    + exact Hmr.
    + intros _. split; [lia|]. split; [pose proof (li_slots _ _ _ _ _ _ HI); lia|]. intros h Hin. rewrite Hrem in HI.
      destruct (In_hnd _ _ Hin) as (k & Hk & <-). pose proof (ids_in_range _ hs _ k (li_G _ _ _ _ _ _ HI) Hk) as Hr. simpl in Hr. rewrite map_length in Hr. lia.
    + apply all_nil_mcf. exact Hnm'.
  - constructor; simpl; try assumption.
    + exists al. eapply LInv_ext; [eapply LInv_frame; [| | | | | | |exact HI]; reflexivity| | | |]; reflexivity.
    + reflexivity.
    + intros E. discriminate.
    + intros E. discriminate.
    + intros _. apply He. discriminate.
Qed.

(* ---- unlock() that leaves the manager locked ---- *)
Lemma LR_unlock_nested cis typed s hs x s' hs' n : LR cis s hs x -> x_lock x = S (S n) ->
  mstep typed (s, hs) XoUnlock = Ok (s', hs') -> hs' = hs /\ LR cis s' hs (x_step x XoUnlock).
Proof.
  intros HR El H. pose proof HR as [(al & HI) Hlk Hn H3 Hux Hum Hcr Hmr He Hcf].
  unfold mstep in H. cbn [concretize] in H. rewrite (ManagerIsolation.nested_unlock_does_not_flush s n) in H by congruence.
  rewrite bind_Ok in H. cbv beta iota in H. inversion H; subst s' hs'; clear H. split; [reflexivity|].
  unfold x_step. simpl out_of_contract. cbv iota. unfold x_step_in. rewrite El. simpl pred. cbn [x_lock xw_lock].
  constructor; simpl; try assumption.
  - exists al. eapply LInv_ext; [eapply LInv_frame; [| | | | | | |exact HI]; reflexivity| | | |]; reflexivity.
  - reflexivity.
  - intros E. discriminate.
  - intros E. discriminate.
  - intros _. apply He. rewrite El. discriminate.
Qed.

(* ---------------------------------------------------------------------------------------- *)
(* recording while locked *)
Lemma with_rec_set_log s e b t l l' : set_log (ManagerDeferred.with_rec s e b t l) l' = ManagerDeferred.with_rec s e b t l'.
Proof. reflexivity. Qed.

Lemma mcf_snoc b c : mcf b -> (forall h ha m sh, c = ACreate h ha m sh -> forall c', In c' b -> cmd_handle c' <> h) -> mcf (b ++ [c]).
Proof.
  intros Hb Hc b1 h ha m sh b2 E c' Hin. destruct b2 as [|x b2].
  - apply app_inj_tail in E. destruct E as (E1 & E2). subst b1. apply (Hc h ha m sh E2 c' Hin).
  - assert (E' : b = b1 ++ ACreate h ha m sh :: removelast (x :: b2)).
    { apply (f_equal (@removelast _)) in E. rewrite removelast_last in E. rewrite E.
      rewrite removelast_app by discriminate. simpl removelast at 1. reflexivity. }
    apply (Hb b1 h ha m sh _ E' c' Hin).
Qed.

Lemma xw_bufs_id x : xw_bufs x (x_bufs x) = x.
Proof. destruct x; reflexivity. Qed.

Lemma perm_xrem_nocreate l1 l2 xc : x_is_create xc = false -> Permutation l1 (xc :: l2) -> Permutation (xrem l1) (xrem l2).
Proof.
  intros Hc Hp. apply (filter_map_perm (fun c => match c with XCreate k m _ => Some (SCreate k m) | _ => None end)) in Hp.
  destruct xc; try discriminate; exact Hp.
Qed.

(* a command that is not a creation, through an issued handle *)
Lemma LR_record_cmd cis s hs x tid b tl c xc tl_add lg n :
  LR cis s hs x -> x_lock x = S n ->
  nth_error (bufs s) tid = Some b -> nth_error (tmps s) tid = Some tl ->
  is_create c = false -> crel cis hs (tl ++ tl_add) c xc ->
  LR cis (ManagerDeferred.with_rec s (next_eid s) (upd (bufs s) tid (b ++ [c])) (upd (tmps s) tid (tl ++ tl_add)) lg) hs (x_push x tid xc).
Proof.
  intros HR El Hb Htl Hnc Hc. pose proof HR as [(al & HI) Hlk Hn H3 Hux Hum Hcr Hmr He Hcf].
  destruct (F3_nth _ _ _ _ H3 tid b Hb) as (tl' & xb & Htl' & Hxb & Hbr). rewrite Htl in Htl'. inversion Htl'; subst tl'.
  assert (Hnth : nth tid (x_bufs x) [] = xb) by (apply (nth_error_nth' _ _ _ _ Hxb)).
  assert (Htid : tid < length (x_bufs x)) by (apply nth_error_Some; congruence).
  assert (Hxc : x_is_create xc = false) by (destruct (crel_key _ _ _ _ _ Hc) as (_ & _ & E); congruence).
  unfold x_push. rewrite Hnth.
  assert (Hperm : Permutation (concat (upd (x_bufs x) tid (xb ++ [xc]))) (xc :: concat (x_bufs x))).
  { rewrite <- Hnth. apply concat_upd_app_perm. exact Htid. }
  pose proof (perm_xrem_nocreate _ _ _ Hxc Hperm) as Hperm'.
  constructor; simpl.
  - exists al. eapply LInv_ext; [eapply LInv_frame; [| | | | | | |eapply LInv_rem_ext; [|exact HI]]; try reflexivity| | | |]; try reflexivity.
    intros k. apply pend_perm. exact Hperm'.
  - exact Hlk.
  - exact Hn.
  - apply F3_upd; [exact H3|]. apply brel_app; [apply brel_tl; exact Hbr|]. apply br_cons; [exact Hc|constructor].
  - intros E. congruence.
  - intros E. congruence.
  - eapply Permutation_NoDup; [symmetry; apply filter_map_perm; exact Hperm'|exact Hcr].
  - exact Hmr.
  - exact He.
  - apply Forall_upd; [exact Hcf|]. apply mcf_snoc; [apply (proj1 (Forall_forall _ _) Hcf); eapply nth_error_In; eassumption|].
    intros h ha m sh E. subst c. discriminate.
Qed.

(* ... through the null handle (a handle the script has not been given yet): recorded, and skipped at the flush *)
Lemma LR_record_null cis s hs x tid b tl c tl_add lg n :
  LR cis s hs x -> x_lock x = S n ->
  nth_error (bufs s) tid = Some b -> nth_error (tmps s) tid = Some tl ->
  is_create c = false -> cmd_handle c = null_handle ->
  LR cis (ManagerDeferred.with_rec s (next_eid s) (upd (bufs s) tid (b ++ [c])) (upd (tmps s) tid (tl ++ tl_add)) lg) hs x.
Proof.
  intros HR El Hb Htl Hnc Hc. pose proof HR as [(al & HI) Hlk Hn H3 Hux Hum Hcr Hmr He Hcf].
  destruct (F3_nth _ _ _ _ H3 tid b Hb) as (tl' & xb & Htl' & Hxb & Hbr). rewrite Htl in Htl'. inversion Htl'; subst tl'.
  constructor; simpl; try assumption.
  - exists al. eapply LInv_frame; [| | | | | | |exact HI]; reflexivity.
  - rewrite <- (upd_same_id (x_bufs x) tid xb Hxb). apply F3_upd; [exact H3|].
    rewrite <- (app_nil_r xb). apply brel_app; [apply brel_tl; exact Hbr|]. apply br_skip; [exact Hc|exact Hnc|constructor].
  - intros E. congruence.
  - apply Forall_upd; [exact Hcf|]. apply mcf_snoc; [apply (proj1 (Forall_forall _ _) Hcf); eapply nth_error_In; eassumption|].
    intros h ha m sh E. subst c. discriminate.
Qed.

(* ---- getArchetype (the driver fetches the archetype before create(Archetype&)) ---- *)
Lemma LR_get_arch cis s hs x m s1 ai : LR cis s hs x -> get_arch s m si_null = Ok (s1, ai) ->
  LR cis s1 hs x /\ fr1 s1 = fr1 s /\ exists a, nth_error (archs s1) ai = Some a /\ am_mask a = m /\ am_shared a = si_null.
Proof.
  intros HR H. pose proof HR as [(al & HI) Hlk Hn H3 Hux Hum Hcr Hmr He Hcf].
  destruct (LInv_get_arch _ _ _ _ _ _ _ _ _ HI H) as (HI1 & F & _ & a & Ha & Hm).
  destruct (fr4_fields _ _ (fr1_fr4 _ _ F)) as (E1 & _ & _ & E4 & E5 & E6 & E7 & _).
  destruct (fr2_slots _ _ (fr1_fr2 _ _ F)) as (S1 & _).
  split; [|split; [exact F|exists a; split; [exact Ha|split; [exact Hm|apply (awf_nth _ _ _ (li_awf _ _ _ _ _ _ HI1) Ha)]]]].
  constructor; rewrite ?E1, ?E4, ?E5, ?E6, ?E7, ?S1, ?(fr3_marked _ _ (fr2_fr3 _ _ (fr1_fr2 _ _ F))); try assumption. exists al. exact HI1.
Qed.

(* ---- a creation recorded while locked ---- *)
Lemma LR_create_record cis s hs x tid m b lg n :
  LR cis s hs x -> x_lock x = S n -> within (S (length hs)) -> nth_error (bufs s) tid = Some b ->
  LR cis (ManagerDeferred.with_rec s (next_eid s + 1)%N
            (upd (bufs s) tid (b ++ [ACreate (ManagerDeferred.fresh_handle s) (negb (m =? 0)%N) m si_null])) (tmps s) lg)
     (hs ++ [ManagerDeferred.fresh_handle s]) (x_push (xw_count x (S (x_count x))) tid (XCreate (x_count x) m [])).
Proof.
  intros HR El Hb Hbuf. pose proof HR as [(al & HI) Hlk Hn H3 Hux Hum Hcr Hmr He Hcf].
  pose proof HI as [HG Hawf Hdp Hc Hxd Hxc Hcnt Hsl Hal Hv].
  destruct He as (He1 & He2 & He3); [rewrite El; discriminate|].
  remember (next_eid s) as i eqn:Ei in *.
  assert (Hnone : nth_error (slots s) (N.to_nat i) = None) by (apply nth_error_None; lia).
  assert (Eh : ManagerDeferred.fresh_handle s = (i, 0%N)) by (unfold ManagerDeferred.fresh_handle; rewrite <- Ei, Hnone; reflexivity).
  rewrite Eh.
  destruct (F3_nth _ _ _ _ H3 tid b Hbuf) as (tl & xb & Htl & Hxb & Hbr).
  assert (Hnth : nth tid (x_bufs x) [] = xb) by (apply (nth_error_nth' _ _ _ _ Hxb)).
  assert (Htid : tid < length (x_bufs x)) by (apply nth_error_Some; congruence).
  assert (Hfresh : forall h', In h' hs -> fst h' <> i) by (intros h' Hin E; pose proof (He3 h' Hin); lia).
  assert (Hidb : (i < Skeleton.NULL_ID)%N).
  { unfold within, BOUND in Hb. unfold Skeleton.NULL_ID. lia. }
  rewrite Hcnt. unfold x_push. simpl x_bufs. rewrite Hnth.
  remember (XCreate (length hs) m []) as c eqn:Ec.
  assert (Hperm : Permutation (concat (upd (x_bufs x) tid (xb ++ [c]))) (c :: concat (x_bufs x))).
  { rewrite <- Hnth. apply concat_upd_app_perm. exact Htid. }
  assert (Hperm' : Permutation (xrem (concat (upd (x_bufs x) tid (xb ++ [c])))) (SCreate (length hs) m :: xrem (concat (x_bufs x)))).
  { apply (filter_map_perm (fun c => match c with XCreate k m _ => Some (SCreate k m) | _ => None end)) in Hperm. rewrite Ec in Hperm at 2. exact Hperm. }
  assert (Hpend : forall k, pend (xrem (concat (upd (x_bufs x) tid (xb ++ [c])))) k <-> pend (xrem (concat (x_bufs x))) k \/ k = length hs).
  { intros k. rewrite (pend_perm _ _ k Hperm'). unfold pend. simpl. split.
    - intros (key' & [E|Hin]); [inversion E; right; reflexivity|left; exists key'; exact Hin].
    - intros [(key' & Hin)| ->]; [exists key'; right; exact Hin|exists m; left; reflexivity]. }
  assert (Hlen_i : length (Skeleton.slots (proj s)) <= N.to_nat i) by (simpl; rewrite map_length; lia).
  pose proof (G_add_pending (proj s) hs _ _ _ i HG Hlen_i Hfresh Hidb Hpend) as HG'.
  assert (Hnn : ~ In Skeleton.null_handle (hs ++ [(i, 0%N)])) by (apply (null_not_in _ _ _ _ HG')).
  assert (Hni : ~ In (i, 0%N) hs) by (intros Hin; apply (Hfresh _ Hin); reflexivity).
  constructor; simpl.
  - exists al. constructor; simpl; try assumption.
    + eapply G_same_core; [| | | | |exact HG']; reflexivity.
    + rewrite app_length. simpl. lia.
    + rewrite app_length. simpl. lia.
    + apply Vals_hnd_app. exact Hv.
  - exact Hlk.
  - exact Hn.
  - rewrite <- (upd_same_id (tmps s) tid tl Htl). apply F3_upd.
    + eapply F3_mono; [|exact H3]. intros a0 b0 c0 H0. rewrite <- (app_nil_r a0). apply brel_mono. exact H0.
    + apply brel_app; [rewrite <- (app_nil_r tl); apply brel_mono; exact Hbr|]. apply br_cons; [|constructor].
      rewrite Ec. simpl. rewrite app_length, hnd_app_last. simpl. repeat split; try reflexivity. lia.
  - intros E. congruence.
  - intros E. congruence.
  - eapply Permutation_NoDup; [symmetry; apply filter_map_perm; exact Hperm'|]. simpl. constructor; [|exact Hcr].
    intros Hin. apply created_in in Hin. pose proof (proj1 (g_pend HG _ Hin)) as Hlt. exact (Nat.lt_irrefl _ Hlt).
  - apply MR_app; [exact Hmr|exact Hni|]. intros E. apply Hnn. apply in_or_app. right. left. exact E.
  - intros _. split; [lia|]. split; [rewrite app_length; simpl; lia|].
    intros h' Hin. apply in_app_or in Hin. destruct Hin as [Hin|[<-|[]]]; [pose proof (He3 h' Hin); lia|simpl; lia].
  - apply Forall_upd; [exact Hcf|]. apply mcf_snoc; [apply (proj1 (Forall_forall _ _) Hcf); eapply nth_error_In; eassumption|].
    intros h0 ha0 m0 sh0 E c' Hin'. inversion E; subst h0.
    destruct (brel_handles _ _ _ _ _ Hbr c' Hin') as [E'|Hin''].
    + rewrite E'. intros E2. apply Hnn. apply in_or_app. right. left. symmetry. exact E2.
    + intros E2. apply Hni. rewrite <- E2. exact Hin''.
Qed.

Lemma not_ooc x o : x_viol (x_step x o) = x_viol x -> out_of_contract x o = false.
Proof. unfold x_step. destruct (out_of_contract x o); [simpl; lia|reflexivity]. Qed.

Lemma LR_create_locked cis typed s hs x tid m via s' hs' n :
  LR cis s hs x -> x_lock x = S n -> within (length hs') -> x_viol (x_step x (XoCreate tid m [] via)) = x_viol x ->
  mstep typed (s, hs) (XoCreate tid m [] via) = Ok (s', hs') -> LR cis s' hs' (x_step x (XoCreate tid m [] via)).
Proof.
  intros HR El Hb Hv H. pose proof (not_ooc _ _ Hv) as Hooc. unfold x_step. rewrite Hooc. unfold x_step_in. rewrite El. simpl map.
  unfold mstep in H. bd H r Hst. destruct r as (s1, out). cbn [concretize] in Hst.
  unfold step, make_shared_info in Hst. cbn [fold_res] in Hst. rewrite bind_Ok in Hst. cbv beta iota in Hst.
  rewrite (lr_lock _ _ _ _ HR), El in Hst. destruct via.
  - bd Hst rg Hga. destruct rg as (sg, ai). cbv beta iota in Hst. bd Hst a Ha. apply nth_res_ok in Ha. bd Hst r2 Hcl. destruct r2 as (s2, h).
    inversion Hst; subst s1 out; clear Hst. inversion H; subst s' hs'; clear H. simpl fst. simpl snd.
    destruct (LR_get_arch _ _ _ _ _ _ _ HR Hga) as (HRg & _ & a' & Ha' & Hm & Hsh). rewrite Ha in Ha'. inversion Ha'; subst a'. rewrite Hm, Hsh in Hcl.
    destruct (ManagerDeferred.create_locked_spec _ _ _ _ _ _ Hcl) as (-> & b & Hbuf & ->).
    rewrite with_rec_set_log. simpl si_data. simpl negb at 2. rewrite orb_false_r.
    apply (LR_create_record cis sg hs x tid m b [] n HRg El); [|exact Hbuf]. rewrite app_length in Hb. simpl in Hb. unfold within in *. lia.
  - bd Hst r2 Hcl. destruct r2 as (s2, h). inversion Hst; subst s1 out; clear Hst. inversion H; subst s' hs'; clear H. simpl fst. simpl snd.
    destruct (ManagerDeferred.create_locked_spec _ _ _ _ _ _ Hcl) as (-> & b & Hbuf & ->).
    rewrite with_rec_set_log. simpl si_data. simpl negb at 2. rewrite orb_false_r.
    apply (LR_create_record cis s hs x tid m b [] n HR El); [|exact Hbuf]. rewrite app_length in Hb. simpl in Hb. unfold within in *. lia.
Qed.

(* ---- destroy / destroyNow / removeComponent recorded while locked ---- *)
Lemma LR_push_locked cis s hs x tid c xc k s1 n :
  LR cis s hs x -> x_lock x = S n -> push_cmd s tid c = Ok s1 -> is_create c = false -> cmd_handle c = hnd hs k ->
  (k < length hs -> forall tl, crel cis hs tl c xc) ->
  LR cis (set_log s1 []) hs (if negb (issued_b x k) then x else x_push x tid xc).
Proof.
  intros HR El Hp Hnc Hh Hc. destruct (ManagerDeferred.push_cmd_spec _ _ _ _ Hp) as (b & Hbuf & ->). rewrite with_rec_set_log.
  destruct (F3_nth _ _ _ _ (lr_bufs _ _ _ _ HR) tid b Hbuf) as (tl & xb & Htl & _).
  rewrite <- (upd_same_id (tmps s) tid tl Htl), <- (app_nil_r tl).
  destruct (lr_inv _ _ _ _ HR) as (al & HI). unfold issued_b. rewrite (li_count _ _ _ _ _ _ HI).
  destruct (Nat.ltb_spec k (length hs)) as [Hk|Hk]; simpl negb; cbv iota.
  - apply (LR_record_cmd cis s hs x tid b tl c xc [] [] n HR El Hbuf Htl Hnc). apply Hc. exact Hk.
  - apply (LR_record_null cis s hs x tid b tl c [] [] n HR El Hbuf Htl Hnc). rewrite Hh. apply hnd_beyond. exact Hk.
Qed.

Lemma LR_destroy_locked cis typed s hs x tid k s' hs' n :
  LR cis s hs x -> x_lock x = S n -> x_viol (x_step x (XoDestroy tid k)) = x_viol x ->
  mstep typed (s, hs) (XoDestroy tid k) = Ok (s', hs') -> hs' = hs /\ LR cis s' hs (x_step x (XoDestroy tid k)).
Proof.
  intros HR El Hv H. pose proof (not_ooc _ _ Hv) as Hooc. unfold x_step. rewrite Hooc. unfold x_step_in. rewrite El.
  unfold mstep in H. bd H r Hst. destruct r as (s1, out). cbn [concretize] in Hst. unfold step in Hst. rewrite (lr_lock _ _ _ _ HR), El in Hst.
  bd Hst s2 Hp. inversion Hst; subst s1 out. inversion H; subst s' hs'. split; [reflexivity|].
  apply (LR_push_locked cis s hs x tid _ (XDestroy k) k s2 n HR El Hp eq_refl eq_refl). intros Hk tl. simpl. auto.
Qed.

Lemma LR_destroy_now_locked cis typed s hs x tid k s' hs' n :
  LR cis s hs x -> x_lock x = S n -> x_viol (x_step x (XoDestroyNow tid k)) = x_viol x ->
  mstep typed (s, hs) (XoDestroyNow tid k) = Ok (s', hs') -> hs' = hs /\ LR cis s' hs (x_step x (XoDestroyNow tid k)).
Proof.
  intros HR El Hv H. pose proof (not_ooc _ _ Hv) as Hooc. unfold x_step. rewrite Hooc. unfold x_step_in. rewrite El.
  unfold mstep in H. bd H r Hst. destruct r as (s1, out). cbn [concretize] in Hst. unfold step in Hst. rewrite (lr_lock _ _ _ _ HR), El in Hst.
  bd Hst s2 Hp. inversion Hst; subst s1 out. inversion H; subst s' hs'. split; [reflexivity|].
  apply (LR_push_locked cis s hs x tid _ (XDestroyNow k) k s2 n HR El Hp eq_refl eq_refl). intros Hk tl. simpl. auto.
Qed.

Lemma LR_remove_locked cis typed s hs x tid k c ty s' hs' n :
  LR cis s hs x -> x_lock x = S n -> c < MASK_BITS -> x_viol (x_step x (XoRemove tid k c ty)) = x_viol x ->
  mstep typed (s, hs) (XoRemove tid k c ty) = Ok (s', hs') -> hs' = hs /\ LR cis s' hs (x_step x (XoRemove tid k c ty)).
Proof.
  intros HR El Hc Hv H. pose proof (not_ooc _ _ Hv) as Hooc. unfold x_step. rewrite Hooc. unfold x_step_in. rewrite El.
  unfold mstep in H. bd H r Hst. destruct r as (s1, out). cbn [concretize] in Hst. unfold step in Hst. rewrite (lr_lock _ _ _ _ HR), El in Hst.
  bd Hst s2 Hp. inversion Hst; subst s1 out. inversion H; subst s' hs'. split; [reflexivity|].
  apply (LR_push_locked cis s hs x tid _ (XRemove k c) k s2 n HR El Hp eq_refl eq_refl). intros Hk tl. simpl. auto.
Qed.

(* ---- an assignment recorded while locked: the temporary holds the assigned value ---- *)
Lemma LR_assign_locked cis typed s hs x tid k c v s' hs' n :
  LR cis s hs x -> x_lock x = S n -> c < MASK_BITS ->
  (forall z inf, v = Some z -> nth_error cis c = Some inf -> ci_hasval inf = true) ->
  x_viol (x_step x (XoAssign tid k c v)) = x_viol x ->
  mstep typed (s, hs) (XoAssign tid k c v) = Ok (s', hs') -> hs' = hs /\ LR cis s' hs (x_step x (XoAssign tid k c v)).
Proof.
  intros HR El Hc Hhv Hv H. pose proof (not_ooc _ _ Hv) as Hooc. unfold x_step. rewrite Hooc. unfold x_step_in. rewrite El.
  unfold mstep in H. bd H r Hst. destruct r as (s1, out). cbn [concretize] in Hst.
  rewrite (ManagerDeferred.step_assign_locked s tid _ c _ typed n) in Hst by (rewrite (lr_lock _ _ _ _ HR); exact El).
  bd Hst inf Hinf. apply info_of_ok in Hinf. destruct (lr_inv _ _ _ _ HR) as (al & HI). rewrite (li_cis _ _ _ _ _ _ HI) in Hinf.
  bd Hst r Hal. destruct r as (s2, nn). destruct (ManagerDeferred.assign_locked_spec _ _ _ _ _ _ _ Hal) as (inf' & b & tl & Hinf' & Hbuf & Htl & -> & ->).
  rewrite (li_cis _ _ _ _ _ _ HI), Hinf in Hinf'. inversion Hinf'; subst inf'; clear Hinf'.
  assert (Htid : tid < length (tmps s)) by (apply nth_error_Some; congruence).
  assert (Es' : s' = ManagerDeferred.with_rec s (next_eid s) (upd (bufs s) tid (b ++ [AAssign (resolve hs k) c (length tl)]))
                       (upd (tmps s) tid (tl ++ [cellof cis c v])) [] /\ hs' = hs).
  { destruct v as [z|]; cbn [fst snd] in Hst.
    - rewrite (Hhv z inf eq_refl Hinf) in Hst. bd Hst s3 Hw. destruct (ManagerDeferred.write_tmp_spec _ _ _ _ _ Hw) as (tl2 & Htl2 & _ & ->).
      rewrite ManagerDeferred.with_rec_tmps, nth_error_upd_same in Htl2 by exact Htid. inversion Htl2; subst tl2; clear Htl2.
      rewrite ManagerDeferred.with_rec_tmps, ManagerDeferred.upd_app_last, upd_upd, ManagerDeferred.with_rec_twice, ManagerDeferred.with_rec_eid, ManagerDeferred.with_rec_bufs in Hst.
      inversion Hst; subst s1 out; clear Hst. inversion H; subst s' hs'. split; [|reflexivity]. destruct typed; [destruct (ci_ev inf)|]; reflexivity.
    - inversion Hst; subst s1 out; clear Hst. inversion H; subst s' hs'. split; [|reflexivity]. rewrite with_rec_set_log.
      unfold ManagerDeferred.al_value, cellof. rewrite (default_cell_of _ _ _ Hinf). reflexivity. }
  destruct Es' as (-> & ->). split; [reflexivity|].
  unfold issued_b. rewrite (li_count _ _ _ _ _ _ HI). rewrite ManagerMain.resolve_hnd.
  destruct (Nat.ltb_spec k (length hs)) as [Hk|Hk]; simpl negb; cbv iota.
  - apply (LR_record_cmd cis s hs x tid b tl (AAssign (hnd hs k) c (length tl)) (XAssign k c v) [cellof cis c v] [] n HR El Hbuf Htl eq_refl).
    simpl. repeat (split; [first [assumption|reflexivity]|]). apply nth_error_app_last.
  - apply (LR_record_null cis s hs x tid b tl (AAssign (hnd hs k) c (length tl)) [cellof cis c v] [] n HR El Hbuf Htl eq_refl). simpl. apply hnd_beyond. exact Hk.
Qed.

(* ---- a write through getComponent<T>(): immediate in any lock state ---- *)
Lemma getmut_out s h c w s' out : step s (OGetMut h c w) = Ok (s', out) -> exists p v, out = RCell p v.
Proof.
  intros H. rewrite step_getmut in H. destruct (negb (is_valid s h)); [inversion H; eauto|].
  bd H l Hl0. destruct (l_arch l) as [ai|]; [|inversion H; eauto]. bd H a Ha.
  destruct (cindex (am_mask a) c) as [ci|]; [|inversion H; eauto]. bd H ch Hch. bd H a1 Ha1. cbv zeta in H. inversion H. eauto.
Qed.

Lemma xctl_set x k c z : xctl (x_step_in x (XoSet k c z)) = xctl x.
Proof. unfold x_step_in. destruct (find_ent x k) as [e|]; [|reflexivity]. destruct (has_comp (e_comps e) c); reflexivity. Qed.

Lemma LR_set_log cis s hs x l : LR cis s hs x -> LR cis (set_log s l) hs x.
Proof.
  intros [(al & HI) Hlk Hn H3 Hux Hum Hcr Hmr He Hcf]. constructor; try assumption. exists al. apply LInv_set_log. exact HI.
Qed.

Lemma LR_set cis typed s hs x k c z s' hs' :
  LR cis s hs x -> c < MASK_BITS -> mstep typed (s, hs) (XoSet k c z) = Ok (s', hs') ->
  hs' = hs /\ LR cis s' hs (x_step x (XoSet k c z)).
Proof.
  intros HR Hc H. pose proof HR as [(al & HI) Hlk Hn H3 Hux Hum Hcr Hmr He Hcf].
  unfold mstep in H. bd H r Hst. destruct r as (s1, out). cbn [concretize] in Hst. rewrite ManagerMain.resolve_hnd in Hst.
  destruct (getmut_out _ _ _ _ _ _ Hst) as (p & v & ->). inversion H; subst s' hs'; clear H. split; [reflexivity|].
  destruct (LInv_set cis s hs al _ x k c z s1 _ HI Hc Hst) as (HI1 & F).
  assert (Ex : x_step x (XoSet k c z) = x_step_in x (XoSet k c z)) by reflexivity. rewrite Ex.
  destruct (xctl_fields _ _ (xctl_set x k c z)) as (X1 & X2 & X3 & X4).
  remember (x_step_in x (XoSet k c z)) as x2 eqn:Ex2.
  destruct (fr4_fields _ _ (fr1_fr4 _ _ F)) as (E1 & _ & _ & E4 & E5 & E6 & E7 & _).
  destruct (fr2_slots _ _ (fr1_fr2 _ _ F)) as (S1 & _).
  pose proof (fr3_marked _ _ (fr2_fr3 _ _ (fr1_fr2 _ _ F))) as M1.
  apply LR_set_log. constructor; rewrite ?X1, ?X2, ?X3, ?X4, ?E1, ?E4, ?E5, ?E6, ?E7, ?S1, ?M1; try assumption.
  exists al. exact HI1.
Qed.
