(* C03, history level: the lifecycle history of a whole script of the unlocked alphabet is a word of the per-place
   bracket language (proofs/LifecycleLang.v), and the places alive at the end are exactly the cells of the tracked
   components of the live entities.
   The invariant HInv strengthens ManagerInv.MInv (which is reused as it stands, through ManagerMain.MInv_step) by
       - the history so far is accepted by the checker, and the checker's live set is `aplace`: the cells
         (archetype, component, slot) with slot < number of members, for the components whose type is tracked;
       - no command buffer exists (the unlocked alphabet never locks).
   The history is what the driver prints: after every operation the events of that operation (the log is emptied
   after each step, as Refine.mstep does). *)
Require Import Coq.Lists.List Coq.NArith.NArith Coq.ZArith.ZArith Coq.Arith.Arith Coq.Bool.Bool Coq.micromega.Lia.
From Mustache Require Import Res Manager MgrSpec Refine.
From Mustache Require Skeleton.
From Mustache Require Import SkelSpec.
From Mustache.proofs Require Import ListLemmas SkelBasics SkelInv SkelSteps SkelMove SkelMain ClosureProofs
  ManagerBasics ManagerMoves ManagerProj ManagerInv ManagerMain LifecycleProofs LifecycleLang.
Import ListNotations.

(* ------------------------------------------------------------------------------------------ *)
(* A. the events of Archetype::insert                                                          *)
Lemma flat_map_nil {A B} (l : list A) : flat_map (fun _ : A => @nil B) l = [].
Proof. induction l; simpl; auto. Qed.

Lemma arch_insert_tr s ai h skip s' : arch_insert s ai h skip = Ok s' ->
  exists a, nth_error (archs s) ai = Some a /\
    tr [ai] (if (skip =? am_mask a)%N then [] else insert_events (cinfos s) ai (length (am_ents a)) h skip (mitems (am_mask a))) s s'.
Proof.
  unfold arch_insert. intros H. bind_inv H r Hpb. destruct r as (s1, idx). apply push_back_tr in Hpb.
  destruct Hpb as (a & Ha & -> & T0). bind_inv H a1 Ha1. apply nth_res_ok in Ha1. bind_inv H s2 H2.
  bind_inv H a2 Ha2. apply nth_res_ok in Ha2. bind_inv H a3 Ha3. apply vs_emplace_mask in Ha3.
  apply (update_location_tr [ai]) in H.
  assert (Em : am_mask a1 = am_mask a) by (exact (tr_mask_at _ _ _ _ _ _ _ T0 Ha Ha1)).
  exists a. split; [exact Ha|]. rewrite Em in H2.
  set (idx := length (am_ents a)) in *.
  assert (T12 : tr [ai] (if (skip =? am_mask a)%N then [] else insert_events (cinfos s) ai idx h skip (mitems (am_mask a))) s1 s2).
  { destruct (skip =? am_mask a)%N; [inversion H2; apply tr_refl|].
    bind_inv H2 s1' Hf1.
    apply (fold_tr [ai] _ (fun st x => insert_one (cinfos st) ai idx h skip (snd x))) in Hf1.
    - apply (fold_tr [ai] _ (fun _ _ => [])) in H2.
      + rewrite flat_map_nil in H2. eapply tr_trans_nil_r; [|exact H2].
        unfold insert_events. rewrite <- (flat_map_combine_seq _ (mitems (am_mask a)) 0).
        rewrite (tr_cis _ _ _ _ T0) in Hf1. exact Hf1.
      + intros st [ci c] st' Hb. bind_inv Hb inf Hi.
        destruct (_ || ci_aa inf); [inversion Hb; apply tr_refl|].
        destruct (ci_default inf); [|inversion Hb; apply tr_refl].
        destruct (_ || _); [eapply write_cell_tr; exact Hb|inversion Hb; apply tr_refl].
      + reflexivity.
    - intros st [ci c] st' Hb. cbn [snd]. bind_inv Hb inf Hi. apply info_of_ok in Hi.
      unfold insert_one, on_info, has_create. rewrite Hi.
      destruct (_ || ci_aa inf); [|inversion Hb; apply tr_refl]. simpl andb.
      destruct (_ || negb (mhas skip c)); [|inversion Hb; apply tr_refl].
      apply construct_default_tr in Hb. destruct Hb as (inf' & Hi' & T). rewrite Hi in Hi'. inversion Hi'; subst inf'. exact T.
    - intros st st' e x (E & _). rewrite E. reflexivity. }
  eapply tr_trans_nil_r; [|exact H]. eapply tr_trans_nil_r; [|eapply tr_set_arch; [exact Ha2| |left; reflexivity]].
  - eapply tr_trans_nil_l; [exact T0|exact T12].
  - exact Ha3.
Qed.

Lemma mitems_zero : mitems 0%N = [].
Proof. vm_compute. reflexivity. Qed.

Lemma insert_events_skip0 cis ai idx h m :
  (if (0 =? m)%N then [] else insert_events cis ai idx h 0%N (mitems m)) = insert_events cis ai idx h 0%N (mitems m).
Proof. destruct (N.eqb_spec 0 m) as [<-|_]; [rewrite mitems_zero; reflexivity|reflexivity]. Qed.

(* ------------------------------------------------------------------------------------------ *)
(* B. the occupied cells of tracked components                                                 *)
Definition aplace (cis : list cinfo) (al : list archetype) (p : place) : Prop :=
  match p with
  | PArch ai c i => exists a, nth_error al ai = Some a /\ In c (mitems (am_mask a)) /\ i < length (am_ents a) /\ tcomp cis c = true
  | PTmp _ _ => False
  end.

Lemma aplace_snoc_empty cis al a0 p : am_ents a0 = [] -> (aplace cis (al ++ [a0]) p <-> aplace cis al p).
Proof.
  intros He. destruct p as [ai c i|]; simpl; [|tauto]. split; intros (a & Ha & Hc & Hi & Ht).
  - destruct (Nat.lt_ge_cases ai (length al)) as [Hlt|Hge].
    + rewrite nth_error_app1 in Ha by exact Hlt. exists a. auto.
    + rewrite nth_error_app2 in Ha by exact Hge. destruct (ai - length al) as [|[|n]]; simpl in Ha; try discriminate.
      inversion Ha; subst a. rewrite He in Hi. simpl in Hi. lia.
  - exists a. split; [|auto]. rewrite nth_error_app1; [exact Ha|]. apply nth_error_Some. congruence.
Qed.

(* the cells only depend on masks and member counts *)
Lemma aplace_shape cis al al' : length al' = length al ->
  (forall j a, nth_error al j = Some a -> exists a', nth_error al' j = Some a' /\ am_mask a' = am_mask a /\ length (am_ents a') = length (am_ents a)) ->
  forall p, aplace cis al' p <-> aplace cis al p.
Proof.
  intros Hl H p. destruct p as [ai c i|]; simpl; [|tauto]. split; intros (a & Ha & Hc & Hi & Ht).
  - assert (Hlt : ai < length al) by (rewrite <- Hl; apply nth_error_Some; congruence).
    destruct (nth_error al ai) as [a0|] eqn:Ha0; [|apply nth_error_None in Ha0; lia].
    destruct (H ai a0 Ha0) as (a' & Ha' & Em & Ee). rewrite Ha in Ha'. inversion Ha'; subst a'.
    exists a0. rewrite <- Em, <- Ee. auto.
  - destruct (H ai a Ha) as (a' & Ha' & Em & Ee). exists a'. rewrite Em, Ee. auto.
Qed.

Section Sound.
Variable cis : list cinfo.
Hypothesis Hok : lc_cis_ok cis.
Local Notation dp := (destroy_pals cis).

(* ------------------------------------------------------------------------------------------ *)
(* C. the three structural changes                                                             *)
(* a new member of archetype ai *)
Lemma lc_insert_sound al al' ai a a3 h L :
  nth_error al ai = Some a -> nth_error al' ai = Some a3 -> (forall j, j <> ai -> nth_error al' j = nth_error al j) ->
  am_mask a3 = am_mask a -> length (am_ents a3) = S (length (am_ents a)) ->
  (forall p, In p L <-> aplace cis al p) ->
  exists L', lc_run dp L (insert_events cis ai (length (am_ents a)) h 0%N (mitems (am_mask a))) = Some L' /\
    forall p, In p L' <-> aplace cis al' p.
Proof.
  intros Ha Ha3 Hoth Em Ee HL.
  destruct (run_insert cis Hok ai (length (am_ents a)) h 0%N (mitems (am_mask a)) L (mitems_NoDup _)) as (L' & Hr & HL').
  { intros c Hc Ht Hin. apply HL in Hin. destruct Hin as (a0 & Ha0 & _ & Hlt & _). rewrite Ha in Ha0. inversion Ha0; subst a0. lia. }
  exists L'. split; [exact Hr|]. intros p. rewrite HL'. clear Hr HL'. split.
  - intros [Hp|(c & Hc & Ht & _ & ->)].
    + apply HL in Hp. destruct p as [ai' c' i'|]; [|exact Hp]. destruct Hp as (a0 & Ha0 & Hc' & Hi' & Ht').
      destruct (Nat.eq_dec ai' ai) as [->|Hne].
      * rewrite Ha in Ha0. inversion Ha0; subst a0. exists a3. rewrite Em, Ee. repeat split; try assumption. lia.
      * exists a0. rewrite Hoth by exact Hne. auto.
    + exists a3. rewrite Em, Ee. repeat split; try assumption. lia.
  - intros Hp. destruct p as [ai' c' i'|]; [|contradiction]. destruct Hp as (a0 & Ha0 & Hc' & Hi' & Ht').
    destruct (Nat.eq_dec ai' ai) as [->|Hne].
    + rewrite Ha3 in Ha0. inversion Ha0; subst a0. rewrite Em in Hc'. rewrite Ee in Hi'.
      destruct (Nat.eq_dec i' (length (am_ents a))) as [->|Hni].
      * right. exists c'. split; [exact Hc'|]. split; [exact Ht'|]. split; [apply mhas_zero|reflexivity].
      * left. apply HL. exists a. repeat split; try assumption. lia.
    + left. apply HL. exists a0. rewrite <- Hoth by exact Hne. auto.
Qed.

(* the member at slot idx of archetype ai leaves (swap-remove) *)
Lemma lc_remove_sound al al' ai a a' idx last ent rm L :
  nth_error al ai = Some a -> nth_error al' ai = Some a' -> (forall j, j <> ai -> nth_error al' j = nth_error al j) ->
  am_mask a' = am_mask a -> length (am_ents a) = S last -> length (am_ents a') = last -> idx <= last ->
  (forall p, In p L <-> aplace cis al p) ->
  exists L', lc_run dp L (br_events cis ai idx ent rm (mitems (am_mask a)) ++ vacate_events cis ai idx last (am_mask a)) = Some L' /\
    forall p, In p L' <-> aplace cis al' p.
Proof.
  intros Ha Ha' Hoth Em Ee Ee' Hle HL. rewrite lc_run_app, run_br.
  destruct (run_vacate cis Hok ai idx last (am_mask a) L Hle) as (L' & Hr & HL').
  { intros c i Hc Ht Hi. apply HL. exists a. repeat split; try assumption. lia. }
  exists L'. split; [exact Hr|]. intros p. rewrite HL'. clear Hr HL'. split.
  - intros (Hp & Hno). apply HL in Hp. destruct p as [ai' c' i'|]; [|exact Hp]. destruct Hp as (a0 & Ha0 & Hc' & Hi' & Ht').
    destruct (Nat.eq_dec ai' ai) as [->|Hne].
    + rewrite Ha in Ha0. inversion Ha0; subst a0. exists a'. rewrite Em, Ee'. repeat split; try assumption.
      destruct (Nat.eq_dec i' last) as [->|Hnl]; [|lia]. exfalso. apply Hno. exists c'. auto.
    + exists a0. rewrite Hoth by exact Hne. auto.
  - intros Hp. destruct p as [ai' c' i'|]; [|contradiction]. destruct Hp as (a0 & Ha0 & Hc' & Hi' & Ht').
    destruct (Nat.eq_dec ai' ai) as [->|Hne].
    + rewrite Ha' in Ha0. inversion Ha0; subst a0. rewrite Em in Hc'. rewrite Ee' in Hi'. split.
      * apply HL. exists a. repeat split; try assumption. lia.
      * intros (c & _ & _ & E). inversion E. lia.
    + split; [apply HL; exists a0; rewrite <- Hoth by exact Hne; auto|]. intros (c & _ & _ & E). inversion E. congruence.
Qed.

(* the member at slot pidx of archetype prev moves to the end of archetype ai; the cells of the components that are
   new to it and named in the skip mask are left unconstructed (the caller constructs them) *)
Lemma lc_move_sound al al' ai prev a pa a2 pa' pidx last h skip pent L :
  ai <> prev -> nth_error al ai = Some a -> nth_error al prev = Some pa ->
  nth_error al' ai = Some a2 -> nth_error al' prev = Some pa' ->
  (forall j, j <> ai -> j <> prev -> nth_error al' j = nth_error al j) ->
  am_mask a2 = am_mask a -> length (am_ents a2) = S (length (am_ents a)) ->
  am_mask pa' = am_mask pa -> length (am_ents pa) = S last -> length (am_ents pa') = last -> pidx <= last ->
  (forall p, In p L <-> aplace cis al p) ->
  exists L', lc_run dp L (move_events cis ai (length (am_ents a)) prev pidx h skip (am_mask pa) (mitems (am_mask a)) ++
                          br_events cis prev pidx pent (minter (am_mask pa) (minverse (am_mask a))) (mitems (am_mask pa)) ++
                          vacate_events cis prev pidx last (am_mask pa)) = Some L' /\
    forall p, In p L' <-> (aplace cis al' p /\
                           ~ exists c, p = PArch ai c (length (am_ents a)) /\ mhas (am_mask pa) c = false /\ mhas skip c = true).
Proof.
  intros Hne Ha Hpa Ha2 Hpa' Hoth Em Ee Emp Eep Eep' Hle HL.
  set (n := length (am_ents a)) in *.
  destruct (run_move cis Hok ai n prev pidx h skip (am_mask pa) (mitems (am_mask a)) L (mitems_NoDup _)) as (L1 & Hr1 & HL1).
  { intros c Hc Ht. split.
    - intros Hin. apply HL in Hin. destruct Hin as (a0 & Ha0 & _ & Hlt & _). rewrite Ha in Ha0. inversion Ha0; subst a0. unfold n in Hlt. lia.
    - intros Hm. apply HL. exists pa. repeat split; try assumption; [|lia]. apply mitems_in. apply mitems_in in Hc. tauto. }
  rewrite lc_run_app, Hr1, lc_run_app, run_br.
  destruct (run_vacate cis Hok prev pidx last (am_mask pa) L1 Hle) as (L3 & Hr3 & HL3).
  { intros c i Hc Ht Hi. apply HL1. left. apply HL. exists pa. repeat split; try assumption. lia. }
  exists L3. split; [exact Hr3|]. intros p. rewrite HL3, HL1. clear Hr1 Hr3 HL1 HL3. split.
  - intros ([Hp|(c & Hc & Ht & Hcond & ->)] & Hno).
    + apply HL in Hp. destruct p as [ai' c' i'|]; [|contradiction]. destruct Hp as (a0 & Ha0 & Hc' & Hi' & Ht').
      destruct (Nat.eq_dec ai' prev) as [->|Hnp].
      * rewrite Hpa in Ha0. inversion Ha0; subst a0. split.
        -- exists pa'. rewrite Emp, Eep'. repeat split; try assumption.
           destruct (Nat.eq_dec i' last) as [->|Hnl]; [|lia]. exfalso. apply Hno. exists c'. auto.
        -- intros (c & E & _). inversion E. congruence.
      * destruct (Nat.eq_dec ai' ai) as [->|Hna].
        -- rewrite Ha in Ha0. inversion Ha0; subst a0. split.
           ++ exists a2. rewrite Em, Ee. repeat split; try assumption. fold n in Hi'. lia.
           ++ intros (c & E & _). inversion E. fold n in Hi'. lia.
        -- split; [exists a0; rewrite Hoth by assumption; auto|]. intros (c & E & _). inversion E. congruence.
    + split.
      * exists a2. rewrite Em, Ee. repeat split; try assumption. lia.
      * intros (c0 & E & Hm0 & Hs0). inversion E; subst c0. rewrite Hm0, Hs0 in Hcond. discriminate.
  - intros (Hp & Hnx). destruct p as [ai' c' i'|]; [|contradiction]. destruct Hp as (a0 & Ha0 & Hc' & Hi' & Ht').
    destruct (Nat.eq_dec ai' prev) as [->|Hnp].
    + rewrite Hpa' in Ha0. inversion Ha0; subst a0. rewrite Emp in Hc'. rewrite Eep' in Hi'. split.
      * left. apply HL. exists pa. repeat split; try assumption. lia.
      * intros (c & _ & _ & E). inversion E. lia.
    + destruct (Nat.eq_dec ai' ai) as [->|Hna].
      * rewrite Ha2 in Ha0. inversion Ha0; subst a0. rewrite Em in Hc'. rewrite Ee in Hi'. split.
        -- destruct (Nat.eq_dec i' n) as [->|Hni].
           ++ right. exists c'. repeat split; try assumption.
              destruct (mhas (am_mask pa) c') eqn:Hm; [reflexivity|]. destruct (mhas skip c') eqn:Hs; [|reflexivity].
              exfalso. apply Hnx. exists c'. auto.
           ++ left. apply HL. exists a. repeat split; try assumption. fold n. lia.
        -- intros (c & _ & _ & E). inversion E. congruence.
      * split; [left; apply HL; exists a0; rewrite <- Hoth by assumption; auto|]. intros (c & _ & _ & E). inversion E. congruence.
Qed.

End Sound.

(* ------------------------------------------------------------------------------------------ *)
(* D. one operation of the unlocked alphabet                                                   *)
Definition lstep_post (cis : list cinfo) (s s' : mst) (L : list place) : Prop :=
  exists evs L', log s' = rev evs ++ log s /\ bufs s' = bufs s /\ tmps s' = tmps s /\
    lc_run (destroy_pals cis) L evs = Some L' /\ forall p, In p L' <-> aplace cis (archs s') p.

Lemma lstep_post_same cis s s' L : log s' = log s -> bufs s' = bufs s -> tmps s' = tmps s ->
  (forall p, aplace cis (archs s') p <-> aplace cis (archs s) p) ->
  (forall p, In p L <-> aplace cis (archs s) p) -> lstep_post cis s s' L.
Proof.
  intros H1 H2 H2' H3 HL. exists [], L. split; [exact H1|]. split; [exact H2|]. split; [exact H2'|]. split; [reflexivity|].
  intros p. rewrite H3. apply HL.
Qed.

Lemma create_id_log s s2 h : create_id s = Ok (s2, h) -> log s2 = log s /\ bufs s2 = bufs s /\ tmps s2 = tmps s.
Proof.
  unfold create_id. destruct (empty_slots s); intros H; [inversion H; repeat split; reflexivity|].
  bd H sl Hsl. bd H ls Hls. inversion H. repeat split; reflexivity.
Qed.

Lemma get_arch_aplace cis s hs al x m s1 ai : MInv cis s hs al x -> get_arch s m si_null = Ok (s1, ai) ->
  log s1 = log s /\ bufs s1 = bufs s /\ tmps s1 = tmps s /\ forall p, aplace cis (archs s1) p <-> aplace cis (archs s) p.
Proof.
  intros HI Hga. destruct (get_arch_same _ _ _ _ _ Hga) as (_ & _ & G1 & B1 & T1). split; [exact G1|]. split; [exact B1|]. split; [exact T1|].
  destruct (get_arch_ok _ _ _ _ _ (mi_deps _ _ _ _ _ HI) Hga) as [(-> & _)|(_ & _ & cs & ->)]; [tauto|].
  intros p. simpl. apply aplace_snoc_empty. reflexivity.
Qed.

Lemma upd2_nth {A} (l : list A) i j x y : i < length l -> j < length l -> i <> j ->
  nth_error (upd (upd l i x) j y) i = Some x /\ nth_error (upd (upd l i x) j y) j = Some y /\
  forall k, k <> i -> k <> j -> nth_error (upd (upd l i x) j y) k = nth_error l k.
Proof.
  intros Hi Hj Hne. split; [|split].
  - rewrite nth_error_upd_other by congruence. apply nth_error_upd_same. exact Hi.
  - apply nth_error_upd_same. rewrite upd_length. exact Hj.
  - intros k Hki Hkj. rewrite !nth_error_upd_other by congruence. reflexivity.
Qed.

Lemma removed_shape ai idx h a a' l0 l' : awf a -> removed ai idx h a a' l0 l' ->
  am_mask a' = am_mask a /\ length (am_ents a) = S (length (am_ents a')).
Proof.
  intros Hw Hrm. pose proof (awf_removed _ _ _ _ _ _ _ Hw Hrm) as (_ & Hs' & _).
  destruct Hrm as (last & El & Hab & _ & Hz & _). destruct (ab3_fields _ _ Hab) as (Em & _).
  split; [exact Em|]. rewrite El. f_equal. congruence.
Qed.

Lemma LStep_create cis s hs al x tid m via s' out L :
  lc_cis_ok cis -> MInv cis s hs al x -> step s (OCreate tid m [] via) = Ok (s', out) ->
  (forall p, In p L <-> aplace cis (archs s) p) -> lstep_post cis s s' L.
Proof.
  intros Hok HI H HL. rewrite (step_create_unlocked _ _ _ _ (mi_lock _ _ _ _ _ HI)) in H.
  bd H r Hga. destruct r as (s1, ai). cbv beta iota in H. bd H r2 Hcid. destruct r2 as (s2, h). cbv beta iota in H.
  bd H s3 Hins. inversion H; subst s' out; clear H.
  destruct (get_arch_aplace _ _ _ _ _ _ _ _ HI Hga) as (G1 & B1 & T1 & P1).
  destruct (MInv_get_arch _ _ _ _ _ _ _ _ HI Hga) as (HI1 & _ & _ & a & Ha & Hm).
  destruct (create_id_frame _ _ _ Hcid) as (A2 & F2). destruct (create_id_log _ _ _ Hcid) as (G2 & B2 & T2).
  assert (Ha2 : nth_error (archs s2) ai = Some a) by (rewrite A2; exact Ha).
  assert (Hwa : awf a) by (eapply awf_nth; [exact (mi_awf _ _ _ _ _ HI1)|exact Ha]).
  destruct (arch_insert_tr _ _ _ _ _ Hins) as (a' & Ha' & T). rewrite Ha2 in Ha'. inversion Ha'; subst a'. clear Ha'.
  destruct (arch_insert_ok _ _ _ _ _ _ Ha2 (proj2 (proj2 Hwa)) Hins) as (a3 & _ & A3 & _ & _ & Hab & He & _).
  destruct (ab3_fields _ _ Hab) as (Em & _).
  assert (Ec : cinfos s2 = cis).
  { destruct (fr3_ctl _ _ F2) as (_ & _ & E & _). rewrite E. exact (mi_cis _ _ _ _ _ HI1). }
  rewrite insert_events_skip0, Ec in T.
  assert (Hai : ai < length (archs s2)) by (apply nth_error_Some; congruence).
  destruct (lc_insert_sound cis Hok (archs s2) (archs s3) ai a a3 h L Ha2) as (L' & Hr & HL').
  - rewrite A3. apply nth_error_upd_same. exact Hai.
  - intros j Hj. rewrite A3. apply nth_error_upd_other. congruence.
  - exact Em.
  - rewrite He, app_length. simpl. lia.
  - intros p. rewrite HL, A2. symmetry. apply P1.
  - eexists. exists L'. split; [rewrite (tr_log _ _ _ _ T), G2, G1; reflexivity|].
    destruct T as (_ & _ & _ & _ & _ & B3 & T3). split; [congruence|]. split; [congruence|]. split; [exact Hr|exact HL'].
Qed.

Lemma LStep_destroy_now cis s hs al x tid k s' out L :
  lc_cis_ok cis -> MInv cis s hs al x -> step s (ODestroyNow tid (hnd hs k)) = Ok (s', out) ->
  (forall p, In p L <-> aplace cis (archs s) p) -> lstep_post cis s s' L.
Proof.
  intros Hok HI H HL. rewrite (step_destroy_now_unlocked _ _ _ (mi_lock _ _ _ _ _ HI)) in H.
  bd H s1 Hd. inversion H; subst s' out; clear H. unfold destroy_now_unlocked in Hd.
  destruct (is_valid s (hnd hs k)) eqn:Ev.
  - destruct (valid_find _ _ _ _ _ _ HI Ev) as (Hk & Hal & _). destruct (alive_in _ _ Hal) as (key & Hin).
    destruct (live_m _ _ _ _ _ (mi_G _ _ _ _ _ HI) Hin) as (_ & ai & idx & a & Hloc & Harch & _ & Hent).
    rewrite (nth_res_some _ _ _ Hloc) in Hd. bok Hd. simpl l_arch in Hd. cbv iota in Hd. simpl l_idx in Hd.
    bd Hd s2 Hrm. inversion Hd; subst s1; clear Hd.
    assert (Hwa : awf a) by (eapply awf_nth; [exact (mi_awf _ _ _ _ _ HI)|exact Harch]).
    destruct (arch_remove_tr _ _ _ _ _ _ Hrm) as (a' & last & Ha' & Hsz & T). rewrite Harch in Ha'. inversion Ha'; subst a'. clear Ha'.
    destruct (arch_remove_ok _ _ _ _ _ _ _ Harch (proj1 (proj2 Hwa)) (proj2 (proj2 Hwa)) Hrm) as (a1 & _ & A2 & Hrmd).
    destruct (removed_shape _ _ _ _ _ _ _ Hwa Hrmd) as (Em & Ee).
    assert (El : length (am_ents a) = S last) by (rewrite <- (proj1 (proj2 Hwa)); exact Hsz).
    rewrite (mi_cis _ _ _ _ _ HI) in T.
    assert (Hai : ai < length (archs s)) by (apply nth_error_Some; congruence).
    destruct (lc_remove_sound cis Hok (archs s) (archs s2) ai a a1 idx last
                (br_ent cis a idx (hnd hs k)) (minter (am_mask a) (minverse 0%N)) L Harch) as (L' & Hr & HL').
    + rewrite A2. apply nth_error_upd_same. exact Hai.
    + intros j Hj. rewrite A2. apply nth_error_upd_other. congruence.
    + exact Em.
    + exact El.
    + lia.
    + assert (idx < length (am_ents a)) by (apply nth_error_Some; congruence). lia.
    + exact HL.
    + eexists. exists L'. change (log (release_id s2 (hnd hs k))) with (log s2).
      change (bufs (release_id s2 (hnd hs k))) with (bufs s2). change (archs (release_id s2 (hnd hs k))) with (archs s2).
      change (tmps (release_id s2 (hnd hs k))) with (tmps s2).
      split; [exact (tr_log _ _ _ _ T)|]. destruct T as (_ & _ & _ & _ & _ & B3 & T3). split; [exact B3|]. split; [exact T3|]. split; [exact Hr|exact HL'].
  - inversion Hd; subst s1. apply lstep_post_same; [reflexivity|reflexivity|reflexivity|tauto|exact HL].
Qed.

(* Archetype::externalMove on a state satisfying the invariant *)
Lemma LStep_move cis s hs al x pai pidx pa ai a_t h skip s2 L :
  lc_cis_ok cis -> MInv cis s hs al x ->
  nth_error (archs s) pai = Some pa -> nth_error (archs s) ai = Some a_t ->
  external_move s ai h pai pidx skip = Ok s2 ->
  (forall p, In p L <-> aplace cis (archs s) p) ->
  exists evs L', tr [ai; pai] evs s s2 /\ lc_run (destroy_pals cis) L evs = Some L' /\
    (forall p, In p L' <-> (aplace cis (archs s2) p /\
        ~ exists c, p = PArch ai c (length (am_ents a_t)) /\ mhas (am_mask pa) c = false /\ mhas skip c = true)) /\
    (exists a2, nth_error (archs s2) ai = Some a2 /\ am_mask a2 = am_mask a_t /\ length (am_ents a2) = S (length (am_ents a_t))) /\
    nth_error (locs s2) (N.to_nat (fst h)) = Some {| l_arch := Some ai; l_idx := length (am_ents a_t) |}.
Proof.
  intros Hok HI Hpa Hat Hmv HL.
  assert (Hwt : awf a_t) by (eapply awf_nth; [exact (mi_awf _ _ _ _ _ HI)|exact Hat]).
  assert (Hwp : awf pa) by (eapply awf_nth; [exact (mi_awf _ _ _ _ _ HI)|exact Hpa]).
  destruct (external_move_tr _ _ _ _ _ _ _ Hmv) as (a0 & pa0 & last & pent & Hne & Ha0 & Hpa0 & Hsz & Hpent & T).
  rewrite Hat in Ha0. inversion Ha0; subst a0. rewrite Hpa in Hpa0. inversion Hpa0; subst pa0. clear Ha0 Hpa0.
  destruct (external_move_ok _ _ _ _ _ _ _ _ _ Hat Hpa (proj2 (proj2 Hwt)) (proj1 (proj2 Hwp)) (proj2 (proj2 Hwp)) Hmv)
    as (_ & a2 & pa' & pent' & l3 & _ & A & _ & Hrm & Hlt & Lc & Hab & He & _).
  destruct (ab3_fields _ _ Hab) as (Em & _).
  destruct (removed_shape _ _ _ _ _ _ _ Hwp Hrm) as (Emp & Eep).
  assert (El : length (am_ents pa) = S last) by (rewrite <- (proj1 (proj2 Hwp)); exact Hsz).
  assert (Hai : ai < length (archs s)) by (apply nth_error_Some; congruence).
  assert (Hpai : pai < length (archs s)) by (apply nth_error_Some; congruence).
  destruct (upd2_nth (archs s) ai pai a2 pa' Hai Hpai Hne) as (N1 & N2 & N3). rewrite <- A in N1, N2, N3.
  rewrite (mi_cis _ _ _ _ _ HI) in T.
  assert (Ee2 : length (am_ents a2) = S (length (am_ents a_t))) by (rewrite He, app_length; simpl; lia).
  destruct (lc_move_sound cis Hok (archs s) (archs s2) ai pai a_t pa a2 pa' pidx last h skip pent L Hne Hat Hpa N1 N2 N3 Em Ee2 Emp El)
    as (L' & Hr & HL').
  - lia.
  - assert (pidx < length (am_ents pa)) by (apply nth_error_Some; congruence). lia.
  - exact HL.
  - eexists. exists L'. split; [exact T|]. split; [exact Hr|]. split; [exact HL'|]. split; [exists a2; auto|].
    rewrite Lc. apply nth_error_upd_same. exact Hlt.
Qed.

Lemma write_cell_aplace cis s ai ci slot v s' : write_cell s ai ci slot v = Ok s' ->
  forall p, aplace cis (archs s') p <-> aplace cis (archs s) p.
Proof.
  intros H. apply write_cell_ok in H. destruct H as (a & Ha & ->). simpl. apply aplace_shape; [apply upd_length|].
  intros j a0 Ha0. destruct (Nat.eq_dec j ai) as [->|Hne].
  - rewrite Ha in Ha0. inversion Ha0; subst a0. eexists. split; [apply nth_error_upd_same; apply nth_error_Some; congruence|].
    split; reflexivity.
  - exists a0. rewrite nth_error_upd_other by congruence. auto.
Qed.

(* the value constructor of a typed assign on the cell the move left unconstructed *)
Lemma lc_value_ctor cis al ai c n pm inf h L : lc_cis_ok cis -> nth_error cis c = Some inf -> mhas pm c = false ->
  (tcomp cis c = true -> aplace cis al (PArch ai c n)) ->
  (forall p, In p L <-> (aplace cis al p /\ ~ exists c', p = PArch ai c' n /\ mhas pm c' = false /\ mhas (madd pm c) c' = true)) ->
  exists L', lc_run (destroy_pals cis) L ((if ci_ev inf then [EvV (ci_pal inf) (PArch ai c n)] else []) ++
                                          (if ci_aa inf then [EvAA (ci_pal inf) (PArch ai c n) h] else [])) = Some L' /\
    forall p, In p L' <-> aplace cis al p.
Proof.
  intros Hok Hn Hm Hpl HL. rewrite lc_run_app.
  assert (E2 : forall L0, lc_run (destroy_pals cis) L0 (if ci_aa inf then [EvAA (ci_pal inf) (PArch ai c n) h] else []) = Some L0).
  { intros L0. destruct (ci_aa inf); reflexivity. }
  assert (Hex : forall p, (exists c', p = PArch ai c' n /\ mhas pm c' = false /\ mhas (madd pm c) c' = true) <-> p = PArch ai c n).
  { intros p. split.
    - intros (c' & -> & H1 & H2). rewrite mhas_madd, H1, orb_false_r in H2. apply Nat.eqb_eq in H2. subst c'. reflexivity.
    - intros ->. exists c. split; [reflexivity|]. split; [exact Hm|]. rewrite mhas_madd, Nat.eqb_refl. reflexivity. }
  destruct (tcomp cis c) eqn:Ht.
  - destruct (tcomp_funs cis Hok _ _ Hn Ht) as (Hev & _ & _ & _ & Hp). rewrite Hev. simpl. rewrite Hp.
    assert (Hni : ~ In (PArch ai c n) L).
    { intros Hin. apply HL in Hin. destruct Hin as (_ & Hno). apply Hno. apply Hex. reflexivity. }
    rewrite (proj2 (pmem_false _ _) Hni). eexists. split; [apply E2|]. intros p. simpl. rewrite HL, Hex. split.
    + intros [<-|(Hp' & _)]; [apply Hpl; reflexivity|exact Hp'].
    + intros Hp'. destruct (place_eqb (PArch ai c n) p) eqn:E; [left; apply place_eqb_eq; exact E|].
      right. split; [exact Hp'|]. intros ->. rewrite place_eqb_refl in E. discriminate.
  - assert (E1 : lc_run (destroy_pals cis) L (if ci_ev inf then [EvV (ci_pal inf) (PArch ai c n)] else []) = Some L).
    { destruct (ci_ev inf) eqn:Hev; [|reflexivity]. simpl. rewrite (untracked_pal cis Hok _ _ Hn Ht Hev). reflexivity. }
    rewrite E1. eexists. split; [apply E2|]. intros p. rewrite HL, Hex. split; [tauto|]. intros Hp'. split; [exact Hp'|].
    intros ->. destruct Hp' as (a & _ & _ & _ & Ht'). congruence.
Qed.

Lemma LStep_assign cis s hs al x tid k c v typed s' out L :
  lc_cis_ok cis -> MInv cis s hs al x -> c < MASK_BITS ->
  alive_x x k = true -> x_viol (x_step_in x (XoAssign tid k c v)) = x_viol x ->
  step s (OAssign tid (hnd hs k) c (match v with Some z => AValue z | None => ADefault end) typed) = Ok (s', out) ->
  (forall p, In p L <-> aplace cis (archs s) p) -> lstep_post cis s s' L.
Proof.
  intros Hok HI Hc128 Hax Hviol H HL.
  pose proof HI as [HG Hawf Hl Hdp Hc Hxl Hxd Hxc Hcnt Hsl Hal Hv].
  destruct (alive_in _ _ (proj2 (Hal k) Hax)) as (key & Hin).
  destruct (find_ent x k) as [e|] eqn:Hfe; [|apply alive_x_find in Hax; congruence].
  destruct (live_vmatch _ _ _ _ _ _ _ _ HI Hin Hfe) as (Hk & pai & pidx & pa & Hloc & Hpa & Hkey & Hent & Hvm).
  assert (Hx : x_step_in x (XoAssign tid k c v) = x_assign x k c v).
  { unfold x_step_in, issued_b. rewrite Hcnt. apply Nat.ltb_lt in Hk. rewrite Hk, Hxl. reflexivity. }
  rewrite Hx in Hviol.
  assert (Hhc : has_comp (e_comps e) c = false).
  { destruct (has_comp (e_comps e) c) eqn:E; [|reflexivity]. unfold x_assign in Hviol. rewrite Hfe, E in Hviol. simpl in Hviol. lia. }
  assert (Hmc : mhas (am_mask pa) c = false) by (rewrite <- (vmatch_has _ _ _ _ Hvm Hc128); exact Hhc).
  rewrite (step_assign_unlocked _ _ _ _ _ _ Hl) in H. bd H inf Hinf. apply info_of_ok in Hinf. rewrite Hc in Hinf.
  bd H r Hr. destruct r as (s2, ((ai, ci), slot)). cbv beta iota in H.
  unfold assign_unlocked in Hr. bd Hr la Hla.
  assert (Ela : la = (pai, pidx)).
  { unfold loc_arch in Hla. rewrite (nth_res_some _ _ _ Hloc) in Hla. bok Hla. simpl in Hla. inversion Hla. reflexivity. }
  subst la. cbv beta iota in Hr. rewrite (nth_res_some _ _ _ Hpa) in Hr. bok Hr. cbv zeta in Hr.
  destruct (awf_nth _ _ _ Hawf Hpa) as (Wp1 & _). rewrite Wp1 in Hr.
  bd Hr rg Hga. destruct rg as (s_g, ai'). cbv beta iota in Hr.
  destruct (MInv_get_arch _ _ _ _ _ _ _ _ HI Hga) as (HIg & Fg & Hkeep & a_t & Hat & Hmt).
  destruct (get_arch_aplace _ _ _ _ _ _ _ _ HI Hga) as (G1 & B1 & T1 & P1).
  bd Hr s2' Hmv. bd Hr a2' Ha2'. apply nth_res_ok in Ha2'. bd Hr l2 Hl2. apply nth_res_ok in Hl2.
  destruct (cindex (am_mask a2') c) as [ci'|] eqn:Eci; [|discriminate]. inversion Hr; subst s2' ai' ci' slot; clear Hr.
  assert (Hpa_g : nth_error (archs s_g) pai = Some pa) by (apply Hkeep; exact Hpa).
  assert (HLg : forall p, In p L <-> aplace cis (archs s_g) p) by (intros p; rewrite HL; symmetry; apply P1).
  match type of Hmv with external_move _ _ _ _ _ ?sk = _ => set (skip := sk) in * end.
  destruct (LStep_move cis s_g hs al x pai pidx pa ai a_t (hnd hs k) skip s2 L Hok HIg Hpa_g Hat Hmv HLg)
    as (evs & L2 & T & Hr2 & HL2 & (a2 & Ha2 & Em2 & Ee2) & Hloc2).
  rewrite Ha2 in Ha2'. inversion Ha2'; subst a2'. rewrite Hloc2 in Hl2. inversion Hl2; subst l2. simpl l_idx in H.
  set (n := length (am_ents a_t)) in *.
  assert (Hskip0 : skip = 0%N -> forall p, In p L2 <-> aplace cis (archs s2) p).
  { intros E p. rewrite HL2. split; [tauto|]. intros Hp. split; [exact Hp|]. intros (c' & _ & _ & Hs). rewrite E, mhas_zero in Hs. discriminate. }
  assert (Hdone : forall s3 L3 evs3, tr [ai; pai] evs3 s2 s3 -> lc_run (destroy_pals cis) L2 evs3 = Some L3 ->
            (forall p, In p L3 <-> aplace cis (archs s3) p) -> lstep_post cis s s3 L).
  { intros s3 L3 evs3 T3 Hr3 HL3. pose proof (tr_trans _ _ _ _ _ _ T T3) as T'. exists (evs ++ evs3), L3.
    split; [rewrite (tr_log _ _ _ _ T'), G1; reflexivity|]. destruct T' as (_ & _ & _ & _ & _ & B3 & T3').
    split; [congruence|]. split; [congruence|]. split; [rewrite lc_run_app, Hr2; exact Hr3|exact HL3]. }
  destruct v as [z|].
  - bd H s3 Hw.
    assert (Tw : tr [ai; pai] [] s2 s3).
    { destruct (ci_hasval inf); [|inversion Hw; apply tr_refl]. eapply tr_weaken; [|eapply write_cell_tr; exact Hw].
      intros j [<-|[]]. left. reflexivity. }
    assert (Pw : forall p, aplace cis (archs s3) p <-> aplace cis (archs s2) p).
    { destruct (ci_hasval inf); [eapply write_cell_aplace; exact Hw|inversion Hw; tauto]. }
    destruct typed.
    + inversion H; subst s' out; clear H. unfold skip in HL2. cbv iota in HL2.
      destruct (lc_value_ctor cis (archs s2) ai c n (am_mask pa) inf (hnd hs k) L2 Hok Hinf Hmc) as (L3 & Hr3 & HL3).
      * intros Ht. exists a2. split; [exact Ha2|]. split; [|split; [lia|exact Ht]].
        rewrite Em2, Hmt. apply mitems_in. split; [exact Hc128|]. rewrite mhas_madd, Nat.eqb_refl. reflexivity.
      * exact HL2.
      * eapply (Hdone _ L3); [| exact Hr3 |].
        -- eapply tr_trans; [eapply tr_trans_nil_l; [exact Tw|apply tr_if_emit]|apply tr_if_emit].
        -- intros p. rewrite HL3. symmetry. destruct (ci_aa inf), (ci_ev inf); apply Pw.
    + inversion H; subst s' out; clear H. eapply (Hdone _ L2 []); [exact Tw|reflexivity|].
      intros p. rewrite Pw. apply Hskip0. reflexivity.
  - inversion H; subst s' out; clear H. eapply (Hdone _ L2 []); [apply tr_refl|reflexivity|]. apply Hskip0. reflexivity.
Qed.

Lemma LStep_remove cis s hs al x tid k c typed s' out L :
  lc_cis_ok cis -> MInv cis s hs al x ->
  step s (ORemove tid (hnd hs k) c typed) = Ok (s', out) ->
  (forall p, In p L <-> aplace cis (archs s) p) -> lstep_post cis s s' L.
Proof.
  intros Hok HI H HL.
  pose proof HI as [HG Hawf Hl Hdp Hc Hxl Hxd Hxc Hcnt Hsl Hal Hv].
  rewrite (step_remove_unlocked _ _ _ _ _ Hl) in H.
  assert (Hsame : lstep_post cis s s L) by (apply lstep_post_same; [reflexivity|reflexivity|reflexivity|tauto|exact HL]).
  destruct (typed && negb (is_valid s (hnd hs k))); [inversion H; subst s' out; exact Hsame|].
  bd H s1 Hr. inversion H; subst s' out; clear H.
  unfold remove_unlocked in Hr. bd Hr l Hloc. apply nth_res_ok in Hloc.
  destruct (l_arch l) as [pai|] eqn:El; [|inversion Hr; subst s1; exact Hsame].
  bd Hr pa Hpa. apply nth_res_ok in Hpa.
  destruct (negb (mhas (am_mask pa) c)); [inversion Hr; subst s1; exact Hsame|].
  destruct (awf_nth _ _ _ Hawf Hpa) as (Wp1 & _). rewrite Wp1 in Hr.
  bd Hr rg Hga. destruct rg as (s_g, ai). cbv beta iota in Hr.
  destruct (MInv_get_arch _ _ _ _ _ _ _ _ HI Hga) as (HIg & Fg & Hkeep & a_t & Hat & Hmt).
  destruct (get_arch_aplace _ _ _ _ _ _ _ _ HI Hga) as (G1 & B1 & T1 & P1).
  destruct (Nat.eqb ai pai).
  - inversion Hr; subst s1. apply lstep_post_same; assumption.
  - assert (Hpa_g : nth_error (archs s_g) pai = Some pa) by (apply Hkeep; exact Hpa).
    assert (HLg : forall p, In p L <-> aplace cis (archs s_g) p) by (intros p; rewrite HL; symmetry; apply P1).
    destruct (LStep_move cis s_g hs al x pai (l_idx l) pa ai a_t (hnd hs k) 0%N s1 L Hok HIg Hpa_g Hat Hr HLg)
      as (evs & L2 & T & Hr2 & HL2 & _).
    exists evs, L2. split; [rewrite (tr_log _ _ _ _ T), G1; reflexivity|]. split; [|split; [|split; [exact Hr2|]]].
    + destruct T as (_ & _ & _ & _ & _ & B3 & _). congruence.
    + destruct T as (_ & _ & _ & _ & _ & _ & T3). congruence.
    + intros p. rewrite HL2. split; [tauto|]. intros Hp. split; [exact Hp|]. intros (c' & _ & _ & Hs). rewrite mhas_zero in Hs. discriminate.
Qed.

Lemma LStep_set cis s hs al x k c z s' out L :
  MInv cis s hs al x -> step s (OGetMut (hnd hs k) c (Some z)) = Ok (s', out) ->
  (forall p, In p L <-> aplace cis (archs s) p) -> lstep_post cis s s' L.
Proof.
  intros HI H HL. rewrite step_getmut in H.
  assert (Hsame : lstep_post cis s s L) by (apply lstep_post_same; [reflexivity|reflexivity|reflexivity|tauto|exact HL]).
  destruct (negb (is_valid s (hnd hs k))); [inversion H; subst s' out; exact Hsame|].
  bd H l Hloc. destruct (l_arch l) as [ai|]; [|inversion H; subst s' out; exact Hsame].
  bd H a Ha. apply nth_res_ok in Ha. destruct (cindex (am_mask a) c) as [ci|]; [|inversion H; subst s' out; exact Hsame].
  bd H ch Hch. bd H a1 Ha1. apply vs_set_one_ok in Ha1. destruct Ha1 as (g & cv & ->). cbv zeta in H.
  inversion H; subst s' out; clear H. apply lstep_post_same; try reflexivity; [|exact HL].
  simpl. apply aplace_shape; [apply upd_length|]. intros j a0 Ha0. destruct (Nat.eq_dec j ai) as [->|Hne].
  - rewrite Ha in Ha0. inversion Ha0; subst a0. eexists. split; [apply nth_error_upd_same; apply nth_error_Some; congruence|].
    split; reflexivity.
  - exists a0. rewrite nth_error_upd_other by congruence. auto.
Qed.

Lemma LStep cis typed s hs al x o s1 out L :
  MInv cis s hs al x -> lc_cis_ok cis -> alpha_b cis o = true -> x_viol x = 0 -> x_viol (x_step x o) = 0 ->
  step s (concretize typed hs o) = Ok (s1, out) ->
  (forall p, In p L <-> aplace cis (archs s) p) -> lstep_post cis s s1 L.
Proof.
  intros HI Hok Ha Hv0 Hv1 Hst HL.
  unfold x_step in *. destruct (out_of_contract x o) eqn:Eooc; [simpl in Hv1; lia|].
  destruct o; simpl in Ha; try discriminate; cbn [concretize] in Hst.
  - destruct sids; [|discriminate]. eapply LStep_create; eassumption.
  - rewrite resolve_hnd in Hst. eapply LStep_destroy_now; eassumption.
  - apply andb_true_iff in Ha. destruct Ha as (Hc & Hhv). apply Nat.ltb_lt in Hc.
    rewrite resolve_hnd in Hst. simpl in Eooc. rewrite (mi_xlock _ _ _ _ _ HI) in Eooc. apply negb_false_iff in Eooc.
    eapply LStep_assign; try eassumption. lia.
  - rewrite resolve_hnd in Hst. eapply LStep_remove; eassumption.
  - rewrite resolve_hnd in Hst. eapply LStep_set; eassumption.
Qed.

(* ------------------------------------------------------------------------------------------ *)
(* E. the history of a script                                                                  *)
(* Refine.mstep with the events of each operation appended to the history (what the driver prints: the log is
   emptied after every operation) *)
Definition hstep (typed : bool) (st : mst * list handle * list event) (o : xop) : res (mst * list handle * list event) :=
  let '(s, issued, hist) := st in
  do r <- step s (concretize typed issued o);
  let '(s1, out) := r in
  Ok (set_log s1 [], match out with RHandle h => issued ++ [h] | _ => issued end, hist ++ rev (log s1)).

Definition hrun (typed : bool) (n : nat) (cis : list cinfo) (ops : list xop) : res (mst * list handle * list event) :=
  fold_res (hstep typed) ops (init n cis, [], []).

Lemma hstep_mstep typed s hs hist o s' hs' hist' :
  hstep typed (s, hs, hist) o = Ok (s', hs', hist') -> mstep typed (s, hs) o = Ok (s', hs').
Proof.
  unfold hstep, mstep. intros H. bd H r Hr. destruct r as (s1, out). inversion H; subst. rewrite Hr. reflexivity.
Qed.

Lemma hfold_mfold typed : forall ops s hs hist s' hs' hist',
  fold_res (hstep typed) ops (s, hs, hist) = Ok (s', hs', hist') -> fold_res (mstep typed) ops (s, hs) = Ok (s', hs').
Proof.
  induction ops as [|o t IH]; intros s hs hist s' hs' hist' H; cbn [fold_res] in H |- *.
  - inversion H. reflexivity.
  - bd H r H1. destruct r as ((s1, hs1), hist1). rewrite (hstep_mstep _ _ _ _ _ _ _ _ H1). rewrite bind_Ok. eapply IH. exact H.
Qed.

Lemma mfold_hfold typed : forall ops s hs hist s' hs',
  fold_res (mstep typed) ops (s, hs) = Ok (s', hs') -> exists hist', fold_res (hstep typed) ops (s, hs, hist) = Ok (s', hs', hist').
Proof.
  induction ops as [|o t IH]; intros s hs hist s' hs' H; cbn [fold_res] in H |- *.
  - inversion H. eauto.
  - bd H r H1. destruct r as (s1, hs1). unfold mstep in H1. bd H1 r0 Hr. destruct r0 as (s0, out). inversion H1; subst s1 hs1.
    destruct (IH _ _ (hist ++ rev (log s0)) _ _ H) as (hist' & Hh). exists hist'.
    unfold hstep at 1. rewrite Hr, bind_Ok. cbv beta iota. rewrite bind_Ok. exact Hh.
Qed.

(* the same run as Refine.mrun, with the history as a third component *)
Theorem hrun_mrun typed n cis ops s hs hist : hrun typed n cis ops = Ok (s, hs, hist) -> mrun typed n cis ops = Ok (s, hs).
Proof. apply hfold_mfold. Qed.

Theorem mrun_hrun typed n cis ops s hs : mrun typed n cis ops = Ok (s, hs) -> exists hist, hrun typed n cis ops = Ok (s, hs, hist).
Proof. apply mfold_hfold. Qed.

(* to unfold the runs on concrete scripts by rewriting (conversion would start evaluating the script) *)
Lemma hrun_unfold typed n cis ops : hrun typed n cis ops = fold_res (hstep typed) ops (init n cis, [], []).
Proof. reflexivity. Qed.
Lemma xrun_unfold n cis ops : xrun n cis ops = fold_left x_step ops (x_init n cis).
Proof. reflexivity. Qed.

Lemma hrun_snoc typed n cis ops o r : hrun typed n cis (ops ++ [o]) = Ok r ->
  exists s hs hist, hrun typed n cis ops = Ok (s, hs, hist) /\ hstep typed (s, hs, hist) o = Ok r.
Proof.
  unfold hrun. generalize (init n cis, @nil handle, @nil event). induction ops as [|o' t IH]; intros st H; cbn [app fold_res] in H |- *.
  - destruct st as ((s, hs), hist). exists s, hs, hist. split; [reflexivity|]. bd H r' Hr. inversion H; subst r'. exact Hr.
  - bd H st1 H1. destruct (IH st1 H) as (s & hs & hist & E & Hs). exists s, hs, hist. rewrite H1, bind_Ok. auto.
Qed.

Record HInv (cis : list cinfo) (s : mst) (hs : list handle) (al : list (nat * N)) (x : xst) (hist : list event) : Prop := {
  hi_M : MInv cis s hs al x;
  hi_log : log s = [];
  hi_bufs : bufs s = [];
  hi_tmps : tmps s = [];
  hi_hist : exists L, lc_run (destroy_pals cis) [] hist = Some L /\ forall p, In p L <-> aplace cis (archs s) p
}.

Lemma HInv_init n cis : HInv cis (init n cis) [] [] (x_init n cis) [].
Proof.
  constructor; [apply MInv_init|reflexivity|reflexivity|reflexivity|]. exists []. split; [reflexivity|].
  intros p. split; [intros []|]. destruct p as [ai c i|]; [|intros []]. intros (a & Ha & _). destruct ai; discriminate.
Qed.

Lemma HInv_step cis typed s hs al x hist o s' hs' hist' :
  HInv cis s hs al x hist -> cis_ok cis -> lc_cis_ok cis -> alpha_b cis o = true -> x_viol x = 0 -> x_viol (x_step x o) = 0 ->
  hstep typed (s, hs, hist) o = Ok (s', hs', hist') -> within (length hs') ->
  exists al', HInv cis s' hs' al' (x_step x o) hist'.
Proof.
  intros [HI Hlog Hbufs Htmps (L & HrL & HL)] Hok Hlok Ha Hv0 Hv1 H Hb.
  pose proof (hstep_mstep _ _ _ _ _ _ _ _ H) as Hm.
  destruct (MInv_step cis typed s hs al x o s' hs' HI Hok Ha Hv0 Hv1 Hm Hb) as (al' & HI').
  unfold hstep in H. bd H r Hst. destruct r as (s1, out). inversion H; subst s' hs' hist'; clear H.
  destruct (LStep cis typed s hs al x o s1 out L HI Hlok Ha Hv0 Hv1 Hst HL) as (evs & L' & Hlg & Hbf & Htm & Hr & HL').
  exists al'. constructor; [exact HI'|reflexivity|simpl; congruence|simpl; congruence|].
  exists L'. split; [|exact HL']. rewrite lc_run_app, HrL, Hlg, Hlog, app_nil_r, rev_involutive. exact Hr.
Qed.

Lemma hfold_mono typed : forall ops s hs hist s' hs' hist',
  fold_res (hstep typed) ops (s, hs, hist) = Ok (s', hs', hist') -> length hs <= length hs'.
Proof. intros ops s hs hist s' hs' hist' H. eapply mrun_mono. eapply hfold_mfold. exact H. Qed.

Lemma HInv_run cis typed : forall ops s hs al x hist s' hs' hist',
  HInv cis s hs al x hist -> cis_ok cis -> lc_cis_ok cis -> forallb (alpha_b cis) ops = true -> x_viol x = 0 ->
  x_viol (fold_left x_step ops x) = 0 ->
  fold_res (hstep typed) ops (s, hs, hist) = Ok (s', hs', hist') -> within (length hs') ->
  exists al', HInv cis s' hs' al' (fold_left x_step ops x) hist'.
Proof.
  induction ops as [|o t IH]; intros s hs al x hist s' hs' hist' HI Hok Hlok Ha Hv0 Hv1 H Hb; simpl in *.
  - inversion H; subst. eauto.
  - apply andb_true_iff in Ha. destruct Ha as (Ho & Ht). bd H r H1. destruct r as ((s1, hs1), hist1).
    assert (Hv1' : x_viol (x_step x o) = 0).
    { pose proof (x_viol_run_mono cis t (x_step x o) Ht). lia. }
    destruct (HInv_step cis typed s hs al x hist o s1 hs1 hist1 HI Hok Hlok Ho Hv0 Hv1' H1) as (al1 & HI1).
    { eapply within_le; [|exact Hb]. eapply hfold_mono. exact H. }
    apply (IH s1 hs1 al1 (x_step x o) hist1 s' hs' hist' HI1 Hok Hlok Ht Hv1' Hv1 H Hb).
Qed.

(* ------------------------------------------------------------------------------------------ *)
(* F. the live places are the cells of the tracked components of the live entities              *)
Definition live_comp_place (cis : list cinfo) (s : mst) (hs : list handle) (x : xst) (p : place) : Prop :=
  exists k e c ai i, find_ent x k = Some e /\ has_comp (e_comps e) c = true /\ tcomp cis c = true /\
    nth_error (locs s) (N.to_nat (fst (nth k hs null_handle))) = Some {| l_arch := Some ai; l_idx := i |} /\ p = PArch ai c i.

Lemma aplace_live cis s hs al x p : MInv cis s hs al x -> (aplace cis (archs s) p <-> live_comp_place cis s hs x p).
Proof.
  intros HI. split.
  - destruct p as [ai c i|]; [|intros []]. intros (a & Ha & Hc & Hi & Ht).
    destruct (nth_error (am_ents a) i) as [h|] eqn:Hh; [|apply nth_error_None in Hh; lia].
    destruct (mi_vals _ _ _ _ _ HI ai a i h Ha Hh) as (k & e & Hk & Eh & Hf & Hvm).
    destruct (members_m _ _ _ _ _ _ _ (mi_G _ _ _ _ _ HI) Ha Hh) as (k' & _ & _ & _ & Hloc).
    exists k, e, c, ai, i. split; [exact Hf|]. split; [apply has_comp_in; destruct Hvm as (Hm & _); rewrite Hm; exact Hc|].
    split; [exact Ht|]. split; [|reflexivity]. change (nth k hs null_handle) with (hnd hs k). rewrite Eh. exact Hloc.
  - intros (k & e & c & ai & i & Hf & Hh & Ht & Hloc & ->).
    assert (Ha : alive al k) by (apply (mi_alive _ _ _ _ _ HI); apply alive_x_find; congruence).
    destruct (alive_in _ _ Ha) as (key & Hin).
    destruct (live_vmatch _ _ _ _ _ _ _ _ HI Hin Hf) as (Hk & ai' & idx' & a & Hloc' & Harch & _ & Hent & Hvm).
    change (nth k hs null_handle) with (hnd hs k) in Hloc. rewrite Hloc' in Hloc. inversion Hloc; subst ai' idx'.
    exists a. split; [exact Harch|]. split; [destruct Hvm as (Hm & _); rewrite <- Hm; apply has_comp_in; exact Hh|].
    split; [apply nth_error_Some; congruence|exact Ht].
Qed.

(* ------------------------------------------------------------------------------------------ *)
(* G. world teardown                                                                           *)
Lemma run_clear_all cis al : lc_cis_ok cis -> Forall awf al -> forall l L, NoDup l ->
  (forall ai c i, In ai l -> aplace cis al (PArch ai c i) -> In (PArch ai c i) L) ->
  exists L', lc_run (destroy_pals cis) L (flat_map (arch_clear_events cis al) l) = Some L' /\
    forall p, In p L' <-> (In p L /\ ~ exists ai c i, In ai l /\ p = PArch ai c i /\ aplace cis al p).
Proof.
  intros Hok Hawf. induction l as [|ai t IH]; intros L Hnd H.
  - exists L. split; [reflexivity|]. intros p. split; [intros Hp; split; [exact Hp|intros (ai & c & i & [] & _)]|tauto].
  - inversion Hnd as [|? ? Hni Hnd']; subst. cbn [flat_map]. rewrite lc_run_app. unfold arch_clear_events at 1.
    destruct (nth_error al ai) as [a|] eqn:Ha.
    + destruct (awf_nth _ _ _ Hawf Ha) as (_ & Hsz & _).
      destruct (run_clear cis Hok ai a L) as (L1 & Hr1 & HL1).
      { intros c i Hc Ht Hi _. apply (H ai c i (or_introl eq_refl)). exists a. repeat split; try assumption. lia. }
      rewrite Hr1. destruct (IH L1 Hnd') as (L' & Hr & HL').
      { intros ai' c i Hai' Hp. apply HL1. split; [apply (H ai' c i (or_intror Hai') Hp)|].
        intros (_ & c0 & i0 & _ & _ & _ & E). inversion E; subst ai'. contradiction. }
      exists L'. split; [exact Hr|]. intros p. rewrite HL', HL1. clear Hr Hr1 HL' HL1 IH. split.
      * intros ((Hp & Hn1) & Hno). split; [exact Hp|]. intros (ai' & c & i & [<-|Hai'] & -> & Hpl).
        -- apply Hn1. destruct Hpl as (a0 & Ha0 & Hc & Hi & Ht). rewrite Ha in Ha0. inversion Ha0; subst a0.
           split; [intros E; rewrite E in Hi; simpl in Hi; lia|]. exists c, i. repeat split; try assumption. lia.
        -- apply Hno. exists ai', c, i. auto.
      * intros (Hp & Hno). split; [split; [exact Hp|]|].
        -- intros (_ & c & i & Hc & Ht & Hi & ->). apply Hno. exists ai, c, i. split; [left; reflexivity|]. split; [reflexivity|].
           exists a. repeat split; try assumption. lia.
        -- intros (ai' & c & i & Hai' & E & Hpl). apply Hno. exists ai', c, i. split; [right; exact Hai'|auto].
    + simpl. destruct (IH L Hnd') as (L' & Hr & HL').
      { intros ai' c i Hai' Hp. apply (H ai' c i (or_intror Hai') Hp). }
      exists L'. split; [exact Hr|]. intros p. rewrite HL'. split; intros (Hp & Hno); (split; [exact Hp|]).
      * intros (ai' & c & i & [<-|Hai'] & -> & Hpl).
        -- destruct Hpl as (a0 & Ha0 & _). congruence.
        -- apply Hno. exists ai', c, i. auto.
      * intros (ai' & c & i & Hai' & E & Hpl). apply Hno. exists ai', c, i. split; [right; exact Hai'|auto].
Qed.

Lemma teardown_sound cis s hs al x L s' r : lc_cis_ok cis -> MInv cis s hs al x -> bufs s = [] ->
  (forall p, In p L <-> aplace cis (archs s) p) -> step s OTeardown = Ok (s', r) ->
  exists evs, log s' = rev evs ++ log s /\ lc_run (destroy_pals cis) L evs = Some [].
Proof.
  intros Hok HI Hb HL H. apply teardown_spec in H. rewrite Hb in H. simpl in H. rewrite (mi_cis _ _ _ _ _ HI) in H.
  eexists. split; [exact H|].
  destruct (run_clear_all cis (archs s) Hok (mi_awf _ _ _ _ _ HI) (seq 0 (length (archs s))) L (seq_NoDup _ _)) as (L' & Hr & HL').
  { intros ai c i _ Hp. apply HL. exact Hp. }
  rewrite Hr. f_equal. destruct L' as [|p t]; [reflexivity|]. exfalso.
  assert (Hp : In p (p :: t)) by (left; reflexivity). apply HL' in Hp. destruct Hp as (Hp & Hno). apply HL in Hp.
  apply Hno. destruct p as [ai c i|]; [|contradiction]. exists ai, c, i. split; [|split; [reflexivity|exact Hp]].
  destruct Hp as (a & Ha & _). apply in_seq. split; [lia|]. simpl. apply nth_error_Some. congruence.
Qed.

(* ------------------------------------------------------------------------------------------ *)
(* the theorems                                                                                *)
Theorem history_brackets typed n cis ops s hs hist :
  cis_ok cis -> lc_cis_ok cis -> forallb (alpha_b cis) ops = true ->
  hrun typed n cis ops = Ok (s, hs, hist) -> x_viol (xrun n cis ops) = 0 -> within (length hs) ->
  lc_ok (destroy_pals cis) hist = true /\
  forall p, In p (lc_live (destroy_pals cis) hist) <-> live_comp_place cis s hs (xrun n cis ops) p.
Proof.
  intros Hok Hlok Ha Hrun Hviol Hb. unfold hrun in Hrun. unfold xrun in *.
  destruct (HInv_run cis typed ops _ _ _ _ _ _ _ _ (HInv_init n cis) Hok Hlok Ha eq_refl Hviol Hrun Hb) as (al & [HI _ _ _ (L & Hr & HL)]).
  unfold lc_ok, lc_live. rewrite Hr. split; [reflexivity|]. intros p. rewrite HL. apply (aplace_live _ _ _ _ _ _ HI).
Qed.

Theorem history_teardown typed n cis ops s hs hist s' r :
  cis_ok cis -> lc_cis_ok cis -> forallb (alpha_b cis) ops = true ->
  hrun typed n cis ops = Ok (s, hs, hist) -> x_viol (xrun n cis ops) = 0 -> within (length hs) ->
  step s OTeardown = Ok (s', r) ->
  lc_ok (destroy_pals cis) (hist ++ rev (log s')) = true /\ lc_live (destroy_pals cis) (hist ++ rev (log s')) = [].
Proof.
  intros Hok Hlok Ha Hrun Hviol Hb Htd. unfold hrun in Hrun. unfold xrun in *.
  destruct (HInv_run cis typed ops _ _ _ _ _ _ _ _ (HInv_init n cis) Hok Hlok Ha eq_refl Hviol Hrun Hb) as (al & [HI Hlog Hbufs _ (L & Hr & HL)]).
  destruct (teardown_sound cis s hs al _ L s' r Hlok HI Hbufs HL Htd) as (evs & Hlg & Hr').
  unfold lc_ok, lc_live. rewrite lc_run_app, Hr, Hlg, Hlog, app_nil_r, rev_involutive, Hr'. split; reflexivity.
Qed.
