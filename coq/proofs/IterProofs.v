(* Proofs about the iteration machinery (Iter.v), C04 / C06a. *)
Require Import Coq.Lists.List Coq.Arith.Arith Coq.Bool.Bool Coq.micromega.Lia.
From Mustache Require Import Res Iter.
From Mustache.proofs Require Import ListLemmas.
Import ListNotations.

(* ------------------------------------------------------------------------------------------ *)
(* the 4x unrolled loop invokes the user function at offsets 0, 1, ..., count-1, each once, in order *)
Lemma unroll4_seq g base : unroll4 g base = seq base (4 * g).
Proof.
  revert base. induction g as [|g IH]; intro base; simpl; [reflexivity|].
  rewrite IH. replace (g + S (g + S (g + S (g + 0)))) with (3 + 4 * g) by lia. simpl.
  replace (base + 1) with (S base) by lia. replace (base + 2) with (S (S base)) by lia.
  replace (base + 3) with (S (S (S base))) by lia. replace (base + 4) with (S (S (S (S base)))) by lia. reflexivity.
Qed.

Lemma map_add_seq b m : forall z, map (fun i => b + i) (seq z m) = seq (b + z) m.
Proof. induction m as [|m IH]; intro z; simpl; [reflexivity|]. rewrite IH. f_equal. f_equal. lia. Qed.

Lemma unrolled_seq count : unrolled count = seq 0 count.
Proof.
  unfold unrolled. rewrite unroll4_seq, map_add_seq, Nat.add_0_r. rewrite <- seq_app. f_equal.
  pose proof (Nat.div_mod count 4). lia.
Qed.

(* ------------------------------------------------------------------------------------------ *)
(* blocks *)
Lemma filter_seq_chunk (cs k : nat) (ms : list bool) :
  0 < cs ->
  filter (fun i => nth (i / cs) ms false) (seq (k * cs) cs) = if nth k ms false then seq (k * cs) cs else [].
Proof.
  intros Hcs.
  assert (H : forall i, In i (seq (k * cs) cs) -> i / cs = k).
  { intros i Hi. apply in_seq in Hi. symmetry. apply Nat.div_unique with (r := i - k * cs); lia. }
  destruct (nth k ms false) eqn:E.
  - apply forallb_filter_id. apply forallb_forall. intros i Hi. rewrite (H i Hi). exact E.
  - induction (seq (k * cs) cs) as [|a t IH]; [reflexivity|]. simpl.
    rewrite (H a) by (left; reflexivity). rewrite E. apply IH. intros i Hi. apply H. right. assumption.
Qed.

Lemma seq_split a n m : seq a (n + m) = seq a n ++ seq (a + n) m.
Proof. apply seq_app. Qed.

(* the loop, generalised: what has been emitted so far plus the open block is the selection of the chunks seen;
   closed blocks end, and the open block starts, at least one chunk before the end of what has been seen *)
Lemma blocks_loop_inv cs : 0 < cs -> forall ms k prev b e acc done_ms,
  length done_ms = k ->
  (prev = true -> b < e /\ e = k * cs /\ b + cs <= k * cs) ->
  (forall be, In be acc -> snd be + cs <= k * cs) ->
  selected_of_blocks acc ++ (if prev then seq b (e - b) else []) = filter (fun i => nth (i / cs) (done_ms ++ ms) false) (seq 0 (k * cs)) ->
  let '(acc', prev', b', e') := blocks_loop cs k ms prev b e acc in
  (prev' = true -> b' < e' /\ e' = (k + length ms) * cs /\ b' + cs <= (k + length ms) * cs) /\
  (forall be, In be acc' -> snd be + cs <= (k + length ms) * cs) /\
  selected_of_blocks acc' ++ (if prev' then seq b' (e' - b') else []) =
    filter (fun i => nth (i / cs) (done_ms ++ ms) false) (seq 0 ((k + length ms) * cs)).
Proof.
  intros Hcs. induction ms as [|m t IH]; intros k prev b e acc done_ms Hlen Hprev Hacc Hinv.
  - simpl. rewrite Nat.add_0_r. split; [assumption|]. split; assumption.
  - cbn [blocks_loop].
    assert (Hnth : nth k (done_ms ++ m :: t) false = m) by (rewrite app_nth2 by lia; rewrite Hlen, Nat.sub_diag; reflexivity).
    assert (Hstep : filter (fun i => nth (i / cs) (done_ms ++ m :: t) false) (seq 0 (S k * cs)) =
                    filter (fun i => nth (i / cs) (done_ms ++ m :: t) false) (seq 0 (k * cs)) ++ (if m then seq (k * cs) cs else [])).
    { replace (S k * cs) with (k * cs + cs) by lia. rewrite seq_split, filter_app. simpl. f_equal.
      rewrite filter_seq_chunk by assumption. rewrite Hnth. reflexivity. }
    replace (done_ms ++ m :: t) with ((done_ms ++ [m]) ++ t) in * by (rewrite <- app_assoc; reflexivity).
    replace (k + length (m :: t)) with (S k + length t) by (simpl; lia).
    destruct m.
    + (* matching chunk: the open block starts here or is extended *)
      apply IH with (done_ms := done_ms ++ [true]).
      * rewrite app_length. simpl. lia.
      * intros _. destruct prev; [destruct (Hprev eq_refl) as (H1 & H2 & H3); subst e|]; repeat split; nia.
      * intros be Hbe. specialize (Hacc be Hbe). nia.
      * rewrite Hstep. rewrite <- Hinv. rewrite <- app_assoc. f_equal.
        destruct prev.
        -- destruct (Hprev eq_refl) as (Hb & He & _). subst e.
           replace (S k * cs - b) with ((k * cs - b) + cs) by nia. rewrite seq_split. f_equal. f_equal. lia.
        -- simpl. f_equal. nia.
    + (* non-matching chunk: an open block is closed *)
      apply IH with (done_ms := done_ms ++ [false]).
      * rewrite app_length. simpl. lia.
      * intros H; discriminate.
      * intros be Hbe. destruct prev; simpl in Hbe.
        -- destruct (Hprev eq_refl) as (Hb & He & _). destruct (Nat.ltb b e); simpl in Hbe.
           ++ apply in_app_or in Hbe. destruct Hbe as [Hbe|[Hbe|[]]]; [specialize (Hacc be Hbe); nia|subst be; simpl; nia].
           ++ specialize (Hacc be Hbe). nia.
        -- specialize (Hacc be Hbe). nia.
      * rewrite Hstep, app_nil_r. rewrite <- Hinv.
        destruct prev; simpl.
        -- destruct (Hprev eq_refl) as (Hb & He & _). apply Nat.ltb_lt in Hb. rewrite Hb. simpl.
           unfold selected_of_blocks. rewrite flat_map_app. simpl. rewrite !app_nil_r. reflexivity.
        -- rewrite !app_nil_r. reflexivity.
Qed.

Lemma filter_lt_id size l : (forall i, In i l -> i < size) -> filter (fun i => i <? size) l = l.
Proof. intros Hl. apply forallb_filter_id. apply forallb_forall. intros i Hi. apply Nat.ltb_lt. apply Hl. assumption. Qed.

Lemma filter_lt_nil size l : (forall i, In i l -> size <= i) -> filter (fun i => i <? size) l = [].
Proof.
  induction l as [|a t IHl]; intros Hl; [reflexivity|]. simpl. destruct (Nat.ltb_spec a size); [specialize (Hl a (or_introl eq_refl)); lia|].
  apply IHl. intros i Hi. apply Hl. right. assumption.
Qed.

Lemma selected_of_blocks_in acc i : In i (selected_of_blocks acc) -> exists be, In be acc /\ fst be <= i < snd be.
Proof.
  unfold selected_of_blocks. rewrite in_flat_map. intros (be & Hbe & Hi). exists be. split; [assumption|]. apply in_seq in Hi. lia.
Qed.

(* the blocks select exactly the indices below size whose version chunk matched *)
Theorem blocks_exact cs size ms :
  0 < cs -> 0 < size -> length ms = S ((size - 1) / cs) ->
  selected_of_blocks (filter_blocks cs size ms) = selected_spec cs size ms.
Proof.
  intros Hcs Hsize Hlen. unfold filter_blocks, selected_spec.
  pose proof (blocks_loop_inv cs Hcs ms 0 false 0 0 [] [] eq_refl (fun H => match Bool.diff_false_true H with end)
                (fun be (H : In be []) => match H with end) eq_refl) as H.
  destruct (blocks_loop cs 0 ms false 0 0 []) as [[[acc prev] b] e]. simpl in H. destruct H as (Hp & Hacc & Hsel).
  set (n := length ms) in *.
  assert (Hn : size <= n * cs /\ (n - 1) * cs < size /\ 1 <= n).
  { rewrite Hlen. pose proof (Nat.div_mod (size - 1) cs ltac:(lia)). pose proof (Nat.mod_upper_bound (size - 1) cs ltac:(lia)).
    simpl. nia. }
  assert (Hcut : filter (fun i => nth (i / cs) ms false) (seq 0 size) =
                 filter (fun i => i <? size) (filter (fun i => nth (i / cs) ms false) (seq 0 (n * cs)))).
  { replace (n * cs) with (size + (n * cs - size)) by lia. rewrite seq_split, !filter_app.
    rewrite filter_lt_id, filter_lt_nil, app_nil_r; [reflexivity| |].
    - intros i Hi. apply filter_In in Hi. destruct Hi as (Hi & _). apply in_seq in Hi. lia.
    - intros i Hi. apply filter_In in Hi. destruct Hi as (Hi & _). apply in_seq in Hi. lia. }
  rewrite Hcut, <- Hsel. rewrite filter_app.
  assert (Hacc_id : filter (fun i => i <? size) (selected_of_blocks acc) = selected_of_blocks acc).
  { apply filter_lt_id. intros i Hi. apply selected_of_blocks_in in Hi. destruct Hi as (be & Hbe & Hi). specialize (Hacc be Hbe). nia. }
  rewrite Hacc_id.
  destruct prev.
  - destruct (Hp eq_refl) as (Hb & He & Hbc). simpl in He. subst e.
    assert (Hmin : Nat.min size (n * cs) = size) by lia. rewrite Hmin.
    assert (Hbs : b < size) by nia. apply Nat.ltb_lt in Hbs as Hbs'. rewrite Hbs'.
    unfold selected_of_blocks at 1. rewrite flat_map_app. simpl. rewrite app_nil_r. f_equal.
    replace (n * cs - b) with ((size - b) + (n * cs - size)) by lia. rewrite seq_split, filter_app.
    rewrite filter_lt_id, filter_lt_nil, app_nil_r; [reflexivity| |]; intros i Hi; apply in_seq in Hi; lia.
  - simpl. rewrite app_nil_r. reflexivity.
Qed.

(* ------------------------------------------------------------------------------------------ *)
(* task sizes: N/T each, the first N mod T tasks one more; they add up to N *)
Lemma task_size_sum total tasks : 0 < tasks ->
  fold_left (fun acc k => acc + task_size total tasks k) (seq 0 tasks) 0 = total.
Proof.
  intros Ht. unfold task_size.
  set (ept := total / tasks). set (extra := total - tasks * ept).
  assert (Hdm : total = tasks * ept + extra /\ extra < tasks).
  { unfold extra, ept. pose proof (Nat.div_mod total tasks ltac:(lia)). pose proof (Nat.mod_upper_bound total tasks ltac:(lia)). nia. }
  assert (G : forall n acc, n <= tasks ->
            fold_left (fun acc k => acc + (if k <? extra then S ept else ept)) (seq 0 n) acc = acc + n * ept + Nat.min n extra).
  (* lia knows Nat.min; products with ept are kept linear by generalising n * ept step by step *)
  { induction n as [|n IH]; intros acc Hn; [simpl; lia|].
    rewrite seq_S, fold_left_app. cbn [fold_left Nat.add]. rewrite IH by lia. rewrite Nat.mul_succ_l.
    destruct (Nat.ltb_spec n extra); lia. }
  rewrite G by lia. lia.
Qed.

Lemma task_size_bounds total tasks k : 0 < tasks -> total / tasks <= task_size total tasks k <= S (total / tasks).
Proof. intros _. unfold task_size. destruct (k <? total - tasks * (total / tasks)); lia. Qed.
