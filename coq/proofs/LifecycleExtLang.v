(* C03, history level, extended unlocked alphabet: the event lists of the new operations under the bracket checker
   of proofs/LifecycleLang.v.  No Manager state occurs in the checker lemmas of this file; the cells are `aplace`
   (proofs/LifecycleHist.v) of a list of archetypes.
     - clone_events: Archetype::cloneEntity logs one EvCP (destination cell <- source cell) per component whose type
       logs (ci_ev).  The checker (lib/mgrcheck.py Lifecycle.feed, kind CP) wants the destination dead and the source
       alive and makes the destination alive.  A tracked type (ci_destroy && ci_ev) therefore always logs its copy: no
       condition on the component table beyond lc_cis_ok is needed for clone.
     - clear_events (clear / clearArchetype): every occupied cell of a tracked component dies.
     - value construction of a cell that an external move or an insert left unconstructed (builder edits). *)
Require Import Coq.Lists.List Coq.NArith.NArith Coq.ZArith.ZArith Coq.Arith.Arith Coq.Bool.Bool Coq.micromega.Lia.
From Mustache Require Import Res Manager MgrSpec Refine.
From Mustache Require Skeleton.
From Mustache Require Import SkelSpec.
From Mustache.proofs Require Import ListLemmas SkelBasics SkelInv SkelSteps SkelMove SkelMain ClosureProofs
  ManagerBasics ManagerMoves ManagerProj ManagerInv ManagerMain LifecycleProofs LifecycleLang LifecycleHist.
Import ListNotations.

(* one component of Archetype::cloneEntity *)
Definition clone_one (cis : list cinfo) (ai didx sidx c : nat) : list event :=
  on_info cis c (fun inf => if ci_ev inf then [EvCP (ci_pal inf) (PArch ai c didx) (PArch ai c sidx)] else []).
Definition clone_events (cis : list cinfo) (ai didx sidx : nat) (comps : list nat) : list event :=
  flat_map (clone_one cis ai didx sidx) comps.

(* a new last member of archetype ai: the cells of the new state *)
Lemma aplace_grow cis al al' ai a a3 :
  nth_error al ai = Some a -> nth_error al' ai = Some a3 -> (forall j, j <> ai -> nth_error al' j = nth_error al j) ->
  am_mask a3 = am_mask a -> length (am_ents a3) = S (length (am_ents a)) ->
  forall p, aplace cis al' p <->
    (aplace cis al p \/ exists c, In c (mitems (am_mask a)) /\ tcomp cis c = true /\ p = PArch ai c (length (am_ents a))).
Proof.
  intros Ha Ha3 Hoth Em Ee p. split.
  - intros Hp. destruct p as [ai' c' i'|]; [|contradiction]. destruct Hp as (a0 & Ha0 & Hc' & Hi' & Ht').
    destruct (Nat.eq_dec ai' ai) as [->|Hne].
    + rewrite Ha3 in Ha0. inversion Ha0; subst a0. rewrite Em in Hc'. rewrite Ee in Hi'.
      destruct (Nat.eq_dec i' (length (am_ents a))) as [->|Hni].
      * right. exists c'. split; [exact Hc'|]. split; [exact Ht'|reflexivity].
      * left. exists a. repeat split; try assumption. lia.
    + left. exists a0. rewrite <- Hoth by exact Hne. auto.
  - intros [Hp|(c & Hc & Ht & ->)].
    + destruct p as [ai' c' i'|]; [|exact Hp]. destruct Hp as (a0 & Ha0 & Hc' & Hi' & Ht').
      destruct (Nat.eq_dec ai' ai) as [->|Hne].
      * rewrite Ha in Ha0. inversion Ha0; subst a0. exists a3. rewrite Em, Ee. repeat split; try assumption. lia.
      * exists a0. rewrite Hoth by exact Hne. auto.
    + exists a3. rewrite Em, Ee. repeat split; try assumption. lia.
Qed.

Section ExtLang.
Variable cis : list cinfo.
Hypothesis Hok : lc_cis_ok cis.
Local Notation dp := (destroy_pals cis).

(* ------------------------------------------------------------------------------------------ *)
(* clone                                                                                       *)
Lemma clone_one_run ai didx sidx c L :
  (tcomp cis c = true -> ~ In (PArch ai c didx) L /\ In (PArch ai c sidx) L) ->
  lc_run dp L (clone_one cis ai didx sidx c) = Some (if tcomp cis c then PArch ai c didx :: L else L).
Proof.
  intros H. unfold clone_one, on_info. destruct (nth_error cis c) as [inf|] eqn:Hn; [|unfold tcomp; rewrite Hn; reflexivity].
  destruct (tcomp cis c) eqn:Ht.
  - destruct (tcomp_funs cis Hok _ _ Hn Ht) as (Hev & _ & _ & _ & Hp). rewrite Hev. simpl. rewrite Hp.
    destruct (H eq_refl) as (H1 & H2). rewrite (proj2 (pmem_false _ _) H1), (proj2 (pmem_in _ _) H2). reflexivity.
  - destruct (ci_ev inf) eqn:Hev; [|reflexivity]. simpl. rewrite (untracked_pal cis Hok _ _ Hn Ht Hev). reflexivity.
Qed.

Lemma run_clone ai didx sidx : forall comps L, NoDup comps ->
  (forall c, In c comps -> tcomp cis c = true -> ~ In (PArch ai c didx) L /\ In (PArch ai c sidx) L) ->
  exists L', lc_run dp L (clone_events cis ai didx sidx comps) = Some L' /\
    forall p, In p L' <-> (In p L \/ exists c, In c comps /\ tcomp cis c = true /\ p = PArch ai c didx).
Proof.
  induction comps as [|c t IH]; intros L Hnd H.
  - exists L. split; [reflexivity|]. intros p. split; [auto|intros [Hp|(c & [] & _)]; exact Hp].
  - inversion Hnd as [|? ? Hni Hnd']; subst. unfold clone_events. cbn [flat_map]. rewrite lc_run_app.
    rewrite clone_one_run by (intros Ht; apply H; [left; reflexivity|exact Ht]). fold (clone_events cis ai didx sidx t).
    assert (HL1 : forall p, In p (if tcomp cis c then PArch ai c didx :: L else L) <-> In p L \/ (tcomp cis c = true /\ p = PArch ai c didx)).
    { intros p. destruct (tcomp cis c); simpl.
      - split; [intros [E|Hp]; [right; auto|left; exact Hp]|intros [Hp|(_ & E)]; [right; exact Hp|left; auto]].
      - split; [auto|intros [Hp|(E & _)]; [exact Hp|discriminate]]. }
    destruct (IH (if tcomp cis c then PArch ai c didx :: L else L) Hnd') as (L' & Hr & HL').
    { intros c' Hc' Ht'. destruct (H c' (or_intror Hc') Ht') as (H1 & H2). split.
      - rewrite HL1. intros [Hp|(_ & E)]; [exact (H1 Hp)|]. inversion E; subst c'. contradiction.
      - apply HL1. left. exact H2. }
    exists L'. split; [exact Hr|]. intros p. rewrite HL', HL1. clear. split.
    + intros [[Hp|(A & E)]|(c' & Hc' & A & E)]; [left; exact Hp| |].
      * right. exists c. split; [left; reflexivity|auto].
      * right. exists c'. split; [right; exact Hc'|auto].
    + intros [Hp|(c' & [<-|Hc'] & A & E)]; [left; left; exact Hp|left; right; auto|right; exists c'; auto].
Qed.

(* the member at slot sidx of archetype ai is cloned into a new last member *)
Lemma lc_clone_sound al al' ai a a3 sidx L :
  nth_error al ai = Some a -> nth_error al' ai = Some a3 -> (forall j, j <> ai -> nth_error al' j = nth_error al j) ->
  am_mask a3 = am_mask a -> length (am_ents a3) = S (length (am_ents a)) -> sidx < length (am_ents a) ->
  (forall p, In p L <-> aplace cis al p) ->
  exists L', lc_run dp L (clone_events cis ai (length (am_ents a)) sidx (mitems (am_mask a))) = Some L' /\
    forall p, In p L' <-> aplace cis al' p.
Proof.
  intros Ha Ha3 Hoth Em Ee Hs HL.
  destruct (run_clone ai (length (am_ents a)) sidx (mitems (am_mask a)) L (mitems_NoDup _)) as (L' & Hr & HL').
  { intros c Hc Ht. split.
    - intros Hin. apply HL in Hin. destruct Hin as (a0 & Ha0 & _ & Hlt & _). rewrite Ha in Ha0. inversion Ha0; subst a0. lia.
    - apply HL. exists a. repeat split; assumption. }
  exists L'. split; [exact Hr|]. intros p. rewrite HL', (aplace_grow cis al al' ai a a3 Ha Ha3 Hoth Em Ee p), HL. reflexivity.
Qed.

(* ------------------------------------------------------------------------------------------ *)
(* clearArchetype of archetype ai                                                              *)
Lemma lc_clear_sound al ai a L :
  nth_error al ai = Some a -> am_size a = length (am_ents a) ->
  (forall p, In p L <-> aplace cis al p) ->
  exists L', lc_run dp L (clear_events cis ai a) = Some L' /\
    forall p, In p L' <-> aplace cis (upd al ai (with_size (with_ents a []) 0)) p.
Proof.
  intros Ha Hsz HL.
  assert (Hai : ai < length al) by (apply nth_error_Some; congruence).
  destruct (run_clear cis Hok ai a L) as (L' & Hr & HL').
  { intros c i Hc Ht Hi _. apply HL. exists a. repeat split; try assumption. lia. }
  exists L'. split; [exact Hr|]. intros p. rewrite HL'. clear Hr HL'. split.
  - intros (Hp & Hno). apply HL in Hp. destruct p as [ai' c' i'|]; [|exact Hp]. destruct Hp as (a0 & Ha0 & Hc' & Hi' & Ht').
    destruct (Nat.eq_dec ai' ai) as [->|Hne].
    + exfalso. rewrite Ha in Ha0. inversion Ha0; subst a0. apply Hno. split.
      * intros E. rewrite E in Hi'. simpl in Hi'. lia.
      * exists c', i'. repeat split; try assumption. lia.
    + exists a0. rewrite nth_error_upd_other by congruence. auto.
  - intros Hp. destruct p as [ai' c' i'|]; [|contradiction]. destruct Hp as (a0 & Ha0 & Hc' & Hi' & Ht').
    destruct (Nat.eq_dec ai' ai) as [->|Hne].
    + rewrite nth_error_upd_same in Ha0 by exact Hai. inversion Ha0; subst a0. simpl in Hi'. lia.
    + rewrite nth_error_upd_other in Ha0 by congruence. split.
      * apply HL. exists a0. auto.
      * intros (_ & c & i & _ & _ & _ & E). inversion E. congruence.
Qed.

(* ------------------------------------------------------------------------------------------ *)
(* builder edits: the cells (ai, c, n) of the components c :: rest are still unconstructed; initComponent
   constructs the one of c from a value *)
Lemma lc_value_pending al ai c n rest inf h L : nth_error cis c = Some inf -> ~ In c rest ->
  (tcomp cis c = true -> aplace cis al (PArch ai c n)) ->
  (forall p, In p L <-> (aplace cis al p /\ ~ exists c', p = PArch ai c' n /\ In c' (c :: rest))) ->
  exists L', lc_run dp L ((if ci_ev inf then [EvV (ci_pal inf) (PArch ai c n)] else []) ++
                          (if ci_aa inf then [EvAA (ci_pal inf) (PArch ai c n) h] else [])) = Some L' /\
    forall p, In p L' <-> (aplace cis al p /\ ~ exists c', p = PArch ai c' n /\ In c' rest).
Proof.
  intros Hn Hnr Hpl HL. rewrite lc_run_app.
  assert (E2 : forall L0, lc_run dp L0 (if ci_aa inf then [EvAA (ci_pal inf) (PArch ai c n) h] else []) = Some L0).
  { intros L0. destruct (ci_aa inf); reflexivity. }
  destruct (tcomp cis c) eqn:Ht.
  - destruct (tcomp_funs cis Hok _ _ Hn Ht) as (Hev & _ & _ & _ & Hp). rewrite Hev. simpl. rewrite Hp.
    assert (Hni : ~ In (PArch ai c n) L).
    { intros Hin. apply HL in Hin. destruct Hin as (_ & Hno). apply Hno. exists c. split; [reflexivity|left; reflexivity]. }
    rewrite (proj2 (pmem_false _ _) Hni). eexists. split; [apply E2|]. intros p. simpl. rewrite HL. split.
    + intros [<-|(Hp' & Hno)].
      * split; [apply Hpl; reflexivity|]. intros (c' & E & Hc'). inversion E; subst c'. contradiction.
      * split; [exact Hp'|]. intros (c' & E & Hc'). apply Hno. exists c'. split; [exact E|right; exact Hc'].
    + intros (Hp' & Hno). destruct (place_eqb (PArch ai c n) p) eqn:E; [left; apply place_eqb_eq; exact E|].
      right. split; [exact Hp'|]. intros (c' & -> & [<-|Hc']).
      * rewrite place_eqb_refl in E. discriminate.
      * apply Hno. exists c'. auto.
  - assert (E1 : lc_run dp L (if ci_ev inf then [EvV (ci_pal inf) (PArch ai c n)] else []) = Some L).
    { destruct (ci_ev inf) eqn:Hev; [|reflexivity]. simpl. rewrite (untracked_pal cis Hok _ _ Hn Ht Hev). reflexivity. }
    rewrite E1. eexists. split; [apply E2|]. intros p. rewrite HL. split.
    + intros (Hp' & Hno). split; [exact Hp'|]. intros (c' & E & Hc'). apply Hno. exists c'. split; [exact E|right; exact Hc'].
    + intros (Hp' & Hno). split; [exact Hp'|]. intros (c' & -> & [<-|Hc']).
      * destruct Hp' as (a & _ & _ & _ & Ht'). congruence.
      * apply Hno. exists c'. auto.
Qed.

End ExtLang.
