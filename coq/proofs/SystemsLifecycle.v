(* C14, lifecycle part: every system of the SystemManager model (Systems.v) only ever sees a legal sequence of
   lifecycle callbacks, for every sequence of manager operations.

   The legal language is a small DFA.  Its states are the states of ASystem (system.hpp: SystemState) plus
   "not registered in the manager" (None); its alphabet is the callbacks the model logs (cb) plus two manager-level
   events that are not callbacks: the registration of a name (EvAdd) and its removal (EvRemove).  The callback
   transitions are exactly the guards of system.cpp:10-96 as the property text lists them:
       create, configure, start, update*, pause, (resume | stop), destroy
   with destroy legal only for a system that was created and is not running (Inited / Configured / Stopped).
   A name that is not registered accepts no callback at all (a removed system is never called again).

   Two theorems, same proof:
   - strict automaton: for every operation sequence in which the teardown (the destructor of the manager) is the last
     operation.  This is every history the C++ API allows.
   - lax automaton (destroy also allowed on an Uninit system, as ASystem::destroy has no guard; registering a name
     that is present is ignored): for EVERY operation sequence, also those that keep using the manager after its
     teardown.  The strict automaton is violated by such sequences (witnesses at the end of the file). *)
Require Import Coq.Lists.List Coq.ZArith.ZArith Coq.Arith.Arith Coq.Bool.Bool Coq.micromega.Lia Coq.Sorting.Permutation.
From Mustache Require Import Res Systems.
From Mustache.proofs Require Import ListLemmas SystemsProofs.
Import ListNotations.

(* ------------------------------------------------------------------------------------------------------------ *)
(* generic helpers *)

Lemma lc_bind_ok {A B} (r : res A) (f : A -> res B) b : bind r f = Ok b -> exists a, r = Ok a /\ f a = Ok b.
Proof. destruct r as [a|e]; simpl; intros H; [exists a; auto|discriminate]. Qed.

Lemma fold_res_inv {A S} (P : S -> Prop) (f : S -> A -> res S) :
  (forall st a st', P st -> f st a = Ok st' -> P st') ->
  forall l s s', P s -> fold_res f l s = Ok s' -> P s'.
Proof.
  intros Hf. induction l as [|a t IH]; intros s s' Hs H; simpl in H.
  - inversion H; subst; assumption.
  - apply lc_bind_ok in H. destruct H as (s1 & H1 & H2). eapply IH; [|exact H2]. eapply Hf; eassumption.
Qed.

Lemma fold_res_not_err {A S} (e : err) (f : S -> A -> res S) :
  (forall st a, f st a <> Err e) -> forall l s, fold_res f l s <> Err e.
Proof.
  intros Hf. induction l as [|a t IH]; intros s; simpl; [discriminate|].
  destruct (f s a) as [s1|e1] eqn:E; simpl; [apply IH|]. intros H. inversion H; subst. exact (Hf _ _ E).
Qed.

Lemma fold_left_pres {A B} (P : A -> Prop) (g : A -> B -> A) :
  (forall a b, P a -> P (g a b)) -> forall l a, P a -> P (fold_left g l a).
Proof. intros Hg. induction l as [|b t IH]; intros a Ha; simpl; [assumption|]. apply IH. apply Hg. assumption. Qed.

Lemma state_eqb_eq a b : state_eqb a b = true <-> a = b.
Proof. destruct a, b; simpl; split; intros H; try reflexivity; try discriminate. Qed.

(* ------------------------------------------------------------------------------------------------------------ *)
(* the systems list: lookup by name *)

Definition names (s : smst) : list nat := map s_name (infos s).
Definition states (s : smst) : list sstate := map s_state (infos s).
Definition lst (l : list sys) (n : nat) : option sstate := option_map s_state (find_sys l n).

Lemma sys_state_eq s n : sys_state s n = lst (infos s) n.
Proof. unfold sys_state, lst. destruct (find_sys (infos s) n); reflexivity. Qed.

Lemma find_sys_app l l' n :
  find_sys (l ++ l') n = match find_sys l n with Some y => Some y | None => find_sys l' n end.
Proof. induction l as [|a t IH]; simpl; [reflexivity|]. destruct (Nat.eqb (s_name a) n); [reflexivity|exact IH]. Qed.

Lemma find_sys_none l n : find_sys l n = None <-> ~ In n (map s_name l).
Proof.
  induction l as [|a t IH]; simpl; [tauto|].
  destruct (Nat.eqb_spec (s_name a) n) as [E|E].
  - split; [discriminate|]. intros H. exfalso. apply H. left. assumption.
  - rewrite IH. tauto.
Qed.

Lemma find_sys_some l n y : find_sys l n = Some y -> In y l /\ s_name y = n.
Proof.
  induction l as [|a t IH]; simpl; [discriminate|].
  destruct (Nat.eqb_spec (s_name a) n) as [E|E].
  - intros H. inversion H; subst. auto.
  - intros H. destruct (IH H). auto.
Qed.

Lemma lst_in l n q : lst l n = Some q -> In q (map s_state l).
Proof.
  unfold lst. destruct (find_sys l n) as [y|] eqn:E; simpl; [|discriminate]. intros H. inversion H; subst.
  apply in_map. apply (find_sys_some _ _ _ E).
Qed.

Lemma lst_present l n : In n (map s_name l) -> exists q, lst l n = Some q.
Proof.
  intros H. unfold lst. destruct (find_sys l n) as [y|] eqn:E; [exists (s_state y); reflexivity|].
  apply find_sys_none in E. contradiction.
Qed.

Lemma find_sys_upd l b f n : (forall y, s_name (f y) = s_name y) ->
  find_sys (upd_sys l b f) n = if Nat.eqb b n then option_map f (find_sys l n) else find_sys l n.
Proof.
  intros Hf. induction l as [|a t IH]; simpl; [destruct (Nat.eqb b n); reflexivity|].
  destruct (Nat.eqb_spec (s_name a) b) as [Eb|Eb]; simpl.
  - rewrite Hf. destruct (Nat.eqb_spec b n) as [En|En].
    + subst. rewrite Nat.eqb_refl. reflexivity.
    + subst. destruct (Nat.eqb_spec (s_name a) n); [contradiction|reflexivity].
  - destruct (Nat.eqb_spec (s_name a) n) as [En|En].
    + destruct (Nat.eqb_spec b n); [congruence|reflexivity].
    + exact IH.
Qed.

Lemma lst_upd_same l b f n : (forall y, s_name (f y) = s_name y) -> (forall y, s_state (f y) = s_state y) ->
  lst (upd_sys l b f) n = lst l n.
Proof.
  intros Hn Hs. unfold lst. rewrite find_sys_upd by assumption.
  destruct (Nat.eqb b n); [|reflexivity]. destruct (find_sys l n); simpl; [rewrite Hs|]; reflexivity.
Qed.

Lemma lst_upd_state l b st n :
  lst (upd_sys l b (fun y => set_sys y (s_cfg y) st)) n =
  if Nat.eqb b n then match lst l n with Some _ => Some st | None => None end else lst l n.
Proof.
  unfold lst. rewrite find_sys_upd by reflexivity.
  destruct (Nat.eqb b n); [|reflexivity]. destruct (find_sys l n); reflexivity.
Qed.

Lemma upd_sys_states l n f : (forall y, s_state (f y) = s_state y) -> map s_state (upd_sys l n f) = map s_state l.
Proof.
  intros Hf. induction l as [|a t IH]; simpl; [reflexivity|].
  destruct (Nat.eqb (s_name a) n); simpl; [rewrite Hf; reflexivity|rewrite IH; reflexivity].
Qed.

Lemma upd_sys_states_in l n st q :
  In q (map s_state (upd_sys l n (fun y => set_sys y (s_cfg y) st))) -> q = st \/ In q (map s_state l).
Proof.
  induction l as [|a t IH]; simpl; [tauto|].
  destruct (Nat.eqb (s_name a) n); simpl.
  - intros [H|H]; [left; symmetry; exact H|right; right; exact H].
  - intros [H|H]; [right; left; exact H|]. destruct (IH H); tauto.
Qed.

Lemma find_sys_filter l n m :
  find_sys (filter (fun y => negb (Nat.eqb (s_name y) n)) l) m = if Nat.eqb m n then None else find_sys l m.
Proof.
  induction l as [|a t IH]; simpl; [destruct (Nat.eqb m n); reflexivity|].
  destruct (Nat.eqb_spec (s_name a) n) as [En|En]; simpl.
  - rewrite IH. destruct (Nat.eqb_spec m n) as [Em|Em]; [reflexivity|].
    destruct (Nat.eqb_spec (s_name a) m); [congruence|reflexivity].
  - destruct (Nat.eqb_spec (s_name a) m) as [Em|Em].
    + destruct (Nat.eqb_spec m n); [congruence|reflexivity].
    + exact IH.
Qed.

Lemma filter_names_nodup (p : sys -> bool) l : NoDup (map s_name l) -> NoDup (map s_name (filter p l)).
Proof.
  induction l as [|a t IH]; simpl; intros H; [constructor|]. inversion H; subst.
  destruct (p a); simpl; [|auto]. constructor; [|auto].
  intros Hin. apply H2. apply in_map_iff in Hin. destruct Hin as (y & Ey & Hy). apply filter_In in Hy.
  rewrite <- Ey. apply in_map. tauto.
Qed.

Lemma filter_states_in (p : sys -> bool) l q : In q (map s_state (filter p l)) -> In q (map s_state l).
Proof.
  intros H. apply in_map_iff in H. destruct H as (y & Ey & Hy). apply filter_In in Hy. rewrite <- Ey. apply in_map. tauto.
Qed.

(* fold_before only rewrites configurations *)
Lemma fold_before_pres (P : list sys -> Prop) :
  (forall l b f, (forall y, s_name (f y) = s_name y) -> (forall y, s_state (f y) = s_state y) -> P l -> P (upd_sys l b f)) ->
  forall l, P l -> P (fold_before l).
Proof.
  intros HP l Hl. unfold fold_before. apply fold_left_pres; [|assumption].
  intros acc y Hacc. apply fold_left_pres; [|assumption].
  intros acc2 b Hacc2. apply HP; [reflexivity|reflexivity|assumption].
Qed.

Lemma fold_before_states l : map s_state (fold_before l) = map s_state l.
Proof.
  apply (fold_before_pres (fun l' => map s_state l' = map s_state l)); [|reflexivity].
  intros l0 b f _ Hs H. rewrite upd_sys_states; assumption.
Qed.

Lemma fold_before_lst l n : lst (fold_before l) n = lst l n.
Proof.
  apply (fold_before_pres (fun l' => lst l' n = lst l n)); [|reflexivity].
  intros l0 b f Hn Hs H. rewrite lst_upd_same; assumption.
Qed.

(* ------------------------------------------------------------------------------------------------------------ *)
(* projection of the callback log (most recent first) to one name *)

Definition proj (n : nat) (l : list (nat * cb)) : list cb := map snd (filter (fun p => Nat.eqb (fst p) n) l).

Lemma proj_app n a b : proj n (a ++ b) = proj n a ++ proj n b.
Proof. unfold proj. rewrite filter_app, map_app. reflexivity. Qed.

(* the part of the log written between two states *)
Definition new_log (s s' : smst) : list (nat * cb) := firstn (length (slog s') - length (slog s)) (slog s').

Lemma new_log_app s s' d : slog s' = d ++ slog s -> new_log s s' = d.
Proof.
  intros H. unfold new_log. rewrite H, app_length.
  replace (length d + length (slog s) - length (slog s)) with (length d + 0) by lia.
  rewrite firstn_app_2. simpl. apply app_nil_r.
Qed.

(* ------------------------------------------------------------------------------------------------------------ *)
(* the lifecycle automaton *)

Inductive lev := EvAdd | EvCb (c : cb) | EvRemove.

Section Lifecycle.
Variable lax : bool.

(* callback transitions of a registered system: the guards of system.cpp *)
Definition lc_next (q : sstate) (c : cb) : option sstate :=
  match q, c with
  | Uninit, CbCreate => Some Inited
  | Inited, CbConfigure => Some Configured
  | Configured, CbStart => Some Active
  | Active, CbUpdate => Some Active
  | Active, CbPause => Some Paused
  | Paused, CbResume => Some Active
  | Paused, CbStop => Some Stopped
  | Inited, CbDestroy => Some Uninit
  | Configured, CbDestroy => Some Uninit
  | Stopped, CbDestroy => Some Uninit
  | Uninit, CbDestroy => if lax then Some Uninit else None
  | _, _ => None
  end.

(* state None: the name is not registered in the manager (never added, or removed) *)
Definition ev_step (q : option sstate) (e : lev) : option (option sstate) :=
  match q, e with
  | None, EvAdd => Some (Some Uninit)
  | Some q0, EvAdd => if lax then Some (Some q0) else None
  | Some q0, EvCb c => match lc_next q0 c with Some q1 => Some (Some q1) | None => None end
  | Some _, EvRemove => Some None
  | None, EvCb _ => None
  | None, EvRemove => None
  end.

Fixpoint ev_run (q : option sstate) (w : list lev) : option (option sstate) :=
  match w with
  | [] => Some q
  | e :: t => match ev_step q e with Some q' => ev_run q' t | None => None end
  end.

Lemma ev_run_app q w1 w2 :
  ev_run q (w1 ++ w2) = match ev_run q w1 with Some q' => ev_run q' w2 | None => None end.
Proof. revert q. induction w1 as [|e t IH]; intros q; simpl; [reflexivity|]. destruct (ev_step q e); [apply IH|reflexivity]. Qed.

(* ---- segments: what a piece of execution did to one name ---- *)
Definition seg (n : nat) (s s' : smst) : Prop :=
  exists d, slog s' = d ++ slog s /\
            ev_run (sys_state s n) (map EvCb (rev (proj n d))) = Some (sys_state s' n).

Lemma seg_same n s s' : slog s' = slog s -> sys_state s' n = sys_state s n -> seg n s s'.
Proof. intros Hl Hs. exists []. split; [exact Hl|]. simpl. rewrite Hs. reflexivity. Qed.

Lemma seg_refl n s : seg n s s.
Proof. apply seg_same; reflexivity. Qed.

Lemma seg_trans n s1 s2 s3 : seg n s1 s2 -> seg n s2 s3 -> seg n s1 s3.
Proof.
  intros (d1 & L1 & R1) (d2 & L2 & R2). exists (d2 ++ d1). split.
  - rewrite L2, L1. apply app_assoc.
  - rewrite proj_app, rev_app_distr, map_app, ev_run_app, R1. exact R2.
Qed.

(* one guarded callback *)
Lemma fire_seg s s' n c q st :
  sys_state s n = Some q -> lc_next q c = Some st -> slog s' = (n, c) :: slog s ->
  (forall m, sys_state s' m = if Nat.eqb n m then Some st else sys_state s m) ->
  forall m, seg m s s'.
Proof.
  intros Hq Hc Hl Hs m. exists [(n, c)]. split; [exact Hl|].
  unfold proj. simpl. rewrite (Hs m). destruct (Nat.eqb_spec n m) as [E|E]; simpl.
  - subst m. rewrite Hq. simpl. rewrite Hc. reflexivity.
  - reflexivity.
Qed.

(* ---- the model's primitives ---- *)
Definition ok_call (e : sstate) (c : cb) (nx : option sstate) : Prop :=
  lc_next e c = Some (match nx with Some st => st | None => e end).

Lemma transition_spec s n e c nx s' : transition s n e c nx = Ok s' ->
  sys_state s n = Some e /\ slog s' = (n, c) :: slog s /\
  ordered s' = ordered s /\ was_init s' = was_init s /\ names s' = names s /\
  (forall m, sys_state s' m = if Nat.eqb n m then Some (match nx with Some st => st | None => e end) else sys_state s m) /\
  (forall q, In q (states s') -> Some q = nx \/ In q (states s)).
Proof.
  unfold transition. intros H. destruct (find_sys (infos s) n) as [y|] eqn:Ef; [|discriminate].
  destruct (state_eqb (s_state y) e) eqn:Ee; [|discriminate]. apply state_eqb_eq in Ee.
  assert (Hst : sys_state s n = Some e) by (unfold sys_state; rewrite Ef, Ee; reflexivity).
  split; [exact Hst|]. inversion H; subst s'; clear H.
  destruct nx as [st|]; simpl.
  - repeat split; try reflexivity.
    + unfold names. simpl. apply upd_sys_names. reflexivity.
    + intros m. rewrite !sys_state_eq. simpl. rewrite lst_upd_state.
      destruct (Nat.eqb_spec n m) as [E|E]; [|reflexivity]. subst m.
      rewrite sys_state_eq in Hst. rewrite Hst. reflexivity.
    + intros q Hq. unfold states in Hq. simpl in Hq. apply upd_sys_states_in in Hq.
      destruct Hq as [Hq|Hq]; [left; subst; reflexivity|right; exact Hq].
  - repeat split; try reflexivity.
    + intros m. destruct (Nat.eqb_spec n m) as [E|E]; [subst m; exact Hst|reflexivity].
    + intros q Hq. right. exact Hq.
Qed.

Lemma transition_seg s n e c nx s' : ok_call e c nx -> transition s n e c nx = Ok s' -> forall m, seg m s s'.
Proof.
  intros Hok H. apply transition_spec in H. destruct H as (Hq & Hl & _ & _ & _ & Hs & _).
  eapply fire_seg; eassumption.
Qed.

Lemma do_configure_spec s n s' : do_configure s n = Ok s' ->
  sys_state s n = Some Inited /\ (forall m, seg m s s') /\
  ordered s' = ordered s /\ was_init s' = was_init s /\ names s' = names s /\
  (forall m, sys_state s' m = if Nat.eqb n m then Some Configured else sys_state s m) /\
  (forall q, In q (states s') -> q = Configured \/ In q (states s)).
Proof.
  unfold do_configure. intros H. apply lc_bind_ok in H. destruct H as (s1 & H1 & H2).
  inversion H2; subst s'; clear H2.
  pose proof (transition_seg _ _ _ _ _ _ (eq_refl : ok_call Inited CbConfigure (Some Configured)) H1) as Hseg.
  apply transition_spec in H1. destruct H1 as (Hq & Hl & Ho & Hw & Hn & Hs & Hst).
  assert (Hs2 : forall m, sys_state (with_infos s1 (upd_sys (infos s1) n (fun y => set_sys y (s_user y) (s_state y)))) m = sys_state s1 m).
  { intros m. rewrite !sys_state_eq. simpl. apply lst_upd_same; reflexivity. }
  split; [exact Hq|]. split; [|repeat split].
  - intros m. eapply seg_trans; [apply Hseg|]. apply seg_same; [reflexivity|apply Hs2].
  - exact Ho.
  - exact Hw.
  - unfold names. simpl. rewrite upd_sys_names by reflexivity. exact Hn.
  - intros m. rewrite Hs2. apply Hs.
  - intros q Hq'. unfold states in Hq'. simpl in Hq'. rewrite upd_sys_states in Hq' by reflexivity.
    destruct (Hst q Hq') as [E|E]; [left; inversion E; reflexivity|right; exact E].
Qed.

Lemma reorder_spec s s' : reorder s = Ok s' ->
  infos s' = fold_before (infos s) /\ slog s' = slog s /\ was_init s' = was_init s /\
  names s' = names s /\ states s' = states s /\ (forall m, sys_state s' m = sys_state s m).
Proof.
  unfold reorder. intros H. apply lc_bind_ok in H. destruct H as (o & _ & H). inversion H; subst s'; clear H. simpl.
  repeat split.
  - unfold names. simpl. apply fold_before_names.
  - unfold states. simpl. apply fold_before_states.
  - intros m. rewrite !sys_state_eq. simpl. apply fold_before_lst.
Qed.

Lemma reorder_seg s s' : reorder s = Ok s' -> forall m, seg m s s'.
Proof. intros H m. apply reorder_spec in H. destruct H as (_ & Hl & _ & _ & _ & Hs). apply seg_same; [exact Hl|apply Hs]. Qed.

Lemma start_if_configured_spec s n s' : start_if_configured s n = Ok s' ->
  (forall m, seg m s s') /\ ordered s' = ordered s /\ was_init s' = was_init s /\ names s' = names s /\
  (forall q, In q (states s') -> q = Active \/ In q (states s)) /\
  (forall m, m <> n -> sys_state s' m = sys_state s m) /\
  (sys_state s' n = match sys_state s n with Some Configured => Some Active | x => x end).
Proof.
  unfold start_if_configured. intros H.
  assert (Hid : Ok s = Ok s' -> (forall m, seg m s s') /\ ordered s' = ordered s /\ was_init s' = was_init s /\ names s' = names s /\
     (forall q, In q (states s') -> q = Active \/ In q (states s)) /\ (forall m, m <> n -> sys_state s' m = sys_state s m) /\
     sys_state s' n = sys_state s n).
  { intros E. inversion E; subst s'. repeat split; auto using seg_refl. }
  destruct (sys_state s n) as [[]|] eqn:Eq; try (apply Hid in H; exact H).
  pose proof (transition_seg _ _ _ _ _ _ (eq_refl : ok_call Configured CbStart (Some Active)) H) as Hseg.
  apply transition_spec in H. destruct H as (_ & _ & Ho & Hw & Hn & Hs & Hst).
  repeat split; auto.
  - intros q Hq. destruct (Hst q Hq) as [E|E]; [left; inversion E; reflexivity|right; exact E].
  - intros m Hm. rewrite Hs. destruct (Nat.eqb_spec n m); [congruence|reflexivity].
  - rewrite Hs, Nat.eqb_refl. reflexivity.
Qed.

(* ASystem::destroy *)
Definition destroy_safe (s : smst) (n : nat) : Prop := lax = true \/ sys_state s n <> Some Uninit.

Lemma do_destroy_spec s n s' : do_destroy s n = Ok s' -> destroy_safe s n ->
  (forall m, seg m s s') /\ ordered s' = ordered s /\
  (forall m, m <> n -> sys_state s' m = sys_state s m) /\ sys_state s' n = Some Uninit.
Proof.
  unfold do_destroy. intros H Hsafe. apply lc_bind_ok in H. destruct H as (s1 & H1 & H). apply lc_bind_ok in H. destruct H as (s2 & H2 & H3).
  (* after the optional pause and stop the system is neither Active nor Paused *)
  assert (A1 : (forall m, seg m s s1) /\ ordered s1 = ordered s /\ (forall m, m <> n -> sys_state s1 m = sys_state s m) /\
               sys_state s1 n = match sys_state s n with Some Active => Some Paused | x => x end).
  { destruct (sys_state s n) as [[]|] eqn:Eq; try (inversion H1; subst s1; rewrite Eq; repeat split; auto using seg_refl).
    pose proof (transition_seg _ _ _ _ _ _ (eq_refl : ok_call Active CbPause (Some Paused)) H1) as Hseg.
    apply transition_spec in H1. destruct H1 as (_ & _ & Ho & _ & _ & Hs & _). repeat split; auto.
    - intros m Hm. rewrite Hs. destruct (Nat.eqb_spec n m); [congruence|reflexivity].
    - rewrite Hs, Nat.eqb_refl. reflexivity. }
  destruct A1 as (Sg1 & O1 & F1 & N1).
  assert (A2 : (forall m, seg m s1 s2) /\ ordered s2 = ordered s1 /\ (forall m, m <> n -> sys_state s2 m = sys_state s1 m) /\
               sys_state s2 n = match sys_state s1 n with Some Paused => Some Stopped | x => x end).
  { destruct (sys_state s1 n) as [[]|] eqn:Eq; try (inversion H2; subst s2; rewrite Eq; repeat split; auto using seg_refl).
    pose proof (transition_seg _ _ _ _ _ _ (eq_refl : ok_call Paused CbStop (Some Stopped)) H2) as Hseg.
    apply transition_spec in H2. destruct H2 as (_ & _ & Ho & _ & _ & Hs & _). repeat split; auto.
    - intros m Hm. rewrite Hs. destruct (Nat.eqb_spec n m); [congruence|reflexivity].
    - rewrite Hs, Nat.eqb_refl. reflexivity. }
  destruct A2 as (Sg2 & O2 & F2 & N2).
  destruct (find_sys (infos s2) n) as [y|] eqn:Ef; [|discriminate]. inversion H3; subst s'; clear H3.
  assert (Hq2 : sys_state s2 n = Some (s_state y)) by (unfold sys_state; rewrite Ef; reflexivity).
  assert (Hs3 : forall m, sys_state (with_infos (log_cb s2 n CbDestroy) (upd_sys (infos s2) n (fun y0 => set_sys y0 (s_cfg y0) Uninit))) m
                          = if Nat.eqb n m then Some Uninit else sys_state s2 m).
  { intros m. rewrite !sys_state_eq. simpl. rewrite lst_upd_state. destruct (Nat.eqb_spec n m) as [E|E]; [|reflexivity].
    subst m. rewrite sys_state_eq in Hq2. rewrite Hq2. reflexivity. }
  assert (Hd : lc_next (s_state y) CbDestroy = Some Uninit).
  { rewrite N2, N1 in Hq2. destruct Hsafe as [Hlax|Hne].
    - destruct (sys_state s n) as [[]|]; inversion Hq2 as [E]; simpl; rewrite ?Hlax; reflexivity.
    - destruct (sys_state s n) as [[]|]; inversion Hq2 as [E]; simpl; try reflexivity. exfalso. apply Hne. reflexivity. }
  split; [|split; [|split]].
  - intros m. eapply seg_trans; [apply Sg1|]. eapply seg_trans; [apply Sg2|].
    eapply fire_seg; [exact Hq2|exact Hd|reflexivity|exact Hs3].
  - simpl. congruence.
  - intros m Hm. rewrite Hs3. destruct (Nat.eqb_spec n m); [congruence|]. rewrite F2, F1; auto.
  - rewrite Hs3, Nat.eqb_refl. reflexivity.
Qed.

(* ---- unfolding equations for sm_step (so that the big definition is never simplified) ---- *)
Definition new_sys (n : nat) (u : scfg) : sys := {| s_name := n; s_user := u; s_cfg := cfg_default; s_state := Uninit |}.
Definition add_pre (s : smst) (n : nat) (u : scfg) : smst := with_infos s (infos s ++ [new_sys n u]).
Definition remove_pre (s : smst) (n : nat) : smst :=
  with_ordered (with_infos s (filter (fun y => negb (Nat.eqb (s_name y) n)) (infos s))) (remove_name (ordered s) n).
Definition cfg_body (st : smst) (y : sys) : res smst :=
  match sys_state st (s_name y) with Some Inited => do_configure st (s_name y) | _ => Ok st end.
Definition upd_body (st : smst) (n : nat) : res smst :=
  do st1 <- start_if_configured st n;
  match sys_state st1 n with
  | Some Active => transition st1 n Active CbUpdate None
  | _ => Ok st1
  end.

Lemma sm_step_add s n u : sm_step s (SAdd n u) =
  (do s2 <- transition (add_pre s n u) n Uninit CbCreate (Some Inited);
   if was_init s2 then do s3 <- do_configure s2 n; reorder s3 else Ok s2).
Proof. reflexivity. Qed.
Lemma sm_step_remove s n : sm_step s (SRemove n) =
  match find_sys (infos s) n with
  | None => Ok s
  | Some _ => match reorder (remove_pre s n) with
              | Ok s2 => Ok s2
              | Err (Throw k) => Err (ThrowInNoexcept k)
              | Err e => Err e
              end
  end.
Proof. reflexivity. Qed.
Lemma sm_step_init s : sm_step s SInit =
  if was_init s then Ok s else
  (do s2 <- fold_res cfg_body (infos (with_init s true)) (with_init s true);
   do s3 <- reorder s2;
   fold_res start_if_configured (ordered s3) s3).
Proof. reflexivity. Qed.
Lemma sm_step_update s : sm_step s SUpdate = if negb (was_init s) then Ok s else fold_res upd_body (ordered s) s.
Proof. reflexivity. Qed.
Lemma sm_step_setgroup s g p : sm_step s (SSetGroup g p) =
  Ok (with_gprio s ((g, p) :: filter (fun x => negb (Nat.eqb (fst x) g)) (gprio s))).
Proof. reflexivity. Qed.
Lemma sm_step_teardown s : sm_step s STeardown = fold_res do_destroy (ordered s) s.
Proof. reflexivity. Qed.

Lemma remove_reorder_ok s1 s' :
  match reorder s1 with Ok s2 => Ok s2 | Err (Throw k) => Err (ThrowInNoexcept k) | Err e => Err e end = Ok s' ->
  reorder s1 = Ok s'.
Proof. destruct (reorder s1) as [s2|[]]; intros H; inversion H; reflexivity. Qed.

Lemma cfg_body_seg st y st' : cfg_body st y = Ok st' -> forall m, seg m st st'.
Proof.
  unfold cfg_body. intros H.
  destruct (sys_state st (s_name y)) as [[]|]; try (inversion H; subst; intros; apply seg_refl).
  apply do_configure_spec in H. apply H.
Qed.

Lemma upd_body_seg st n st' : upd_body st n = Ok st' -> forall m, seg m st st'.
Proof.
  unfold upd_body. intros H. apply lc_bind_ok in H. destruct H as (st1 & H1 & H2).
  apply start_if_configured_spec in H1. destruct H1 as (Sg & _).
  intros m. eapply seg_trans; [apply Sg|].
  destruct (sys_state st1 n) as [[]|]; try (inversion H2; subst; apply seg_refl).
  eapply transition_seg; [|exact H2]. reflexivity.
Qed.

Lemma fold_seg {A} (f : smst -> A -> res smst) :
  (forall st a st', f st a = Ok st' -> forall m, seg m st st') ->
  forall l s s', fold_res f l s = Ok s' -> forall m, seg m s s'.
Proof.
  intros Hf l s s' H. apply (fold_res_inv (fun st => forall m, seg m s st) f) with (l := l) (s := s); [|intros; apply seg_refl|exact H].
  intros st a st' Hst Ha m. eapply seg_trans; [apply Hst|]. eapply Hf; eassumption.
Qed.

Definition teardown_safe (l : list nat) (s : smst) : Prop :=
  lax = true \/ (NoDup l /\ forall n, In n l -> sys_state s n <> Some Uninit).

Lemma teardown_seg : forall l s s', teardown_safe l s -> fold_res do_destroy l s = Ok s' -> forall m, seg m s s'.
Proof.
  induction l as [|n t IH]; intros s s' Hsafe H; simpl in H.
  - inversion H; subst. intros; apply seg_refl.
  - apply lc_bind_ok in H. destruct H as (s1 & H1 & H2).
    assert (Hd : destroy_safe s n).
    { destruct Hsafe as [Hl|(_ & Hu)]; [left; exact Hl|right; apply Hu; left; reflexivity]. }
    destruct (do_destroy_spec _ _ _ H1 Hd) as (Sg & _ & Fr & _).
    intros m. eapply seg_trans; [apply Sg|]. eapply IH; [|exact H2].
    destruct Hsafe as [Hl|(Hnd & Hu)]; [left; exact Hl|right]. inversion Hnd; subst. split; [assumption|].
    intros k Hk. rewrite Fr; [apply Hu; right; exact Hk|]. intros E; subst. contradiction.
Qed.

(* ---- events of one operation: the manager-level events, then the callbacks in the order they were delivered ---- *)
Definition op_events (s : smst) (o : sop) : list (nat * lev) :=
  match o with
  | SAdd n _ => [(n, EvAdd)]
  | SRemove n => match find_sys (infos s) n with Some _ => [(n, EvRemove)] | None => [] end
  | _ => []
  end.
Definition cb_ev (p : nat * cb) : nat * lev := (fst p, EvCb (snd p)).
Definition step_events (s : smst) (o : sop) (s' : smst) : list (nat * lev) :=
  op_events s o ++ map cb_ev (rev (new_log s s')).
Definition evs_of (n : nat) (tr : list (nat * lev)) : list lev := map snd (filter (fun p => Nat.eqb (fst p) n) tr).

Lemma evs_of_app n a b : evs_of n (a ++ b) = evs_of n a ++ evs_of n b.
Proof. unfold evs_of. rewrite filter_app, map_app. reflexivity. Qed.

Lemma evs_of_cbs n d : evs_of n (map cb_ev (rev d)) = map EvCb (rev (proj n d)).
Proof.
  induction d as [|[k c] t IH]; [reflexivity|].
  simpl rev. rewrite map_app, evs_of_app, IH. unfold proj, evs_of. simpl.
  destruct (Nat.eqb k n); simpl; [rewrite map_app; reflexivity|rewrite app_nil_r; reflexivity].
Qed.

Definition step_safe (s : smst) (o : sop) : Prop :=
  match o with
  | STeardown => teardown_safe (ordered s) s
  | SAdd n _ => lax = true \/ sys_state s n <> Some Uninit
  | _ => True
  end.

(* every operation: manager-level events lead from s to an intermediate state s1 with the same log, the rest is callbacks *)
Lemma step_core s o s' : sm_step s o = Ok s' -> step_safe s o ->
  exists s1, slog s1 = slog s /\ (forall m, seg m s1 s') /\
             (forall m, ev_run (sys_state s m) (evs_of m (op_events s o)) = Some (sys_state s1 m)).
Proof.
  intros H Hsafe. destruct o as [n u|n| | |g p| |n|n|n].
  - (* add *)
    rewrite sm_step_add in H. apply lc_bind_ok in H. destruct H as (s2 & H2 & H3).
    exists (add_pre s n u). split; [reflexivity|]. split.
    + pose proof (transition_seg _ _ _ _ _ _ (eq_refl : ok_call Uninit CbCreate (Some Inited)) H2) as Sg2.
      intros m. eapply seg_trans; [apply Sg2|].
      destruct (was_init s2); [|inversion H3; subst; apply seg_refl].
      apply lc_bind_ok in H3. destruct H3 as (s3 & H3 & H4).
      apply do_configure_spec in H3. destruct H3 as (_ & Sg3 & _).
      eapply seg_trans; [apply Sg3|]. apply reorder_seg. exact H4.
    + apply transition_spec in H2. destruct H2 as (Hq & _).
      intros m. simpl. unfold evs_of. simpl. rewrite !sys_state_eq in *. simpl in *. unfold lst in *. rewrite find_sys_app in *. simpl in *.
      destruct (Nat.eqb_spec n m) as [E|E]; simpl.
      * subst m. rewrite Nat.eqb_refl in *. destruct (find_sys (infos s) n) as [y|] eqn:Ef; simpl in *; [|reflexivity].
        destruct Hsafe as [Hl|Hne]; [rewrite Hl; reflexivity|]. exfalso. apply Hne. rewrite sys_state_eq. unfold lst. rewrite Ef. exact Hq.
      * destruct (find_sys (infos s) m); reflexivity.
  - (* remove *)
    rewrite sm_step_remove in H. simpl op_events.
    destruct (find_sys (infos s) n) as [y|] eqn:Ef.
    + apply remove_reorder_ok in H. exists (remove_pre s n). split; [reflexivity|]. split; [apply reorder_seg; exact H|].
      intros m. unfold evs_of. simpl. rewrite !sys_state_eq. simpl. unfold lst. rewrite find_sys_filter.
      destruct (Nat.eqb_spec n m) as [E|E]; simpl.
      * subst m. rewrite Nat.eqb_refl, Ef. reflexivity.
      * destruct (Nat.eqb_spec m n); [congruence|reflexivity].
    + inversion H; subst s'. exists s. split; [reflexivity|]. split; [intros; apply seg_refl|reflexivity].
  - (* init *)
    exists s. split; [reflexivity|]. split; [|reflexivity].
    rewrite sm_step_init in H. destruct (was_init s); [inversion H; subst; intros; apply seg_refl|].
    apply lc_bind_ok in H. destruct H as (s2 & H2 & H). apply lc_bind_ok in H. destruct H as (s3 & H3 & H4).
    intros m. eapply seg_trans; [apply (seg_same m s (with_init s true)); reflexivity|].
    eapply seg_trans; [eapply (fold_seg cfg_body cfg_body_seg); exact H2|].
    eapply seg_trans; [apply reorder_seg; exact H3|].
    eapply (fold_seg start_if_configured); [|exact H4]. intros st a st' Ha. apply start_if_configured_spec in Ha. apply Ha.
  - (* update *)
    exists s. split; [reflexivity|]. split; [|reflexivity].
    rewrite sm_step_update in H. destruct (negb (was_init s)); [inversion H; subst; intros; apply seg_refl|].
    eapply (fold_seg upd_body upd_body_seg); exact H.
  - (* set group priority *)
    exists s. split; [reflexivity|]. split; [|reflexivity].
    rewrite sm_step_setgroup in H. inversion H; subst. intros m. apply seg_same; reflexivity.
  - (* teardown *)
    exists s. split; [reflexivity|]. split; [|reflexivity].
    rewrite sm_step_teardown in H. eapply teardown_seg; [exact Hsafe|exact H].
  - (* the user pauses a system *)
    exists s. split; [reflexivity|]. split; [|reflexivity].
    exact (transition_seg _ _ _ _ _ _ (eq_refl : ok_call Active CbPause (Some Paused)) H).
  - (* ... resumes it *)
    exists s. split; [reflexivity|]. split; [|reflexivity].
    exact (transition_seg _ _ _ _ _ _ (eq_refl : ok_call Paused CbResume (Some Active)) H).
  - (* ... stops it *)
    exists s. split; [reflexivity|]. split; [|reflexivity].
    exact (transition_seg _ _ _ _ _ _ (eq_refl : ok_call Paused CbStop (Some Stopped)) H).
Qed.

Lemma step_log_grows s o s' : sm_step s o = Ok s' -> step_safe s o -> exists d, slog s' = d ++ slog s.
Proof.
  intros H Hs. destruct (step_core _ _ _ H Hs) as (s1 & L1 & Sg & _). destruct (Sg 0) as (d & Hd & _).
  exists d. rewrite Hd, L1. reflexivity.
Qed.

(* THE STEP THEOREM: the events one operation produces for a name are a path of the automaton
   from the name's state before the operation to its state after it *)
Theorem step_legal s o s' : sm_step s o = Ok s' -> step_safe s o ->
  forall n, ev_run (sys_state s n) (evs_of n (step_events s o s')) = Some (sys_state s' n).
Proof.
  intros H Hs n. destruct (step_core _ _ _ H Hs) as (s1 & L1 & Sg & Hop). destruct (Sg n) as (d & Hd & Hrun).
  unfold step_events. rewrite (new_log_app s s' d) by (rewrite Hd, L1; reflexivity).
  rewrite evs_of_app, ev_run_app, Hop, evs_of_cbs. exact Hrun.
Qed.

(* ------------------------------------------------------------------------------------------------------------ *)
(* the invariant behind the strict automaton: no registered system is Uninit (each was created when it was added and
   none has been destroyed), names are unique, the order has no duplicates.  It holds until the teardown. *)
Definition Inv (s : smst) : Prop := ~ In Uninit (states s) /\ NoDup (names s) /\ NoDup (ordered s).

Definition Keep (s s' : smst) : Prop :=
  ordered s' = ordered s /\ names s' = names s /\ (forall q, In q (states s') -> q <> Uninit \/ In q (states s)).

Lemma Keep_refl s : Keep s s.
Proof. repeat split; auto. Qed.

Lemma Keep_trans s1 s2 s3 : Keep s1 s2 -> Keep s2 s3 -> Keep s1 s3.
Proof.
  intros (O1 & N1 & S1) (O2 & N2 & S2). repeat split; try congruence.
  intros q Hq. destruct (S2 q Hq) as [E|E]; [left; exact E|apply S1; exact E].
Qed.

Lemma Keep_Inv s s' : Inv s -> Keep s s' -> Inv s'.
Proof.
  intros (U & Nn & No) (O & N & S). split; [|split; congruence].
  intros Hin. destruct (S _ Hin) as [E|E]; [apply E; reflexivity|exact (U E)].
Qed.

Lemma transition_keep s n e c nx s' : transition s n e c nx = Ok s' -> nx <> Some Uninit -> Keep s s'.
Proof.
  intros H Hnx. apply transition_spec in H. destruct H as (_ & _ & Ho & _ & Hn & _ & Hs). repeat split; auto.
  intros q Hq. destruct (Hs q Hq) as [E|E]; [left; intros ->; apply Hnx; symmetry; exact E|right; exact E].
Qed.

Lemma do_configure_keep s n s' : do_configure s n = Ok s' -> Keep s s'.
Proof.
  intros H. apply do_configure_spec in H. destruct H as (_ & _ & Ho & _ & Hn & _ & Hs). repeat split; auto.
  intros q Hq. destruct (Hs q Hq) as [E|E]; [left; rewrite E; discriminate|right; exact E].
Qed.

Lemma start_keep s n s' : start_if_configured s n = Ok s' -> Keep s s'.
Proof.
  intros H. apply start_if_configured_spec in H. destruct H as (_ & Ho & _ & Hn & Hs & _). repeat split; auto.
  intros q Hq. destruct (Hs q Hq) as [E|E]; [left; rewrite E; discriminate|right; exact E].
Qed.

Lemma cfg_body_keep st y st' : cfg_body st y = Ok st' -> Keep st st'.
Proof.
  unfold cfg_body. intros H. destruct (sys_state st (s_name y)) as [[]|]; try (inversion H; subst; apply Keep_refl).
  eapply do_configure_keep; exact H.
Qed.

Lemma upd_body_keep st n st' : upd_body st n = Ok st' -> Keep st st'.
Proof.
  unfold upd_body. intros H. apply lc_bind_ok in H. destruct H as (st1 & H1 & H2).
  eapply Keep_trans; [eapply start_keep; exact H1|].
  destruct (sys_state st1 n) as [[]|]; try (inversion H2; subst; apply Keep_refl).
  eapply transition_keep; [exact H2|discriminate].
Qed.

Lemma fold_keep {A} (f : smst -> A -> res smst) :
  (forall st a st', f st a = Ok st' -> Keep st st') -> forall l s s', fold_res f l s = Ok s' -> Keep s s'.
Proof.
  intros Hf l s s' H. apply (fold_res_inv (fun st => Keep s st) f) with (l := l) (s := s); [|apply Keep_refl|exact H].
  intros st a st' Hst Ha. eapply Keep_trans; [exact Hst|]. eapply Hf; exact Ha.
Qed.

Lemma reorder_inv s s' : ~ In Uninit (states s) -> NoDup (names s) -> reorder s = Ok s' -> Inv s'.
Proof.
  intros U Nn H. destruct (reorder_sound _ _ H Nn) as (Hperm & _). apply reorder_spec in H.
  destruct H as (_ & _ & _ & Hn & Hs & _). split; [rewrite Hs; exact U|]. split; [rewrite Hn; exact Nn|].
  eapply Permutation_NoDup; [apply Permutation_sym; exact Hperm|exact Nn].
Qed.

Lemma upd_sys_app_fresh l y n f : find_sys l n = None -> s_name y = n -> upd_sys (l ++ [y]) n f = l ++ [f y].
Proof.
  intros Hf Hy. induction l as [|a t IH]; simpl in *.
  - rewrite Hy, Nat.eqb_refl. reflexivity.
  - destruct (Nat.eqb (s_name a) n); [discriminate|]. rewrite IH by assumption. reflexivity.
Qed.

Lemma add_create s n u s2 : find_sys (infos s) n = None ->
  transition (add_pre s n u) n Uninit CbCreate (Some Inited) = Ok s2 ->
  infos s2 = infos s ++ [set_sys (new_sys n u) cfg_default Inited] /\ ordered s2 = ordered s.
Proof.
  intros Hf H. unfold transition in H. simpl in H. rewrite find_sys_app, Hf in H. simpl in H. rewrite Nat.eqb_refl in H. simpl in H.
  inversion H; subst s2; clear H. simpl. split; [|reflexivity]. apply upd_sys_app_fresh; [exact Hf|reflexivity].
Qed.

Lemma inv_uninit s n : Inv s -> sys_state s n <> Some Uninit.
Proof. intros (U & _) H. apply U. rewrite sys_state_eq in H. eapply lst_in. exact H. Qed.

Lemma inv_safe s o : Inv s -> step_safe s o.
Proof.
  intros HI. destruct o; simpl; auto.
  - right. apply inv_uninit. exact HI.
  - right. split; [apply HI|]. intros n _. apply inv_uninit. exact HI.
Qed.

Definition is_teardown (o : sop) : bool := match o with STeardown => true | _ => false end.

Lemma inv_step s o s' : Inv s -> is_teardown o = false -> sm_step s o = Ok s' -> Inv s'.
Proof.
  intros HI Ho H. destruct o as [n u|n| | |g p| |n|n|n]; [| | | | |discriminate| | |].
  - (* add: the name is fresh, otherwise create would have thrown *)
    rewrite sm_step_add in H. apply lc_bind_ok in H. destruct H as (s2 & H2 & H3).
    assert (Hf : find_sys (infos s) n = None).
    { pose proof H2 as Hq. apply transition_spec in Hq. destruct Hq as (Hq & _).
      rewrite sys_state_eq in Hq. simpl in Hq. unfold lst in Hq. rewrite find_sys_app in Hq.
      destruct (find_sys (infos s) n) as [y|] eqn:Ef; [|reflexivity]. exfalso. apply (inv_uninit s n HI).
      rewrite sys_state_eq. unfold lst. rewrite Ef. exact Hq. }
    destruct (add_create _ _ _ _ Hf H2) as (Hi2 & Ho2). destruct HI as (U & Nn & No).
    assert (U2 : ~ In Uninit (states s2)).
    { unfold states. rewrite Hi2, map_app. simpl. intros Hin. apply in_app_or in Hin. destruct Hin as [Hin|[Hin|[]]]; [exact (U Hin)|discriminate]. }
    assert (N2 : NoDup (names s2)).
    { unfold names. rewrite Hi2, map_app. simpl. apply ListLemmas.NoDup_app_intro_single; [exact Nn|]. apply find_sys_none. exact Hf. }
    destruct (was_init s2).
    + apply lc_bind_ok in H3. destruct H3 as (s3 & H3 & H4). apply do_configure_keep in H3. destruct H3 as (_ & Hn3 & Hs3).
      eapply reorder_inv; [| |exact H4].
      * intros Hin. destruct (Hs3 _ Hin) as [E|E]; [apply E; reflexivity|exact (U2 E)].
      * rewrite Hn3. exact N2.
    + inversion H3; subst s'. split; [exact U2|]. split; [exact N2|]. rewrite Ho2. exact No.
  - (* remove *)
    rewrite sm_step_remove in H. destruct (find_sys (infos s) n); [|inversion H; subst; exact HI].
    apply remove_reorder_ok in H. destruct HI as (U & Nn & No). eapply reorder_inv; [| |exact H].
    + intros Hin. apply U. unfold states in Hin. simpl in Hin. eapply filter_states_in. exact Hin.
    + unfold names. simpl. apply filter_names_nodup. exact Nn.
  - (* init *)
    rewrite sm_step_init in H. destruct (was_init s); [inversion H; subst; exact HI|].
    apply lc_bind_ok in H. destruct H as (s2 & H2 & H). apply lc_bind_ok in H. destruct H as (s3 & H3 & H4).
    apply (fold_keep cfg_body cfg_body_keep) in H2. apply (fold_keep start_if_configured start_keep) in H4.
    assert (HI1 : Inv (with_init s true)) by exact HI.
    pose proof (Keep_Inv _ _ HI1 H2) as (U2 & N2 & _).
    eapply Keep_Inv; [|exact H4]. eapply reorder_inv; eassumption.
  - (* update *)
    rewrite sm_step_update in H. destruct (negb (was_init s)); [inversion H; subst; exact HI|].
    eapply Keep_Inv; [exact HI|]. eapply (fold_keep upd_body upd_body_keep); exact H.
  - rewrite sm_step_setgroup in H. inversion H; subst. exact HI.
  - eapply Keep_Inv; [exact HI|]. eapply transition_keep; [exact H|discriminate].
  - eapply Keep_Inv; [exact HI|]. eapply transition_keep; [exact H|discriminate].
  - eapply Keep_Inv; [exact HI|]. eapply transition_keep; [exact H|discriminate].
Qed.

(* ------------------------------------------------------------------------------------------------------------ *)
(* runs with their event trace *)
Fixpoint trace_run (s : smst) (ops : list sop) (tr : list (nat * lev)) : res (smst * list (nat * lev)) :=
  match ops with
  | [] => Ok (s, tr)
  | o :: t => match sm_step s o with
              | Ok s' => trace_run s' t (tr ++ step_events s o s')
              | Err e => Err e
              end
  end.

(* the teardown (~SystemManager) is the last operation, if it occurs at all *)
Fixpoint teardown_last (ops : list sop) : Prop :=
  match ops with
  | [] => True
  | o :: t => (is_teardown o = true -> t = []) /\ teardown_last t
  end.

Definition run_cond (s : smst) (ops : list sop) : Prop :=
  lax = true \/ (teardown_last ops /\ (ops <> [] -> Inv s)).

Lemma run_legal : forall ops s tr s' tr' n q0,
  run_cond s ops -> trace_run s ops tr = Ok (s', tr') ->
  ev_run q0 (evs_of n tr) = Some (sys_state s n) ->
  ev_run q0 (evs_of n tr') = Some (sys_state s' n).
Proof.
  induction ops as [|o t IH]; intros s tr s' tr' n q0 Hc H Hrun; cbn [trace_run] in H.
  - inversion H; subst. exact Hrun.
  - destruct (sm_step s o) as [s1|e] eqn:E; [|discriminate].
    assert (Hsafe : step_safe s o).
    { destruct Hc as [Hl|(_ & HI)]; [|apply inv_safe; apply HI; discriminate].
      destruct o; simpl; auto. left. exact Hl. }
    eapply IH; [|exact H|].
    + destruct Hc as [Hl|((Ht & Htl) & HI)]; [left; exact Hl|right]. split; [exact Htl|].
      intros Hne. destruct (is_teardown o) eqn:Eo; [exfalso; apply Hne; apply Ht; reflexivity|].
      eapply inv_step; [apply HI; discriminate|exact Eo|exact E].
    + rewrite evs_of_app, ev_run_app, Hrun. apply step_legal; assumption.
Qed.

(* ---- consequences inside the automaton ---- *)
(* an update is only accepted in state Active *)
Lemma update_only_active q0 w1 w2 q : ev_run q0 (w1 ++ EvCb CbUpdate :: w2) = Some q -> ev_run q0 w1 = Some (Some Active).
Proof.
  rewrite ev_run_app. destruct (ev_run q0 w1) as [[q1|]|]; simpl; try discriminate.
  destruct q1; simpl; try discriminate. reflexivity.
Qed.

(* every state can be completed to a destroyed system: every accepted trace is the prefix of a complete lifecycle *)
Lemma lc_completable (q : sstate) : exists w, ev_run (Some q) (map EvCb w) = Some (Some Uninit) /\ (q <> Uninit -> exists w0, w = w0 ++ [CbDestroy]).
Proof.
  destruct q.
  - exists []. split; [reflexivity|]. intros H; exfalso; apply H; reflexivity.
  - exists [CbDestroy]. split; [reflexivity|]. intros _. exists []. reflexivity.
  - exists [CbDestroy]. split; [reflexivity|]. intros _. exists []. reflexivity.
  - exists [CbDestroy]. split; [reflexivity|]. intros _. exists []. reflexivity.
  - exists [CbPause; CbStop; CbDestroy]. split; [reflexivity|]. intros _. exists [CbPause; CbStop]. reflexivity.
  - exists [CbStop; CbDestroy]. split; [reflexivity|]. intros _. exists [CbStop]. reflexivity.
Qed.

End Lifecycle.

(* ============================================================================================================ *)
(* the two automata: strict (lax = false) is what the property demands, lax (lax = true) is what ASystem enforces *)
Notation strict_run := (ev_run false).
Notation lax_run := (ev_run true).

Lemma step_safe_lax s o : step_safe true s o.
Proof. destruct o; simpl; auto; left; reflexivity. Qed.

Lemma inv_init : Inv sm_init.
Proof. repeat split; simpl; auto; constructor. Qed.

Lemma inv_preserved s o s' : Inv s -> is_teardown o = false -> sm_step s o = Ok s' -> Inv s'.
Proof. exact (inv_step true s o s'). Qed.

(* the strict language is contained in the lax one *)
Lemma strict_lax_step q e q' : ev_step false q e = Some q' -> ev_step true q e = Some q'.
Proof. destruct q as [[]|], e as [|[]|]; simpl; intros H; try discriminate; exact H. Qed.

Lemma strict_lax_run : forall w q q', strict_run q w = Some q' -> lax_run q w = Some q'.
Proof.
  induction w as [|e t IH]; intros q q' H; simpl in *; [exact H|].
  destruct (ev_step false q e) as [q1|] eqn:E; [|discriminate]. rewrite (strict_lax_step _ _ _ E). apply IH. exact H.
Qed.

(* ---- the trace is faithful: it runs the model and its callbacks are the model's callback log ---- *)
Definition cbs_of (tr : list (nat * lev)) : list (nat * cb) :=
  flat_map (fun p => match snd p with EvCb c => [(fst p, c)] | _ => [] end) tr.

Lemma cbs_of_app a b : cbs_of (a ++ b) = cbs_of a ++ cbs_of b.
Proof. apply flat_map_app. Qed.
Lemma cbs_of_cb_ev l : cbs_of (map cb_ev l) = l.
Proof. induction l as [|[k c] t IH]; simpl; [reflexivity|]. f_equal. exact IH. Qed.
Lemma cbs_of_op s o : cbs_of (op_events s o) = [].
Proof. destruct o; simpl; try reflexivity. destruct (find_sys (infos s) n); reflexivity. Qed.

Theorem trace_faithful : forall ops s tr s' tr',
  trace_run s ops tr = Ok (s', tr') ->
  fold_res sm_step ops s = Ok s' /\ (cbs_of tr = rev (slog s) -> cbs_of tr' = rev (slog s')).
Proof.
  induction ops as [|o t IH]; intros s tr s' tr' H; cbn [trace_run] in H.
  - inversion H; subst. split; [reflexivity|auto].
  - destruct (sm_step s o) as [s1|e] eqn:E; [|discriminate]. destruct (IH _ _ _ _ H) as (Hf & Hc).
    split; [simpl; rewrite E; exact Hf|]. intros Htr. apply Hc.
    destruct (step_log_grows true _ _ _ E (step_safe_lax s o)) as (d & Hd).
    unfold step_events. rewrite (new_log_app _ _ _ Hd), !cbs_of_app, cbs_of_op, cbs_of_cb_ev, Htr, Hd, rev_app_distr. reflexivity.
Qed.

Theorem trace_exists : forall ops s tr s', fold_res sm_step ops s = Ok s' -> exists tr', trace_run s ops tr = Ok (s', tr').
Proof.
  induction ops as [|o t IH]; intros s tr s' H; simpl in H.
  - inversion H; subst. exists tr. reflexivity.
  - apply lc_bind_ok in H. destruct H as (s1 & H1 & H2). cbn [trace_run]. rewrite H1. apply IH. exact H2.
Qed.

(* ---- (a) the per-system event trace is a path of the automaton, from "absent" to the system's current state ---- *)
Theorem lifecycle_legal_lax ops s tr n :
  trace_run sm_init ops [] = Ok (s, tr) -> lax_run None (evs_of n tr) = Some (sys_state s n).
Proof. intros H. eapply (run_legal true); [left; reflexivity|exact H|reflexivity]. Qed.

Theorem lifecycle_legal_strict ops s tr n :
  teardown_last ops -> trace_run sm_init ops [] = Ok (s, tr) -> strict_run None (evs_of n tr) = Some (sys_state s n).
Proof. intros Ht H. eapply (run_legal false); [right; split; [exact Ht|intros _; exact inv_init]|exact H|reflexivity]. Qed.

(* ---- (b) a name that is not registered (never added, or removed) receives no callback ---- *)
Lemma lax_none_cbs w q : lax_run None (map EvCb w) = Some q -> w = [] /\ q = None.
Proof. destruct w; simpl; intros H; inversion H; auto. Qed.

Theorem absent_step s o s' n :
  sys_state s n = None -> (forall u, o <> SAdd n u) -> sm_step s o = Ok s' ->
  proj n (slog s') = proj n (slog s) /\ sys_state s' n = None.
Proof.
  intros Hn Ho H. destruct (step_core true _ _ _ H (step_safe_lax s o)) as (s1 & L1 & Sg & Hop).
  assert (He : evs_of n (op_events s o) = []).
  { destruct o as [m u|m| | |g p| |m|m|m]; try reflexivity.
    - unfold evs_of. simpl. destruct (Nat.eqb_spec m n) as [E|E]; [|reflexivity]. subst. exfalso. eapply Ho. reflexivity.
    - simpl. destruct (find_sys (infos s) m) eqn:Ef; [|reflexivity]. unfold evs_of. simpl.
      destruct (Nat.eqb_spec m n) as [E|E]; [|reflexivity]. subst. unfold sys_state in Hn. rewrite Ef in Hn. discriminate. }
  specialize (Hop n). rewrite He, Hn in Hop. simpl in Hop. inversion Hop as [Hn1]. clear Hop.
  destruct (Sg n) as (d & Hd & Hrun). rewrite <- Hn1 in Hrun. apply lax_none_cbs in Hrun. destruct Hrun as (Hnil & Hq).
  split; [|exact Hq].
  assert (Hp : proj n d = []) by (rewrite <- (rev_involutive (proj n d)), Hnil; reflexivity).
  rewrite Hd, proj_app, Hp, L1. reflexivity.
Qed.

Theorem remove_result s n s' : sm_step s (SRemove n) = Ok s' ->
  sys_state s' n = None /\ slog s' = slog s /\ (forall m, m <> n -> sys_state s' m = sys_state s m).
Proof.
  rewrite sm_step_remove. destruct (find_sys (infos s) n) as [y|] eqn:Ef.
  - intros H. apply remove_reorder_ok in H. apply reorder_spec in H. destruct H as (_ & Hl & _ & _ & _ & Hs).
    split; [|split; [exact Hl|]].
    + rewrite Hs, sys_state_eq. simpl. unfold lst. rewrite find_sys_filter, Nat.eqb_refl. reflexivity.
    + intros m Hm. rewrite Hs, !sys_state_eq. simpl. unfold lst. rewrite find_sys_filter.
      destruct (Nat.eqb_spec m n); [contradiction|reflexivity].
  - intros H. inversion H; subst. split; [unfold sys_state; rewrite Ef; reflexivity|auto].
Qed.

Theorem absent_never_called n : forall ops s s',
  sys_state s n = None -> (forall u, ~ In (SAdd n u) ops) -> fold_res sm_step ops s = Ok s' ->
  proj n (slog s') = proj n (slog s) /\ sys_state s' n = None.
Proof.
  induction ops as [|o t IH]; intros s s' Hn Hops H; simpl in H.
  - inversion H; subst. auto.
  - apply lc_bind_ok in H. destruct H as (s1 & H1 & H2).
    destruct (absent_step s o s1 n Hn) as (Hp & Hn1); [intros u E; apply (Hops u); left; rewrite E; reflexivity|exact H1|].
    destruct (IH s1 s' Hn1) as (Hp' & Hn'); [intros u Hin; apply (Hops u); right; exact Hin|exact H2|].
    split; [congruence|exact Hn'].
Qed.

Theorem removed_never_called n ops s s1 s' :
  sm_step s (SRemove n) = Ok s1 -> (forall u, ~ In (SAdd n u) ops) -> fold_res sm_step ops s1 = Ok s' ->
  proj n (slog s') = proj n (slog s) /\ sys_state s' n = None.
Proof.
  intros Hr Hops H. apply remove_result in Hr. destruct Hr as (Hn & Hl & _).
  destruct (absent_never_called n ops s1 s' Hn Hops H) as (Hp & Hn'). split; [rewrite Hp, Hl; reflexivity|exact Hn'].
Qed.

(* ---- (c) update only for started systems ---- *)
Lemma active_entered_by q0 w0 e :
  strict_run q0 (w0 ++ [e]) = Some (Some Active) -> e = EvCb CbStart \/ e = EvCb CbUpdate \/ e = EvCb CbResume.
Proof.
  rewrite ev_run_app. destruct (strict_run q0 w0) as [[q1|]|]; simpl; try discriminate.
  - destruct e as [|c|]; simpl; try discriminate. destruct q1, c; simpl; try discriminate; auto.
  - destruct e as [|c|]; simpl; discriminate.
Qed.

Theorem update_only_started ops s tr n w1 w2 :
  teardown_last ops -> trace_run sm_init ops [] = Ok (s, tr) -> evs_of n tr = w1 ++ EvCb CbUpdate :: w2 ->
  strict_run None w1 = Some (Some Active) /\
  exists w0 e, w1 = w0 ++ [e] /\ (e = EvCb CbStart \/ e = EvCb CbUpdate \/ e = EvCb CbResume).
Proof.
  intros Ht H Hw. pose proof (lifecycle_legal_strict ops s tr n Ht H) as Hrun. rewrite Hw in Hrun.
  apply update_only_active in Hrun. split; [exact Hrun|].
  assert (Hne : w1 <> []) by (intros E; rewrite E in Hrun; discriminate Hrun).
  destruct (exists_last Hne) as (w0 & e & Ew). exists w0, e. split; [exact Ew|]. rewrite Ew in Hrun. eapply active_entered_by. exact Hrun.
Qed.

(* ---- the transition guards of ASystem never fire: "Invalid state" (Throw 10) is thrown only when a name that is
        already registered (and not destroyed) is registered again; this holds in EVERY state, reachable or not ---- *)
Lemma bind_err {A B} (r : res A) (f : A -> res B) e : bind r f = Err e -> r = Err e \/ exists a, r = Ok a /\ f a = Err e.
Proof. destruct r as [a|e0]; simpl; intros H; [right; exists a; auto|left; inversion H; reflexivity]. Qed.

Lemma transition_throw s n e c nx k : transition s n e c nx = Err (Throw k) -> exists q, sys_state s n = Some q /\ q <> e.
Proof.
  unfold transition, sys_state. destruct (find_sys (infos s) n) as [y|]; [|discriminate].
  destruct (state_eqb (s_state y) e) eqn:E; [discriminate|]. intros _. exists (s_state y). split; [reflexivity|].
  intros Heq. apply state_eqb_eq in Heq. congruence.
Qed.

Lemma do_configure_throw s n k : do_configure s n = Err (Throw k) -> exists q, sys_state s n = Some q /\ q <> Inited.
Proof.
  unfold do_configure. intros H. apply bind_err in H. destruct H as [H|(a & _ & H)]; [|discriminate].
  eapply transition_throw. exact H.
Qed.

Lemma cfg_body_no_throw st y k : cfg_body st y <> Err (Throw k).
Proof.
  unfold cfg_body. intros H. destruct (sys_state st (s_name y)) as [[]|] eqn:E; try discriminate.
  apply do_configure_throw in H. destruct H as (q & Hq & Hne). rewrite E in Hq. inversion Hq; subst. apply Hne. reflexivity.
Qed.

Lemma start_no_throw st n k : start_if_configured st n <> Err (Throw k).
Proof.
  unfold start_if_configured. intros H. destruct (sys_state st n) as [[]|] eqn:E; try discriminate.
  apply transition_throw in H. destruct H as (q & Hq & Hne). rewrite E in Hq. inversion Hq; subst. apply Hne. reflexivity.
Qed.

Lemma upd_body_no_throw st n k : upd_body st n <> Err (Throw k).
Proof.
  unfold upd_body. intros H. apply bind_err in H. destruct H as [H|(st1 & _ & H)]; [exact (start_no_throw _ _ _ H)|].
  destruct (sys_state st1 n) as [[]|] eqn:E; try discriminate.
  apply transition_throw in H. destruct H as (q & Hq & Hne). rewrite E in Hq. inversion Hq; subst. apply Hne. reflexivity.
Qed.

Lemma do_destroy_no_throw st n k : do_destroy st n <> Err (Throw k).
Proof.
  unfold do_destroy. intros H. apply bind_err in H. destruct H as [H|(s1 & _ & H)].
  - destruct (sys_state st n) as [[]|] eqn:E; try discriminate.
    apply transition_throw in H. destruct H as (q & Hq & Hne). rewrite E in Hq. inversion Hq; subst. apply Hne. reflexivity.
  - apply bind_err in H. destruct H as [H|(s2 & _ & H)].
    + destruct (sys_state s1 n) as [[]|] eqn:E; try discriminate.
      apply transition_throw in H. destruct H as (q & Hq & Hne). rewrite E in Hq. inversion Hq; subst. apply Hne. reflexivity.
    + destruct (find_sys (infos s2) n); discriminate.
Qed.

Lemma reorder_throw s k : reorder s = Err (Throw k) -> k = 11.
Proof.
  unfold reorder. intros H. apply bind_err in H. destruct H as [H|(o & _ & H)]; [|discriminate].
  apply place_all_err in H. destruct H as [H|H]; inversion H; reflexivity.
Qed.

Definition user_call (o : sop) : bool := match o with SPause _ | SResume _ | SStop _ => true | _ => false end.

Theorem invalid_state_only_on_double_add s o : user_call o = false ->
  sm_step s o = Err (Throw 10) -> exists n u q, o = SAdd n u /\ sys_state s n = Some q /\ q <> Uninit.
Proof.
  intros Hu H. destruct o as [n u|n| | |g p| |n|n|n]; try discriminate Hu.
  - exists n, u. rewrite sm_step_add in H. apply bind_err in H. destruct H as [H|(s2 & H2 & H)].
    + apply transition_throw in H. destruct H as (q & Hq & Hne). exists q. split; [reflexivity|]. split; [|exact Hne].
      rewrite sys_state_eq in *. simpl in Hq. unfold lst in *. rewrite find_sys_app in Hq.
      destruct (find_sys (infos s) n); [exact Hq|]. simpl in Hq. rewrite Nat.eqb_refl in Hq. simpl in Hq. inversion Hq; subst. exfalso; apply Hne; reflexivity.
    + exfalso. apply transition_spec in H2. destruct H2 as (_ & _ & _ & _ & _ & Hs & _).
      destruct (was_init s2); [|discriminate]. apply bind_err in H. destruct H as [H|(s3 & _ & H)].
      * apply do_configure_throw in H. destruct H as (q & Hq & Hne). rewrite Hs, Nat.eqb_refl in Hq. inversion Hq; subst. apply Hne; reflexivity.
      * apply reorder_throw in H. discriminate.
  - exfalso. rewrite sm_step_remove in H. destruct (find_sys (infos s) n); [|discriminate].
    destruct (reorder (remove_pre s n)) as [s2|[]] eqn:E; discriminate.
  - exfalso. rewrite sm_step_init in H. destruct (was_init s); [discriminate|].
    apply bind_err in H. destruct H as [H|(s2 & _ & H)]; [exact (fold_res_not_err _ _ (fun st a => cfg_body_no_throw st a 10) _ _ H)|].
    apply bind_err in H. destruct H as [H|(s3 & _ & H)]; [apply reorder_throw in H; discriminate|].
    exact (fold_res_not_err _ _ (fun st a => start_no_throw st a 10) _ _ H).
  - exfalso. rewrite sm_step_update in H. destruct (negb (was_init s)); [discriminate|].
    exact (fold_res_not_err _ _ (fun st a => upd_body_no_throw st a 10) _ _ H).
  - rewrite sm_step_setgroup in H. discriminate.
  - exfalso. rewrite sm_step_teardown in H. exact (fold_res_not_err _ _ (fun st a => do_destroy_no_throw st a 10) _ _ H).
Qed.

(* ---- what one world update delivers: every system of the order that is started (or configured and therefore
        started now) gets exactly one update, in the order; nobody else gets anything ---- *)
Definition upd_cbs (q : option sstate) (n : nat) : list (nat * cb) :=
  match q with
  | Some Configured => [(n, CbStart); (n, CbUpdate)]
  | Some Active => [(n, CbUpdate)]
  | _ => []
  end.

Lemma upd_body_log st n st' : upd_body st n = Ok st' ->
  rev (slog st') = rev (slog st) ++ upd_cbs (sys_state st n) n /\ (forall m, m <> n -> sys_state st' m = sys_state st m).
Proof.
  unfold upd_body, start_if_configured. intros H. apply lc_bind_ok in H. destruct H as (st1 & H1 & H2).
  destruct (sys_state st n) as [[]|] eqn:Eq;
    try solve [inversion H1; subst st1; rewrite Eq in H2; inversion H2; subst st'; simpl; rewrite app_nil_r; split; [reflexivity|auto]].
  - apply transition_spec in H1. destruct H1 as (_ & Hl1 & _ & _ & _ & Hs1 & _).
    rewrite (Hs1 n), Nat.eqb_refl in H2. apply transition_spec in H2. destruct H2 as (_ & Hl2 & _ & _ & _ & Hs2 & _).
    split.
    + rewrite Hl2, Hl1. simpl. rewrite <- app_assoc. reflexivity.
    + intros m Hm. rewrite Hs2, Hs1. destruct (Nat.eqb_spec n m); [congruence|reflexivity].
  - inversion H1; subst st1. rewrite Eq in H2. apply transition_spec in H2. destruct H2 as (_ & Hl2 & _ & _ & _ & Hs2 & _).
    split.
    + rewrite Hl2. reflexivity.
    + intros m Hm. rewrite Hs2. destruct (Nat.eqb_spec n m); [congruence|reflexivity].
Qed.

Lemma update_log : forall l s s', NoDup l -> fold_res upd_body l s = Ok s' ->
  rev (slog s') = rev (slog s) ++ flat_map (fun n => upd_cbs (sys_state s n) n) l.
Proof.
  induction l as [|n t IH]; intros s s' Hnd H; simpl in H.
  - inversion H; subst. simpl. rewrite app_nil_r. reflexivity.
  - apply lc_bind_ok in H. destruct H as (s1 & H1 & H2). inversion Hnd; subst.
    apply upd_body_log in H1. destruct H1 as (Hl & Hfr). rewrite (IH _ _ H4 H2), Hl. simpl. rewrite <- app_assoc. f_equal. f_equal.
    rewrite !flat_map_concat_map. f_equal. apply map_ext_in. intros m Hm. rewrite Hfr; [reflexivity|]. intros E; subst. contradiction.
Qed.

Theorem update_delivers s s' : was_init s = true -> NoDup (ordered s) -> sm_step s SUpdate = Ok s' ->
  rev (slog s') = rev (slog s) ++ flat_map (fun n => upd_cbs (sys_state s n) n) (ordered s).
Proof. intros Hw Hnd H. rewrite sm_step_update, Hw in H. simpl in H. apply update_log; assumption. Qed.

Definition is_update (c : cb) : bool := match c with CbUpdate => true | _ => false end.
Definition runs (q : option sstate) : bool := match q with Some Configured | Some Active => true | _ => false end.

Lemma updated_names (q : nat -> option sstate) l :
  map fst (filter (fun p => is_update (snd p)) (flat_map (fun n => upd_cbs (q n) n) l)) = filter (fun n => runs (q n)) l.
Proof.
  induction l as [|n t IH]; simpl; [reflexivity|]. rewrite filter_app, map_app, IH.
  destruct (q n) as [[]|]; reflexivity.
Qed.

(* ---- removal: the other systems keep their state and are all in the new order ---- *)
Lemma names_filter l n : map s_name (filter (fun y => negb (Nat.eqb (s_name y) n)) l) = remove_name (map s_name l) n.
Proof.
  unfold remove_name. induction l as [|a t IH]; simpl; [reflexivity|].
  destruct (Nat.eqb (s_name a) n); simpl; [exact IH|rewrite IH; reflexivity].
Qed.

Theorem remove_others_keep_running s n s' :
  Inv s -> sys_state s n <> None -> sm_step s (SRemove n) = Ok s' ->
  Permutation (ordered s') (remove_name (names s) n) /\ names s' = remove_name (names s) n /\
  (forall m, m <> n -> sys_state s' m = sys_state s m).
Proof.
  intros (U & Nn & No) Hp H. pose proof (remove_result _ _ _ H) as (_ & _ & Hfr).
  rewrite sm_step_remove in H. destruct (find_sys (infos s) n) as [y|] eqn:Ef; [|exfalso; apply Hp; unfold sys_state; rewrite Ef; reflexivity].
  apply remove_reorder_ok in H.
  assert (Hn1 : map s_name (infos (remove_pre s n)) = remove_name (names s) n) by (simpl; apply names_filter).
  assert (Hnd : NoDup (map s_name (infos (remove_pre s n)))) by (simpl; apply filter_names_nodup; exact Nn).
  destruct (reorder_sound _ _ H Hnd) as (Hperm & _). apply reorder_spec in H. destruct H as (_ & _ & _ & Hn & _).
  rewrite Hn1 in Hperm. split; [exact Hperm|]. split; [rewrite Hn; exact Hn1|exact Hfr].
Qed.

(* ============================================================================================================ *)
(* examples: the hypotheses are satisfiable; witnesses for what is NOT true *)
Definition lc_c0 : scfg := cfg_default.
Definition lc_c1 : scfg := {| c_before := [1]; c_after := []; c_group := 0; c_prio := 5 |}.
Definition lc_ops : list sop := [SAdd 1 lc_c0; SAdd 2 lc_c1; SInit; SUpdate; SAdd 3 lc_c0; SUpdate; SRemove 2; SUpdate; STeardown].
Definition trace_of (ops : list sop) (n : nat) : option (list lev * option sstate) :=
  match trace_run sm_init ops [] with Ok (s, tr) => Some (evs_of n tr, sys_state s n) | Err _ => None end.

Example lc_ops_teardown_last : teardown_last lc_ops.
Proof. simpl. repeat split; try (intros H; discriminate H). Qed.

Example lc_ops_traces :
  trace_of lc_ops 1 = Some ([EvAdd; EvCb CbCreate; EvCb CbConfigure; EvCb CbStart; EvCb CbUpdate; EvCb CbUpdate; EvCb CbUpdate;
                             EvCb CbPause; EvCb CbStop; EvCb CbDestroy], Some Uninit) /\
  trace_of lc_ops 2 = Some ([EvAdd; EvCb CbCreate; EvCb CbConfigure; EvCb CbStart; EvCb CbUpdate; EvCb CbUpdate; EvRemove], None) /\
  trace_of lc_ops 3 = Some ([EvAdd; EvCb CbCreate; EvCb CbConfigure; EvCb CbStart; EvCb CbUpdate; EvCb CbUpdate;
                             EvCb CbPause; EvCb CbStop; EvCb CbDestroy], Some Uninit).
Proof. vm_compute. repeat split. Qed.

(* a removed name may be registered again: a new incarnation starts from scratch *)
Example lc_reincarnation :
  trace_of [SAdd 1 lc_c0; SRemove 1; SAdd 1 lc_c0; SInit; SUpdate] 1 =
  Some ([EvAdd; EvCb CbCreate; EvRemove; EvAdd; EvCb CbCreate; EvCb CbConfigure; EvCb CbStart; EvCb CbUpdate], Some Active).
Proof. vm_compute. reflexivity. Qed.

(* remove_others_keep_running / update_delivers: hypotheses hold after [add 1; add 2; init] *)
Example lc_inv_example :
  match fold_res sm_step [SAdd 1 lc_c0; SAdd 2 lc_c1; SInit] sm_init with
  | Ok s => was_init s = true /\ ordered s = [2; 1] /\ sys_state s 2 = Some Active /\ names s = [1; 2]
  | Err _ => False
  end.
Proof. vm_compute. repeat split. Qed.

(* WITNESS 1 (model only; the C++ destructor runs once): the strict automaton is violated when the manager is torn down
   twice -- onDestroy is delivered to an already destroyed system.  The lax automaton accepts it. *)
Example lc_witness_double_teardown :
  let w := [EvAdd; EvCb CbCreate; EvCb CbConfigure; EvCb CbStart; EvCb CbPause; EvCb CbStop; EvCb CbDestroy; EvCb CbDestroy] in
  trace_of [SAdd 1 lc_c0; SInit; STeardown; STeardown] 1 = Some (w, Some Uninit) /\
  strict_run None w = None /\ lax_run None w = Some (Some Uninit).
Proof. vm_compute. repeat split. Qed.

(* WITNESS 2 (model only): using the manager after its teardown.  Registering the destroyed name again re-creates the
   old entry and leaves a second, shadowed entry; both are ordered, so one world update calls the system twice. *)
Example lc_witness_use_after_teardown :
  match fold_res sm_step [SAdd 1 lc_c0; SInit; STeardown; SAdd 1 lc_c0; SUpdate] sm_init with
  | Ok s => ordered s = [1; 1] /\ firstn 2 (slog s) = [(1, CbUpdate); (1, CbUpdate)]
  | Err _ => False
  end.
Proof. vm_compute. repeat split. Qed.

(* OBSERVATION 1 (holds for the C++ code as well: ~SystemManager walks ordered_systems, which is empty before init()):
   a manager that is destroyed without ever being initialised never destroys its systems -- their lifecycle stays
   a proper prefix (create without destroy).  Not an illegal transition. *)
Example lc_obs_teardown_before_init :
  trace_of [SAdd 1 lc_c0; STeardown] 1 = Some ([EvAdd; EvCb CbCreate], Some Inited).
Proof. vm_compute. reflexivity. Qed.

(* OBSERVATION 2: removal delivers no callback at all -- a running system is dropped without pause / stop / destroy. *)
Example lc_obs_remove_is_silent :
  trace_of [SAdd 1 lc_c0; SInit; SUpdate; SRemove 1; SUpdate; STeardown] 1 =
  Some ([EvAdd; EvCb CbCreate; EvCb CbConfigure; EvCb CbStart; EvCb CbUpdate; EvRemove], None).
Proof. vm_compute. reflexivity. Qed.

(* OBSERVATION 3: registering a present name throws "Invalid state" in the model (see invalid_state_only_on_double_add) *)
Example lc_obs_double_add : fold_res sm_step [SAdd 1 lc_c0; SAdd 1 lc_c0] sm_init = Err (Throw 10).
Proof. vm_compute. reflexivity. Qed.

(* ---- the link to the model's own log: erasing the add / remove marks from the per-name trace gives exactly the
        projection of the callback log to that name, in the order of delivery ---- *)
Definition cb_only (w : list lev) : list cb := flat_map (fun e => match e with EvCb c => [c] | _ => [] end) w.

Lemma cb_only_evs n tr : cb_only (evs_of n tr) = map snd (filter (fun p => Nat.eqb (fst p) n) (cbs_of tr)).
Proof.
  induction tr as [|[k e] t IH]; [reflexivity|].
  unfold evs_of, cbs_of in *. simpl. destruct (Nat.eqb k n) eqn:E; destruct e; simpl; rewrite ?E; simpl; rewrite IH; reflexivity.
Qed.

Lemma proj_rev n l : map snd (filter (fun p => Nat.eqb (fst p) n) (rev l)) = rev (proj n l).
Proof.
  unfold proj. induction l as [|[k c] t IH]; [reflexivity|]. simpl. rewrite filter_app, map_app, IH. simpl.
  destruct (Nat.eqb k n); simpl; [reflexivity|apply app_nil_r].
Qed.

Theorem trace_faithful_init ops s tr n :
  trace_run sm_init ops [] = Ok (s, tr) ->
  fold_res sm_step ops sm_init = Ok s /\ cbs_of tr = rev (slog s) /\ cb_only (evs_of n tr) = rev (proj n (slog s)).
Proof.
  intros H. destruct (trace_faithful _ _ _ _ _ H) as (Hf & Hc). specialize (Hc eq_refl).
  split; [exact Hf|]. split; [exact Hc|]. rewrite cb_only_evs, Hc. apply proj_rev.
Qed.

(* the invariant holds in every state reached without a teardown: every registered system has been created and not
   destroyed, names are unique, the order has no duplicates *)
Theorem inv_reachable : forall ops s s', Inv s -> Forall (fun o => is_teardown o = false) ops ->
  fold_res sm_step ops s = Ok s' -> Inv s'.
Proof.
  induction ops as [|o t IH]; intros s s' HI Hops H; simpl in H.
  - inversion H; subst. exact HI.
  - apply lc_bind_ok in H. destruct H as (s1 & H1 & H2). inversion Hops; subst.
    eapply IH; [|eassumption|exact H2]. eapply inv_preserved; eassumption.
Qed.

Theorem step_legal_lax s o s' : sm_step s o = Ok s' ->
  forall n, lax_run (sys_state s n) (evs_of n (step_events s o s')) = Some (sys_state s' n).
Proof. intros H. exact (step_legal true s o s' H (step_safe_lax s o)). Qed.

Theorem inv_reachable_init ops s :
  Forall (fun o => is_teardown o = false) ops -> fold_res sm_step ops sm_init = Ok s ->
  ~ In Uninit (states s) /\ NoDup (names s) /\ NoDup (ordered s).
Proof. intros Hops H. exact (inv_reachable ops sm_init s inv_init Hops H). Qed.
