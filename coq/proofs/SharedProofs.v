(* SharedProofs (C12): a small theory of SharedComponentsInfo (Manager.shared_info: si_add / si_remove / si_merge)
   and of the shared-instance pool of EntityManager (Manager.pool / insts: new_inst, created_shared). *)
Require Import Coq.Lists.List Coq.NArith.NArith Coq.ZArith.ZArith Coq.Arith.Arith Coq.Bool.Bool Coq.micromega.Lia.
From Mustache Require Import Res Manager.
From Mustache.proofs Require Import ListLemmas.
Import ListNotations.

(* ------------------------------------------------------------------------------------------ *)
(* masks                                                                                       *)
Lemma mhas_0 c : mhas 0%N c = false.
Proof. unfold mhas. apply N.bits_0. Qed.

Lemma mhas_madd m c c' : mhas (madd m c) c' = Nat.eqb c c' || mhas m c'.
Proof.
  unfold mhas, madd. destruct (Nat.eqb_spec c c') as [->|Hne]; simpl.
  - apply N.setbit_eq.
  - apply N.setbit_neq. intros E. apply Nat2N.inj in E. contradiction.
Qed.

Lemma mhas_mdel m c c' : mhas (mdel m c) c' = negb (Nat.eqb c c') && mhas m c'.
Proof.
  unfold mhas, mdel. destruct (Nat.eqb_spec c c') as [->|Hne]; simpl.
  - apply N.clearbit_eq.
  - apply N.clearbit_neq. intros E. apply Nat2N.inj in E. contradiction.
Qed.

Lemma mhas_munion a b c : mhas (munion a b) c = mhas a c || mhas b c.
Proof. unfold mhas, munion. apply N.lor_spec. Qed.

(* ------------------------------------------------------------------------------------------ *)
(* index_of, remove_at, and an association-list view of (ids, data)                            *)
Lemma index_of_shift l x : forall k, index_of l x (S k) = option_map S (index_of l x k).
Proof.
  induction l as [|y t IH]; intros k; simpl; [reflexivity|].
  destruct (Nat.eqb x y); [reflexivity|apply IH].
Qed.

Lemma index_of_cons y t x :
  index_of (y :: t) x 0 = if Nat.eqb x y then Some 0 else option_map S (index_of t x 0).
Proof. simpl. destruct (Nat.eqb x y); [reflexivity|apply index_of_shift]. Qed.

Lemma index_of_some l x : forall i, index_of l x 0 = Some i -> nth_error l i = Some x /\ i < length l.
Proof.
  induction l as [|y t IH]; intros i H; [discriminate|].
  rewrite index_of_cons in H. destruct (Nat.eqb_spec x y) as [->|Hne].
  - inversion H; subst. simpl. split; [reflexivity|lia].
  - destruct (index_of t x 0) as [j|]; simpl in H; [|discriminate]. inversion H; subst.
    destruct (IH j eq_refl) as (Hn & Hl). simpl. split; [assumption|lia].
Qed.

Lemma index_of_none l x : index_of l x 0 = None <-> ~ In x l.
Proof.
  induction l as [|y t IH]; [simpl; tauto|].
  rewrite index_of_cons. destruct (Nat.eqb_spec x y) as [->|Hne].
  - split; [discriminate|]. intros H. exfalso. apply H. left. reflexivity.
  - destruct (index_of t x 0) as [j|]; simpl.
    + split; [discriminate|]. intros H. exfalso. destruct IH as (_ & IH).
      assert (G : @Some nat j = None) by (apply IH; intros Hin; apply H; right; exact Hin). discriminate.
    + split; [|reflexivity]. intros _ [Heq|Hin]; [congruence|]. destruct IH as (IH & _). exact (IH eq_refl Hin).
Qed.

Lemma index_of_in l x : In x l -> exists i, index_of l x 0 = Some i.
Proof.
  intros Hin. destruct (index_of l x 0) as [i|] eqn:E; [exists i; reflexivity|].
  apply index_of_none in E. contradiction.
Qed.

Fixpoint lookup (ids data : list nat) (id : nat) : option nat :=
  match ids with
  | [] => None
  | y :: it => match data with
               | [] => None
               | d :: dt => if Nat.eqb id y then Some d else lookup it dt id
               end
  end.

Lemma lookup_nil_r ids id : lookup ids [] id = None.
Proof. destruct ids; reflexivity. Qed.

Lemma index_lookup ids id : forall data,
  match index_of ids id 0 with Some i => nth_error data i | None => None end = lookup ids data id.
Proof.
  induction ids as [|y t IH]; intros data; [reflexivity|].
  rewrite index_of_cons. destruct data as [|d dt].
  - simpl. destruct (Nat.eqb id y); [reflexivity|]. destruct (index_of t id 0); reflexivity.
  - simpl. destruct (Nat.eqb id y); [reflexivity|]. rewrite <- (IH dt).
    destruct (index_of t id 0); reflexivity.
Qed.

Lemma lookup_notin ids id : ~ In id ids -> forall data, lookup ids data id = None.
Proof.
  induction ids as [|y t IH]; intros Hn data; [reflexivity|].
  destruct data as [|d dt]; [reflexivity|]. simpl.
  destruct (Nat.eqb_spec id y) as [->|Hne]; [exfalso; apply Hn; left; reflexivity|].
  apply IH. intros Hin. apply Hn. right. exact Hin.
Qed.

Lemma lookup_in ids id : In id ids -> forall data, length ids = length data -> exists v, lookup ids data id = Some v.
Proof.
  induction ids as [|y t IH]; intros Hin data Hl; [contradiction|].
  destruct data as [|d dt]; [discriminate|]. simpl.
  destruct (Nat.eqb_spec id y) as [->|Hne]; [exists d; reflexivity|].
  destruct Hin as [Heq|Hin]; [congruence|]. apply IH; [assumption|]. simpl in Hl. lia.
Qed.

Lemma lookup_some_in ids id : forall data v, lookup ids data id = Some v -> In id ids /\ In v data.
Proof.
  induction ids as [|y t IH]; intros data v H; [discriminate|].
  destruct data as [|d dt]; [discriminate|]. simpl in H.
  destruct (Nat.eqb_spec id y) as [->|Hne].
  - inversion H; subst. split; left; reflexivity.
  - destruct (IH _ _ H) as (H1 & H2). split; right; assumption.
Qed.

Lemma lookup_app_last_same ids id i : forall data,
  length ids = length data -> ~ In id ids -> lookup (ids ++ [id]) (data ++ [i]) id = Some i.
Proof.
  induction ids as [|y t IH]; intros data Hl Hn.
  - destruct data; [|discriminate]. simpl. rewrite Nat.eqb_refl. reflexivity.
  - destruct data as [|d dt]; [discriminate|]. simpl.
    destruct (Nat.eqb_spec id y) as [->|Hne]; [exfalso; apply Hn; left; reflexivity|].
    apply IH; [simpl in Hl; lia|]. intros Hin. apply Hn. right. exact Hin.
Qed.

Lemma lookup_app_last_other ids id i id' : forall data,
  length ids = length data -> id' <> id -> lookup (ids ++ [id]) (data ++ [i]) id' = lookup ids data id'.
Proof.
  induction ids as [|y t IH]; intros data Hl Hne.
  - destruct data; [|discriminate]. simpl. apply Nat.eqb_neq in Hne. rewrite Hne. reflexivity.
  - destruct data as [|d dt]; [discriminate|]. simpl.
    destruct (Nat.eqb id' y); [reflexivity|]. apply IH; [simpl in Hl; lia|assumption].
Qed.

Lemma lookup_app ids1 ids2 id : forall data1 data2, length ids1 = length data1 ->
  lookup (ids1 ++ ids2) (data1 ++ data2) id =
  match lookup ids1 data1 id with Some v => Some v | None => lookup ids2 data2 id end.
Proof.
  induction ids1 as [|y t IH]; intros data1 data2 Hl.
  - destruct data1; [reflexivity|discriminate].
  - destruct data1 as [|d dt]; [discriminate|]. simpl.
    destruct (Nat.eqb id y); [reflexivity|]. apply IH. simpl in Hl. lia.
Qed.

Lemma lookup_upd_same ids id i : forall data k,
  index_of ids id 0 = Some k -> k < length data -> lookup ids (upd data k i) id = Some i.
Proof.
  induction ids as [|y t IH]; intros data k H Hk; [discriminate|].
  rewrite index_of_cons in H. destruct data as [|d dt]; [simpl in Hk; lia|].
  destruct (Nat.eqb id y) eqn:E.
  - inversion H; subst. simpl. rewrite E. reflexivity.
  - destruct (index_of t id 0) as [j|]; simpl in H; [|discriminate]. inversion H; subst.
    simpl. rewrite E. apply IH; [reflexivity|simpl in Hk; lia].
Qed.

Lemma lookup_upd_other ids id i id' : forall data k,
  index_of ids id 0 = Some k -> id' <> id -> lookup ids (upd data k i) id' = lookup ids data id'.
Proof.
  induction ids as [|y t IH]; intros data k H Hne; [discriminate|].
  rewrite index_of_cons in H. destruct data as [|d dt]; [destruct k; reflexivity|].
  destruct (Nat.eqb_spec id y) as [Heq|Hny].
  - inversion H; subst. simpl. apply Nat.eqb_neq in Hne. rewrite Hne. reflexivity.
  - destruct (index_of t id 0) as [j|]; simpl in H; [|discriminate]. inversion H; subst.
    simpl. destruct (Nat.eqb id' y); [reflexivity|]. apply IH; [reflexivity|assumption].
Qed.

Lemma lookup_remove_same ids id : forall data k,
  index_of ids id 0 = Some k -> NoDup ids -> lookup (remove_at ids k) (remove_at data k) id = None.
Proof.
  induction ids as [|y t IH]; intros data k H Hnd; [discriminate|].
  rewrite index_of_cons in H. inversion Hnd as [|? ? Hny Hnt]; subst.
  destruct (Nat.eqb_spec id y) as [Heq|Hne].
  - inversion H; subst. simpl. destruct data as [|d dt]; [apply lookup_nil_r|]. apply lookup_notin. assumption.
  - destruct (index_of t id 0) as [j|]; simpl in H; [|discriminate]. inversion H; subst.
    destruct data as [|d dt]; [reflexivity|]. simpl.
    apply Nat.eqb_neq in Hne. rewrite Hne. apply IH; [reflexivity|assumption].
Qed.

Lemma lookup_remove_other ids id id' : forall data k,
  index_of ids id 0 = Some k -> id' <> id -> lookup (remove_at ids k) (remove_at data k) id' = lookup ids data id'.
Proof.
  induction ids as [|y t IH]; intros data k H Hne; [discriminate|].
  rewrite index_of_cons in H.
  destruct (Nat.eqb_spec id y) as [Heq|Hny].
  - inversion H; subst. destruct data as [|d dt]; [simpl; apply lookup_nil_r|]. simpl.
    apply Nat.eqb_neq in Hne. rewrite Hne. reflexivity.
  - destruct (index_of t id 0) as [j|]; simpl in H; [|discriminate]. inversion H; subst.
    destruct data as [|d dt]; [reflexivity|]. simpl.
    destruct (Nat.eqb id' y); [reflexivity|]. apply IH; [reflexivity|assumption].
Qed.

Lemma remove_at_length {A} (l : list A) : forall k, k < length l -> length (remove_at l k) = pred (length l).
Proof.
  induction l as [|a t IH]; intros k Hk; [simpl in Hk; lia|].
  destruct k as [|k]; [reflexivity|]. simpl in *. rewrite IH by lia. lia.
Qed.

Lemma remove_at_in ids id : forall k x, index_of ids id 0 = Some k -> NoDup ids ->
  (In x (remove_at ids k) <-> In x ids /\ x <> id).
Proof.
  induction ids as [|y t IH]; intros k x H Hnd; [discriminate|].
  rewrite index_of_cons in H. inversion Hnd as [|? ? Hny Hnt]; subst.
  destruct (Nat.eqb_spec id y) as [Heq|Hne].
  - inversion H; subst. simpl. split.
    + intros Hin. split; [right; assumption|]. intros ->. contradiction.
    + intros ([Heq|Hin] & Hx); [congruence|assumption].
  - destruct (index_of t id 0) as [j|]; simpl in H; [|discriminate]. inversion H; subst.
    simpl. rewrite (IH j x eq_refl Hnt). split.
    + intros [Heq|(Hin & Hx)]; [subst; split; [left; reflexivity|congruence]|split; [right; assumption|assumption]].
    + intros ([Heq|Hin] & Hx); [left; assumption|right; split; assumption].
Qed.

Lemma remove_at_nodup (ids : list nat) : forall k, NoDup ids -> NoDup (remove_at ids k).
Proof.
  induction ids as [|y t IH]; intros k Hnd; [destruct k; constructor|].
  inversion Hnd as [|? ? Hny Hnt]; subst. destruct k as [|k]; [assumption|]. simpl.
  constructor; [|apply IH; assumption].
  intros Hin. apply Hny. clear -Hin. revert k Hin.
  induction t as [|a t IH]; intros k Hin; [destruct k; contradiction|].
  destruct k as [|k]; [right; assumption|]. simpl in Hin. destruct Hin as [->|Hin]; [left; reflexivity|right; eapply IH; eassumption].
Qed.

(* ------------------------------------------------------------------------------------------ *)
(* SharedComponentsInfo: well-formedness and lookup                                            *)
Definition si_wf (s : shared_info) : Prop :=
  length (si_ids s) = length (si_data s) /\ NoDup (si_ids s) /\
  forall id, mhas (si_mask s) id = true <-> In id (si_ids s).

(* the instance stored for id: data_[ids_.index_of(id)], as SharedComponentsInfo::get does *)
Definition si_get (s : shared_info) (id : nat) : option nat :=
  match index_of (si_ids s) id 0 with Some i => nth_error (si_data s) i | None => None end.

Lemma si_get_lookup s id : si_get s id = lookup (si_ids s) (si_data s) id.
Proof. unfold si_get. apply index_lookup. Qed.

Lemma si_get_has s id : si_wf s -> (mhas (si_mask s) id = true <-> exists i, si_get s id = Some i).
Proof.
  intros (Hl & _ & Hm). rewrite si_get_lookup, Hm. split.
  - intros Hin. apply lookup_in; assumption.
  - intros (i & Hi). apply lookup_some_in in Hi. tauto.
Qed.

Lemma si_null_wf : si_wf si_null.
Proof.
  split; [reflexivity|]. split; [constructor|].
  intros id. split; [|intros []]. intros H. change (mhas 0%N id = true) in H. rewrite mhas_0 in H. discriminate.
Qed.

Lemma si_null_get id : si_get si_null id = None.
Proof. reflexivity. Qed.

(* ---- si_add ---- *)
Lemma si_add_inv s id i s' : si_wf s -> si_add s id i = Ok s' ->
  (mhas (si_mask s) id = true /\ exists k, index_of (si_ids s) id 0 = Some k /\ k < length (si_data s) /\
     s' = {| si_mask := si_mask s; si_ids := si_ids s; si_data := upd (si_data s) k i |}) \/
  (mhas (si_mask s) id = false /\ ~ In id (si_ids s) /\
     s' = {| si_mask := madd (si_mask s) id; si_ids := si_ids s ++ [id]; si_data := si_data s ++ [i] |}).
Proof.
  intros (Hl & Hnd & Hm) H. unfold si_add in H. destruct (mhas (si_mask s) id) eqn:Eh.
  - left. split; [reflexivity|]. destruct (index_of (si_ids s) id 0) as [k|]; [|discriminate].
    destruct (Nat.ltb_spec k (length (si_data s))) as [Hk|Hk]; [|discriminate].
    inversion H; subst. exists k. auto.
  - right. split; [reflexivity|]. split; [|inversion H; reflexivity].
    intros Hin. apply Hm in Hin. congruence.
Qed.

Lemma si_add_total s id i : si_wf s -> exists s', si_add s id i = Ok s'.
Proof.
  intros (Hl & Hnd & Hm). unfold si_add. destruct (mhas (si_mask s) id) eqn:Eh; [|eexists; reflexivity].
  apply Hm in Eh. destruct (index_of_in _ _ Eh) as (k & Hk). rewrite Hk.
  apply index_of_some in Hk. destruct Hk as (_ & Hk). rewrite Hl in Hk.
  apply Nat.ltb_lt in Hk. rewrite Hk. eexists; reflexivity.
Qed.

Lemma si_add_wf s id i s' : si_wf s -> si_add s id i = Ok s' -> si_wf s'.
Proof.
  intros Hwf H. destruct (si_add_inv _ _ _ _ Hwf H) as [(Eh & k & Hk & Hlt & ->)|(Eh & Hn & ->)];
    destruct Hwf as (Hl & Hnd & Hm); unfold si_wf; simpl.
  - rewrite upd_length. auto.
  - split; [rewrite !app_length; simpl; lia|]. split.
    + apply NoDup_app_intro_single; assumption.
    + intros id'. rewrite mhas_madd, orb_true_iff, in_app_iff, Hm, Nat.eqb_eq. simpl. intuition.
Qed.

Lemma si_add_get_same s id i s' : si_wf s -> si_add s id i = Ok s' -> si_get s' id = Some i.
Proof.
  intros Hwf H. rewrite si_get_lookup.
  destruct (si_add_inv _ _ _ _ Hwf H) as [(Eh & k & Hk & Hlt & ->)|(Eh & Hn & ->)]; simpl.
  - apply lookup_upd_same; assumption.
  - apply lookup_app_last_same; [apply Hwf|assumption].
Qed.

Lemma si_add_get_other s id i s' id' : si_wf s -> si_add s id i = Ok s' -> id' <> id -> si_get s' id' = si_get s id'.
Proof.
  intros Hwf H Hne. rewrite !si_get_lookup.
  destruct (si_add_inv _ _ _ _ Hwf H) as [(Eh & k & Hk & Hlt & ->)|(Eh & Hn & ->)]; simpl.
  - eapply lookup_upd_other; eassumption.
  - apply lookup_app_last_other; [apply Hwf|assumption].
Qed.

(* ---- si_remove ---- *)
Lemma si_remove_inv s id s' : si_wf s -> si_remove s id = Ok s' ->
  (mhas (si_mask s) id = true /\ exists k, index_of (si_ids s) id 0 = Some k /\ k < length (si_ids s) /\
     s' = {| si_mask := mdel (si_mask s) id; si_ids := remove_at (si_ids s) k; si_data := remove_at (si_data s) k |}) \/
  (mhas (si_mask s) id = false /\ ~ In id (si_ids s) /\
     s' = {| si_mask := mdel (si_mask s) id; si_ids := si_ids s; si_data := si_data s |}).
Proof.
  intros (Hl & Hnd & Hm) H. unfold si_remove in H. destruct (mhas (si_mask s) id) eqn:Eh.
  - left. split; [reflexivity|]. destruct (index_of (si_ids s) id 0) as [k|] eqn:Ek; [|discriminate].
    inversion H; subst. exists k. split; [reflexivity|]. split; [|reflexivity].
    apply index_of_some in Ek. tauto.
  - right. split; [reflexivity|]. split; [|inversion H; reflexivity].
    intros Hin. apply Hm in Hin. congruence.
Qed.

Lemma si_remove_total s id : si_wf s -> exists s', si_remove s id = Ok s'.
Proof.
  intros (Hl & Hnd & Hm). unfold si_remove. destruct (mhas (si_mask s) id) eqn:Eh; [|eexists; reflexivity].
  apply Hm in Eh. destruct (index_of_in _ _ Eh) as (k & Hk). rewrite Hk. eexists; reflexivity.
Qed.

Lemma si_remove_wf s id s' : si_wf s -> si_remove s id = Ok s' -> si_wf s'.
Proof.
  intros Hwf H. destruct (si_remove_inv _ _ _ Hwf H) as [(Eh & k & Hk & Hlt & ->)|(Eh & Hn & ->)];
    destruct Hwf as (Hl & Hnd & Hm); unfold si_wf; simpl.
  - split; [rewrite !remove_at_length by lia; lia|]. split; [apply remove_at_nodup; assumption|].
    intros id'. rewrite mhas_mdel, andb_true_iff, negb_true_iff, Nat.eqb_neq, Hm, (remove_at_in _ _ _ _ Hk Hnd).
    split; intros (H1 & H2); split; auto.
  - split; [assumption|]. split; [assumption|].
    intros id'. rewrite mhas_mdel, andb_true_iff, negb_true_iff, Nat.eqb_neq, Hm.
    split; [tauto|]. intros Hin. split; [|assumption]. intros ->. contradiction.
Qed.

Lemma si_remove_get_same s id s' : si_wf s -> si_remove s id = Ok s' -> si_get s' id = None.
Proof.
  intros Hwf H. rewrite si_get_lookup.
  destruct (si_remove_inv _ _ _ Hwf H) as [(Eh & k & Hk & Hlt & ->)|(Eh & Hn & ->)]; simpl.
  - apply lookup_remove_same; [assumption|apply Hwf].
  - apply lookup_notin. assumption.
Qed.

Lemma si_remove_get_other s id s' id' : si_wf s -> si_remove s id = Ok s' -> id' <> id -> si_get s' id' = si_get s id'.
Proof.
  intros Hwf H Hne. rewrite !si_get_lookup.
  destruct (si_remove_inv _ _ _ Hwf H) as [(Eh & k & Hk & Hlt & ->)|(Eh & Hn & ->)]; simpl.
  - eapply lookup_remove_other; eassumption.
  - reflexivity.
Qed.

Lemma si_remove_mask s id s' : si_remove s id = Ok s' -> mhas (si_mask s') id = false.
Proof.
  unfold si_remove. intros H.
  assert (G : si_mask s' = mdel (si_mask s) id).
  { destruct (mhas (si_mask s) id); [destruct (index_of (si_ids s) id 0); [|discriminate]|]; inversion H; reflexivity. }
  rewrite G, mhas_mdel, Nat.eqb_refl. reflexivity.
Qed.

(* ---- si_merge ---- *)
(* merging into the empty info (the only use in the Manager: clone) gives back the argument itself *)
Lemma si_merge_null_l x : si_merge si_null x = x.
Proof.
  destruct x as [m ids data]. unfold si_merge, si_null, munion; simpl.
  rewrite !app_nil_r, N.lor_0_r. reflexivity.
Qed.

Lemma si_merge_null_wf x : si_wf x -> si_wf (si_merge si_null x).
Proof. rewrite si_merge_null_l. exact (fun H => H). Qed.

Lemma si_merge_null_get x id : si_get (si_merge si_null x) id = si_get x id.
Proof. rewrite si_merge_null_l. reflexivity. Qed.

(* the general merge: the argument's entries win, the receiver's other entries are kept *)
Lemma si_merge_get s oth id : si_wf oth ->
  si_get (si_merge s oth) id = match si_get oth id with Some v => Some v | None => si_get s id end.
Proof.
  intros (Hl & _). rewrite !si_get_lookup. unfold si_merge; simpl. apply lookup_app. assumption.
Qed.

Lemma si_merge_wf s oth : si_wf s -> si_wf oth -> (forall id, In id (si_ids oth) -> ~ In id (si_ids s)) ->
  si_wf (si_merge s oth).
Proof.
  intros (Hl & Hnd & Hm) (Hl' & Hnd' & Hm') Hdis. unfold si_wf, si_merge; simpl.
  split; [rewrite !app_length; lia|]. split.
  - clear -Hnd Hnd' Hdis. induction (si_ids oth) as [|y t IH]; simpl; [assumption|].
    inversion Hnd'; subst. constructor.
    + rewrite in_app_iff. intros [Hin|Hin]; [contradiction|]. exact (Hdis y (or_introl eq_refl) Hin).
    + apply IH; [assumption|]. intros id Hin. apply Hdis. right. assumption.
  - intros id. rewrite mhas_munion, orb_true_iff, in_app_iff, Hm, Hm'. tauto.
Qed.

(* ------------------------------------------------------------------------------------------ *)
(* the instance pool                                                                           *)
Definition pool_of (s : mst) (sid : nat) : list nat := nth sid (pool s) [].
(* the predicate getCreatedSharedComponent searches with: same pointer, or equal value *)
Definition same_val (s : mst) (inst i : nat) : bool :=
  Nat.eqb i inst || Z.eqb (inst_value s i) (inst_value s inst).

Lemma same_val_true s inst i : same_val s inst i = true <-> inst_value s i = inst_value s inst.
Proof.
  unfold same_val. rewrite orb_true_iff, Nat.eqb_eq, Z.eqb_eq. split; [intros [->|H]; auto|auto].
Qed.

Lemma nth_repeat_nil {A} (d : A) n k : nth k (repeat d n) d = d.
Proof. revert k; induction n as [|n IH]; intros [|k]; simpl; auto. Qed.

Lemma nth_resize_grow {A} (l : list A) n d k : length l <= n -> nth k (resize l n d) d = nth k l d.
Proof.
  intros Hle. unfold resize. rewrite firstn_all2 by assumption.
  destruct (Nat.lt_ge_cases k (length l)) as [Hk|Hk].
  - apply app_nth1. assumption.
  - rewrite app_nth2 by assumption. rewrite nth_repeat_nil. symmetry. apply nth_overflow. assumption.
Qed.

Lemma resize_length_grow {A} (l : list A) n d : length l <= n -> length (resize l n d) = n.
Proof. intros Hle. unfold resize. rewrite firstn_all2 by assumption. rewrite app_length, repeat_length. lia. Qed.

Lemma nth_upd {A} (l : list A) d x : forall i k,
  nth k (upd l i x) d = if Nat.eqb i k && Nat.ltb i (length l) then x else nth k l d.
Proof.
  induction l as [|a t IH]; intros i k; simpl.
  - rewrite andb_false_r. destruct i, k; reflexivity.
  - destruct i as [|i], k as [|k]; simpl; try reflexivity. apply IH.
Qed.

(* the (possibly grown) pool vector of created_shared *)
Definition grown (s : mst) (sid : nat) : list (list nat) :=
  if Nat.ltb sid (length (pool s)) then pool s else resize (pool s) (S sid) [].

Lemma grown_nth s sid k : nth k (grown s sid) [] = nth k (pool s) [].
Proof.
  unfold grown. destruct (Nat.ltb_spec sid (length (pool s))) as [H|H]; [reflexivity|].
  apply nth_resize_grow. lia.
Qed.

Lemma grown_length s sid : sid < length (grown s sid).
Proof.
  unfold grown. destruct (Nat.ltb_spec sid (length (pool s))) as [H|H]; [assumption|].
  rewrite resize_length_grow by lia. lia.
Qed.

Lemma created_shared_unfold s sid inst :
  created_shared s sid inst =
  match find (same_val s inst) (pool_of s sid) with
  | Some i => (set_pool s (grown s sid) (insts s), i)
  | None => (set_pool s (upd (grown s sid) sid (pool_of s sid ++ [inst])) (insts s), inst)
  end.
Proof.
  unfold created_shared, pool_of. fold (grown s sid). rewrite grown_nth. reflexivity.
Qed.

Lemma created_shared_insts s sid inst : insts (fst (created_shared s sid inst)) = insts s.
Proof. rewrite created_shared_unfold. destruct (find _ _); reflexivity. Qed.

Lemma inst_value_insts s s' i : insts s' = insts s -> inst_value s' i = inst_value s i.
Proof. unfold inst_value. intros ->. reflexivity. Qed.

Lemma created_shared_value s sid inst i : inst_value (fst (created_shared s sid inst)) i = inst_value s i.
Proof. apply inst_value_insts, created_shared_insts. Qed.

Lemma created_shared_other s sid inst sid' : sid' <> sid ->
  pool_of (fst (created_shared s sid inst)) sid' = pool_of s sid'.
Proof.
  intros Hne. rewrite created_shared_unfold. destruct (find _ _); unfold pool_of at 1; simpl.
  - apply grown_nth.
  - rewrite nth_upd. apply not_eq_sym, Nat.eqb_neq in Hne. rewrite Hne. simpl. apply grown_nth.
Qed.

(* an instance with an equal value is already pooled: it is returned, nothing is recorded *)
Lemma created_shared_found s sid inst i : find (same_val s inst) (pool_of s sid) = Some i ->
  snd (created_shared s sid inst) = i /\ pool_of (fst (created_shared s sid inst)) sid = pool_of s sid.
Proof.
  intros H. rewrite created_shared_unfold, H. simpl. split; [reflexivity|]. apply grown_nth.
Qed.

(* no pooled instance has an equal value: the fresh one is returned and recorded at the end of the pool *)
Lemma created_shared_fresh s sid inst : find (same_val s inst) (pool_of s sid) = None ->
  snd (created_shared s sid inst) = inst /\ pool_of (fst (created_shared s sid inst)) sid = pool_of s sid ++ [inst].
Proof.
  intros H. rewrite created_shared_unfold, H. simpl. split; [reflexivity|].
  unfold pool_of at 1. simpl. rewrite nth_upd, Nat.eqb_refl.
  pose proof (grown_length s sid) as Hl. apply Nat.ltb_lt in Hl. rewrite Hl. reflexivity.
Qed.

(* the two cases in terms of values *)
Theorem created_shared_reuses s sid inst :
  (exists j, In j (pool_of s sid) /\ inst_value s j = inst_value s inst) ->
  let r := snd (created_shared s sid inst) in
  In r (pool_of s sid) /\ inst_value s r = inst_value s inst /\
  pool_of (fst (created_shared s sid inst)) sid = pool_of s sid.
Proof.
  intros (j & Hj & Hv). simpl. destruct (find (same_val s inst) (pool_of s sid)) as [i|] eqn:Ef.
  - destruct (created_shared_found _ _ _ _ Ef) as (-> & Hp). apply find_some in Ef. destruct Ef as (Hin & Hs).
    apply same_val_true in Hs. auto.
  - exfalso. apply (find_none _ _ Ef) in Hj. apply same_val_true in Hv. congruence.
Qed.

Theorem created_shared_records s sid inst :
  (forall j, In j (pool_of s sid) -> inst_value s j <> inst_value s inst) ->
  snd (created_shared s sid inst) = inst /\
  pool_of (fst (created_shared s sid inst)) sid = pool_of s sid ++ [inst].
Proof.
  intros Hall. apply created_shared_fresh. destruct (find (same_val s inst) (pool_of s sid)) as [i|] eqn:Ef; [|reflexivity].
  exfalso. apply find_some in Ef. destruct Ef as (Hin & Hs). apply same_val_true in Hs. exact (Hall i Hin Hs).
Qed.

(* in both cases the returned instance is pooled afterwards and carries the requested value *)
Lemma created_shared_result s sid inst :
  let r := snd (created_shared s sid inst) in
  In r (pool_of (fst (created_shared s sid inst)) sid) /\ inst_value s r = inst_value s inst.
Proof.
  simpl. destruct (find (same_val s inst) (pool_of s sid)) as [i|] eqn:Ef.
  - destruct (created_shared_found _ _ _ _ Ef) as (-> & ->). apply find_some in Ef. destruct Ef as (Hin & Hs).
    apply same_val_true in Hs. auto.
  - destruct (created_shared_fresh _ _ _ Ef) as (-> & ->). split; [|reflexivity]. apply in_or_app. right. left. reflexivity.
Qed.

Lemma created_shared_grows s sid inst sid' i : In i (pool_of s sid') -> In i (pool_of (fst (created_shared s sid inst)) sid').
Proof.
  intros Hin. destruct (Nat.eq_dec sid' sid) as [->|Hne]; [|rewrite created_shared_other; assumption].
  destruct (find (same_val s inst) (pool_of s sid)) as [k|] eqn:Ef.
  - destruct (created_shared_found _ _ _ _ Ef) as (_ & ->). assumption.
  - destruct (created_shared_fresh _ _ _ Ef) as (_ & ->). apply in_or_app. left. assumption.
Qed.

(* ---- the invariants ---- *)
(* within one sid, distinct pooled instances have distinct values (and no instance is pooled twice) *)
Definition pool_inj (s : mst) : Prop :=
  forall sid, NoDup (pool_of s sid) /\
    forall i j, In i (pool_of s sid) -> In j (pool_of s sid) -> inst_value s i = inst_value s j -> i = j.
(* pooled instance numbers are indices into insts *)
Definition pool_valid (s : mst) : Prop := forall sid i, In i (pool_of s sid) -> i < length (insts s).
Definition pool_wf (s : mst) : Prop := pool_inj s /\ pool_valid s.

Lemma pool_of_nil s sid : pool s = [] -> pool_of s sid = [].
Proof. unfold pool_of. intros ->. destruct sid; reflexivity. Qed.

Lemma init_pool_wf n cis : pool_wf (init n cis).
Proof.
  split.
  - intros sid. rewrite pool_of_nil by reflexivity. split; [constructor|intros i j []].
  - intros sid i. rewrite pool_of_nil by reflexivity. intros [].
Qed.

Theorem created_shared_inj s sid inst : pool_inj s -> pool_inj (fst (created_shared s sid inst)).
Proof.
  intros Hinj sid'. destruct (Nat.eq_dec sid' sid) as [->|Hne].
  - destruct (Hinj sid) as (Hnd & Hv).
    destruct (find (same_val s inst) (pool_of s sid)) as [k|] eqn:Ef.
    + destruct (created_shared_found _ _ _ _ Ef) as (_ & ->). split; [assumption|].
      intros i j Hi Hj. rewrite !created_shared_value. apply Hv; assumption.
    + destruct (created_shared_fresh _ _ _ Ef) as (_ & ->).
      assert (Hnone : forall x, In x (pool_of s sid) -> inst_value s x <> inst_value s inst).
      { intros x Hx E. apply (find_none _ _ Ef) in Hx. apply same_val_true in E. congruence. }
      split.
      * apply NoDup_app_intro_single; [assumption|]. intros Hin. exact (Hnone inst Hin eq_refl).
      * intros i j Hi Hj. rewrite !created_shared_value. apply in_app_or in Hi. apply in_app_or in Hj.
        destruct Hi as [Hi|[<-|[]]], Hj as [Hj|[<-|[]]]; intros E.
        -- apply Hv; assumption.
        -- exfalso. exact (Hnone i Hi E).
        -- exfalso. exact (Hnone j Hj (eq_sym E)).
        -- reflexivity.
  - rewrite created_shared_other by assumption. destruct (Hinj sid') as (Hnd & Hv). split; [assumption|].
    intros i j Hi Hj. rewrite !created_shared_value. apply Hv; assumption.
Qed.

Theorem created_shared_valid s sid inst : inst < length (insts s) -> pool_valid s -> pool_valid (fst (created_shared s sid inst)).
Proof.
  intros Hlt Hval sid' i. rewrite created_shared_insts. destruct (Nat.eq_dec sid' sid) as [->|Hne].
  - destruct (find (same_val s inst) (pool_of s sid)) as [k|] eqn:Ef.
    + destruct (created_shared_found _ _ _ _ Ef) as (_ & ->). apply Hval.
    + destruct (created_shared_fresh _ _ _ Ef) as (_ & ->). intros Hin. apply in_app_or in Hin.
      destruct Hin as [Hin|[<-|[]]]; [eapply Hval; eassumption|assumption].
  - rewrite created_shared_other by assumption. apply Hval.
Qed.

Theorem created_shared_wf s sid inst : inst < length (insts s) -> pool_wf s -> pool_wf (fst (created_shared s sid inst)).
Proof. intros Hlt (H1 & H2). split; [apply created_shared_inj|apply created_shared_valid]; assumption. Qed.

(* ---- new_inst ---- *)
Lemma new_inst_pool s sid v sid' : pool_of (fst (new_inst s sid v)) sid' = pool_of s sid'.
Proof. reflexivity. Qed.

Lemma new_inst_insts s sid v : insts (fst (new_inst s sid v)) = insts s ++ [(sid, v)].
Proof. reflexivity. Qed.

Lemma new_inst_snd s sid v : snd (new_inst s sid v) = length (insts s).
Proof. reflexivity. Qed.

Lemma inst_value_app s s' ext i : insts s' = insts s ++ ext -> i < length (insts s) -> inst_value s' i = inst_value s i.
Proof. unfold inst_value. intros -> Hlt. rewrite app_nth1 by assumption. reflexivity. Qed.

Lemma new_inst_value_old s sid v i : i < length (insts s) -> inst_value (fst (new_inst s sid v)) i = inst_value s i.
Proof. apply inst_value_app with (ext := [(sid, v)]). reflexivity. Qed.

Lemma new_inst_value_fresh s sid v : inst_value (fst (new_inst s sid v)) (length (insts s)) = v.
Proof. unfold inst_value. rewrite new_inst_insts, app_nth2 by lia. rewrite Nat.sub_diag. reflexivity. Qed.

Lemma new_inst_wf s sid v : pool_wf s -> pool_wf (fst (new_inst s sid v)).
Proof.
  intros (Hinj & Hval). split.
  - intros sid'. rewrite new_inst_pool. destruct (Hinj sid') as (Hnd & Hv). split; [assumption|].
    intros i j Hi Hj. rewrite !new_inst_value_old by (eapply Hval; eassumption). apply Hv; assumption.
  - intros sid' i. rewrite new_inst_pool, new_inst_insts, app_length. intros Hin. apply Hval in Hin. simpl. lia.
Qed.

(* ---- allocation as assignShared does it: a fresh instance, then deduplication against the pool ---- *)
Definition alloc_shared (s : mst) (sid : nat) (v : Z) : mst * nat :=
  created_shared (fst (new_inst s sid v)) sid (snd (new_inst s sid v)).

(* the pool only grows and existing instances keep their values *)
Definition pool_le (s s' : mst) : Prop :=
  (forall sid i, In i (pool_of s sid) -> In i (pool_of s' sid)) /\ exists ext, insts s' = insts s ++ ext.

Lemma pool_le_refl s : pool_le s s.
Proof. split; [auto|]. exists []. rewrite app_nil_r. reflexivity. Qed.

Lemma pool_le_trans a b c : pool_le a b -> pool_le b c -> pool_le a c.
Proof.
  intros (H1 & e1 & E1) (H2 & e2 & E2). split; [auto|]. exists (e1 ++ e2). rewrite E2, E1, app_assoc. reflexivity.
Qed.

Lemma pool_le_value a b i : pool_le a b -> i < length (insts a) -> inst_value b i = inst_value a i.
Proof. intros (_ & ext & E) Hlt. eapply inst_value_app; eassumption. Qed.

Lemma new_inst_le s sid v : pool_le s (fst (new_inst s sid v)).
Proof. split; [auto|]. exists [(sid, v)]. reflexivity. Qed.

Lemma created_shared_le s sid inst : pool_le s (fst (created_shared s sid inst)).
Proof.
  split; [intros sid' i; apply created_shared_grows|]. exists []. rewrite app_nil_r. apply created_shared_insts.
Qed.

Lemma alloc_shared_le s sid v : pool_le s (fst (alloc_shared s sid v)).
Proof. eapply pool_le_trans; [apply new_inst_le|apply created_shared_le]. Qed.

Theorem alloc_shared_wf s sid v : pool_wf s -> pool_wf (fst (alloc_shared s sid v)).
Proof.
  intros Hwf. unfold alloc_shared. apply created_shared_wf; [|apply new_inst_wf; assumption].
  rewrite new_inst_snd, new_inst_insts, app_length. simpl. lia.
Qed.

(* the instance handed out is pooled under sid and holds the requested value *)
Theorem alloc_shared_result s sid v :
  let r := snd (alloc_shared s sid v) in
  In r (pool_of (fst (alloc_shared s sid v)) sid) /\ inst_value (fst (alloc_shared s sid v)) r = v.
Proof.
  simpl. unfold alloc_shared. destruct (created_shared_result (fst (new_inst s sid v)) sid (snd (new_inst s sid v))) as (Hin & Hv).
  split; [assumption|]. rewrite created_shared_value, Hv, new_inst_snd. apply new_inst_value_fresh.
Qed.

(* an instance of that value is already pooled: it is the one handed out, and the pool does not change *)
Theorem alloc_shared_reuses s sid v r : pool_wf s -> In r (pool_of s sid) -> inst_value s r = v ->
  snd (alloc_shared s sid v) = r /\ pool_of (fst (alloc_shared s sid v)) sid = pool_of s sid.
Proof.
  intros Hwf Hin Hv. pose proof (new_inst_wf s sid v Hwf) as (Hinj0 & _). destruct Hwf as (_ & Hval).
  unfold alloc_shared. set (s0 := fst (new_inst s sid v)) in *. rewrite new_inst_snd.
  assert (Hr : inst_value s0 r = inst_value s0 (length (insts s))).
  { unfold s0. rewrite new_inst_value_fresh, new_inst_value_old by (eapply Hval; eassumption). assumption. }
  destruct (created_shared_reuses s0 sid (length (insts s))) as (Hin' & Hv' & Hp).
  { exists r. split; [exact Hin|exact Hr]. }
  split; [|exact Hp]. destruct (Hinj0 sid) as (_ & Huniq). apply Huniq; [exact Hin'|exact Hin|congruence].
Qed.

(* "one instance per value": a later allocation of the same value under the same sid, with any allocations in
   between, hands out the same instance *)
Theorem alloc_shared_same_value s sid v s2 : pool_wf s ->
  pool_le (fst (alloc_shared s sid v)) s2 -> pool_wf s2 ->
  snd (alloc_shared s2 sid v) = snd (alloc_shared s sid v).
Proof.
  intros Hwf Hle Hwf2. destruct (alloc_shared_result s sid v) as (Hin & Hv).
  pose proof (alloc_shared_wf s sid v Hwf) as (_ & Hval1).
  apply alloc_shared_reuses; [assumption|apply Hle; assumption|].
  rewrite (pool_le_value _ _ _ Hle) by (eapply Hval1; eassumption). assumption.
Qed.

(* "one instance per DISTINCT value": different values get different instances *)
Theorem alloc_shared_distinct_values s sid v s2 w : pool_wf s ->
  pool_le (fst (alloc_shared s sid v)) s2 -> v <> w ->
  snd (alloc_shared s2 sid w) <> snd (alloc_shared s sid v).
Proof.
  intros Hwf Hle Hne E. destruct (alloc_shared_result s sid v) as (Hin & Hv).
  destruct (alloc_shared_result s2 sid w) as (_ & Hw).
  pose proof (alloc_shared_wf s sid v Hwf) as (_ & Hval1).
  rewrite E in Hw. apply Hne. rewrite <- Hv, <- Hw. symmetry.
  apply pool_le_value; [|eapply Hval1; eassumption].
  eapply pool_le_trans; [eassumption|apply alloc_shared_le].
Qed.

(* assign_shared is alloc_shared followed by the archetype change *)
Lemma assign_shared_alloc s h sid v :
  assign_shared s h sid v =
  (do l <- nth_res (locs s) (N.to_nat (fst h));
   let s1 := fst (alloc_shared s sid v) in
   let inst := snd (alloc_shared s sid v) in
   match l_arch l with
   | None => Err OobIndex
   | Some pai =>
     do pa <- nth_res (archs s1) pai;
     do sh <- si_add (am_shared pa) sid inst;
     do r <- get_arch s1 (am_mask pa) sh;
     if Nat.eqb (snd r) pai then Ok (fst r) else external_move (fst r) (snd r) h pai (l_idx l) 0%N
   end).
Proof.
  unfold assign_shared, alloc_shared, new_inst. cbn [fst snd].
  change (locs (set_pool s (pool s) (insts s ++ [(sid, v)]))) with (locs s).
  destruct (nth_res (locs s) (N.to_nat (fst h))) as [l|e]; [|reflexivity]. cbn [bind].
  destruct (created_shared (set_pool s (pool s) (insts s ++ [(sid, v)])) sid (length (insts s))) as [s1 inst].
  cbn [fst snd]. destruct (l_arch l) as [pai|]; [|reflexivity].
  destruct (nth_res (archs s1) pai) as [pa|]; [|reflexivity]. cbn [bind].
  destruct (si_add (am_shared pa) sid inst) as [sh|]; [|reflexivity]. cbn [bind].
  destruct (get_arch s1 (am_mask pa) sh) as [[s2 ai]|]; reflexivity.
Qed.

(* ------------------------------------------------------------------------------------------ *)
(* summaries used by Properties_C12                                                            *)
Theorem si_wf_preserved :
  si_wf si_null /\
  (forall s id i s', si_wf s -> si_add s id i = Ok s' -> si_wf s') /\
  (forall s id s', si_wf s -> si_remove s id = Ok s' -> si_wf s') /\
  (forall x, si_wf x -> si_wf (si_merge si_null x)).
Proof.
  split; [exact si_null_wf|]. split; [exact si_add_wf|]. split; [exact si_remove_wf|exact si_merge_null_wf].
Qed.

Theorem si_add_spec s id i : si_wf s ->
  exists s', si_add s id i = Ok s' /\ si_wf s' /\ si_get s' id = Some i /\
             forall id', id' <> id -> si_get s' id' = si_get s id'.
Proof.
  intros Hwf. destruct (si_add_total s id i Hwf) as (s' & H). exists s'.
  split; [assumption|]. split; [eapply si_add_wf; eassumption|]. split; [eapply si_add_get_same; eassumption|].
  intros id' Hne. eapply si_add_get_other; eassumption.
Qed.

Theorem si_remove_spec s id : si_wf s ->
  exists s', si_remove s id = Ok s' /\ si_wf s' /\ si_get s' id = None /\ mhas (si_mask s') id = false /\
             forall id', id' <> id -> si_get s' id' = si_get s id'.
Proof.
  intros Hwf. destruct (si_remove_total s id Hwf) as (s' & H). exists s'.
  split; [assumption|]. split; [eapply si_remove_wf; eassumption|]. split; [eapply si_remove_get_same; eassumption|].
  split; [eapply si_remove_mask; eassumption|].
  intros id' Hne. eapply si_remove_get_other; eassumption.
Qed.

Theorem si_merge_null_spec x : si_merge si_null x = x /\ forall id, si_get (si_merge si_null x) id = si_get x id.
Proof. split; [apply si_merge_null_l|intros id; apply si_merge_null_get]. Qed.

(* the general merge ("TODO: check me!" in component_mask.hpp) does NOT keep the info well-formed when both sides
   carry the same id: the id is listed twice. The Manager only ever calls it on si_null. *)
Definition si_one : shared_info := {| si_mask := 1%N; si_ids := [0]; si_data := [7] |}.
Lemma si_one_wf : si_wf si_one.
Proof.
  split; [reflexivity|]. split; [constructor; [intros []|constructor]|].
  intros id. unfold si_one; simpl. destruct id as [|id].
  - split; [intros _; left; reflexivity|reflexivity].
  - split; [|intros [H|[]]; discriminate]. unfold mhas. simpl. destruct (Pos.of_succ_nat id); discriminate.
Qed.

Theorem si_merge_wf_refuted : exists s oth, si_wf s /\ si_wf oth /\ ~ si_wf (si_merge s oth).
Proof.
  exists si_one, si_one. split; [exact si_one_wf|]. split; [exact si_one_wf|].
  intros (_ & Hnd & _). simpl in Hnd. inversion Hnd as [|? ? Hn _]; subst. apply Hn. left. reflexivity.
Qed.

Theorem created_shared_pool_invariant s sid inst :
  (pool_inj s -> pool_inj (fst (created_shared s sid inst))) /\
  (inst < length (insts s) -> pool_wf s -> pool_wf (fst (created_shared s sid inst))).
Proof. split; [apply created_shared_inj|apply created_shared_wf]. Qed.

(* ------------------------------------------------------------------------------------------ *)
(* si_eqb (the archetype key: mask and data vector, NOT the ids vector)                        *)
Lemma lookup_of_data ids : forall data v, length ids = length data -> NoDup ids -> In v data ->
  exists id, lookup ids data id = Some v.
Proof.
  induction ids as [|y t IH]; intros data v Hl Hnd Hin.
  - destruct data; [contradiction|discriminate].
  - destruct data as [|d dt]; [contradiction|]. inversion Hnd as [|? ? Hny Hnt]; subst.
    destruct Hin as [->|Hin].
    + exists y. simpl. rewrite Nat.eqb_refl. reflexivity.
    + destruct (IH dt v) as (id & Hid); [simpl in Hl; lia|assumption|assumption|].
      exists id. simpl. destruct (Nat.eqb_spec id y) as [->|Hne]; [|assumption].
      apply lookup_some_in in Hid. tauto.
Qed.

(* every stored instance belongs to the shared type it is stored under (ty: the type of an instance) *)
Definition si_typed (ty : nat -> nat) (s : shared_info) : Prop := forall id v, si_get s id = Some v -> ty v = id.

Lemma si_data_get_transfer ty a b id v : si_wf b -> si_typed ty a -> si_typed ty b -> si_data a = si_data b ->
  si_get a id = Some v -> si_get b id = Some v.
Proof.
  intros (Hl & Hnd & _) Ha Hb Hd Hg. pose proof (Ha _ _ Hg) as Hty.
  rewrite si_get_lookup in Hg. apply lookup_some_in in Hg. destruct Hg as (_ & Hin). rewrite Hd in Hin.
  destruct (lookup_of_data _ _ _ Hl Hnd Hin) as (id' & Hid'). rewrite <- si_get_lookup in Hid'.
  pose proof (Hb _ _ Hid') as Hty'. congruence.
Qed.

(* with typed instances the key determines the lookups: an archetype found by si_eqb holds the same instance for
   every shared type, whatever the order in which the types were added *)
Theorem si_eqb_typed ty a b : si_wf a -> si_wf b -> si_typed ty a -> si_typed ty b ->
  si_eqb a b = true -> forall id, si_get a id = si_get b id.
Proof.
  intros Hwa Hwb Hta Htb He id. unfold si_eqb in He. apply andb_prop in He. destruct He as (_ & He).
  destruct (list_eq_dec Nat.eq_dec (si_data a) (si_data b)) as [Hd|]; [|discriminate].
  destruct (si_get a id) as [v|] eqn:Ea.
  - symmetry. apply (si_data_get_transfer ty a b); assumption.
  - destruct (si_get b id) as [w|] eqn:Eb; [|reflexivity].
    assert (G : si_get a id = Some w).
    { apply (si_data_get_transfer ty b a); [exact Hwa|exact Htb|exact Hta|symmetry; exact Hd|exact Eb]. }
    congruence.
Qed.

(* without typing the key does not determine the lookups *)
Theorem si_eqb_untyped_refuted :
  exists a b, si_wf a /\ si_wf b /\ si_eqb a b = true /\ exists id, si_get a id <> si_get b id.
Proof.
  exists {| si_mask := 3%N; si_ids := [0; 1]; si_data := [5; 6] |},
         {| si_mask := 3%N; si_ids := [1; 0]; si_data := [5; 6] |}.
  split; [|split].
  - apply (si_add_wf {| si_mask := 1%N; si_ids := [0]; si_data := [5] |} 1 6); [|reflexivity].
    apply (si_add_wf si_null 0 5); [exact si_null_wf|reflexivity].
  - apply (si_add_wf {| si_mask := 2%N; si_ids := [1]; si_data := [5] |} 0 6); [|reflexivity].
    apply (si_add_wf si_null 1 5); [exact si_null_wf|reflexivity].
  - split; [reflexivity|]. exists 0. discriminate.
Qed.
