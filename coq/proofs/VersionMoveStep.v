(* C07 over histories WITH ARCHETYPE MOVES, part 2: what an unlocked assign / removeComponent does to a state satisfying
   VInvD.
     removal_desc, unplace_inv     the entity leaves its archetype (the second half of remove_d, stated for any state that
                                   has the fields of the state after Archetype::remove)
     place_inv                     the entity is appended to an archetype (the second half of place_d, likewise)
     move_d                        externalMove keeps VInvD; its exact effect
     move_effect                   the effect of one move on populations, stamps and locations, position by position
     assign_m, remove_m            step s (OAssign ..) / step s (ORemove ..) while unlocked
   The order of the model (pushBack into the target, THEN remove from the previous archetype) passes through a state in
   which the entity is a member of two archetypes; the invariant is carried over a virtual intermediate state in which the
   removal has happened and the arrival has not (the two act on different archetypes). *)
Require Import Coq.Lists.List Coq.NArith.NArith Coq.ZArith.ZArith Coq.Arith.Arith Coq.Bool.Bool Coq.micromega.Lia.
From Mustache Require Import Res Iter Manager.
From Mustache.proofs Require Import ListLemmas SkelBasics ClosureProofs ManagerBasics ManagerMoves ManagerDeferred
  IterProofs IterCover VersionProofs VersionHistory VersionDestroyArch VersionDestroyInv VersionDestroyStep VersionMoveArch.
Import ListNotations.

(* ------------------------------------------------------------------------------------------ *)
(* leaving an archetype                                                                         *)
(* the two cases of Archetype::remove as a removal and three facts about the new location table l3 *)
Lemma removal_desc s ai a idx (h : handle) a' last l3 w :
  mem_ok s -> nth_error (archs s) ai = Some a -> nth_error (am_ents a) idx = Some h ->
  length (am_ents a) = S last -> am_mask a' = am_mask a -> am_chunk a' = am_chunk a -> am_size a' = last -> 0 < am_chunk a ->
  restamped a a' w (fun ch => ch = last / am_chunk a \/ ch = idx / am_chunk a) ->
  ((idx = last /\ am_ents a' = removelast (am_ents a) /\
    N.to_nat (fst h) < length (locs s) /\ l3 = upd (locs s) (N.to_nat (fst h)) default_loc)
   \/
   (idx <> last /\ exists src dst, nth_error (am_ents a) last = Some src /\ nth_error (am_ents a) idx = Some dst /\
      am_ents a' = removelast (upd (am_ents a) idx src) /\
      N.to_nat (fst dst) < length (locs s) /\ N.to_nat (fst src) < length (locs s) /\
      l3 = upd (upd (locs s) (N.to_nat (fst dst)) default_loc) (N.to_nat (fst src)) {| l_arch := Some ai; l_idx := idx |})) ->
  removal a a' idx w /\ length l3 = length (locs s) /\
  nth_error l3 (N.to_nat (fst h)) = Some default_loc /\
  (forall src, idx < last -> nth_error (am_ents a) last = Some src ->
     nth_error l3 (N.to_nat (fst src)) = Some {| l_arch := Some ai; l_idx := idx |}) /\
  (forall k, k <> N.to_nat (fst h) ->
     (forall src, idx < last -> nth_error (am_ents a) last = Some src -> k <> N.to_nat (fst src)) ->
     nth_error l3 k = nth_error (locs s) k).
Proof.
  intros I7 Ha Hh El Em Ek Es Hcs R Hcases.
  assert (Hidx : idx < S last) by (rewrite <- El; apply nth_error_Some; congruence).
  destruct Hcases as [(Eidx & Ee & Hlt & Elocs)|(Hne & src & dst & Hsrc & Hdst & Ee & Hlt1 & Hlt2 & Elocs)].
  - split; [|split; [|split; [|split]]].
    + exists last. split; [exact El|]. split; [lia|]. split; [exact Em|]. split; [exact Ek|]. split; [exact Hcs|].
      split; [rewrite Ee, removelast_length, El; reflexivity|]. split; [exact Es|].
      split; [|split; [intro; lia|exact R]].
      intros p Hp _. rewrite Ee. apply nth_error_removelast. rewrite El. exact Hp.
    + rewrite Elocs. apply upd_length.
    + rewrite Elocs. apply nth_error_upd_same. exact Hlt.
    + intros src Hlt'. lia.
    + intros k Hk _. rewrite Elocs. apply nth_error_upd_other. congruence.
  - assert (dst = h) by congruence. subst dst.
    assert (Hil : idx < last) by lia.
    assert (Hids : N.to_nat (fst src) <> N.to_nat (fst h)).
    { intro E. apply to_nat_inj in E. destruct (mem_ok_inj _ _ _ _ _ _ _ _ _ I7 Ha Hsrc Ha Hdst E) as (_ & E'). lia. }
    split; [|split; [|split; [|split]]].
    + exists last. split; [exact El|]. split; [lia|]. split; [exact Em|]. split; [exact Ek|]. split; [exact Hcs|].
      split; [rewrite Ee, removelast_length, upd_length, El; reflexivity|]. split; [exact Es|].
      split; [|split; [|exact R]].
      * intros p Hp Hpi. rewrite Ee, nth_error_removelast by (rewrite upd_length, El; exact Hp).
        apply nth_error_upd_other. congruence.
      * intros _. rewrite Ee, nth_error_removelast by (rewrite upd_length, El; exact Hil).
        rewrite Hsrc. apply nth_error_upd_same. rewrite El. lia.
    + rewrite Elocs, !upd_length. reflexivity.
    + rewrite Elocs, nth_error_upd_other by exact Hids. apply nth_error_upd_same. exact Hlt1.
    + intros src' _ Hsrc'. rewrite Hsrc in Hsrc'. inversion Hsrc'; subst src'. rewrite Elocs. apply nth_error_upd_same.
      rewrite upd_length. exact Hlt2.
    + intros k Hk Hk2. rewrite Elocs, nth_error_upd_other by (intro E; apply (Hk2 src Hil Hsrc); congruence).
      apply nth_error_upd_other. congruence.
Qed.

(* a state sA that differs from s by the removal of h from its archetype (fields as after Archetype::remove) *)
Lemma unplace_inv s js F (h : handle) l ai a a' last sA :
  VInvD (s, js) -> free_okF s F -> is_valid s h = true ->
  nth_error (locs s) (N.to_nat (fst h)) = Some l -> l_arch l = Some ai ->
  nth_error (archs s) ai = Some a -> nth_error (am_ents a) (l_idx l) = Some h -> length (am_ents a) = S last ->
  slots sA = slots s -> next_slot sA = next_slot s -> empty_slots sA = empty_slots s -> lockc sA = lockc s ->
  marked sA = marked s -> bufs sA = bufs s -> wv sA = wv s ->
  archs sA = upd (archs s) ai a' -> removal a a' (l_idx l) (wv s) ->
  length (locs sA) = length (locs s) ->
  nth_error (locs sA) (N.to_nat (fst h)) = Some default_loc ->
  (forall src, l_idx l < last -> nth_error (am_ents a) last = Some src ->
     nth_error (locs sA) (N.to_nat (fst src)) = Some {| l_arch := Some ai; l_idx := l_idx l |}) ->
  (forall k, k <> N.to_nat (fst h) ->
     (forall src, l_idx l < last -> nth_error (am_ents a) last = Some src -> k <> N.to_nat (fst src)) ->
     nth_error (locs sA) k = nth_error (locs s) k) ->
  VInvD (sA, js) /\ free_okF sA F /\ ~ In (fst h) F /\ is_valid sA h = true /\ unlocated sA (fst h).
Proof.
  intros HI HF Hv Hl Hla Ha Hh El Eslots Enext Eempty Elock Emarked Ebufs Ewv A2 Hrem Llen L1 L2 L3.
  pose proof HI as [I1 I2 I3 I4 I5 I6 I7 I8 I9]. cbn [fst snd] in *.
  set (idx := l_idx l) in *. rename sA into s1.
  pose proof (Forall_nth_error _ _ _ _ I5 Ha) as Hoka.
  assert (Hai : ai < length (archs s)) by (apply nth_error_Some; congruence).
  assert (Hidx : idx < S last) by (rewrite <- El; apply nth_error_Some; congruence).
  assert (Hni : ~ In (fst h) F) by (eapply located_not_free; eassumption).
  pose proof Hrem as (last' & El' & Hrest).
  assert (last' = last) by lia. subst last'. destruct Hrest as (Hle & _ & _ & _ & Elen' & _ & Hkeep & Hmoved & _).
  assert (Hvalid : forall h', is_valid s1 h' = is_valid s h') by (intro h'; apply is_valid_slots; exact Eslots).
  assert (Ha1 : nth_error (archs s1) ai = Some a') by (rewrite A2; apply nth_error_upd_same; exact Hai).
  split; [|split; [|split; [exact Hni|split; [rewrite Hvalid; exact Hv|exists default_loc; auto]]]].
  - constructor; cbn [fst snd].
    + congruence.
    + congruence.
    + unfold bufs_empty. rewrite Ebufs. exact I3.
    + rewrite Llen, Eslots. exact I4.
    + rewrite Ewv, A2. apply Forall_upd; [exact I5|]. eapply removal_okd; eassumption.
    + (* loc_ok *)
      intros h'' l'' ai'' Hv'' Hl'' Hai''. rewrite Hvalid in Hv''.
      destruct (Nat.eq_dec (N.to_nat (fst h'')) (N.to_nat (fst h))) as [E|Hnh].
      { exfalso. rewrite E, L1 in Hl''. inversion Hl''; subst l''. discriminate. }
      destruct (nth_error (am_ents a) last) as [src|] eqn:Esrc.
      2:{ exfalso. apply nth_error_None in Esrc. lia. }
      destruct (Nat.eq_dec idx last) as [Eil|Nil].
      * (* the last one was removed *)
        rewrite (L3 _ Hnh) in Hl'' by (intros src' Hlt; lia).
        destruct (I6 _ _ _ Hv'' Hl'' Hai'') as (x & Hx & Hp).
        destruct (Nat.eq_dec ai'' ai) as [->|Hna].
        -- rewrite Ha in Hx. inversion Hx; subst x. exists a'. split; [exact Ha1|].
           assert (Hpl : l_idx l'' < S last) by (rewrite <- El; apply nth_error_Some; congruence).
           assert (l_idx l'' <> idx).
           { intro E. rewrite E, Hh in Hp. inversion Hp; subst h''. congruence. }
           rewrite Hkeep by lia. exact Hp.
        -- exists x. split; [rewrite A2, nth_error_upd_other by congruence; exact Hx|exact Hp].
      * assert (Hil : idx < last) by lia.
        destruct (Nat.eq_dec (N.to_nat (fst h'')) (N.to_nat (fst src))) as [E|Hns].
        -- rewrite E, (L2 src Hil eq_refl) in Hl''. inversion Hl''; subst l''. cbn [l_arch l_idx] in *. inversion Hai''; subst ai''.
           assert (h'' = src).
           { apply (ver_match_eq s); [apply is_valid_match; exact Hv''|exact (proj1 (I7 _ _ _ _ Ha Esrc))|apply to_nat_inj; exact E]. }
           subst h''. exists a'. split; [exact Ha1|]. rewrite (Hmoved Hil). reflexivity.
        -- rewrite (L3 _ Hnh) in Hl'' by (intros src' _ Hs'; inversion Hs'; subst src'; exact Hns).
           destruct (I6 _ _ _ Hv'' Hl'' Hai'') as (x & Hx & Hp).
           destruct (Nat.eq_dec ai'' ai) as [->|Hna].
           ++ rewrite Ha in Hx. inversion Hx; subst x. exists a'. split; [exact Ha1|].
              assert (Hpl : l_idx l'' < S last) by (rewrite <- El; apply nth_error_Some; congruence).
              assert (l_idx l'' <> idx).
              { intro E. rewrite E, Hh in Hp. inversion Hp; subst h''. congruence. }
              assert (l_idx l'' <> last).
              { intro E. rewrite E, Esrc in Hp. inversion Hp; subst h''. congruence. }
              rewrite Hkeep by lia. exact Hp.
           ++ exists x. split; [rewrite A2, nth_error_upd_other by congruence; exact Hx|exact Hp].
    + (* mem_ok *)
      intros k x p e Hx He. unfold ver_match. rewrite Eslots.
      assert (Hgen : forall k0 x0 p0, nth_error (archs s) k0 = Some x0 -> nth_error (am_ents x0) p0 = Some e ->
                (k0 <> ai \/ (p0 <> idx /\ p0 <> last)) ->
                ver_match s e /\ nth_error (locs s1) (N.to_nat (fst e)) = Some {| l_arch := Some k0; l_idx := p0 |}).
      { intros k0 x0 p0 Hx0 He0 Hor. destruct (I7 _ _ _ _ Hx0 He0) as (X & L). split; [exact X|]. rewrite L3; [exact L| |].
        - intro E. apply to_nat_inj in E. destruct (mem_ok_inj _ _ _ _ _ _ _ _ _ I7 Hx0 He0 Ha Hh E) as (E1 & E2). destruct Hor as [Hor|(Hor & _)]; contradiction.
        - intros src _ Hsrc E. apply to_nat_inj in E. destruct (mem_ok_inj _ _ _ _ _ _ _ _ _ I7 Hx0 He0 Ha Hsrc E) as (E1 & E2).
          destruct Hor as [Hor|(_ & Hor)]; contradiction. }
      rewrite A2 in Hx. destruct (Nat.eq_dec k ai) as [->|Hnk].
      * rewrite nth_error_upd_same in Hx by exact Hai. inversion Hx; subst x; clear Hx.
        assert (Hp : p < last) by (rewrite <- Elen'; apply nth_error_Some; congruence).
        destruct (Nat.eq_dec p idx) as [->|Hpi].
        -- rewrite (Hmoved Hp) in He. destruct (I7 _ _ _ _ Ha He) as (X & _). split; [exact X|]. apply (L2 e Hp He).
        -- rewrite (Hkeep p Hp Hpi) in He. apply (Hgen ai a p Ha He). right. split; [exact Hpi|lia].
      * rewrite nth_error_upd_other in Hx by congruence. apply (Hgen k x p Hx He). left. exact Hnk.
    + exists F. destruct HF as (N1 & N2 & N3 & N4). split; [exact N1|]. split; [congruence|]. split; [rewrite Eslots, Enext; exact N3|].
      intros i Hi. destruct (N4 i Hi) as (l0 & Hl0 & Hn0). exists l0. split; [|exact Hn0]. rewrite L3; [exact Hl0| |].
      * intro E. apply to_nat_inj in E. subst i. contradiction.
      * intros src _ Hsrc E. apply to_nat_inj in E. subst i. destruct (I7 _ _ _ _ Ha Hsrc) as (_ & Ls). rewrite Ls in Hl0.
        inversion Hl0; subst l0. discriminate.
    + rewrite Ewv. exact I9.
  - destruct HF as (N1 & N2 & N3 & N4). split; [exact N1|]. split; [congruence|]. split; [rewrite Eslots, Enext; exact N3|].
    intros i Hi. destruct (N4 i Hi) as (l0 & Hl0 & Hn0). exists l0. split; [|exact Hn0]. rewrite L3; [exact Hl0| |].
    + intro E. apply to_nat_inj in E. subst i. contradiction.
    + intros src _ Hsrc E. apply to_nat_inj in E. subst i. destruct (I7 _ _ _ _ Ha Hsrc) as (_ & Ls). rewrite Ls in Hl0.
      inversion Hl0; subst l0. discriminate.
Qed.

(* ------------------------------------------------------------------------------------------ *)
(* arriving in an archetype                                                                     *)
Lemma place_inv s2 js F (h : handle) ai a a3 s3 :
  VInvD (s2, js) -> free_okF s2 F -> ~ In (fst h) F -> ver_match s2 h -> unlocated s2 (fst h) ->
  nth_error (archs s2) ai = Some a ->
  slots s3 = slots s2 -> next_slot s3 = next_slot s2 -> empty_slots s3 = empty_slots s2 -> lockc s3 = lockc s2 ->
  marked s3 = marked s2 -> bufs s3 = bufs s2 -> wv s3 = wv s2 ->
  archs s3 = upd (archs s2) ai a3 -> am_ents a3 = am_ents a ++ [h] -> arch_okd (wv s2) a3 ->
  N.to_nat (fst h) < length (locs s2) ->
  locs s3 = upd (locs s2) (N.to_nat (fst h)) {| l_arch := Some ai; l_idx := length (am_ents a) |} ->
  VInvD (s3, js).
Proof.
  intros HI HF Hni Hvm Hun Ha Eslots Enext Efree Elock Emarked Ebufs Ewv Earchs Hents3 Hok3 Hlt Elocs.
  pose proof HI as [I1 I2 I3 I4 I5 I6 I7 I8 I9]. cbn [fst snd] in *.
  assert (Hai : ai < length (archs s2)) by (apply nth_error_Some; congruence).
  destruct Hun as (l0 & Hl0 & Hn0).
  assert (Hmem : forall k x idx e, nth_error (archs s2) k = Some x -> nth_error (am_ents x) idx = Some e -> N.to_nat (fst e) <> N.to_nat (fst h)).
  { intros k x idx e Hx He E. destruct (I7 _ _ _ _ Hx He) as (_ & L). rewrite E in L. rewrite L in Hl0. inversion Hl0; subst l0. discriminate. }
  constructor; cbn [fst snd].
  + congruence.
  + congruence.
  + unfold bufs_empty. rewrite Ebufs. exact I3.
  + rewrite Elocs, upd_length, Eslots. exact I4.
  + rewrite Ewv, Earchs. apply Forall_upd; assumption.
  + intros h' l ai' Hv Hl Hai'. rewrite Earchs. rewrite Elocs in Hl.
    assert (Hv2 : is_valid s2 h' = true) by (rewrite <- Hv; symmetry; apply is_valid_slots; exact Eslots).
    destruct (Nat.eq_dec (N.to_nat (fst h')) (N.to_nat (fst h))) as [E|Hne].
    * rewrite E, nth_error_upd_same in Hl by exact Hlt. inversion Hl; subst l; clear Hl. cbn [l_arch l_idx] in *.
      inversion Hai'; subst ai'.
      assert (h' = h) by (apply (ver_match_eq s2); [apply is_valid_match; exact Hv2|exact Hvm|apply to_nat_inj; exact E]). subst h'.
      exists a3. split; [apply nth_error_upd_same; exact Hai|]. rewrite Hents3. apply nth_error_app_last.
    * rewrite nth_error_upd_other in Hl by congruence.
      destruct (I6 h' l ai' Hv2 Hl Hai') as (x & Hx1 & Hx2).
      destruct (Nat.eq_dec ai' ai) as [->|Hna].
      -- rewrite Ha in Hx1. inversion Hx1; subst x. exists a3. split; [apply nth_error_upd_same; exact Hai|].
         rewrite Hents3. apply nth_error_app_l. exact Hx2.
      -- exists x. split; [rewrite nth_error_upd_other by congruence; exact Hx1|exact Hx2].
  + intros k x idx e Hx He. rewrite Earchs in Hx. unfold ver_match. rewrite Eslots, Elocs.
    destruct (Nat.eq_dec k ai) as [->|Hnk].
    * rewrite nth_error_upd_same in Hx by exact Hai. inversion Hx; subst x; clear Hx. rewrite Hents3 in He.
      destruct (Nat.lt_ge_cases idx (length (am_ents a))) as [L|G].
      -- rewrite nth_error_app1 in He by exact L. pose proof (Hmem _ _ _ _ Ha He) as Hne.
         destruct (I7 _ _ _ _ Ha He) as (X & L'). split; [exact X|]. rewrite nth_error_upd_other by congruence. exact L'.
      -- assert (idx < length (am_ents a ++ [h])) by (apply nth_error_Some; congruence). rewrite app_length in H. simpl in H.
         assert (idx = length (am_ents a)) by lia. subst idx. rewrite nth_error_app_last in He. inversion He; subst e.
         split; [exact Hvm|]. apply nth_error_upd_same. exact Hlt.
    * rewrite nth_error_upd_other in Hx by congruence. pose proof (Hmem _ _ _ _ Hx He) as Hne.
      destruct (I7 _ _ _ _ Hx He) as (X & L'). split; [exact X|]. rewrite nth_error_upd_other by congruence. exact L'.
  + exists F. destruct HF as (N1 & N2 & N3 & N4). split; [exact N1|]. split; [congruence|]. split; [rewrite Eslots, Enext; exact N3|].
    intros i Hi. destruct (N4 i Hi) as (l & Hl & Hn). exists l. split; [|exact Hn]. rewrite Elocs.
    rewrite nth_error_upd_other; [exact Hl|]. intro E. apply to_nat_inj in E. subst i. contradiction.
  + rewrite Ewv. exact I9.
Qed.

(* ------------------------------------------------------------------------------------------ *)
(* externalMove keeps the invariant                                                             *)
Lemma move_d s js (h : handle) l prev ai a skip s' :
  VInvD (s, js) -> is_valid s h = true ->
  nth_error (locs s) (N.to_nat (fst h)) = Some l -> l_arch l = Some prev ->
  nth_error (archs s) ai = Some a ->
  external_move s ai h prev (l_idx l) skip = Ok s' ->
  VInvD (s', js) /\ fr2 s' = fr2 s /\ ai <> prev /\
  exists pa pa' a2,
    nth_error (archs s) prev = Some pa /\ nth_error (am_ents pa) (l_idx l) = Some h /\
    archs s' = upd (upd (archs s) ai a2) prev pa' /\ removal pa pa' (l_idx l) (wv s) /\
    am_ents a2 = am_ents a ++ [h] /\ aframe a a2 /\ arch_okd (wv s) a2 /\
    am_mask a2 = am_mask a /\ am_chunk a2 = am_chunk a /\ 0 < am_chunk a /\ length (am_gver a2) = length (am_gver a) /\
    (forall i, i < length (am_gver a) ->
       nth (length (am_gver a) * (length (am_ents a) / am_chunk a) + i) (am_cver a2) 0%N = wv s) /\
    nth_error (locs s') (N.to_nat (fst h)) = Some {| l_arch := Some ai; l_idx := length (am_ents a) |}.
Proof.
  intros HI Hv Hl Hla Ha H. pose proof HI as [I1 I2 I3 I4 I5 I6 I7 I8 I9]. cbn [fst snd] in *.
  destruct (I6 h l prev Hv Hl Hla) as (pa & Hpa & Hh).
  pose proof (Forall_nth_error _ _ _ _ I5 Hpa) as Hokpa. pose proof (Forall_nth_error _ _ _ _ I5 Ha) as Hoka.
  destruct (external_move_effect _ _ _ _ _ _ _ _ _ Ha Hpa (ad_size _ _ Hokpa) H)
    as (Hne & a1 & a2 & pa' & pent & last & l3 & E1 & E2 & Hpent & F2 & A2 & El & Em & Ek & Es & Hcs & R & Hcases & Hlt & Elocs).
  assert (pent = h) by congruence. subst pent.
  destruct (removal_desc s prev pa (l_idx l) h pa' last l3 (wv s) I7 Hpa Hh El Em Ek Es Hcs R Hcases) as (Hrem & Llen & L1 & L2 & L3).
  destruct I8 as (F & HF).
  set (sA := set_locs (set_archs s (upd (archs s) prev pa')) l3).
  assert (G : VInvD (sA, js) /\ free_okF sA F /\ ~ In (fst h) F /\ is_valid sA h = true /\ unlocated sA (fst h)).
  { apply (unplace_inv s js F h l prev pa pa' last sA HI HF Hv Hl Hla Hpa Hh El); try reflexivity; assumption. }
  destruct G as (HIA & HFA & Hni & HvA & HunA).
  destruct (fr2_more _ _ F2) as (Eslots & Enext & Eempty & Elock & Emarked & Ebufs & Ewv & Ecached).
  destruct (pushed_okd (wv s) a h a1 a2 Hoka E1 E2) as (Hok2 & Hents2).
  destruct (pushed_stamps (wv s) a h a1 a2 Hoka E1 E2) as (Em2 & Ek2 & Hcs2 & Eg2 & _ & _ & Hrow2 & _ & _).
  pose proof (pushed_aframe (wv s) a h a1 a2 Hoka E1 E2) as Hfr2.
  assert (HaA : nth_error (archs sA) ai = Some a).
  { unfold sA. cbn [archs set_locs set_archs]. rewrite nth_error_upd_other by congruence. exact Ha. }
  split.
  { apply (place_inv sA js F h ai a a2 s' HIA HFA Hni (is_valid_match _ _ HvA) HunA HaA).
    - exact Eslots.
    - exact Enext.
    - exact Eempty.
    - exact Elock.
    - exact Emarked.
    - exact Ebufs.
    - exact Ewv.
    - rewrite A2. unfold sA. cbn [archs set_locs set_archs]. apply upd_comm. exact Hne.
    - exact Hents2.
    - exact Hok2.
    - exact Hlt.
    - exact Elocs. }
  split; [exact F2|]. split; [exact Hne|].
  exists pa, pa', a2. repeat (split; [assumption|]). rewrite Elocs. apply nth_error_upd_same. exact Hlt.
Qed.

(* ------------------------------------------------------------------------------------------ *)
(* states that differ in cells (and the event log) only                                         *)
Lemma ab1_with_cols a a' : ab1 a' = ab1 a -> a' = with_cols a (am_cols a').
Proof. destruct a, a'. unfold ab1, with_cols. cbn. intro H. inversion H. reflexivity. Qed.

Lemma cols_only_fwd ai s s' k a : cols_only ai s s' -> nth_error (archs s) k = Some a ->
  exists a', nth_error (archs s') k = Some a' /\ a' = with_cols a (am_cols a') /\ (k <> ai -> a' = a).
Proof.
  intros (_ & _ & P) Ha. destruct (P _ _ Ha) as (a' & Ha' & Eab & Hsame). exists a'. split; [exact Ha'|].
  split; [apply ab1_with_cols; exact Eab|exact Hsame].
Qed.

Lemma cols_only_back ai s s' k a' : cols_only ai s s' -> nth_error (archs s') k = Some a' ->
  exists a, nth_error (archs s) k = Some a /\ a' = with_cols a (am_cols a').
Proof.
  intros Hco Ha'. pose proof Hco as (_ & L & _).
  assert (Hk : k < length (archs s)) by (rewrite <- L; apply nth_error_Some; congruence).
  destruct (nth_error (archs s) k) as [a|] eqn:Ea; [|apply nth_error_None in Ea; lia].
  destruct (cols_only_fwd _ _ _ _ _ Hco Ea) as (a'' & Ha'' & E & _). rewrite Ha' in Ha''. inversion Ha''; subst a''.
  exists a. split; [reflexivity|exact E].
Qed.

Lemma cols_only_other ai s s' k : cols_only ai s s' -> k <> ai -> nth_error (archs s') k = nth_error (archs s) k.
Proof.
  intros Hco Hk. pose proof Hco as (_ & L & _). destruct (nth_error (archs s) k) as [a|] eqn:Ea.
  - destruct (cols_only_fwd _ _ _ _ _ Hco Ea) as (a' & Ha' & _ & Hs). rewrite (Hs Hk) in Ha'. exact Ha'.
  - apply nth_error_None. rewrite L. apply nth_error_None. exact Ea.
Qed.

Lemma arch_okd_cols w a v : arch_okd w a -> arch_okd w (with_cols a v).
Proof. intros [W1 W2 W3 W4 W5 W6 W7]. constructor; [exact W1|exact W2|exact W3|exact W4|exact W5|exact W6|exact W7]. Qed.

Lemma VInvD_cols ai s s' js : cols_only ai s s' -> VInvD (s, js) -> VInvD (s', js).
Proof.
  intros Hco [I1 I2 I3 I4 I5 I6 I7 I8 I9]. pose proof Hco as (F & L & P).
  destruct (fr1_core _ _ F) as (C1 & C2 & C3 & C4 & C5 & C6 & C7).
  assert (C9 : next_slot s' = next_slot s) by (apply (f_equal next_slot) in F; exact F).
  cbn [fst snd] in *. constructor; cbn [fst snd].
  - congruence.
  - congruence.
  - unfold bufs_empty. rewrite C6. exact I3.
  - congruence.
  - apply Forall_forall. intros a' Hin. apply In_nth_error in Hin. destruct Hin as (k & Hk).
    destruct (cols_only_back _ _ _ _ _ Hco Hk) as (a & Ha & E). rewrite E. apply arch_okd_cols. rewrite C7.
    exact (Forall_nth_error _ _ _ _ I5 Ha).
  - intros h l ai' Hv Hl Hai'. rewrite (is_valid_slots _ _ _ C1) in Hv. rewrite C2 in Hl.
    destruct (I6 h l ai' Hv Hl Hai') as (a & Ha & He).
    destruct (cols_only_fwd _ _ _ _ _ Hco Ha) as (a' & Ha' & E & _). exists a'. split; [exact Ha'|rewrite E; exact He].
  - intros k a' idx e Ha' He. destruct (cols_only_back _ _ _ _ _ Hco Ha') as (a & Ha & E). rewrite E in He.
    destruct (I7 _ _ _ _ Ha He) as ((x & X1 & X2) & Lc). split; [exists x; rewrite C1; auto|rewrite C2; exact Lc].
  - destruct I8 as (F0 & N1 & N2 & N3 & N4). exists F0. split; [exact N1|]. split; [congruence|]. split; [rewrite C1, C9; exact N3|].
    intros i Hi. destruct (N4 i Hi) as (l & Hl & Hn). exists l. rewrite C2. auto.
  - rewrite C7. exact I9.
Qed.

(* ------------------------------------------------------------------------------------------ *)
(* getArchetype: the target exists or is appended empty                                         *)
Lemma get_arch_inv s js m sh s0 ai :
  VInvD (s, js) -> get_arch s m sh = Ok (s0, ai) ->
  VInvD (s0, js) /\ locs s0 = locs s /\ slots s0 = slots s /\ wv s0 = wv s /\ cached s0 = cached s /\
  (forall k, k <> ai -> nth_error (archs s0) k = nth_error (archs s) k) /\
  (forall a, nth_error (archs s0) ai = Some a ->
     nth_error (archs s) ai = Some a \/ (nth_error (archs s) ai = None /\ am_ents a = [])).
Proof.
  intros HI H. pose proof HI as [I1 I2 I3 I4 I5 I6 I7 I8 I9]. cbn [fst snd] in *.
  destruct (get_arch_effect _ _ _ _ _ H) as [->|(a0 & -> & -> & E1 & E2 & E3 & E4)].
  - split; [exact HI|]. do 5 (split; [reflexivity|]). intros a Ha. left. exact Ha.
  - cbn [locs slots wv cached archs set_archs]. split; [|do 4 (split; [reflexivity|]); split].
    + constructor; cbn [fst snd lockc marked bufs locs slots archs wv set_archs]; try assumption.
      * apply Forall_app. split; [exact I5|]. constructor; [|constructor]. apply arch_ok_okd. apply fresh_arch_ok; assumption.
      * intros h' l ai' Hv Hl Hai'. destruct (I6 h' l ai' Hv Hl Hai') as (x & Hx1 & Hx2). exists x. split; [apply nth_error_app_l; assumption|assumption].
      * intros k x idx e Hx He. cbn [archs set_archs] in Hx.
        destruct (Nat.lt_ge_cases k (length (archs s))) as [L|G].
        -- rewrite nth_error_app1 in Hx by exact L. exact (I7 _ _ _ _ Hx He).
        -- exfalso. rewrite nth_error_app2 in Hx by exact G. destruct (k - length (archs s)) as [|n].
           ++ cbn [nth_error] in Hx. inversion Hx; subst x. rewrite E1 in He. destruct idx; discriminate.
           ++ destruct n; discriminate.
    + intros k Hk. destruct (Nat.lt_ge_cases k (length (archs s))) as [L|G].
      * apply nth_error_app1. exact L.
      * rewrite (proj2 (nth_error_None (archs s) k)) by lia. apply nth_error_None. rewrite app_length. simpl. lia.
    + intros a Ha. rewrite nth_error_app2, Nat.sub_diag in Ha by lia. cbn [nth_error] in Ha. inversion Ha; subst a.
      right. split; [apply nth_error_None; lia|exact E1].
Qed.

(* ------------------------------------------------------------------------------------------ *)
(* the effect of one move                                                                       *)
(* the target archetype after the arrival of h (oa: the target before, None if getArchetype just made it): h is appended;
   every component stamp of the version chunk of its position is w; everybody else keeps position and stamps (aframe) *)
Definition arrival (oa : option archetype) (a2 : archetype) (h : handle) (w : N) : Prop :=
  am_ents a2 = match oa with Some a => am_ents a | None => [] end ++ [h] /\ 0 < am_chunk a2 /\
  (forall i, i < length (am_gver a2) ->
     nth (length (am_gver a2) * ((length (am_ents a2) - 1) / am_chunk a2) + i) (am_cver a2) 0%N = w) /\
  match oa with Some a => aframe a a2 | None => True end.

(* entity h, located at position pidx of archetype prev, leaves it by a removal (swap-remove with both version chunks
   stamped) and arrives at the end of archetype ai; every other archetype is as before *)
Definition move_effect (s s' : mst) (h : handle) (ai : nat) : Prop :=
  exists prev pidx pa pa' a2,
    nth_error (locs s) (N.to_nat (fst h)) = Some {| l_arch := Some prev; l_idx := pidx |} /\
    nth_error (archs s) prev = Some pa /\ nth_error (am_ents pa) pidx = Some h /\
    nth_error (archs s') prev = Some pa' /\ removal pa pa' pidx (wv s) /\
    ai <> prev /\ nth_error (archs s') ai = Some a2 /\ arrival (nth_error (archs s) ai) a2 h (wv s) /\
    nth_error (locs s') (N.to_nat (fst h)) = Some {| l_arch := Some ai; l_idx := length (am_ents a2) - 1 |} /\
    (forall k, k <> prev -> k <> ai -> nth_error (archs s') k = nth_error (archs s) k).

Lemma move_effect_cols s s1 s2 h ai : cols_only ai s1 s2 -> move_effect s s1 h ai -> move_effect s s2 h ai.
Proof.
  intros Hco (prev & pidx & pa & pa' & a2 & M1 & M2 & M3 & M4 & M5 & M6 & M7 & M8 & M9 & M10).
  destruct (cols_only_fwd _ _ _ _ _ Hco M4) as (pa'' & Hpa'' & _ & Epa).
  destruct (cols_only_fwd _ _ _ _ _ Hco M7) as (a2' & Ha2' & Ea2 & _).
  rewrite (Epa (not_eq_sym M6)) in Hpa''. rewrite Ea2 in Ha2'.
  pose proof Hco as (F & _).
  exists prev, pidx, pa, pa', (with_cols a2 (am_cols a2')).
  split; [exact M1|]. split; [exact M2|]. split; [exact M3|]. split; [exact Hpa''|]. split; [exact M5|]. split; [exact M6|].
  split; [exact Ha2'|]. split; [exact M8|]. split; [rewrite (fr1_locs _ _ F); exact M9|].
  intros k Hk1 Hk2. rewrite (cols_only_other _ _ _ _ Hco Hk2). apply M10; assumption.
Qed.

(* getArchetype followed by externalMove *)
Lemma get_move_m s js (h : handle) l prev m sh s0 ai skip s1 :
  VInvD (s, js) -> is_valid s h = true -> nth_error (locs s) (N.to_nat (fst h)) = Some l -> l_arch l = Some prev ->
  get_arch s m sh = Ok (s0, ai) -> external_move s0 ai h prev (l_idx l) skip = Ok s1 ->
  VInvD (s1, js) /\ wv s1 = wv s /\ cached s1 = cached s /\ move_effect s s1 h ai.
Proof.
  intros HI Hv Hl Hla Hga Hmv.
  destruct (get_arch_inv _ _ _ _ _ _ HI Hga) as (HI0 & L0 & S0 & W0 & C0 & Hoth & Htgt).
  assert (Hv0 : is_valid s0 h = true) by (rewrite (is_valid_slots _ _ _ S0); exact Hv).
  assert (Hex : exists a, nth_error (archs s0) ai = Some a).
  { pose proof Hmv as Hx. unfold external_move in Hx. destruct (Nat.eqb ai prev); [discriminate|].
    bd Hx r Hr. unfold push_back in Hr. bd Hr a Ha. apply nth_res_ok in Ha. eauto. }
  destruct Hex as (a & Ha). rewrite <- L0 in Hl.
  destruct (move_d _ _ _ _ _ _ _ _ _ HI0 Hv0 Hl Hla Ha Hmv)
    as (HI1 & F1 & Hne & pa & pa' & a2 & Hpa & Hh & A1 & Hrem & Hents2 & Hfr2 & _ & Em2 & Ek2 & Hcs & Eg2 & Hrow & Hloc1).
  destruct (fr2_more _ _ F1) as (_ & _ & _ & _ & _ & _ & W1 & C1).
  assert (Hlen0 : prev < length (archs s0)) by (apply nth_error_Some; congruence).
  assert (Hlenai : ai < length (archs s0)) by (apply nth_error_Some; congruence).
  split; [exact HI1|]. split; [congruence|]. split; [congruence|].
  exists prev, (l_idx l), pa, pa', a2.
  split; [rewrite <- L0; destruct l as [la li]; cbn [l_arch l_idx] in *; subst la; exact Hl|].
  split; [rewrite <- (Hoth prev) by congruence; exact Hpa|]. split; [exact Hh|].
  split; [rewrite A1; apply nth_error_upd_same; rewrite upd_length; exact Hlen0|].
  split; [rewrite <- W0; exact Hrem|]. split; [exact Hne|].
  split; [rewrite A1, nth_error_upd_other by congruence; apply nth_error_upd_same; exact Hlenai|].
  split.
  { assert (Hrow' : forall i, i < length (am_gver a2) ->
              nth (length (am_gver a2) * ((length (am_ents a2) - 1) / am_chunk a2) + i) (am_cver a2) 0%N = wv s).
    { intros i Hi. rewrite Eg2 in *. rewrite Ek2, Hents2, app_length. simpl length.
      replace (length (am_ents a) + 1 - 1) with (length (am_ents a)) by lia. rewrite <- W0. apply Hrow. exact Hi. }
    destruct (Htgt a Ha) as [E|(E & Ee)]; rewrite E.
    - split; [exact Hents2|]. split; [rewrite Ek2; exact Hcs|]. split; [exact Hrow'|exact Hfr2].
    - split; [rewrite Hents2, Ee; reflexivity|]. split; [rewrite Ek2; exact Hcs|]. split; [exact Hrow'|exact I]. }
  split; [rewrite Hloc1, Hents2, app_length; simpl length; do 3 f_equal; lia|].
  intros k Hk1 Hk2. rewrite A1, !nth_error_upd_other by congruence. apply Hoth. exact Hk2.
Qed.

(* ------------------------------------------------------------------------------------------ *)
(* assign<C>(e) / removeComponent<C>(e) while unlocked                                          *)
Lemma step_assign_unl s tid h c v typed : lockc s = 0 ->
  step s (OAssign tid h c v typed) =
    (do inf <- info_of s c;
     do r <- assign_unlocked s h c (match v with AValue _ => typed | ADefault => false end);
      let '(s1, (ai, ci, slot)) := r in
      match v with
      | ADefault => Ok (s1, RNone)
      | AValue x =>
        do s2 <- (if ci_hasval inf then write_cell s1 ai ci slot (Some x) else Ok s1);
        if typed then
          Ok (if ci_aa inf then emit (if ci_ev inf then emit s2 (EvV (ci_pal inf) (PArch ai c slot)) else s2) (EvAA (ci_pal inf) (PArch ai c slot) h)
              else (if ci_ev inf then emit s2 (EvV (ci_pal inf) (PArch ai c slot)) else s2), RNone)
        else Ok (s2, RNone)
      end).
Proof. intros Hl. unfold step. rewrite Hl. reflexivity. Qed.

Lemma step_remove_unl s tid h c typed : lockc s = 0 ->
  step s (ORemove tid h c typed) =
    (if typed && negb (is_valid s h) then Ok (s, RNone) else do s1 <- remove_unlocked s h c; Ok (s1, RNone)).
Proof. intros Hl. unfold step. rewrite Hl. reflexivity. Qed.

(* assign on a valid handle (the call succeeded: the entity is located): the entity is moved *)
Theorem assign_m s js tid (h : handle) c v typed s' out_ :
  VInvD (s, js) -> is_valid s h = true -> step s (OAssign tid h c v typed) = Ok (s', out_) ->
  VInvD (s', js) /\ wv s' = wv s /\ cached s' = cached s /\ exists ai, move_effect s s' h ai.
Proof.
  intros HI Hv H. pose proof (vd_lock _ HI) as I1. cbn [fst] in I1.
  rewrite (step_assign_unl _ _ _ _ _ _ I1) in H. bd H inf Hinf. bd H r Hr. destruct r as [s1 [[ai ci] slot]].
  unfold assign_unlocked in Hr. bd Hr la Hla. unfold loc_arch in Hla. bd Hla l Hl. apply nth_res_ok in Hl.
  destruct (l_arch l) as [pai|] eqn:Ela; [|discriminate]. inversion Hla; subst la; clear Hla. cbv beta iota in Hr.
  bd Hr pa Hpa. cbv zeta in Hr. bd Hr r0 Hga. destruct r0 as [s0 ai0]. bd Hr s2 Hmv. bd Hr a Ha. bd Hr l2 Hl2.
  destruct (cindex (am_mask a) c) as [ci0|]; [|discriminate]. inversion Hr; subst s2 ai0 ci0 slot; clear Hr.
  destruct (get_move_m _ _ _ _ _ _ _ _ _ _ _ HI Hv Hl Ela Hga Hmv) as (HI1 & W1 & C1 & Heff).
  assert (Hco : cols_only ai s1 s').
  { destruct v as [|x].
    - inversion H. apply cols_only_refl.
    - bd H s2 Hs2.
      assert (Hc2 : cols_only ai s1 s2).
      { destruct (ci_hasval inf); [eapply write_cell_cols; exact Hs2|inversion Hs2; apply cols_only_refl]. }
      destruct typed; inversion H; subst s' out_; clear H; [|exact Hc2].
      eapply cols_only_trans; [exact Hc2|]. eapply cols_only_trans; apply cols_only_if_emit. }
  pose proof Hco as (F & _). apply fr1_fr2 in F. destruct (fr2_more _ _ F) as (_ & _ & _ & _ & _ & _ & W2 & C2).
  split; [eapply VInvD_cols; eassumption|]. split; [congruence|]. split; [congruence|].
  exists ai. eapply move_effect_cols; eassumption.
Qed.

(* removeComponent on a valid handle, or the typed call on any handle: nothing happens (handle not valid, entity without
   archetype, component absent, the target is the same archetype), or the entity is moved *)
Theorem remove_m s js tid (h : handle) c typed s' out_ :
  VInvD (s, js) -> is_valid s h = true \/ typed = true -> step s (ORemove tid h c typed) = Ok (s', out_) ->
  VInvD (s', js) /\ wv s' = wv s /\ cached s' = cached s /\ (s' = s \/ (is_valid s h = true /\ exists ai, move_effect s s' h ai)).
Proof.
  intros HI Hor H. pose proof (vd_lock _ HI) as I1. cbn [fst] in I1.
  rewrite (step_remove_unl _ _ _ _ _ I1) in H.
  assert (Hnop : forall x, Ok (s, RNone) = Ok (x, out_) -> x = s' ->
            VInvD (s', js) /\ wv s' = wv s /\ cached s' = cached s /\ (s' = s \/ (is_valid s h = true /\ exists ai, move_effect s s' h ai))).
  { intros x E <-. inversion E; subst x. split; [exact HI|]. split; [reflexivity|]. split; [reflexivity|]. left. reflexivity. }
  destruct (is_valid s h) eqn:Hv.
  2:{ destruct Hor as [F| ->]; [discriminate|]. cbn [andb negb] in H. exact (Hnop s' H eq_refl). }
  rewrite andb_false_r in H. bd H s1 Hs1. inversion H; subst s1 out_; clear H Hnop.
  unfold remove_unlocked in Hs1. bd Hs1 l Hl. apply nth_res_ok in Hl.
  destruct (l_arch l) as [pai|] eqn:Ela.
  2:{ inversion Hs1; subst s'. split; [exact HI|]. split; [reflexivity|]. split; [reflexivity|]. left. reflexivity. }
  bd Hs1 pa Hpa. apply nth_res_ok in Hpa.
  destruct (negb (mhas (am_mask pa) c)).
  { inversion Hs1; subst s'. split; [exact HI|]. split; [reflexivity|]. split; [reflexivity|]. left. reflexivity. }
  bd Hs1 r0 Hga. destruct r0 as [s0 ai].
  destruct (Nat.eqb_spec ai pai) as [->|Hne].
  - inversion Hs1; subst s0; clear Hs1.
    destruct (get_arch_effect _ _ _ _ _ Hga) as [->|(a0 & _ & E & _)].
    + split; [exact HI|]. split; [reflexivity|]. split; [reflexivity|]. left. reflexivity.
    + exfalso. assert (pai < length (archs s)) by (apply nth_error_Some; congruence). lia.
  - destruct (get_move_m _ _ _ _ _ _ _ _ _ _ _ HI Hv Hl Ela Hga Hs1) as (HI1 & W1 & C1 & Heff).
    split; [exact HI1|]. split; [exact W1|]. split; [exact C1|]. right. split; [reflexivity|]. exists ai. exact Heff.
Qed.
