(* C07 / C11 over histories WITH DESTRUCTION, part 1: one archetype.

   VersionHistory.v covers histories in which entities are created but never destroyed: its invariant VInv has "no
   free slot" and arch_ok says that the chunk stamps cover EXACTLY the version chunks of the population.  With
   destroyNow (Archetype::remove) neither survives: the last entity is popped (and, if it was not the one removed, moved
   into the hole) while chunk_versions_ keeps its length -- stale version chunks stay behind the population until the
   next emplace cuts them off -- and ids are recycled through the free list.

   This file: the weaker archetype invariant arch_okd (the chunk stamps cover AT LEAST the version chunks of the
   population), what the stamping primitives, the filter, Archetype::insert and the two stampings of Archetype::remove
   do to it. *)
Require Import Coq.Lists.List Coq.NArith.NArith Coq.ZArith.ZArith Coq.Arith.Arith Coq.Bool.Bool Coq.micromega.Lia.
From Mustache Require Import Res Iter Manager.
From Mustache.proofs Require Import ListLemmas SkelBasics ClosureProofs ManagerBasics ManagerMoves ManagerDeferred
  IterProofs IterCover VersionProofs VersionHistory.
Import ListNotations.

(* ------------------------------------------------------------------------------------------ *)
(* the archetype invariant                                                                     *)
Record arch_okd (w : N) (a : archetype) : Prop := {
  ad_wf : ver_wf a;
  ad_bounds : gver_bounds a;
  ad_cver : le_all w (am_cver a);
  ad_gver : am_ents a <> [] -> le_all w (am_gver a);
  ad_size : am_size a = length (am_ents a);
  ad_chunk : am_ents a <> [] -> 0 < am_chunk a;
  (* the chunk stamps cover every version chunk of the population (there may be stale ones behind) *)
  ad_len : am_ents a <> [] -> length (am_gver a) * S ((length (am_ents a) - 1) / am_chunk a) <= length (am_cver a)
}.

Lemma arch_ok_okd w a : arch_ok w a -> arch_okd w a.
Proof.
  intros [W1 W2 W3 W4 W5 W6 W7 W8]. constructor; try assumption. intro Hne. rewrite (W7 Hne). apply Nat.le_refl.
Qed.

Lemma arch_okd_mono w w' a : (w <= w')%N -> arch_okd w a -> arch_okd w' a.
Proof.
  intros H [H1 H2 H3 H4 H5 H6 H7]. constructor; try assumption.
  - eapply le_all_mono; eassumption.
  - intro Hne. eapply le_all_mono; [eassumption|auto].
Qed.

Lemma le_all_of_nth w (l : list N) : (forall p, (nth p l 0 <= w)%N) -> le_all w l.
Proof.
  intro H. apply Forall_forall. intros x Hx. destruct (In_nth _ _ 0%N Hx) as (p & _ & Hp). rewrite <- Hp. apply H.
Qed.

(* positions of one chunk row are outside the rows of the other chunks *)
Lemma chunk_pos_out nc c ch i : i < nc -> ch <> c -> nc * ch + i < nc * c \/ nc * c + nc <= nc * ch + i.
Proof.
  intros Hi Hne. destruct (Nat.lt_ge_cases ch c) as [L|G].
  - left. assert (nc * S ch <= nc * c) by (apply Nat.mul_le_mono_l; lia). lia.
  - right. assert (nc * S c <= nc * ch) by (apply Nat.mul_le_mono_l; lia). lia.
Qed.

Lemma chunk_of_lt cs len idx : 0 < cs -> idx < len -> idx / cs <= (len - 1) / cs.
Proof. intros Hc Hi. apply Nat.div_le_mono; lia. Qed.

(* a position of an entity lies within the chunk stamps *)
Lemma okd_pos_lt w a idx i : arch_okd w a -> idx < length (am_ents a) -> i < length (am_gver a) ->
  length (am_gver a) * (idx / am_chunk a) + i < length (am_cver a).
Proof.
  intros [W1 W2 W3 W4 W5 W6 W7] Hidx Hi.
  assert (Hne : am_ents a <> []) by (destruct (am_ents a); [simpl in Hidx; lia|discriminate]).
  pose proof (chunk_of_lt _ _ _ (W6 Hne) Hidx) as Hc. specialize (W7 Hne).
  assert (length (am_gver a) * S (idx / am_chunk a) <= length (am_gver a) * S ((length (am_ents a) - 1) / am_chunk a))
    by (apply Nat.mul_le_mono_l; lia).
  lia.
Qed.

(* --- mutable access / markDirty --- *)
Lemma stamp_one_okd w a ch ci a1 a2 :
  arch_okd w a -> vs_set_one a w ch ci = Ok a1 ->
  am_gver a2 = am_gver a1 -> am_cver a2 = am_cver a1 -> am_mask a2 = am_mask a -> am_ents a2 = am_ents a ->
  am_chunk a2 = am_chunk a -> am_size a2 = am_size a ->
  arch_okd w a2 /\ evolves a a2 /\
  ci < length (am_gver a) /\ length (am_gver a) * ch + ci < length (am_cver a) /\
  nth (length (am_gver a) * ch + ci) (am_cver a2) 0%N = w /\
  (forall p, p <> length (am_gver a) * ch + ci -> nth p (am_cver a2) 0%N = nth p (am_cver a) 0%N) /\
  (forall i, i <> ci -> nth i (am_gver a2) 0%N = nth i (am_gver a) 0%N).
Proof.
  intros [W1 W2 W3 W4 W5 W6 W7] H Eg Ec Em Ee Ek Es.
  pose proof (vs_set_one_bounds _ _ _ _ _ H W2 (fun k => le_all_nth _ _ _ W3)) as Hb.
  pose proof (vs_set_one_spec _ _ _ _ _ H) as S. cbv zeta in S. destruct S as (S1 & S2 & S3 & S4 & S5 & S6 & S7 & S8).
  split; [|split].
  - constructor.
    + unfold ver_wf. rewrite Eg, S3, upd_length, Em. exact W1.
    + unfold gver_bounds. rewrite Eg, Ec. exact Hb.
    + unfold le_all. rewrite Ec, S4. apply Forall_upd; [exact W3|apply N.le_refl].
    + intro Hne. unfold le_all. rewrite Eg, S3. apply Forall_upd; [apply W4; congruence|apply N.le_refl].
    + congruence.
    + intro Hne. rewrite Ek. apply W6. congruence.
    + intro Hne. rewrite Eg, Ec, S3, S4, !upd_length, Ee, Ek. apply W7. congruence.
  - split.
    + repeat split; try assumption. rewrite Eg, S3. apply upd_length.
    + intro p. rewrite Ec. destruct (Nat.eq_dec p (length (am_gver a) * ch + ci)) as [->|Hne].
      * rewrite S6. apply le_all_nth. exact W3.
      * rewrite S7 by assumption. apply N.le_refl.
  - rewrite Ec. repeat split; try assumption. intros i Hi. rewrite Eg. apply S8. assumption.
Qed.

(* --- the filter --- *)
Lemma filtered_okd j w a : arch_okd w a -> arch_okd w (filtered j w a) /\ evolves a (filtered j w a).
Proof.
  intros [W1 W2 W3 W4 W5 W6 W7].
  assert (Hs : lt_all (length (am_gver a)) (jset j a)) by (rewrite W1; apply comp_indices_lt).
  assert (Hmono : forall p, (nth p (am_cver a) 0 <= nth p (fst (jchunks j w a)) 0)%N).
  { intro p. unfold jchunks.
    destruct (filter_chunks_nth (length (am_gver a)) (jcheck j a) (jset j a) (j_last j) w
                (S ((length (am_ents a) - 1) / am_chunk a)) 0 (am_cver a) p) as [E|(E & _)]; rewrite E.
    - apply N.le_refl.
    - apply le_all_nth. exact W3. }
  split.
  - constructor; unfold filtered; cbn [with_vers am_gver am_cver am_mask am_ents am_size am_chunk].
    + unfold ver_wf. cbn [with_vers am_gver am_mask]. rewrite stamp_set_length. exact W1.
    + unfold gver_bounds. cbn [with_vers am_gver am_cver]. rewrite stamp_set_length. intros c i Hi.
      rewrite stamp_set_gver_nth. rewrite (proj2 (Nat.ltb_lt _ _) Hi), andb_true_r.
      destruct (existsb (fun k => k =? i) (jset j a)) eqn:Ex.
      * apply le_all_nth. unfold jchunks. apply filter_chunks_Forall; [exact W3|apply N.le_refl].
      * unfold jchunks.
        destruct (filter_chunks_nth (length (am_gver a)) (jcheck j a) (jset j a) (j_last j) w
                    (S ((length (am_ents a) - 1) / am_chunk a)) 0 (am_cver a) (length (am_gver a) * c + i))
          as [E|(_ & k & i' & _ & Hi' & Hp & _)].
        -- rewrite E. apply W2. exact Hi.
        -- exfalso. pose proof (lt_all_in _ _ _ Hs Hi') as Hlt.
           destruct (row_pos_unique _ _ _ _ _ Hi Hlt Hp) as (_ & ->).
           assert (T : existsb (fun k0 => k0 =? i') (jset j a) = true).
           { apply existsb_exists. exists i'. split; [assumption|apply Nat.eqb_refl]. }
           congruence.
    + unfold jchunks. apply filter_chunks_Forall; [exact W3|apply N.le_refl].
    + intro Hne. apply stamp_set_Forall; [apply W4; exact Hne|apply N.le_refl].
    + exact W5.
    + exact W6.
    + intro Hne. rewrite stamp_set_length. unfold jchunks. rewrite filter_chunks_length. apply W7. exact Hne.
  - split; [|exact Hmono]. unfold filtered. repeat split. cbn [with_vers am_gver]. apply stamp_set_length.
Qed.

Lemma jf_rel_okd j w a a' : arch_okd w a -> jf_rel j w a a' -> arch_okd w a' /\ evolves a a'.
Proof.
  intros Ha [->|(-> & _)]; [split; [assumption|apply evolves_refl]|apply filtered_okd; assumption].
Qed.

(* the chunk stamp of a checked component ahead of the job's last version: the entity at idx is processed *)
Lemma stamp_ahead_processed_d w j a idx ci c :
  arch_okd w a -> idx < length (am_ents a) -> c < MASK_BITS -> mhas (j_check j) c = true -> cindex (am_mask a) c = Some ci ->
  j_last j = WV_NULL \/ (j_last j < nth (length (am_gver a) * (idx / am_chunk a) + ci) (am_cver a) 0)%N ->
  processed j a idx.
Proof.
  intros [W1 W2 W3 W4 W5 W6 W7] Hidx Hc Hm Hci Hor.
  assert (Hin : In ci (jcheck j a)).
  { unfold jcheck. eapply comp_indices_intro; [|eassumption]. apply mitems_in. auto. }
  assert (Hlt : ci < length (am_gver a)).
  { rewrite W1. eapply (VersionProofs.cindex_lt (am_mask a) c ci); assumption. }
  split; [assumption|]. destruct Hor as [E|L].
  - split; apply need_flag_true; left; assumption.
  - split; apply need_flag_true; right; right; exists ci; (split; [assumption|]); [|exact L].
    simpl. eapply N.lt_le_trans; [exact L|]. apply W2. assumption.
Qed.

(* ------------------------------------------------------------------------------------------ *)
(* what histories with creation AND destruction keep of an archetype between two states, as long as nothing is
   removed from it: mask, chunk size, the entities in place (new ones appended), and the chunk stamps of the version
   chunks of its entities never decrease (the stale chunks behind the population may be cut off by an emplace) *)
Definition pos_mono (a a' : archetype) : Prop :=
  forall idx i, idx < length (am_ents a) -> i < length (am_gver a) ->
    (nth (length (am_gver a) * (idx / am_chunk a) + i) (am_cver a) 0 <= nth (length (am_gver a) * (idx / am_chunk a) + i) (am_cver a') 0)%N.

Definition aframe (a a' : archetype) : Prop := grows a a' /\ pos_mono a a'.

Lemma evolves_w_aframe a a' : evolves_w a a' -> aframe a a'.
Proof. intros (G & M). split; [exact G|]. intros idx i _ _. apply M. Qed.

Lemma evolves_aframe a a' : evolves a a' -> aframe a a'.
Proof. intro H. apply evolves_w_aframe, evolves_weaken, H. Qed.

Lemma aframe_refl a : aframe a a.
Proof. apply evolves_aframe, evolves_refl. Qed.

(* --- Archetype::insert --- *)
Lemma inserted_okd w a h a1 a2 a3 :
  arch_okd w a -> vs_emplace a w (length (am_ents a)) = Ok a1 ->
  ab1 a2 = ab1 (with_size (with_ents a1 (am_ents a1 ++ [h])) (Nat.max (am_size a1) (S (length (am_ents a))))) ->
  vs_emplace a2 w (length (am_ents a)) = Ok a3 ->
  arch_okd w a3 /\ am_ents a3 = am_ents a ++ [h].
Proof.
  intros [W1 W2 W3 W4 W5 W6 W7] H1 H2 H3.
  destruct (vs_emplace_bounds _ _ _ _ H1 W3) as (_ & Hc1).
  pose proof (vs_emplace_spec _ _ _ _ H1) as S1. cbv zeta in S1.
  destruct S1 as (c1 & _ & _ & Eg1 & _ & _ & _ & _ & Em1 & Ee1 & Ek1 & _ & Es1).
  destruct (ab1_fields _ _ H2) as (Em2 & Ee2 & Es2 & Ek2 & Eg2 & Ec2).
  cbn [with_size with_ents am_mask am_ents am_size am_chunk am_gver am_cver] in Em2, Ee2, Es2, Ek2, Eg2, Ec2.
  assert (Hc2 : Forall (fun x => (x <= w)%N) (am_cver a2)) by (rewrite Ec2; exact Hc1).
  destruct (vs_emplace_bounds _ _ _ _ H3 Hc2) as (Hb3 & Hc3).
  pose proof (vs_emplace_spec _ _ _ _ H3) as S3. cbv zeta in S3.
  destruct S3 as (c3 & Hch3 & _ & Eg3 & Hlen3 & _ & _ & _ & Em3 & Ee3 & Ek3 & _ & Es3).
  apply chunk_at_ok in Hch3. destruct Hch3 as (Hcs & ->).
  assert (Hents : am_ents a3 = am_ents a ++ [h]) by (rewrite Ee3, Ee2, Ee1; reflexivity).
  split; [|exact Hents]. constructor.
  - unfold ver_wf. rewrite Eg3, map_length, Eg2, Eg1, map_length, Em3, Em2, Em1. exact W1.
  - exact Hb3.
  - exact Hc3.
  - intros _. rewrite Eg3. apply le_all_const.
  - rewrite Es3, Es2, Es1, Hents, app_length, W5. simpl. lia.
  - intros _. rewrite Ek3. exact Hcs.
  - intros _. rewrite Hlen3, Eg3, map_length, Ek3, Hents, app_length. simpl length.
    replace (length (am_ents a) + 1 - 1) with (length (am_ents a)) by lia. lia.
Qed.

(* the stamps after Archetype::insert: the version chunk of the new entity carries the world version in every
   component; the version chunks before it keep their stamps (those behind it are cut off) *)
Lemma inserted_stamps_d w a h a1 a2 a3 :
  arch_okd w a -> vs_emplace a w (length (am_ents a)) = Ok a1 ->
  ab1 a2 = ab1 (with_size (with_ents a1 (am_ents a1 ++ [h])) (Nat.max (am_size a1) (S (length (am_ents a))))) ->
  vs_emplace a2 w (length (am_ents a)) = Ok a3 ->
  am_mask a3 = am_mask a /\ am_chunk a3 = am_chunk a /\ length (am_gver a3) = length (am_gver a) /\
  (forall i, i < length (am_gver a) -> nth (length (am_gver a) * (length (am_ents a) / am_chunk a) + i) (am_cver a3) 0%N = w) /\
  (forall ch i, ch < length (am_ents a) / am_chunk a -> i < length (am_gver a) ->
     nth (length (am_gver a) * ch + i) (am_cver a3) 0%N = nth (length (am_gver a) * ch + i) (am_cver a) 0%N) /\
  (forall ch i, length (am_ents a) / am_chunk a < ch -> nth (length (am_gver a) * ch + i) (am_cver a3) 0%N = 0%N).
Proof.
  intros [W1 W2 W3 W4 W5 W6 W7] H1 H2 H3.
  pose proof (vs_emplace_spec _ _ _ _ H1) as S1. cbv zeta in S1.
  destruct S1 as (c1 & Hch1 & _ & Eg1 & Hlen1 & _ & _ & Hlow1 & Em1 & Ee1 & Ek1 & _ & Es1).
  apply chunk_at_ok in Hch1. destruct Hch1 as (Hcs & ->).
  destruct (ab1_fields _ _ H2) as (Em2 & Ee2 & Es2 & Ek2 & Eg2 & Ec2).
  cbn [with_size with_ents am_mask am_ents am_size am_chunk am_gver am_cver] in Em2, Ee2, Es2, Ek2, Eg2, Ec2.
  pose proof (vs_emplace_spec _ _ _ _ H3) as S3. cbv zeta in S3.
  destruct S3 as (c3 & Hch3 & _ & Eg3 & Hlen3 & _ & Hrow3 & Hlow3 & Em3 & Ee3 & Ek3 & _ & Es3).
  apply chunk_at_ok in Hch3. destruct Hch3 as (_ & ->).
  assert (Enc : length (am_gver a2) = length (am_gver a)) by (rewrite Eg2, Eg1, map_length; reflexivity).
  rewrite Enc, Ek2, Ek1 in *.
  split; [congruence|]. split; [congruence|]. split; [rewrite Eg3, map_length; exact Enc|].
  split; [exact Hrow3|]. split.
  - intros ch i Hch Hi.
    assert (Hp : length (am_gver a) * ch + i < length (am_gver a) * (length (am_ents a) / am_chunk a)).
    { assert (length (am_gver a) * S ch <= length (am_gver a) * (length (am_ents a) / am_chunk a)) by (apply Nat.mul_le_mono_l; lia). lia. }
    rewrite Hlow3 by exact Hp. rewrite Ec2. apply Hlow1. exact Hp.
  - intros ch i Hch. apply nth_overflow. rewrite Hlen3.
    assert (length (am_gver a) * S (length (am_ents a) / am_chunk a) <= length (am_gver a) * ch) by (apply Nat.mul_le_mono_l; lia). lia.
Qed.

Lemma inserted_aframe w a h a1 a2 a3 :
  arch_okd w a -> vs_emplace a w (length (am_ents a)) = Ok a1 ->
  ab1 a2 = ab1 (with_size (with_ents a1 (am_ents a1 ++ [h])) (Nat.max (am_size a1) (S (length (am_ents a))))) ->
  vs_emplace a2 w (length (am_ents a)) = Ok a3 ->
  aframe a a3.
Proof.
  intros Hok H1 H2 H3.
  destruct (inserted_okd _ _ _ _ _ _ Hok H1 H2 H3) as (_ & Hents).
  destruct (inserted_stamps_d _ _ _ _ _ _ Hok H1 H2 H3) as (Em & Ek & Eg & Hrow & Hlow & _).
  split.
  - repeat split; try assumption. exists [h]. exact Hents.
  - intros idx i Hidx Hi.
    assert (Hne : am_ents a <> []) by (destruct (am_ents a); [simpl in Hidx; lia|discriminate]).
    pose proof (ad_chunk _ _ Hok Hne) as Hcs.
    assert (Hle : idx / am_chunk a <= length (am_ents a) / am_chunk a) by (apply Nat.div_le_mono; lia).
    destruct (Nat.eq_dec (idx / am_chunk a) (length (am_ents a) / am_chunk a)) as [E|Hn].
    + rewrite E, (Hrow i Hi). apply le_all_nth. exact (ad_cver _ _ Hok).
    + rewrite (Hlow (idx / am_chunk a) i) by (try assumption; lia). apply N.le_refl.
Qed.

(* ------------------------------------------------------------------------------------------ *)
(* Archetype::remove stamps whole version chunks (setVersion(version, chunk)): the chunks in P carry w in every
   component afterwards, the others keep their stamps, every global stamp is w *)
Definition restamped (a a' : archetype) (w : N) (P : nat -> Prop) : Prop :=
  am_gver a' = map (fun _ => w) (am_gver a) /\ length (am_cver a') = length (am_cver a) /\
  (forall ch i, P ch -> i < length (am_gver a) -> nth (length (am_gver a) * ch + i) (am_cver a') 0%N = w) /\
  (forall ch i, ~ P ch -> i < length (am_gver a) ->
     nth (length (am_gver a) * ch + i) (am_cver a') 0%N = nth (length (am_gver a) * ch + i) (am_cver a) 0%N) /\
  (le_all w (am_cver a) -> gver_bounds a' /\ le_all w (am_cver a')).

Lemma set_chunk_restamped a v c a' : vs_set_chunk a v c = Ok a' -> restamped a a' v (fun ch => ch = c).
Proof.
  intro H. pose proof (vs_set_chunk_spec _ _ _ _ H) as S. cbv zeta in S.
  destruct S as (S1 & S2 & S3 & S4 & S5 & S6 & _).
  split; [exact S2|]. split; [exact S3|]. split; [|split].
  - intros ch i -> Hi. apply S5. exact Hi.
  - intros ch i Hn Hi. apply S6. apply chunk_pos_out; assumption.
  - intro Hle. exact (vs_set_chunk_bounds _ _ _ _ H Hle).
Qed.

Lemma set_chunk2_restamped a v c1 c2 a2 a3 :
  vs_set_chunk a v c1 = Ok a2 -> vs_set_chunk a2 v c2 = Ok a3 -> restamped a a3 v (fun ch => ch = c1 \/ ch = c2).
Proof.
  intros H1 H2.
  pose proof (vs_set_chunk_spec _ _ _ _ H1) as S. cbv zeta in S. destruct S as (S1 & S2 & S3 & S4 & S5 & S6 & _).
  pose proof (vs_set_chunk_spec _ _ _ _ H2) as T. cbv zeta in T. destruct T as (T1 & T2 & T3 & T4 & T5 & T6 & _).
  assert (Enc : length (am_gver a2) = length (am_gver a)) by (rewrite S2; apply map_length).
  rewrite Enc in *.
  split; [rewrite T2, S2, map_map; reflexivity|]. split; [congruence|]. split; [|split].
  - intros ch i Hp Hi. destruct (Nat.eq_dec ch c2) as [->|Hne].
    + apply T5. exact Hi.
    + rewrite T6 by (apply chunk_pos_out; assumption). destruct Hp as [-> | ->]; [apply S5; exact Hi|contradiction].
  - intros ch i Hn Hi. rewrite T6 by (apply chunk_pos_out; [assumption|intro F; apply Hn; right; exact F]).
    apply S6. apply chunk_pos_out; [assumption|intro F; apply Hn; left; exact F].
  - intro Hle. destruct (vs_set_chunk_bounds _ _ _ _ H1 Hle) as (_ & Hle2). exact (vs_set_chunk_bounds _ _ _ _ H2 Hle2).
Qed.

Lemma restamped_src a0 a a' w P : am_gver a0 = am_gver a -> am_cver a0 = am_cver a -> restamped a0 a' w P -> restamped a a' w P.
Proof. unfold restamped. intros -> ->. exact (fun H => H). Qed.

Lemma restamped_dst a a1 a' w P : am_gver a' = am_gver a1 -> am_cver a' = am_cver a1 -> restamped a a1 w P -> restamped a a' w P.
Proof. unfold restamped, gver_bounds. intros -> ->. exact (fun H => H). Qed.

(* the archetype after a removal: fewer entities, restamped *)
Lemma removed_okd w a a' P :
  arch_okd w a -> restamped a a' w P -> am_mask a' = am_mask a -> am_chunk a' = am_chunk a ->
  length (am_ents a') <= length (am_ents a) -> am_size a' = length (am_ents a') ->
  arch_okd w a'.
Proof.
  intros [W1 W2 W3 W4 W5 W6 W7] (R1 & R2 & R3 & R4 & R5) Em Ek Hlen Es.
  destruct (R5 W3) as (Hb & Hc).
  assert (Hne : am_ents a' <> [] -> am_ents a <> []).
  { intros H F. rewrite F in Hlen. destruct (am_ents a'); [contradiction|simpl in Hlen; lia]. }
  constructor.
  - unfold ver_wf. rewrite R1, map_length, Em. exact W1.
  - exact Hb.
  - exact Hc.
  - intros _. rewrite R1. apply le_all_const.
  - exact Es.
  - intro H. rewrite Ek. apply W6. apply Hne. exact H.
  - intro H. rewrite R1, map_length, R2, Ek. specialize (W7 (Hne H)). pose proof (W6 (Hne H)) as Hcs.
    assert ((length (am_ents a') - 1) / am_chunk a <= (length (am_ents a) - 1) / am_chunk a) by (apply Nat.div_le_mono; lia).
    assert (length (am_gver a) * S ((length (am_ents a') - 1) / am_chunk a) <= length (am_gver a) * S ((length (am_ents a) - 1) / am_chunk a))
      by (apply Nat.mul_le_mono_l; lia).
    lia.
Qed.
